(* Concrete programs and expression semantics used by the non-vacuity examples and the
   refutation witnesses of the statement-layer theorems (definitions only). *)
From Coq Require Import ZArith QArith List Bool.
From RV Require Import Base.Wire Base.Text Lang.StmtAst Lang.Transl Lang.StmtSem Lang.StmtGuard.
Import ListNotations.
Open Scope Z_scope.

Definition nx : ident := [120].
Definition ny : ident := [121].
Definition ni : ident := [105].
Definition nn : ident := [110].

Definition mk (id : Z) (t : ty) (c : bool) (fv : list ident) : ann :=
  {| a_id := id; a_ty := t; a_const := c; a_fv := fv |}.

(* x = 0
   y = <run-time read>
   for i in range(3):
       x = x + i
       mon.write(x)
   while True:
       if x > 5:
           mon.write(y)
       else:
           x += 1
       sleep(10)                                                        *)
Definition demo : pprog :=
  {| p_pre := [ PAssign nx (mk 1 TyInt true []);
                PAssign ny (mk 2 TyInt false []);
                PFor ni (mk 3 TyInt true [])
                  [ PAssign nx (mk 4 TyInt false [nx; ni]); PWrite (mk 5 TyInt false [nx]) ] ];
     p_main := Some [ PIf (mk 6 TyBool false [nx]) [PWrite (mk 7 TyInt false [ny])] []
                        [PAug nx 0 (mk 8 TyInt true []) TyInt];
                      PSleep (mk 9 TyInt true []) ] |}.

Definition demo_sem (id : Z) (args : list (option val)) : option val :=
  match id with
  | 1 => Some (VI 0) | 2 => Some (VI 7) | 3 => Some (VI 3)
  | 4 => match args with [Some (VI a); Some (VI b)] => Some (VI (a + b)) | _ => None end
  | 5 | 7 => match args with [Some (VI a)] => Some (VI a) | _ => None end
  | 6 => match args with [Some (VI a)] => Some (VB (5 <? a)) | _ => None end
  | 8 => Some (VI 1) | 9 => Some (VI 10)
  | _ => None
  end.
Definition demo_aug (op : Z) (u v : val) : option val :=
  match u, v with VI a, VI b => Some (VI (a + b)) | _, _ => None end.

Definition demo_trace : list ev :=
  [EvSer (VI 0); EvSer (VI 1); EvSer (VI 3); EvDelay (VI 10); EvDelay (VI 10); EvDelay (VI 10); EvSer (VI 7); EvDelay (VI 10)].

(* n = 3
   for i in range(n):
       n = n - 1
       mon.write(i)          -- the C for-loop re-evaluates n before every iteration *)
Definition reeval : pprog :=
  {| p_pre := [ PAssign nn (mk 1 TyInt true []);
                PFor ni (mk 2 TyInt false [nn])
                  [ PAssign nn (mk 3 TyInt false [nn]); PWrite (mk 4 TyInt false [ni]) ] ];
     p_main := None |}.
Definition reeval_sem (id : Z) (args : list (option val)) : option val :=
  match id with
  | 1 => Some (VI 3)
  | 2 | 4 => match args with [Some (VI a)] => Some (VI a) | _ => None end
  | 3 => match args with [Some (VI a)] => Some (VI (a - 1)) | _ => None end
  | _ => None
  end.

(* x = 1
   x = 2.5            -- the C variable keeps the type of its first assignment
   mon.write(x)                                                              *)
Definition retype : pprog :=
  {| p_pre := [ PAssign nx (mk 1 TyInt true []); PAssign nx (mk 2 TyFloat true []); PWrite (mk 3 TyFloat false [nx]) ];
     p_main := None |}.
Definition retype_sem (id : Z) (args : list (option val)) : option val :=
  match id with
  | 1 => Some (VI 1)
  | 2 => Some (VF (5 # 2))
  | 3 => match args with [Some (VF q)] => Some (VF q) | [Some (VI z)] => Some (VF (inject_Z z)) | _ => None end
  | _ => None
  end.

Definition nw : ident := [119].
Definition nz : ident := [122].
Definition nk : ident := [107].

(* w = 0
   while w < 2:
       for k in range(1 - w):
           z = 5             -- z is hoisted twice: to before the `for` (inside the while body) and to a global;
       w = w + 1                the inner hoisted declaration is dropped (it used to become `z = 0;` on every iteration)
   mon.write(z)                                                                              *)
Definition reinit : pprog :=
  {| p_pre := [ PAssign nw (mk 1 TyInt true []);
                PWhile (mk 2 TyBool false [nw])
                  [ PFor nk (mk 3 TyInt false [nw]) [ PAssign nz (mk 4 TyInt true []) ];
                    PAssign nw (mk 5 TyInt false [nw]) ];
                PWrite (mk 6 TyInt false [nz]) ];
     p_main := None |}.
Definition reinit_sem (id : Z) (args : list (option val)) : option val :=
  match id with
  | 1 => Some (VI 0)
  | 2 => match args with [Some (VI a)] => Some (VB (a <? 2)) | _ => None end
  | 3 => match args with [Some (VI a)] => Some (VI (1 - a)) | _ => None end
  | 4 => Some (VI 5)
  | 5 => match args with [Some (VI a)] => Some (VI (a + 1)) | _ => None end
  | 6 => match args with [Some (VI a)] => Some (VI a) | _ => None end
  | _ => None
  end.

(* w = 0
   while True:
       if w == 0:
           z = 5             -- z is hoisted to the body level of the main loop: a sketch global `int z = 0;`
       w = w + 1
       mon.write(z)                                                                          *)
Definition looplocal : pprog :=
  {| p_pre := [ PAssign nw (mk 1 TyInt true []) ];
     p_main := Some [ PIf (mk 2 TyBool false [nw]) [ PAssign nz (mk 3 TyInt true []) ] [] [];
                      PAssign nw (mk 4 TyInt false [nw]);
                      PWrite (mk 5 TyInt false [nz]) ] |}.
Definition looplocal_sem (id : Z) (args : list (option val)) : option val :=
  match id with
  | 1 => Some (VI 0)
  | 2 => match args with [Some (VI a)] => Some (VB (a =? 0)) | _ => None end
  | 3 => Some (VI 5)
  | 4 => match args with [Some (VI a)] => Some (VI (a + 1)) | _ => None end
  | 5 => match args with [Some (VI a)] => Some (VI a) | _ => None end
  | _ => None
  end.

Definition nv : ident := [118].

(* w = 0
   while True:
       v = w * 2             -- first assigned at body level: a local of loop(), assigned before use
       if v > 2:
           v = v + 100
       mon.write(v)
       w = w + 1                                                                             *)
Definition demo_local : pprog :=
  {| p_pre := [ PAssign nw (mk 1 TyInt true []) ];
     p_main := Some [ PAssign nv (mk 2 TyInt false [nw]);
                      PIf (mk 3 TyBool false [nv]) [ PAssign nv (mk 4 TyInt false [nv]) ] [] [];
                      PWrite (mk 5 TyInt false [nv]);
                      PAssign nw (mk 6 TyInt false [nw]) ] |}.
Definition demo_local_sem (id : Z) (args : list (option val)) : option val :=
  match id with
  | 1 => Some (VI 0)
  | 2 => match args with [Some (VI a)] => Some (VI (a * 2)) | _ => None end
  | 3 => match args with [Some (VI a)] => Some (VB (2 <? a)) | _ => None end
  | 4 => match args with [Some (VI a)] => Some (VI (a + 100)) | _ => None end
  | 5 => match args with [Some (VI a)] => Some (VI a) | _ => None end
  | 6 => match args with [Some (VI a)] => Some (VI (a + 1)) | _ => None end
  | _ => None
  end.
Definition demo_local_trace : list ev := [EvSer (VI 0); EvSer (VI 2); EvSer (VI 104)].

Definition nb : ident := [98].
Definition nlo : ident := [108; 111].
Definition nhi : ident := [104; 105].
Definition nc : ident := [99].
Definition nd : ident := [100].

(* b = 40
   b = b + 15
   lo, hi = b - 5, b + 5       -- tuple DECLARATION of new globals reading a re-assigned variable:
   c, d = 1, 2                    run-time assignments in setup() (constants go to the initialisers)
   mon.write(lo)
   mon.write(hi + c + d)                                                                       *)
Definition demo_tuple : pprog :=
  {| p_pre := [ PAssign nb (mk 1 TyInt true []);
                PAssign nb (mk 2 TyInt false [nb]);
                PTuple [nlo; nhi] [mk 3 TyInt false [nb]; mk 4 TyInt false [nb]];
                PTuple [nc; nd] [mk 5 TyInt true []; mk 6 TyInt true []];
                PWrite (mk 7 TyInt false [nlo]);
                PWrite (mk 8 TyInt false [nhi; nc; nd]) ];
     p_main := None |}.
Definition demo_tuple_sem (id : Z) (args : list (option val)) : option val :=
  match id with
  | 1 => Some (VI 40)
  | 2 => match args with [Some (VI a)] => Some (VI (a + 15)) | _ => None end
  | 3 => match args with [Some (VI a)] => Some (VI (a - 5)) | _ => None end
  | 4 => match args with [Some (VI a)] => Some (VI (a + 5)) | _ => None end
  | 5 => Some (VI 1) | 6 => Some (VI 2)
  | 7 => match args with [Some (VI a)] => Some (VI a) | _ => None end
  | 8 => match args with [Some (VI a); Some (VI b); Some (VI c)] => Some (VI (a + b + c)) | _ => None end
  | _ => None
  end.
Definition demo_tuple_trace : list ev := [EvSer (VI 50); EvSer (VI 63)].

(* x = 0
   for i in range(4):
       if i == 2:
           continue          -- `continue;` in the C for-loop (the loop still advances i)
       mon.write(i)
   while True:
       x = x + 1
       if x % 2 == 0:
           continue          -- at the level of the main loop: `return;` from loop()
       mon.write(x)                                                                          *)
Definition demo_cont : pprog :=
  {| p_pre := [ PAssign nx (mk 1 TyInt true []);
                PFor ni (mk 2 TyInt true [])
                  [ PIf (mk 3 TyBool false [ni]) [PContinue] [] []; PWrite (mk 4 TyInt false [ni]) ] ];
     p_main := Some [ PAssign nx (mk 5 TyInt false [nx]);
                      PIf (mk 6 TyBool false [nx]) [PContinue] [] [];
                      PWrite (mk 7 TyInt false [nx]) ] |}.
Definition demo_cont_sem (id : Z) (args : list (option val)) : option val :=
  match id with
  | 1 => Some (VI 0) | 2 => Some (VI 4)
  | 3 => match args with [Some (VI a)] => Some (VB (a =? 2)) | _ => None end
  | 4 | 7 => match args with [Some (VI a)] => Some (VI a) | _ => None end
  | 5 => match args with [Some (VI a)] => Some (VI (a + 1)) | _ => None end
  | 6 => match args with [Some (VI a)] => Some (VB (Z.even a)) | _ => None end
  | _ => None
  end.
Definition demo_cont_trace : list ev :=
  [EvSer (VI 0); EvSer (VI 1); EvSer (VI 3); EvSer (VI 1); EvSer (VI 3)].

Definition nsa : ident := [97].
Definition nsb : ident := [98].

(* a = 1
   b = 2
   for i in range(3):
       a, b = b, a + b       -- __tmp_assign_0/1 local to the for body
       mon.write(a)
   while True:
       a, b = b, a           -- swap through temporaries local to loop()
       mon.write(a)                                                                          *)
Definition demo_swap : pprog :=
  {| p_pre := [ PAssign nsa (mk 1 TyInt true []); PAssign nsb (mk 2 TyInt true []);
                PFor ni (mk 3 TyInt true [])
                  [ PTuple [nsa; nsb] [mk 4 TyInt false [nsb]; mk 5 TyInt false [nsa; nsb]]; PWrite (mk 6 TyInt false [nsa]) ] ];
     p_main := Some [ PTuple [nsa; nsb] [mk 7 TyInt false [nsb]; mk 8 TyInt false [nsa]];
                      PWrite (mk 9 TyInt false [nsa]) ] |}.
Definition demo_swap_sem (id : Z) (args : list (option val)) : option val :=
  match id with
  | 1 => Some (VI 1) | 2 => Some (VI 2) | 3 => Some (VI 3)
  | 4 | 6 | 7 | 8 | 9 => match args with [Some (VI a)] => Some (VI a) | _ => None end
  | 5 => match args with [Some (VI a); Some (VI b)] => Some (VI (a + b)) | _ => None end
  | _ => None
  end.
Definition demo_swap_trace : list ev :=
  [EvSer (VI 2); EvSer (VI 3); EvSer (VI 5); EvSer (VI 8); EvSer (VI 5)].

(* for i in range(4):
       mon.write(i)
       i = i + 2            -- Python re-binds i from the range on the next iteration; the C for-loop counts with i itself
       mon.write(i)                                                                          *)
Definition loopvar : pprog :=
  {| p_pre := [ PFor ni (mk 1 TyInt true [])
                  [ PWrite (mk 2 TyInt false [ni]); PAssign ni (mk 3 TyInt false [ni]); PWrite (mk 2 TyInt false [ni]) ] ];
     p_main := None |}.
Definition loopvar_sem (id : Z) (args : list (option val)) : option val :=
  match id with
  | 1 => Some (VI 4)
  | 2 => match args with [Some (VI a)] => Some (VI a) | _ => None end
  | 3 => match args with [Some (VI a)] => Some (VI (a + 2)) | _ => None end
  | _ => None
  end.
