(* A for-range loop whose bound is a BARE VARIABLE that is constant-initialised above the main loop and
   re-assigned at the end of every pass (definitions only; the expression semantics is parametric in the
   initial value, so the theorem about it quantifies over every parse-time value). *)
From Coq Require Import ZArith QArith List Bool.
From RV Require Import Base.Wire Base.Text Lang.StmtAst Lang.Transl Lang.StmtSem Lang.StmtGuard Lang.StmtDemo.
Import ListNotations.
Open Scope Z_scope.

(* n = <v0>                 -- an integer literal: known when the for line is parsed
   while True:
       for i in range(n):   -- expression 2 is the bare name n
           mon.write(i)
       mon.write(n)
       n = n + 1            -- plain re-assignment between two executions of the for statement  *)
Definition demo_bound : pprog :=
  {| p_pre := [ PAssign nn (mk 1 TyInt true []) ];
     p_main := Some [ PFor ni (mk 2 TyInt false [nn]) [ PWrite (mk 3 TyInt false [ni]) ];
                      PWrite (mk 5 TyInt false [nn]);
                      PAssign nn (mk 4 TyInt false [nn]) ] |}.

Definition demo_bound_sem (v0 : Z) (id : Z) (args : list (option val)) : option val :=
  match id with
  | 1 => Some (VI v0)
  | 2 | 3 | 5 => match args with [Some (VI a)] => Some (VI a) | _ => None end
  | 4 => match args with [Some (VI a)] => Some (VI (a + 1)) | _ => None end
  | _ => None
  end.

(* v0 = 1, three passes: 0 | 1 || 0 1 | 2 || 0 1 2 | 3 *)
Definition demo_bound_trace : list ev :=
  [EvSer (VI 0); EvSer (VI 1); EvSer (VI 0); EvSer (VI 1); EvSer (VI 2); EvSer (VI 0); EvSer (VI 1); EvSer (VI 2); EvSer (VI 3)].
