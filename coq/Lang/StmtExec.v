(* An executable instance of the shared expression semantics of Lang/StmtSem.v: expression
   [id] is a Python expression (Lang/PyAst.v) evaluated by the reference semantics
   Lang/PySem.peval on the values of its free variables.  With it both sides of the statement
   translation can be RUN (extracted), which ties StmtSem.pexec to CPython and
   Transl.transl + StmtSem.cexec to the emitted C++ under the mock core, on generated programs
   whose expressions mean the same in C and in Python.  (Definitions only.) *)
From Coq Require Import ZArith QArith List Bool.
From RV Require Import Base.Wire Base.Text Lang.PyAst Lang.PySem Lang.PyAstWire
  Lang.StmtAst Lang.Transl Lang.StmtSem Lang.StmtGuard.
Import ListNotations.
Open Scope Z_scope.

Definition to_pval (v : val) : pval :=
  match v with VI z => VInt z | VF q => VFloat q | VB b => VBool b | VS s => VStr s end.
Definition of_pval (v : pval) : option val :=
  match v with
  | VInt z => Some (VI z) | VFloat q => Some (VF q) | VBool b => Some (VB b) | VStr s => Some (VS s)
  | _ => None end.

Fixpoint zip_env (fv : list StmtAst.ident) (args : list (option val)) : option PySem.env :=
  match fv, args with
  | [], [] => Some []
  | x :: fr, Some v :: ar =>
      match zip_env fr ar with Some rho => Some ((x, to_pval v) :: rho) | None => None end
  | x :: fr, None :: ar => zip_env fr ar     (* unbound: a NameError only if the expression evaluates it *)
  | _, _ => None
  end.

Definition exec_sem (info : Z -> option ann) (exprs : list pexpr) (id : Z) (args : list (option val)) : option val :=
  match info id, nth_error exprs (Z.to_nat id) with
  | Some a, Some e =>
      match zip_env (a_fv a) args with
      | Some rho => match PySem.peval rho e with Ok v => of_pval v | Err _ => None end
      | None => None
      end
  | _, _ => None
  end.

Definition exec_aug (op : Z) (u v : val) : option val :=
  match dec_binop op with
  | Some b => match py_bin b (to_pval u) (to_pval v) with Ok w => of_pval w | Err _ => None end
  | None => None
  end.

(* both executions of one program: (inside the guard?, Python trace, C trace) *)
Definition exec_both (p : pprog) (exprs : list pexpr) (n fuel : nat)
  : bool * option (list ev) * option (option (list ev)) :=
  let info := info_of p in
  let sem := exec_sem info exprs in
  (guard_ok p,
   pprog_exec sem exec_aug fuel n p,
   match transl p with
   | None => None
   | Some c => Some (cprog_exec sem exec_aug info fuel n
                       (match p_main p with Some _ => true | None => false end) c)
   end).
