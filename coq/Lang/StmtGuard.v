(* The executable guard of the statement-layer simulation theorem (C01_stmt_preserve_partial):
   the fragment in which every variable is first assigned at top level of the setup part (so it
   is a C global) or at top level of the `while True:` body before any read of it in the text of that body
   (a C global as well, with the type's default initialiser, assigned in place on every pass), keeps one type, loop bounds do not depend on what the body assigns, loop variables are
   fresh, read only inside their loop and never assigned.
   Each clause is forced by a counterexample (see the _refuted theorems and DESIGN.md C01). *)
From Coq Require Import ZArith List Bool.
From RV Require Import Base.Wire Base.Text Lang.StmtAst Lang.Transl Lang.StmtSem.
Import ListNotations.
Open Scope Z_scope.

Definition tenv := list (ident * ty).

Definition fv_ok (D : tenv) (L : list ident) (a : ann) : bool :=
  forallb (fun x => tmem x (map fst D) || tmem x L) (a_fv a).

(* names assigned (=, op=, tuple targets) anywhere in a statement list *)
Fixpoint assigned (p : pstmt) : list ident :=
  let fix go (l : list pstmt) : list ident := match l with [] => [] | x :: r => assigned x ++ go r end in
  let fix gob (l : list (ann * list pstmt)) : list ident := match l with [] => [] | (_, b) :: r => go b ++ gob r end in
  match p with
  | PAssign x _ | PAug x _ _ _ => [x]
  | PTuple xs _ => xs
  | PIf _ b el e => go b ++ gob el ++ go e
  | PWhile _ b => go b
  | PFor x _ b => x :: go b
  | _ => []
  end.
Definition assigned_in (l : list pstmt) : list ident := flat_map assigned l.

Definition disjoint (a b : list ident) : bool := forallb (fun x => negb (tmem x b)) a.

Fixpoint nodupb (l : list ident) : bool :=
  match l with [] => true | x :: r => negb (tmem x r) && nodupb r end.

(* the C name of a tuple temporary (StmtSem.tmp_name k = [0; k]) is not a Python identifier; since the
   theorems quantify over arbitrary identifiers, the guard says so for every name a program declares *)
Definition is_tmp (x : ident) : bool := match x with [0; _] => true | _ => false end.

(* `x1, ..., xn = e1, ..., en` declaring n NEW names at top level of the setup part: the parser
   emits plain global declarations (no temporaries) *)
Definition tuple_decl_ok (D : tenv) (L : list ident) (xs : list ident) (es : list ann) : bool :=
  Nat.eqb (length xs) (length es)
  && forallb (fv_ok D L) es
  && forallb (fun x => negb (tmem x (map fst D)) && negb (tmem x L) && negb (is_tmp x)) xs
  && nodupb xs.

(* `x1, ..., xn = e1, ..., en` (n >= 1) assigning n names that are all declared already (swap, rotation,
   parallel assignment), anywhere: the parser evaluates the right-hand sides into fresh temporaries
   `__tmp_assign_k` local to the enclosing block, then assigns them in order; every name keeps its type *)
Fixpoint tuple_asg_tys (D : tenv) (L : list ident) (xs : list ident) (es : list ann) : bool :=
  match xs, es with
  | [], [] => true
  | x :: xr, e :: er =>
      negb (tmem x L)
      && match tlookup x D with Some t => ty_eqb t (a_ty e) | None => false end
      && tuple_asg_tys D L xr er
  | _, _ => false
  end.
Definition tuple_asg_ok (D : tenv) (L : list ident) (xs : list ident) (es : list ann) : bool :=
  match xs with [] => false | _ => true end
  && forallb (fv_ok D L) es
  && tuple_asg_tys D L xs es.

(* One fuelled fixpoint on statement lists, in the style of Transl.tr_block (one unit of fuel
   per statement, nested or in sequence; [Transl.bsize] is enough).  [top] = the statements
   are at setup depth 0, where a first assignment declares a C global. *)
Fixpoint g_block (fuel : nat) (top : bool) (D : tenv) (L : list ident) (ps : list pstmt) {struct fuel}
  : option tenv :=
  match fuel with
  | O => None
  | S f =>
    match ps with
    | [] => Some D
    | p :: rest =>
      (* a nested block may not extend the declaration environment *)
      let nested := fun (L' : list ident) (b : list pstmt) =>
        match g_block f false D L' b with Some _ => true | None => false end in
      let continue_with := fun (r : option tenv) =>
        match r with Some D1 => g_block f top D1 L rest | None => None end in
      continue_with
      (match p with
       | PAssign x e =>
           if negb (fv_ok D L e) || tmem x L then None
           else match tlookup x D with
                | Some t => if ty_eqb t (a_ty e) then Some D else None
                | None => if top && negb (is_tmp x) then Some (D ++ [(x, a_ty e)]) else None
                end
       | PAug x op e t_after =>
           if negb (fv_ok D L e) || tmem x L then None
           else match tlookup x D with
                | Some t => if ty_eqb t t_after then Some D else None
                | None => None
                end
       | PTuple xs es =>
           if tuple_asg_ok D L xs es then Some D
           else if top && tuple_decl_ok D L xs es then Some (D ++ combine xs (map a_ty es)) else None
       | PBreak | PContinue => Some D
       | PWrite e | PSleep e | PExprS e => if fv_ok D L e then Some D else None
       | PIf c body elifs els =>
           if fv_ok D L c && nested L body
              && forallb (fun cb => fv_ok D L (fst cb) && nested L (snd cb)) elifs
              && nested L els
           then Some D else None
       | PWhile c body => if fv_ok D L c && nested L body then Some D else None
       | PFor x cnt body =>
           if fv_ok D L cnt && ty_eqb (a_ty cnt) TyInt
              && negb (tmem x (map fst D)) && negb (tmem x L) && negb (is_tmp x)
              && negb (tmem x (a_fv cnt))
              && disjoint (a_fv cnt) (assigned_in body)
              && negb (tmem x (assigned_in body))
              && nested (x :: L) body
           then Some D else None
       end)
    end
  end.

(* all annotations of a program, and their consistency as a table id -> annotation *)
Fixpoint anns_of (p : pstmt) : list ann :=
  let fix go (l : list pstmt) : list ann := match l with [] => [] | x :: r => anns_of x ++ go r end in
  let fix gob (l : list (ann * list pstmt)) : list ann := match l with [] => [] | (c, b) :: r => c :: go b ++ gob r end in
  match p with
  | PAssign _ e | PAug _ _ e _ | PWrite e | PSleep e | PExprS e => [e]
  | PTuple _ es => es
  | PIf c b el e => c :: go b ++ gob el ++ go e
  | PWhile c b => c :: go b
  | PFor _ c b => c :: go b
  | PBreak | PContinue => []
  end.
Definition prog_anns (p : pprog) : list ann :=
  flat_map anns_of (p_pre p) ++ match p_main p with Some b => flat_map anns_of b | None => [] end.

Definition info_of (p : pprog) (id : Z) : option ann :=
  find (fun a => a_id a =? id) (prog_anns p).

Definition ann_eqb (a b : ann) : bool :=
  (a_id a =? a_id b) && ty_eqb (a_ty a) (a_ty b) && Bool.eqb (a_const a) (a_const b)
  && (Nat.eqb (length (a_fv a)) (length (a_fv b)))
  && forallb (fun xy => text_eqb (fst xy) (snd xy)) (combine (a_fv a) (a_fv b)).

Definition ids_consistent (p : pprog) : bool :=
  forallb (fun a => match info_of p (a_id a) with Some b => ann_eqb a b | None => false end) (prog_anns p).

(* tuple statements at top level of the `while True:` body only assign names declared before them (a tuple
   first-assignment there would be a set of globals assigned from temporaries: outside the guard) *)
Definition no_top_tuple (D : tenv) (ps : list pstmt) : bool :=
  forallb (fun p => match p with
                    | PTuple xs _ => match xs with [] => false | _ => forallb (fun x => tmem x (map fst D)) xs end
                    | _ => true end) ps.

Definition guard_ok (p : pprog) : bool :=
  ids_consistent p &&
  match g_block (bsize (p_pre p)) true [] [] (p_pre p) with
  | None => false
  | Some D =>
      match p_main p with
      | None => true
      | Some body => no_top_tuple D body &&
                     match g_block (bsize body) true D [] body with Some _ => true | None => false end
      end
  end.
