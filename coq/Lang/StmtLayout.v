(* From source LINES to the statement list the C01 statement model (Lang/StmtAst.v, Lang/Transl.v) works on.

   The statement model starts at [pstmt] trees; the real parser starts at text lines and finds the blocks by
   indentation (_collect_block, _collect_if_structure, _parse_simple_lines - modelled line by line in Lang/Lex.v,
   unit C07).  This file composes the two: [stmts_of_lines] runs the block-skeleton parser of Lang/Lex.v on the lines
   and assembles the C01 statements from the block tree:

     SLeaf s                      -> the simple statement [simple s] recognises
     SBlock KIf h b, followed by its SBlock KElif / KElse siblings
                                  -> PIf (cond_of h) b elifs else      (_collect_if_structure + the elif/else probes)
     SBlock KWhile h b            -> PWhile (cond_of h) b
     SBlock KFor h b              -> PFor x n b        with  for_of h = Some (x, n)
     try / except                 -> outside the C01 statement fragment (None)
     a dangling elif / else       -> None

   The recognisers of ONE comment-stripped line ([simple], [cond_of], [for_of]: statement dispatch chain and expression
   annotation) are parameters: they are the business of the expression layer (unit C01_expr) and of C07's dispatch
   table; what is modelled here is WHICH LINES FORM WHICH BLOCK, i.e. exactly what layout noise could disturb.

   No proofs in this file. *)
From Coq Require Import ZArith List Bool.
From RV Require Import Base.Wire Base.Text Lang.Lex Lang.StmtAst Lang.Transl.
Import ListNotations.
Open Scope Z_scope.

(* statements assembled so far (right to left) + the elif/else arms waiting for their `if` *)
Record pending := { pd_elifs : list (ann * list pstmt); pd_else : option (list pstmt); pd_stmts : list pstmt }.

Definition pd_empty : pending := {| pd_elifs := []; pd_else := None; pd_stmts := [] |}.

Definition no_arms (p : pending) : bool :=
  match pd_elifs p, pd_else p with [], None => true | _, _ => false end.

(* nothing may be left waiting at the front of a block *)
Definition close (p : option pending) : option (list pstmt) :=
  match p with
  | Some q => if no_arms q then Some (pd_stmts q) else None
  | None => None
  end.

Section Assemble.
  Variable simple : text -> option pstmt.
  Variable cond_of : text -> option ann.
  Variable for_of : text -> option (ident * ann).

  (* [asm1 t acc]: t in front of the already assembled rest acc *)
  Fixpoint asm1 (t : stree) (acc : option pending) : option pending :=
    match acc with
    | None => None
    | Some a =>
      match t with
      | SLeaf s =>
          if no_arms a then
            match simple s with
            | Some st => Some {| pd_elifs := []; pd_else := None; pd_stmts := st :: pd_stmts a |}
            | None => None
            end
          else None
      | SBlock k h body =>
          match close ((fix go (l : list stree) : option pending :=
                          match l with [] => Some pd_empty | x :: r => asm1 x (go r) end) body) with
          | None => None
          | Some b =>
            match k with
            | KIf =>
                match cond_of h with
                | Some c => Some {| pd_elifs := []; pd_else := None;
                                    pd_stmts := PIf c b (pd_elifs a) (match pd_else a with Some e => e | None => [] end)
                                                :: pd_stmts a |}
                | None => None
                end
            | KElif =>
                match cond_of h with
                | Some c => Some {| pd_elifs := (c, b) :: pd_elifs a; pd_else := pd_else a; pd_stmts := pd_stmts a |}
                | None => None
                end
            | KElse =>
                if no_arms a then Some {| pd_elifs := []; pd_else := Some b; pd_stmts := pd_stmts a |} else None
            | KWhile =>
                if no_arms a then
                  match cond_of h with
                  | Some c => Some {| pd_elifs := []; pd_else := None; pd_stmts := PWhile c b :: pd_stmts a |}
                  | None => None
                  end
                else None
            | KFor =>
                if no_arms a then
                  match for_of h with
                  | Some (x, n) => Some {| pd_elifs := []; pd_else := None; pd_stmts := PFor x n b :: pd_stmts a |}
                  | None => None
                  end
                else None
            | KTry | KExcept => None
            end
          end
      end
    end.

  Fixpoint asm_list (ts : list stree) : option pending :=
    match ts with [] => Some pd_empty | x :: r => asm1 x (asm_list r) end.

  Definition stmts_of_trees (ts : list stree) : option (list pstmt) := close (asm_list ts).

  (* the statements of a snippet handed to _parse_simple_lines (a run of column-0 statements, the body of the
     column-0 `while True:`) *)
  Definition stmts_of_lines (ls : list text) : option (list pstmt) :=
    stmts_of_trees (map erase (parse_lines ls)).

  (* the IR of the statement model for a script given as LINES: the setup part and the body of the main loop *)
  Definition ir_of_lines (pre : list text) (main : option (list text)) : option cprog :=
    match stmts_of_lines pre with
    | None => None
    | Some p =>
      match main with
      | None => transl {| p_pre := p; p_main := None |}
      | Some ml => match stmts_of_lines ml with
                   | Some m => transl {| p_pre := p; p_main := Some m |}
                   | None => None
                   end
      end
    end.
End Assemble.

(* ---------------------------------------------------------------- a concrete instance for the witnesses *)
(* one line = one expression statement / condition whose id is the length of its text *)
Definition demo_ann (s : text) : ann := {| a_id := Z.of_nat (length s); a_ty := TyInt; a_const := false; a_fv := [] |}.
Definition demo_simple (s : text) : option pstmt := Some (PExprS (demo_ann s)).
Definition demo_cond (s : text) : option ann := Some (demo_ann s).
Definition demo_for (s : text) : option (ident * ann) := Some ([107], demo_ann s).
Definition demo_stmts := stmts_of_lines demo_simple demo_cond demo_for.
