(* Reference (CPython) meaning of the statement syntax of Lang/Decl.v, and the executable guard of the
   control-flow declaration theorems of C02.

   Conditions and loop bounds are not part of the syntax (they have no typing effect); what they evaluate
   to enters as an ORACLE: a list of naturals consumed in program order - the index of the branch an `if`
   takes (an index past the last branch = the else block / nothing), the number of passes of a `while`,
   the value n of a `for i in range(n)`.  Every theorem quantifies over all oracles, i.e. over every path.
   An execution returns the remaining oracle, the final environment, the trace of stores
   (every value ever bound to a name) and whether a `return` was executed.

   Limits of the fragment (stated, not hidden): no break/continue; the target of a `for` is unbound again
   after its loop (in the emitted C++ it is scoped to the loop: a script that reads it afterwards is
   outside the fragment, its execution is an error here); stores to the target of the enclosing `for`
   are reported as [TLoopVar] (the C variable they reach is the `int` of the for header). *)
From Coq Require Import ZArith QArith List Bool.
From RV Require Import Base.Wire Base.Text Lang.PyAst Lang.PySem Lang.Infer Lang.InferGuard Lang.InferSpec
  Lang.InferComp Lang.Decl Lang.Reads.
Import ListNotations.
Open Scope Z_scope.

Inductive tev : Type :=
| TAssign (x : ident) (v : pval)       (* a store into the variable the transpiler declares for x *)
| TLoopVar (i : ident) (v : pval)      (* a store into the `int i` of a for header *)
| TReturn (v : pval).                  (* the value of an executed `return e` *)

Definition xout := (list nat * env * list tev * bool)%type.

Definition next (orc : list nat) : nat * list nat :=
  match orc with [] => (O, []) | n :: r => (n, r) end.

Definition env_remove (i : ident) (rho : env) : env :=
  filter (fun kv => negb (text_eqb i (fst kv))) rho.

Definition relabel (i : ident) (e : tev) : tev :=
  match e with
  | TAssign x v => if text_eqb x i then TLoopVar i v else e
  | _ => e
  end.

(* n passes of a body, stopping at a return *)
Fixpoint iter_while (f : list nat -> env -> res xout) (n : nat) (orc : list nat) (rho : env) : res xout :=
  match n with
  | O => Ok (orc, rho, [], false)
  | Datatypes.S m =>
      match f orc rho with
      | Err e => Err e
      | Ok (orc1, rho1, tr1, true) => Ok (orc1, rho1, tr1, true)
      | Ok (orc1, rho1, tr1, false) =>
          match iter_while f m orc1 rho1 with
          | Err e => Err e
          | Ok (orc2, rho2, tr2, b) => Ok (orc2, rho2, tr1 ++ tr2, b)
          end
      end
  end.

(* for i in range(..): [n] passes left, the next value of i is [j] *)
Fixpoint iter_for (f : list nat -> env -> res xout) (i : ident) (n : nat) (j : Z) (orc : list nat) (rho : env)
  : res xout :=
  match n with
  | O => Ok (orc, rho, [], false)
  | Datatypes.S m =>
      match f orc ((i, VInt j) :: rho) with
      | Err e => Err e
      | Ok (orc1, rho1, tr1, true) => Ok (orc1, rho1, TLoopVar i (VInt j) :: tr1, true)
      | Ok (orc1, rho1, tr1, false) =>
          match iter_for f i m (j + 1) orc1 rho1 with
          | Err e => Err e
          | Ok (orc2, rho2, tr2, b) => Ok (orc2, rho2, TLoopVar i (VInt j) :: tr1 ++ tr2, b)
          end
      end
  end.

Fixpoint evals (rho : env) (l : list pexpr) : res (list pval) :=
  match l with
  | [] => Ok []
  | x :: r =>
      match peval rho x with
      | Err e => Err e
      | Ok v => match evals rho r with Err e => Err e | Ok vs => Ok (v :: vs) end
      end
  end.

Fixpoint bind_all (xs : list ident) (vs : list pval) (rho : env) : env :=
  match xs, vs with
  | x :: xr, v :: vr => bind_all xr vr ((x, v) :: rho)
  | _, _ => rho
  end.

Fixpoint exec_stmt (orc : list nat) (rho : env) (s : stmt) {struct s} : res xout :=
  match s with
  | SAssign x e =>
      match peval rho e with
      | Err er => Err er
      | Ok v => Ok (orc, (x, v) :: rho, [TAssign x v], false)
      end
  | SAug x op e =>
      match peval rho (EBin op (EName x) e) with
      | Err er => Err er
      | Ok v => Ok (orc, (x, v) :: rho, [TAssign x v], false)
      end
  | SAssignR x r =>
      match eval_rhs rho r with
      | Err er => Err er
      | Ok v => Ok (orc, (x, v) :: rho, [TAssign x v], false)
      end
  | STuple xs es =>
      if negb (Nat.eqb (length xs) (length es)) then Err ValueErr      (* not enough / too many values to unpack *)
      else match evals rho es with
           | Err er => Err er
           | Ok vs => Ok (orc, bind_all xs vs rho, map (fun xv => TAssign (fst xv) (snd xv)) (combine xs vs), false)
           end
  | SReturn None => Ok (orc, rho, [], true)
  | SReturn (Some e) =>
      match peval rho e with
      | Err er => Err er
      | Ok v => Ok (orc, rho, [TReturn v], true)
      end
  | SIf brs els =>
      let '(k, orc1) := next orc in
      match exec_branches orc1 rho k brs with
      | Some r => r
      | None =>
          match els with
          | ONone => Ok (orc1, rho, [], false)
          | OSome b => exec_block orc1 rho b
          end
      end
  | SWhile body =>
      let '(n, orc1) := next orc in
      iter_while (fun o r => exec_block o r body) n orc1 rho
  | SFor i body =>
      let '(n, orc1) := next orc in
      match iter_for (fun o r => exec_block o r body) i n 0 orc1 rho with
      | Err e => Err e
      | Ok (orc2, rho2, tr, b) => Ok (orc2, env_remove i rho2, map (relabel i) tr, b)
      end
  end
with exec_block (orc : list nat) (rho : env) (b : block) {struct b} : res xout :=
  match b with
  | BNil => Ok (orc, rho, [], false)
  | BCons x r =>
      match exec_stmt orc rho x with
      | Err e => Err e
      | Ok (orc1, rho1, tr1, true) => Ok (orc1, rho1, tr1, true)
      | Ok (orc1, rho1, tr1, false) =>
          match exec_block orc1 rho1 r with
          | Err e => Err e
          | Ok (orc2, rho2, tr2, ret) => Ok (orc2, rho2, tr1 ++ tr2, ret)
          end
      end
  end
with exec_branches (orc : list nat) (rho : env) (k : nat) (brs : branches) {struct brs} : option (res xout) :=
  match brs with
  | BrNil => None
  | BrCons b r =>
      match k with
      | O => Some (exec_block orc rho b)
      | Datatypes.S k1 => exec_branches orc rho k1 r
      end
  end.

(* a whole script: the statements at column 0, then [n] passes of the `while True:` body *)
Definition exec_prog (orc : list nat) (pre : list stmt) (main : block) : res xout :=
  match exec_block orc [] (block_of pre) with
  | Err e => Err e
  | Ok (orc1, rho1, tr1, true) => Ok (orc1, rho1, tr1, true)
  | Ok (orc1, rho1, tr1, false) =>
      let '(n, orc2) := next orc1 in
      match iter_while (fun o r => exec_block o r main) n orc2 rho1 with
      | Err e => Err e
      | Ok (orc3, rho3, tr3, b) => Ok (orc3, rho3, tr1 ++ tr3, b)
      end
  end.

(* ------------------------------------------------------------------ the guard
   [L] is the table of DECLARED labels of the scope: for every name the label of the store (or hoist) that declares it.
   A store x = e met while var_types is [G] is inside the guard when
     - e is inside the expression guard under G (what the transpiler sees at that line), and its value is covered:
       either every name e reads has, in G, exactly its declared label (it is not in a narrowed state, and it is
       not read before the line that types it), or typing e under L instead of G gives the same label (typing is a
       fixed point);
     - the label inferred for e is the declared label of x when this store declares x, and at most the declared
       label (bool < int < float) when x is declared already: a narrower value goes into a wider variable.
   A name hoisted out of an if or a loop must end its block with its declared label; loops add: the shared promotion
   table holds no other C type for the hoisted name.  This excludes exactly the refuted shapes: a later store of a
   wider or unrelated label, x op= e widening x, branches that disagree, a read of a name while its label is below
   its declared one (flow-insensitive table), a name read before the line that types it, a stale promotion table. *)
Definition is_matmult (op : binop) : bool := match op with MatMult => true | _ => false end.

Definition sub_tyb (a b : ty) : bool :=
  ty_eqb a b || match a, b with TBool, TInt | TBool, TFloat | TInt, TFloat => true | _, _ => false end.

Definition same_lab (G L : tenv) (y : ident) : bool :=
  match tlookup y G, tlookup y L with
  | Some a, Some b => ty_eqb a b
  | None, None => true
  | _, _ => false
  end.
Definition lab_is (L : tenv) (x : ident) (t : ty) : bool :=
  match tlookup x L with Some t0 => ty_eqb t0 t | None => false end.
(* t may be stored into x: exactly the declared label for a declaring store, at most it otherwise *)
Definition store_ok (L : tenv) (declared : bool) (x : ident) (t : ty) : bool :=
  match tlookup x L with
  | Some t0 => if declared then sub_tyb t t0 else ty_eqb t t0
  | None => false
  end.

Section Guard.
  Variable S : Type.
  Variable call : list ident -> (S * option pmap) -> tenv -> ident -> list ty -> (S * option pmap) * option ty.
  Variable C : option ictx.
  Variable F : ftable.
  Variable A : aliases.

  Definition typed (G : tenv) (e : pexpr) : bool :=
    match infer_s F A C G e with Some _ => true | None => false end.
  (* the value of e is held by the label inferred at this line *)
  Definition expr_ok (L G : tenv) (e : pexpr) : bool :=
    guard F A C G e && typed G e &&
    (reads_ok (same_lab G L) e || (guard F A C L e && typed L e && ty_eqb (ety F A C G e) (ety F A C L e))).
  Definition assign_ok (L : tenv) (c : dctx) (x : ident) (e : pexpr) : bool :=
    expr_ok L (d_types c) e && store_ok L (tmem x (d_decl c)) x (ety F A C (d_types c) e).

  Definition rty (G : tenv) (r : rhs) : ty :=
    match infer_rhs_s F A C G r with Some (t, _) => t | None => TInt end.
  Definition assignr_ok (L : tenv) (c : dctx) (x : ident) (r : rhs) : bool :=
    rhs_guard F A C (d_types c) r && rhs_guard F A C L r &&
    match infer_rhs_s F A C L r with Some _ => true | None => false end &&
    ty_eqb (rty (d_types c) r) (rty L r) && store_ok L (tmem x (d_decl c)) x (rty (d_types c) r).
  Definition ret_ok (L G : tenv) (e : pexpr) : bool :=
    expr_ok L G e && scalar (ety F A C G e).

  Definition hoist_ok (L : tenv) (basenames : list ident) (kids : list dctx) : bool :=
    forallb (fun xt => lab_is L (fst xt) (snd xt)) (promote_collect basenames kids []).

  Definition promo_ok (L : tenv) (base child : dctx) (basenames : list ident) : bool :=
    let D := match share_back (d_promo base) (d_promo child) with Some d => d | None => [] end in
    forallb (fun x => lab_is L x (tget (d_types child) x) &&
                      match tlookup x D with
                      | Some c => cty_eqb c (cpp_type (tget (d_types child) x))
                      | None => true end)
            (new_names basenames child).

  Fixpoint gd_stmt (L : tenv) (s : S) (st : bstate) (x : stmt) {struct x} : bool :=
    let G := d_types (st_ctx st) in
    match x with
    | SAssign v e => assign_ok L (st_ctx st) v e
    | SAug v op e =>
        negb (is_matmult op) && tmem v (d_decl (st_ctx st)) && assign_ok L (st_ctx st) v (EBin op (EName v) e)
    | SAssignR v r => assignr_ok L (st_ctx st) v r
    | STuple xs es =>
        Nat.eqb (length xs) (length es) &&
        forallb (fun xe => expr_ok L G (snd xe) && lab_is L (fst xe) (ety F A C G (snd xe))) (combine xs es)
    | SReturn None => true
    | SReturn (Some e) => ret_ok L G e
    | SIf brs els =>
        let base := st_ctx st in
        gd_branches L s base (d_promo base) (st_acc st) brs &&
        match run_branches S call C s base (d_promo base) (st_acc st) brs with
        | None => true
        | Some (s1, kids, p1, a1) =>
            match els with
            | ONone => hoist_ok L (d_decl base) kids
            | OSome b =>
                let st0 := mk_bstate (mk_dctx (d_types base) (d_decl base) p1) [] a1 in
                gd_block L s1 st0 b &&
                match run_block S call C s1 st0 b with
                | None => true
                | Some (_, stc) => hoist_ok L (d_decl base) (kids ++ [st_ctx stc])
                end
            end
        end
    | SWhile body =>
        let base := st_ctx st in
        let st0 := mk_bstate (mk_dctx (d_types base) (d_decl base) (d_promo base)) [] (st_acc st) in
        gd_block L s st0 body &&
        match run_block S call C s st0 body with
        | None => true
        | Some (_, stc) => promo_ok L base (st_ctx stc) (d_decl base)
        end
    | SFor i body =>
        let base := st_ctx st in
        let basenames := add_name (d_decl base) i in
        let st0 := mk_bstate (mk_dctx (tset (d_types base) i TInt) basenames (d_promo base)) [] (st_acc st) in
        gd_block (tset L i TInt) s st0 body &&
        match run_block S call C s st0 body with
        | None => true
        | Some (_, stc) => promo_ok L base (st_ctx stc) basenames
        end
    end
  with gd_block (L : tenv) (s : S) (st : bstate) (b : block) {struct b} : bool :=
    match b with
    | BNil => true
    | BCons x r =>
        gd_stmt L s st x &&
        match run_stmt S call C s st x with
        | None => true
        | Some (s1, st1) => gd_block L s1 st1 r
        end
    end
  with gd_branches (L : tenv) (s : S) (base : dctx) (p : option pmap) (a : acc) (brs : branches) {struct brs} : bool :=
    match brs with
    | BrNil => true
    | BrCons b r =>
        let st0 := mk_bstate (mk_dctx (d_types base) (d_decl base) p) [] a in
        gd_block L s st0 b &&
        match run_block S call C s st0 b with
        | None => true
        | Some (s1, stc) => gd_branches L s1 base (share_back (d_promo base) (d_promo (st_ctx stc))) (st_acc stc) r
        end
    end.
End Guard.

(* ---- whole scripts without user functions: statements at column 0, then the `while True:` body ---- *)
Definition script_items (pre : list stmt) (main : block) : list item := map IStmt pre ++ [ILoop main].

Definition is_tuple (s : stmt) : bool := match s with STuple _ _ => true | _ => false end.

Definition item_gd (C : option ictx) (L : tenv) (ps : pstate) (it : item) : bool :=
  match it with
  | IStmt s =>
      gd_stmt fenv (call_dyn C) C [] [] L (p_fe ps) (mk_bstate (p_ctx ps) (p_globals ps) (mk_acc (p_labels ps) [] false)) s
  | ILoop b =>
      gd_block fenv (call_dyn C) C [] [] L (p_fe ps) (mk_bstate (p_ctx ps) (p_globals ps) (mk_acc (p_labels ps) [] false)) b
  | IDef _ _ => false
  end.
Fixpoint items_gd (C : option ictx) (L : tenv) (ps : pstate) (its : list item) : bool :=
  match its with
  | [] => true
  | it :: r =>
      item_gd C L ps it &&
      match run_item C ps it with
      | None => true
      | Some ps1 => items_gd C L ps1 r
      end
  end.
(* the declared labels: for every name the FIRST label recorded for it in program order (the store - for a hoisted
   name, the first store of the first branch - that declares it), on top of the labels [G0] visible at the start *)
Definition decl_tab (G0 : tenv) (labels : list (ident * ty)) : tenv :=
  fold_left (fun D xt => match tlookup (fst xt) D with Some _ => D | None => D ++ [xt] end)
            (filter (fun xt => negb (text_eqb (fst xt) tmp_marker)) labels) G0.
(* every declared label belongs to a name var_types finally knows (so that it has a declaration) *)
Definition all_labelled (L G : tenv) : bool :=
  forallb (fun xt => match tlookup (fst xt) G with Some _ => true | None => false end) L.

Definition script_guard (C : option ictx) (pre : list stmt) (main : block) : bool :=
  match run_items C (script_items pre main) with
  | None => false
  | Some ps =>
      let L := decl_tab [] (p_labels ps) in
      all_labelled L (d_types (p_ctx ps)) && items_gd C L pstate0 (script_items pre main)
  end.

(* ---- one function variant: the body parsed for call signature sg ---- *)
Definition sub_env (G L : tenv) : bool :=
  forallb (fun xt => match tlookup (fst xt) L with Some t => ty_eqb t (snd xt) | None => false end) G.

Definition ctx_wf (c : dctx) : bool :=
  forallb (fun xt => tmem (fst xt) (d_decl c)) (d_types c) &&
  forallb (fun x => match tlookup x (d_types c) with Some _ => true | None => false end) (d_decl c).

(* the names visible in a function body that are declared outside it (parameters, globals): as if declared
   from the label var_types holds for them when the body starts *)
Definition lab_decls (G : tenv) : list (ident * cty) := map (fun xt => (fst xt, cpp_type (snd xt))) G.

Definition fn_ctx (cur : dctx) (params : list (ident * option text)) (sg : list ty) : dctx :=
  mk_dctx (fold_left (fun G pl => tset G (fst (fst pl)) (snd pl)) (combine params sg) (d_types cur))
          (fold_left add_name (map fst params) (d_decl cur)) (d_promo cur).

Definition fn_guard (F : ftable) (A : aliases) (C : option ictx) (cur : dctx) (params : list (ident * option text))
  (sg : list ty) (body : block) : bool :=
  let st0 := mk_bstate (fn_ctx cur params sg) [] (mk_acc [] [] true) in
  Nat.eqb (length sg) (length params) &&
  match run_block unit (call_st F A) C tt st0 body with
  | None => false
  | Some (_, st1) =>
      let G0 := d_types (fn_ctx cur params sg) in
      let L := decl_tab G0 (a_labels (st_acc st1)) in
      ctx_wf (fn_ctx cur params sg) && all_labelled L (d_types (st_ctx st1)) &&
      (* every parameter ends the body with the label of the signature: it is declared from that final label *)
      forallb (fun pa => ty_eqb (tget (d_types (st_ctx st1)) (fst pa)) (tget G0 (fst pa))) params &&
      gd_block unit (call_st F A) C F A L tt st0 body
  end.
