(* Semantics of both sides of the statement translation.

   Expressions are opaque: [sem id args] is the value of source expression [id] as a function
   of the values of its free variables (None = not well-defined).  The SAME function is used
   by the Python side and the C side: "the C text printed for expression id computes what the
   Python expression computes" is exactly the expression-layer theorem (unit C01_expr); the
   statement layer is proved modulo it.  [augsem op u v] is the value of (u op v). *)
From Coq Require Import ZArith QArith List Bool.
From RV Require Import Base.Wire Base.Text Lang.StmtAst.
Import ListNotations.
Open Scope Z_scope.

Inductive val := VI (z : Z) | VF (q : Q) | VB (b : bool) | VS (s : text).

Definition has_ty (t : ty) (v : val) : bool :=
  match t, v with
  | TyInt, VI _ | TyFloat, VF _ | TyBool, VB _ | TyString, VS _ => true
  | _, _ => false end.

Definition default_val (t : ty) : val :=
  match t with TyInt => VI 0 | TyFloat => VF 0 | TyBool => VB false | TyString => VS [] end.

(* C++ implicit conversion when a value is stored in a variable of declared type t *)
Definition conv (t : ty) (v : val) : val :=
  match t, v with
  | TyInt, VF q => VI (Z.quot (Qnum q) (Zpos (Qden q)))
  | TyInt, VB b => VI (if b then 1 else 0)
  | TyFloat, VI z => VF (inject_Z z)
  | TyFloat, VB b => VF (if b then 1 else 0)
  | TyBool, VI z => VB (negb (z =? 0))
  | TyBool, VF q => VB (negb (Qnum q =? 0))
  | _, _ => v
  end.

Definition truthy (v : val) : bool :=
  match v with
  | VI z => negb (z =? 0) | VF q => negb (Qnum q =? 0) | VB b => b
  | VS s => match s with [] => false | _ => true end
  end.

Definition as_count (v : val) : option Z :=
  match v with VI z => Some z | VB b => Some (if b then 1 else 0) | _ => None end.

Inductive ev := EvSer (v : val) | EvDelay (v : val) | EvX (id : Z) (v : val).
(* how a statement list ends: normally, by `break`, by `continue`, or (C side only) by `return;` *)
Inductive outcome := ONormal | OBreak | OContinue | OReturn.

Section Sem.
  Variable sem : Z -> list (option val) -> option val.
  Variable augsem : Z -> val -> val -> option val.

  (* ================= Python side ================= *)
  Definition penv := list (ident * val).
  Fixpoint pset (x : ident) (v : val) (rho : penv) : penv :=
    match rho with
    | [] => [(x, v)]
    | (y, u) :: r => if text_eqb x y then (x, v) :: r else (y, u) :: pset x v r
    end.
  Definition plook (rho : penv) (x : ident) : option val := tlookup x rho.
  Definition peval (a : ann) (rho : penv) : option val := sem (a_id a) (map (plook rho) (a_fv a)).

  Fixpoint pevals (es : list ann) (rho : penv) : option (list val) :=
    match es with
    | [] => Some []
    | e :: r => match peval e rho, pevals r rho with Some v, Some vs => Some (v :: vs) | _, _ => None end
    end.
  Fixpoint pbinds (xs : list ident) (vs : list val) (rho : penv) : penv :=
    match xs, vs with x :: xr, v :: vr => pbinds xr vr (pset x v rho) | _, _ => rho end.

  Fixpoint pexec (fuel : nat) (rho : penv) (ps : list pstmt) {struct fuel}
    : option (penv * list ev * outcome) :=
    match fuel with
    | O => None
    | S f =>
      match ps with
      | [] => Some (rho, [], ONormal)
      | p :: rest =>
        let continue_with := fun (r : option (penv * list ev * outcome)) =>
          match r with
          | None => None
          | Some (rho1, e1, ONormal) =>
              match pexec f rho1 rest with
              | None => None
              | Some (rho2, e2, o) => Some (rho2, e1 ++ e2, o)
              end
          | Some (rho1, e1, o) => Some (rho1, e1, o)
          end in
        match p with
        | PAssign x e =>
            continue_with (match peval e rho with Some v => Some (pset x v rho, [], ONormal) | None => None end)
        | PAug x op e _ =>
            continue_with (match plook rho x, peval e rho with
                           | Some u, Some v => match augsem op u v with
                                               | Some w => Some (pset x w rho, [], ONormal) | None => None end
                           | _, _ => None end)
        | PTuple xs es =>
            continue_with (if Nat.leb (length xs) (length es)
                           then match pevals (firstn (length xs) es) rho with
                                | Some vs => Some (pbinds xs vs rho, [], ONormal) | None => None end
                           else None)
        | PBreak => Some (rho, [], OBreak)
        | PContinue => Some (rho, [], OContinue)
        | PWrite e => continue_with (match peval e rho with Some v => Some (rho, [EvSer v], ONormal) | None => None end)
        | PSleep e => continue_with (match peval e rho with Some v => Some (rho, [EvDelay v], ONormal) | None => None end)
        | PExprS e =>
            continue_with (match peval e rho with
                           | Some v => Some (rho, if closed_const e then [] else [EvX (a_id e) v], ONormal)
                           | None => None end)
        | PIf c body elifs els =>
            let fix pick (l : list (ann * list pstmt)) : option (list pstmt) :=
              match l with
              | [] => Some els
              | (c', b) :: r =>
                  match peval c' rho with
                  | Some v => if truthy v then Some b else pick r
                  | None => None
                  end
              end in
            continue_with (match pick ((c, body) :: elifs) with
                           | Some b => pexec f rho b
                           | None => None end)
        | PWhile c body =>
            (* one unfolding per unit of fuel *)
            match peval c rho with
            | None => None
            | Some v =>
                if truthy v then
                  match pexec f rho body with
                  | None => None
                  | Some (rho1, e1, OBreak) =>
                      match pexec f rho1 rest with
                      | None => None | Some (rho2, e2, o) => Some (rho2, e1 ++ e2, o) end
                  | Some (rho1, e1, OReturn) => None        (* no Python statement of the fragment produces it *)
                  | Some (rho1, e1, _) =>                    (* body completed or `continue`: test the condition again *)
                      match pexec f rho1 (PWhile c body :: rest) with
                      | None => None | Some (rho2, e2, o) => Some (rho2, e1 ++ e2, o) end
                  end
                else pexec f rho rest
            end
        | PFor x cnt body =>
            match peval cnt rho with
            | None => None
            | Some nv =>
                match as_count nv with
                | None => None
                | Some n =>
                    let fix iter (k : nat) (i : Z) (rho0 : penv) : option (penv * list ev) :=
                      match k with
                      | O => Some (rho0, [])
                      | S k' =>
                          match pexec f (pset x (VI i) rho0) body with
                          | None => None
                          | Some (rho1, e1, OBreak) => Some (rho1, e1)
                          | Some (rho1, e1, OReturn) => None
                          | Some (rho1, e1, _) =>             (* body completed or `continue`: next value *)
                              match iter k' (i + 1) rho1 with
                              | None => None | Some (rho2, e2) => Some (rho2, e1 ++ e2) end
                          end
                      end in
                    match iter (Z.to_nat n) 0 rho with
                    | None => None
                    | Some (rho1, e1) =>
                        match pexec f rho1 rest with
                        | None => None | Some (rho2, e2, o) => Some (rho2, e1 ++ e2, o) end
                    end
                end
            end
        end
      end
    end.

  (* setup statements once, then n passes of the main-loop body *)
  Fixpoint ppasses (fuel : nat) (n : nat) (rho : penv) (body : list pstmt) : option (list ev) :=
    match n with
    | O => Some []
    | S k =>
        (* a `continue` at the level of the main loop ends the pass *)
        match pexec fuel rho body with
        | Some (rho1, e1, ONormal) | Some (rho1, e1, OContinue) =>
            match ppasses fuel k rho1 body with Some e2 => Some (e1 ++ e2) | None => None end
        | _ => None
        end
    end.

  Definition pprog_exec (fuel : nat) (n : nat) (p : pprog) : option (list ev) :=
    match pexec fuel [] (p_pre p) with
    | Some (rho, e0, ONormal) =>
        match p_main p with
        | None => Some e0
        | Some body => match ppasses fuel n rho body with Some e1 => Some (e0 ++ e1) | None => None end
        end
    | _ => None
    end.

  (* ================= C side ================= *)
  Variable info : Z -> option ann.          (* annotation of expression id (its free variables) *)

  Definition cstore := list (ident * (ty * val)).   (* innermost binding first *)
  Definition clook (sg : cstore) (x : ident) : option val := option_map snd (tlookup x sg).
  Fixpoint cupd (x : ident) (v : val) (sg : cstore) : option cstore :=
    match sg with
    | [] => None                                     (* assignment to an undeclared name: does not compile *)
    | (y, (t, u)) :: r =>
        if text_eqb x y then Some ((y, (t, conv t v)) :: r)
        else match cupd x v r with Some r' => Some ((y, (t, u)) :: r') | None => None end
    end.
  Definition tmp_name (k : Z) : ident := [0; k].     (* cannot clash with a Python identifier *)

  Definition cev (id : Z) (sg : cstore) : option val :=
    match info id with
    | Some a => sem id (map (clook sg) (a_fv a))
    | None => None
    end.
  Definition ceval (e : cexpr) (sg : cstore) : option val :=
    match e with
    | XE id => cev id sg
    | XDefault t => Some (default_val t)
    | XTmp k => clook sg (tmp_name k)
    | XAug x op id =>
        match clook sg x, cev id sg with
        | Some u, Some v => augsem op u v
        | _, _ => None end
    end.

  Definition lastn {A} (n : nat) (l : list A) : list A := skipn (length l - n) l.

  Fixpoint cexec (fuel : nat) (sg : cstore) (ns : list cnode) {struct fuel}
    : option (cstore * list ev * outcome) :=
    match fuel with
    | O => None
    | S f =>
      match ns with
      | [] => Some (sg, [], ONormal)
      | n :: rest =>
        let continue_with := fun (r : option (cstore * list ev * outcome)) =>
          match r with
          | None => None
          | Some (s1, e1, ONormal) =>
              match cexec f s1 rest with
              | None => None | Some (s2, e2, o) => Some (s2, e1 ++ e2, o) end
          | Some (s1, e1, o) => Some (s1, e1, o)
          end in
        (* a nested block: its local declarations die at the closing brace *)
        let block := fun (s0 : cstore) (b : list cnode) =>
          match cexec f s0 b with
          | None => None
          | Some (s1, e1, o) => Some (lastn (length s0) s1, e1, o)
          end in
        match n with
        | NDecl x t init true => continue_with (Some (sg, [], ONormal))    (* globals are defined outside the functions *)
        | NDecl x t init false =>
            continue_with (match ceval init sg with
                           | Some v => Some ((x, (t, conv t v)) :: sg, [], ONormal) | None => None end)
        | NDeclTmp k t init =>
            continue_with (match ceval init sg with
                           | Some v => Some ((tmp_name k, (t, conv t v)) :: sg, [], ONormal) | None => None end)
        | NAssign x e =>
            continue_with (match ceval e sg with
                           | Some v => match cupd x v sg with Some s1 => Some (s1, [], ONormal) | None => None end
                           | None => None end)
        | NBreak => Some (sg, [], OBreak)
        | NContinue => Some (sg, [], OContinue)
        | NReturn => Some (sg, [], OReturn)
        | NWrite id => continue_with (match cev id sg with Some v => Some (sg, [EvSer v], ONormal) | None => None end)
        | NSleep id => continue_with (match cev id sg with Some v => Some (sg, [EvDelay v], ONormal) | None => None end)
        | NExprS id => continue_with (match cev id sg with Some v => Some (sg, [EvX id v], ONormal) | None => None end)
        | NIf bs els =>
            let fix pick (l : list (Z * list cnode)) : option (list cnode) :=
              match l with
              | [] => Some els
              | (c, b) :: r =>
                  match cev c sg with
                  | Some v => if truthy v then Some b else pick r
                  | None => None end
              end in
            continue_with (match pick bs with Some b => block sg b | None => None end)
        | NWhile c body =>
            match cev c sg with
            | None => None
            | Some v =>
                if truthy v then
                  match block sg body with
                  | None => None
                  | Some (s1, e1, OBreak) =>
                      match cexec f s1 rest with
                      | None => None | Some (s2, e2, o) => Some (s2, e1 ++ e2, o) end
                  | Some (s1, e1, OReturn) => Some (s1, e1, OReturn)     (* `return;` leaves the function *)
                  | Some (s1, e1, _) =>
                      match cexec f s1 (NWhile c body :: rest) with
                      | None => None | Some (s2, e2, o) => Some (s2, e1 ++ e2, o) end
                  end
                else cexec f sg rest
            end
        | NFor x cnt body =>
            (* for (int x = 0; x < cnt; ++x) { body }   -- cnt is re-evaluated before every iteration *)
            (* the flag of the result: the body executed `return;` *)
            let fix iter (k : nat) (s0 : cstore) : option (cstore * list ev * bool) :=
              match k with
              | O => None                                  (* iteration budget exhausted *)
              | S k' =>
                  match clook s0 x, cev cnt s0 with
                  | Some (VI i), Some nv =>
                      match as_count nv with
                      | None => None
                      | Some n =>
                          if i <? n then
                            match block s0 body with
                            | None => None
                            | Some (s1, e1, OBreak) => Some (s1, e1, false)
                            | Some (s1, e1, OReturn) => Some (s1, e1, true)
                            | Some (s1, e1, _) =>               (* body completed or `continue;`: ++x *)
                                match clook s1 x with
                                | Some (VI j) =>
                                    match cupd x (VI (j + 1)) s1 with
                                    | None => None
                                    | Some s2 =>
                                        match iter k' s2 with
                                        | None => None | Some (s3, e3, r) => Some (s3, e1 ++ e3, r) end
                                    end
                                | _ => None
                                end
                            end
                          else Some (s0, [], false)
                      end
                  | _, _ => None
                  end
              end in
            match iter fuel ((x, (TyInt, VI 0)) :: sg) with
            | None => None
            | Some (s1, e1, true) => Some (lastn (length sg) s1, e1, OReturn)
            | Some (s1, e1, false) =>
                match cexec f (lastn (length sg) s1) rest with
                | None => None | Some (s2, e2, o) => Some (s2, e1 ++ e2, o) end
            end
        end
      end
    end.

  (* dynamic initialisation of the globals, in declaration order *)
  Fixpoint init_globals (gs : list gdecl) (sg : cstore) : option cstore :=
    match gs with
    | [] => Some sg
    | g :: r =>
        match ceval (g_init g) sg with
        | Some v => init_globals r ((g_name g, (g_ty g, conv (g_ty g) v)) :: sg)
        | None => None
        end
    end.

  Fixpoint cpasses (fuel : nat) (n : nat) (sg : cstore) (body : list cnode) : option (list ev) :=
    match n with
    | O => Some []
    | S k =>
        (* loop() ran to its end or returned early *)
        match cexec fuel sg body with
        | Some (s1, e1, ONormal) | Some (s1, e1, OReturn) =>
            match cpasses fuel k (lastn (length sg) s1) body with Some e2 => Some (e1 ++ e2) | None => None end
        | _ => None
        end
    end.

  (* setup() once, then loop() n times; locals of each function die when it returns *)
  Definition cprog_exec (fuel : nat) (n : nat) (main_present : bool) (c : cprog) : option (list ev) :=
    match init_globals (c_globals c) [] with
    | None => None
    | Some g0 =>
        match cexec fuel g0 (c_setup c) with
        | Some (s1, e0, ONormal) | Some (s1, e0, OReturn) =>
            if main_present
            then match cpasses fuel n (lastn (length g0) s1) (c_loop c) with
                 | Some e1 => Some (e0 ++ e1) | None => None end
            else Some e0
        | _ => None
        end
    end.
End Sem.
