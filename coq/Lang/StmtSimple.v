(* The translation restricted to the guarded fragment of Lang/StmtGuard.v, as a direct
   structural function: inside the guard, Transl.tr_block never promotes, never creates a
   temporary and never declares a local, so every statement maps to at most one node and
   every first top-level assignment to one global.  Proofs/TranslSimpleP.v proves that
   Transl.tr_block computes exactly this inside the guard; Proofs/SimP.v proves the
   simulation for it.  (Definitions only.) *)
From Coq Require Import ZArith List Bool.
From RV Require Import Base.Wire Base.Text Lang.StmtAst Lang.Transl Lang.StmtSem Lang.StmtGuard.
Import ListNotations.
Open Scope Z_scope.

(* the temporaries counter (ctx["tmp_counter"]) after a statement: a tuple assignment through
   temporaries takes one per right-hand side; while/for bodies hand their counter back; the branches of an
   `if` all start from the counter before it and their counters are dropped (Transl.tr_block) *)
Fixpoint knext (k : Z) (p : pstmt) : Z :=
  let fix go (k : Z) (l : list pstmt) : Z := match l with [] => k | x :: r => go (knext k x) r end in
  match p with
  | PTuple _ es => k + Z.of_nat (length es)
  | PWhile _ b | PFor _ _ b => go k b
  | _ => k
  end.
Fixpoint klist (k : Z) (l : list pstmt) : Z := match l with [] => k | x :: r => klist (knext k x) r end.

(* `x_i = __tmp_assign_(k+i);` in order *)
Fixpoint tup_asgs (xs : list ident) (k : Z) : list cnode :=
  match xs with [] => [] | x :: r => NAssign x (XTmp k) :: tup_asgs r (k + 1) end.

(* one statement, nested or not declaring anything.  [ret] = the statement is at the level of
   the main loop (inside `while True:` and inside no for/while loop): there a `continue` ends the
   pass, i.e. it is `return;` in loop(); loop bodies reset the flag.  [k] = the temporaries counter.
   A tuple assignment here assigns declared names: temporaries, then assignments *)
Fixpoint tr1 (ret : bool) (k : Z) (p : pstmt) : list cnode :=
  let fix go (rt : bool) (k : Z) (l : list pstmt) : list cnode :=
    match l with [] => [] | x :: r => tr1 rt k x ++ go rt (knext k x) r end in
  let fix gob (l : list (ann * list pstmt)) : list (Z * list cnode) :=
    match l with [] => [] | (c, b) :: r => (a_id c, go ret k b) :: gob r end in
  match p with
  | PAssign x e => [NAssign x (XE (a_id e))]
  | PAug x op e _ => [NAssign x (XAug x op (a_id e))]
  | PTuple xs es => tuple_tmps es k ++ tup_asgs xs k
  | PIf c b el e => [NIf ((a_id c, go ret k b) :: gob el) (go ret k e)]
  | PWhile c b => [NWhile (a_id c) (go false k b)]
  | PFor x c b => [NFor x (a_id c) (go false k b)]
  | PBreak => [NBreak]
  | PContinue => if ret then [NReturn] else [NContinue]
  | PWrite e => [NWrite (a_id e)]
  | PSleep e => [NSleep (a_id e)]
  | PExprS e => if closed_const e then [] else [NExprS (a_id e)]
  end.
Fixpoint trn (ret : bool) (k : Z) (l : list pstmt) : list cnode :=
  match l with [] => [] | x :: r => tr1 ret k x ++ trn ret (knext k x) r end.
Fixpoint trnb (ret : bool) (k : Z) (l : list (ann * list pstmt)) : list (Z * list cnode) :=
  match l with [] => [] | (c, b) :: r => (a_id c, trn ret k b) :: trnb ret k r end.

(* top level of setup: a first assignment declares a global ([D] = names declared so far) *)
(* tuple declaration of new globals: per element what a first top-level assignment does *)
Fixpoint tup_nodes (xs : list ident) (es : list ann) : list cnode :=
  match xs, es with
  | x :: xr, e :: er =>
      (if closed_const e then [] else [NAssign x (XE (a_id e))]) ++ tup_nodes xr er
  | _, _ => []
  end.
Fixpoint tup_globals (xs : list ident) (es : list ann) : list gdecl :=
  match xs, es with
  | x :: xr, e :: er =>
      {| g_name := x; g_ty := a_ty e;
         g_init := if closed_const e then XE (a_id e) else XDefault (a_ty e) |} :: tup_globals xr er
  | _, _ => []
  end.

Fixpoint trt (ret : bool) (k : Z) (D : list ident) (ps : list pstmt) : list cnode * list gdecl :=
  match ps with
  | [] => ([], [])
  | p :: r =>
      match p with
      | PAssign x e =>
          if tmem x D then (tr1 ret k p ++ fst (trt ret k D r), snd (trt ret k D r))
          else if closed_const e
               then (fst (trt ret k (D ++ [x]) r),
                     {| g_name := x; g_ty := a_ty e; g_init := XE (a_id e) |} :: snd (trt ret k (D ++ [x]) r))
               else (NAssign x (XE (a_id e)) :: fst (trt ret k (D ++ [x]) r),
                     {| g_name := x; g_ty := a_ty e; g_init := XDefault (a_ty e) |} :: snd (trt ret k (D ++ [x]) r))
      | PTuple xs es =>
          if Nat.eqb (length xs) (length es) && forallb (fun x => negb (tmem x D)) xs && nodupb xs
          then (tup_nodes xs es ++ fst (trt ret k (D ++ xs) r), tup_globals xs es ++ snd (trt ret k (D ++ xs) r))
          else (tr1 ret k p ++ fst (trt ret (knext k p) D r), snd (trt ret (knext k p) D r))
      | _ => (tr1 ret k p ++ fst (trt ret (knext k p) D r), snd (trt ret (knext k p) D r))
      end
  end.

(* body level of `while True:` (loop()): a first assignment declares a GLOBAL with the type's default value and
   stays in place as an assignment (it runs on every pass; the variable keeps its value between passes) *)
Fixpoint trl (ret : bool) (k : Z) (D : list ident) (ps : list pstmt) : list cnode * list gdecl :=
  match ps with
  | [] => ([], [])
  | p :: r =>
      match p with
      | PAssign x e =>
          if tmem x D then (tr1 ret k p ++ fst (trl ret k D r), snd (trl ret k D r))
          else (NAssign x (XE (a_id e)) :: fst (trl ret k (D ++ [x]) r),
                {| g_name := x; g_ty := a_ty e; g_init := XDefault (a_ty e) |} :: snd (trl ret k (D ++ [x]) r))
      | _ => (tr1 ret k p ++ fst (trl ret (knext k p) D r), snd (trl ret (knext k p) D r))
      end
  end.

(* [top] = the statement list may declare; [lm] = it is the main-loop body (no static initialisers) *)
Definition trm (ret : bool) (k : Z) (top lm : bool) (D : tenv) (ps : list pstmt) : list cnode * list gdecl :=
  if top then (if lm then trl ret k (map fst D) ps else trt ret k (map fst D) ps) else (trn ret k ps, []).

(* the C outcome that corresponds to a Python outcome: a `continue` at the level of the main loop is `return;` *)
Definition oc (ret : bool) (o : outcome) : outcome :=
  match o with OContinue => if ret then OReturn else OContinue | _ => o end.

(* names whose C binding a statement may update (loop variables live in their own binding) *)
Fixpoint wr (p : pstmt) : list ident :=
  let fix go (l : list pstmt) : list ident := match l with [] => [] | x :: r => wr x ++ go r end in
  let fix gob (l : list (ann * list pstmt)) : list ident := match l with [] => [] | (_, b) :: r => go b ++ gob r end in
  match p with
  | PAssign x _ | PAug x _ _ _ => [x]
  | PTuple xs _ => xs
  | PIf _ b el e => go b ++ gob el ++ go e
  | PWhile _ b => go b
  | PFor _ _ b => go b
  | _ => []
  end.
Fixpoint wr_in (l : list pstmt) : list ident := match l with [] => [] | x :: r => wr x ++ wr_in r end.
Fixpoint wr_inb (l : list (ann * list pstmt)) : list ident :=
  match l with [] => [] | (_, b) :: r => wr_in b ++ wr_inb r end.

(* the per-statement part of StmtGuard.g_block *)
Definition g_step (f : nat) (top : bool) (D : tenv) (L : list ident) (p : pstmt) : option tenv :=
  let nested := fun (L' : list ident) (b : list pstmt) =>
    match g_block f false D L' b with Some _ => true | None => false end in
  match p with
  | PAssign x e =>
      if negb (fv_ok D L e) || tmem x L then None
      else match tlookup x D with
           | Some t => if ty_eqb t (a_ty e) then Some D else None
           | None => if top && negb (is_tmp x) then Some (D ++ [(x, a_ty e)]) else None
           end
  | PAug x op e t_after =>
      if negb (fv_ok D L e) || tmem x L then None
      else match tlookup x D with
           | Some t => if ty_eqb t t_after then Some D else None
           | None => None
           end
  | PTuple xs es =>
      if tuple_asg_ok D L xs es then Some D
      else if top && tuple_decl_ok D L xs es then Some (D ++ combine xs (map a_ty es)) else None
  | PBreak | PContinue => Some D
  | PWrite e | PSleep e | PExprS e => if fv_ok D L e then Some D else None
  | PIf c body elifs els =>
      if fv_ok D L c && nested L body
         && forallb (fun cb => fv_ok D L (fst cb) && nested L (snd cb)) elifs
         && nested L els
      then Some D else None
  | PWhile c body => if fv_ok D L c && nested L body then Some D else None
  | PFor x cnt body =>
      if fv_ok D L cnt && ty_eqb (a_ty cnt) TyInt
         && negb (tmem x (map fst D)) && negb (tmem x L) && negb (is_tmp x)
         && negb (tmem x (a_fv cnt))
         && disjoint (a_fv cnt) (assigned_in body)
         && negb (tmem x (assigned_in body))
         && nested (x :: L) body
      then Some D else None
  end.

(* `break` / `continue` placement accepted by the parser: `continue` inside any loop (the main loop
   included); `break` inside a for/while loop, and not directly at the
   level of the main loop ([ml] = inside `while True:`, [ld] = loop depth as counted by the parser) *)
Fixpoint brk_ok (ml : bool) (ld : nat) (p : pstmt) : bool :=
  let fix go (d : nat) (l : list pstmt) : bool :=
    match l with [] => true | x :: r => brk_ok ml d x && go d r end in
  let fix gob (d : nat) (l : list (ann * list pstmt)) : bool :=
    match l with [] => true | (_, b) :: r => go d b && gob d r end in
  match p with
  | PBreak => match ld with O => false | S O => negb ml | _ => true end
  | PContinue => match ld with O => false | _ => true end
  | PIf _ b el e => go ld b && gob ld el && go ld e
  | PWhile _ b | PFor _ _ b => go (S ld) b
  | _ => true
  end.
Fixpoint brk_l (ml : bool) (ld : nat) (l : list pstmt) : bool :=
  match l with [] => true | x :: r => brk_ok ml ld x && brk_l ml ld r end.
Fixpoint brk_lb (ml : bool) (ld : nat) (l : list (ann * list pstmt)) : bool :=
  match l with [] => true | (_, b) :: r => brk_l ml ld b && brk_lb ml ld r end.

Definition breaks_ok (p : pprog) : bool :=
  brk_l false 0 (p_pre p) && match p_main p with Some b => brk_l true 1 b | None => true end.
