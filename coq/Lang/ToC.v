(* Gallina transcription of [emit] inside parser._to_c_expr (case by case, in the
   emitter's own order), with the operator tables imported from the generated
   Gen/OpTables.v, and the executable guard under which the translation is
   value-preserving (Props/C01_expr.v).

   [to_c G e] is  TOk c        - the emitter prints [print_c c];
                  Rejected     - the emitter raises ValueError;
                  NotModelled k - a node kind this model does not transcribe
                                  (k names the reason, see [why_*]).
   Model file: definitions only. *)
From Coq Require Import ZArith QArith Qround List Bool.
From RV Require Import Base.Wire Base.Text Lang.PyAst Lang.PySem Lang.CAst Lang.CSem Gen.OpTables.
Import ListNotations.
Open Scope Z_scope.

(* what the emitter consults besides the expression: ctx["var_types"] (here already as
   C types) and the names the constant environment binds to a str/tuple/list of known length *)
Record tcx := { tc_types : tenv; tc_lens : list (ident * Z) }.

Inductive tres (A : Type) : Type := TOk (c : A) | Rejected | NotModelled (why : Z).
Arguments TOk {A} c. Arguments Rejected {A}. Arguments NotModelled {A} why.

Definition why_float_repr := 1.      (* float constant whose str() is not a short positional decimal *)
Definition why_write_call := 2.      (* pin_mode / digital_write / analog_write *)
Definition why_infer := 3.           (* int()/float() of an argument whose inferred type needs the un-modelled part of _infer_expr_type *)
Definition why_user_call := 4.       (* call of a user function *)
Definition why_method := 5.          (* method call (device getters, list methods) *)
Definition why_list := 6.            (* list literal / subscript *)
Definition why_listcomp := 7.
Definition why_pin_text := 8.        (* pin given as a string with non-printable characters *)

Definition tbind {A B} (r : tres A) (f : A -> tres B) : tres B :=
  match r with TOk c => f c | Rejected => Rejected | NotModelled k => NotModelled k end.

Fixpoint tseq {A} (l : list (tres A)) : tres (list A) :=
  match l with
  | [] => TOk []
  | x :: r => tbind x (fun c => tbind (tseq r) (fun cs => TOk (c :: cs)))
  end.

(* ---- table lookups ---- *)
Definition binop_code (o : binop) : Z :=
  match o with Add => 0 | Sub => 1 | Mult => 2 | Div => 3 | FloorDiv => 4 | Mod => 5 | Pow => 6 | BitAnd => 7
             | BitOr => 8 | BitXor => 9 | LShift => 10 | RShift => 11 | MatMult => 12 end.
Definition unop_code (o : unop) : Z := match o with UAdd => 0 | USub => 1 | Not => 2 | Invert => 3 end.
Definition cmpop_code (o : cmpop) : Z :=
  match o with PyAst.Eq => 0 | NotEq => 1 | PyAst.Lt => 2 | LtE => 3 | PyAst.Gt => 4 | GtE => 5 | CmpOther => 6 end.

Fixpoint assoc {A} (code : A -> Z) (k : A) (l : list (A * text)) : option text :=
  match l with
  | [] => None
  | (k', t) :: r => if code k =? code k' then Some t else assoc code k r
  end.
Definition bin_tok (o : binop) : option text := assoc binop_code o OpTables.bin.
(* parser._emit_binop, as probed by the translator: (0, tok) infix, (1, name) helper call, (2, _) ValueError *)
Fixpoint assoc2 {A B} (code : A -> Z) (k : A) (l : list (A * B)) : option B :=
  match l with
  | [] => None
  | (k', t) :: r => if code k =? code k' then Some t else assoc2 code k r
  end.
Definition bin_form (o : binop) : option (Z * text) := assoc2 binop_code o OpTables.binemit.
Definition un_tok (o : unop) : option text := assoc unop_code o OpTables.un.
Definition cmp_tok (o : cmpop) : option text := assoc cmpop_code o OpTables.cmp.

(* ---- names ---- *)
Definition n_pin_mode : ident := [112;105;110;95;109;111;100;101].
Definition n_digital_write : ident := [100;105;103;105;116;97;108;95;119;114;105;116;101].
Definition n_analog_write : ident := [97;110;97;108;111;103;95;119;114;105;116;101].
Definition n_digital_read : ident := [100;105;103;105;116;97;108;95;114;101;97;100].
Definition n_analog_read : ident := [97;110;97;108;111;103;95;114;101;97;100].
Definition n_pin : ident := [112;105;110].

(* ---- the part of _infer_expr_type that int()/float() need: is the argument a String? ---- *)
Inductive lbl := LInt | LFloat | LBool | LString.
Definition lbl_eqb (a b : lbl) : bool :=
  match a, b with LInt, LInt | LFloat, LFloat | LBool, LBool | LString, LString => true | _, _ => false end.
Definition lbl_of_cty (t : cty) : lbl :=
  match t with TInt => LInt | TFloat => LFloat | TBool => LBool | TString | TCharP => LString end.
Definition lbl_of_text (t : text) : option lbl :=
  if text_eqb t [105;110;116] then Some LInt else if text_eqb t [102;108;111;97;116] then Some LFloat
  else if text_eqb t [98;111;111;108] then Some LBool else if text_eqb t [83;116;114;105;110;103] then Some LString
  else None.
Definition is_name (e : pexpr) : bool := match e with EName _ => true | _ => false end.
Definition is_lstring (l : lbl) : bool := match l with LString => true | _ => false end.
Definition is_lfloat (l : lbl) : bool := match l with LFloat => true | _ => false end.

Fixpoint all_some {A} (l : list (option A)) : bool :=
  match l with [] => true | Some _ :: r => all_some r | None :: _ => false end.

(* None: the real function would mutate var_types (String contagion on a name operand) or
   looks at user functions, methods or lists: not transcribed here *)
Fixpoint infer (G : tcx) (e : pexpr) : option lbl :=
  match e with
  | EInt _ => Some LInt | EBool _ => Some LBool | EFloat _ => Some LFloat | EStr _ => Some LString
  | EConstOther => Some LInt
  | EName x => Some (match tlookup x (tc_types G) with Some t => lbl_of_cty t | None => LInt end)
  | EUn Not _ => Some LBool
  | EUn _ a => infer G a
  | EBoolOp _ _ | ECompare _ _ _ => Some LBool
  | EIfExp _ a b =>
      match infer G a, infer G b with
      | Some ta, Some tb =>
          Some (if lbl_eqb ta tb then ta
                else if is_lstring ta || is_lstring tb then LString
                else if is_lfloat ta || is_lfloat tb then LFloat else LInt)
      | _, _ => None
      end
  | EJoined _ => Some LString
  | ECall f args _ =>
      if all_some (map (infer G) args) then
        match tlookup f OpTables.builtin_ret with
        | Some t => lbl_of_text t
        | None => None
        end
      else None
  | EBin _ a b =>
      match infer G a, infer G b with
      | Some l, Some r =>
          if is_lstring l || is_lstring r then
            if (is_name a && negb (is_lstring l)) || (is_name b && negb (is_lstring r)) then None
            else Some LString
          else if is_lfloat l || is_lfloat r then Some LFloat else Some LInt
      | _, _ => None
      end
  | EMethod _ _ _ _ | ESubscript _ _ | EList _ => None
  | EOther t => if t =? 3 then None else Some LInt
  | ETuple _ | EFmt _ _ => Some LInt
  end.

(* ---- helpers of the Call branch ---- *)
Definition printable (s : text) : bool := forallb (fun c => (32 <=? c) && (c <=? 126)) s.
Definition all_digits (s : text) : bool := match s with [] => false | _ => forallb is_digit s end.
Definition is_alpha_ (c : Z) : bool := ((65 <=? c) && (c <=? 90)) || ((97 <=? c) && (c <=? 122)) || (c =? 95).
Definition is_identifier (s : text) : bool :=
  match s with c :: r => is_alpha_ c && forallb (fun d => is_alpha_ d || is_digit d) r | [] => false end.

(* _literal_length *)
Definition lit_len (G : tcx) (a : pexpr) : option Z :=
  match a with
  | EStr s => Some (Z.of_nat (length s))
  | ETuple es | EList es => Some (Z.of_nat (length es))
  | EName x => tlookup x (tc_lens G)
  | _ => None
  end.

Section Helpers.
  Variable rec : pexpr -> tres cexpr.

  (* Compare: zip(ops, comparators); the token is looked up before the comparator is emitted *)
  Fixpoint to_links (ops : list cmpop) (rs : list pexpr) {struct rs} : tres (list (text * cexpr)) :=
    match rs, ops with
    | r :: rs', op :: ops' =>
        match cmp_tok op with
        | None => Rejected
        | Some tok => tbind (rec r) (fun r' => tbind (to_links ops' rs') (fun ls => TOk ((tok, r') :: ls)))
        end
    | _, _ => TOk []
    end.

  (* JoinedStr with at least one FormattedValue: left fold building String(...) + ... *)
  Fixpoint join_parts (acc : option cexpr) (ps : list pexpr) {struct ps} : tres (option cexpr) :=
    match ps with
    | [] => TOk acc
    | p :: r =>
        match p with
        | EStr s =>
            match s with
            | [] => join_parts acc r
            | _ => join_parts (Some (match acc with None => CString (CStrLit s) | Some a => CBin t_plus a (CStrLit s) end)) r
            end
        | EFmt ok v =>
            if ok then
              tbind (rec v) (fun c =>
              join_parts (Some (match acc with None => CString c | Some a => CBin t_plus a (CString c) end)) r)
            else Rejected
        | _ => Rejected
        end
    end.

  (* first keyword argument called [name] *)
  Fixpoint kw_find (name : ident) (kws : list (ident * pexpr)) : option (pexpr * tres cexpr) :=
    match kws with
    | [] => None
    | (k, v) :: r => if text_eqb k name then Some (v, rec v) else kw_find name r
    end.
End Helpers.

Definition has_fmt (ps : list pexpr) : bool := existsb (fun p => match p with EFmt _ _ => true | _ => false end) ps.
Definition lit_parts (ps : list pexpr) : text :=
  List.concat (map (fun p => match p with EStr s => s | _ => [] end) ps).

(* parser._is_c_string_literal (since the repair of F-C06-literal-concat / F-C01-strlit-concat / F-C01-int-strlit-cond):
   the expression is emitted as a C string literal, or as a choice between two - its C++ type is const char* *)
Fixpoint charp_src (e : pexpr) : bool :=
  match e with
  | EStr _ => true
  | EJoined ps => negb (has_fmt ps)
  | EIfExp _ a b => charp_src a && charp_src b
  | _ => false
  end.
(* `+` of two such expressions: the emitter wraps the left one as String(...) *)
Definition add_wrap (op : binop) (a b : pexpr) : bool :=
  match op with Add => charp_src a && charp_src b | _ => false end.

(* _render_pin_argument, after the argument itself was emitted as [c] *)
Definition render_pin (an : bool) (node : pexpr) (c : cexpr) : tres cexpr :=
  match node with
  | EStr s =>
      if printable s then
        let cand := strip s in
        if all_digits cand || is_identifier cand then TOk (CRead an (Some cand) c) else TOk (CRead an None c)
      else NotModelled why_pin_text
  | _ => TOk (CRead an None c)
  end.

Fixpoint fold_minmax (f : text) (acc : cexpr) (l : list cexpr) : cexpr :=
  match l with [] => acc | x :: r => fold_minmax f (CCall f [acc; x]) r end.

Fixpoint to_c (G : tcx) (e : pexpr) {struct e} : tres cexpr :=
  match e with
  | EInt z => TOk (CIntLit z)
  | EBool b => TOk (CBoolLit b)
  | EFloat q => if float_simple q then TOk (CFloatLit q) else NotModelled why_float_repr
  | EStr s => TOk (CStrLit s)
  | EConstOther => Rejected
  | EName x => TOk (CVar x)
  | ESubscript v i => tbind (to_c G v) (fun _ => tbind (to_c G i) (fun _ => NotModelled why_list))
  | EList es => tbind (tseq (map (to_c G) es)) (fun _ => NotModelled why_list)
  | EBin op a b =>
      match bin_tok op with
      | None => Rejected
      | Some _ =>                    (* type(n.op) in _BIN; the operands are emitted first, then _emit_binop decides *)
          tbind (to_c G a) (fun a' => tbind (to_c G b) (fun b' =>
          let l' := if add_wrap op a b then CString a' else a' in
          match bin_form op with
          | Some (0, tok) => TOk (CBin tok l' b')
          | Some (1, f) => TOk (CCall f [l'; b'])
          | _ => Rejected
          end))
      end
  | EUn op a =>
      match un_tok op with
      | None => Rejected
      | Some tok => tbind (to_c G a) (fun a' => TOk (CUn tok a'))
      end
  | EBoolOp op vs =>
      tbind (tseq (map (to_c G) vs)) (fun cs => TOk (match op with And => CAnd cs | Or => COr cs end))
  | ECompare l ops rs =>
      tbind (to_c G l) (fun l' => tbind (to_links (to_c G) ops rs) (fun ls => TOk (CCmp l' ls)))
  | EIfExp c a b =>
      tbind (to_c G c) (fun c' => tbind (to_c G a) (fun a' => tbind (to_c G b) (fun b' => TOk (CCond c' a' b'))))
  | EJoined ps =>
      if has_fmt ps then
        tbind (join_parts (to_c G) None ps) (fun acc => TOk (match acc with Some c => c | None => CStrLit [] end))
      else TOk (CStrLit (lit_parts ps))
  | EMethod o _ _ _ => tbind (to_c G o) (fun _ => NotModelled why_method)
  | ECall f args kws =>
      if text_eqb f n_pin_mode || text_eqb f n_digital_write || text_eqb f n_analog_write then NotModelled why_write_call
      else if text_eqb f n_digital_read || text_eqb f n_analog_read then
        let an := text_eqb f n_analog_read in
        if negb (forallb (fun kv => text_eqb (fst kv) n_pin) kws) then Rejected
        else
          match args, kw_find (to_c G) n_pin kws with
          | _ :: _, Some _ => Rejected                                   (* duplicate argument *)
          | a :: _, None => tbind (to_c G a) (render_pin an a)
          | [], Some (v, cv) => tbind cv (render_pin an v)
          | [], None => Rejected
          end
      else
        let nokw := match kws with [] => true | _ => false end in
        match args with
        | [a] =>
            if nokw && text_eqb f n_str then tbind (to_c G a) (fun a' => TOk (CString a'))
            else if nokw && (text_eqb f n_int || text_eqb f n_float) then
              let fl := text_eqb f n_float in
              tbind (to_c G a) (fun a' =>
              match infer G a with
              | None => NotModelled why_infer
              | Some LString => TOk (CToNum fl (charp_src a) a')
              | Some _ => TOk (CCast (if fl then TFloat else TInt) a')
              end)
            else if nokw && text_eqb f n_bool then tbind (to_c G a) (fun a' => TOk (CCast TBool a'))
            else if nokw && text_eqb f n_len then
              match lit_len G a with
              | Some n => TOk (CIntLit n)
              | None => tbind (to_c G a) (fun a' => TOk (CLen a'))
              end
            else if nokw && text_eqb f n_abs then tbind (to_c G a) (fun a' => TOk (CCall t_abs [a']))
            else if nokw && (text_eqb f n_max || text_eqb f n_min) then to_c G a
            else if nokw then tbind (to_c G a) (fun _ => NotModelled why_user_call) else Rejected
        | _ =>
            if nokw && (text_eqb f n_max || text_eqb f n_min) then
              match args with
              | [] => NotModelled why_user_call                           (* min(): printed as a plain call *)
              | _ =>
                  tbind (tseq (map (to_c G) args)) (fun cs =>
                  match cs with
                  | c0 :: r => TOk (fold_minmax (if text_eqb f n_max then t_max else t_min) c0 r)
                  | [] => Rejected
                  end)
              end
            else if nokw then tbind (tseq (map (to_c G) args)) (fun _ => NotModelled why_user_call) else Rejected
        end
  | EOther t => if t =? 3 then NotModelled why_listcomp else Rejected
  | ETuple _ | EFmt _ _ => Rejected
  end.

(* ================================================================== *)
(* value correspondence and the guard                                   *)
(* ================================================================== *)

Definition vrel (v : pval) (w : cval) : Prop :=
  match v, w with
  | VInt z, CInt z' => z = z'
  | VBool b, CBool b' => b = b'
  | VBool b, CInt z => z = b01 b                  (* where C++ has promoted the bool *)
  | VFloat q, CFloat q' => q = q'
  | VStr s, CStr s' | VStr s, CLit s' => s = s'
  | _, _ => False
  end.

(* a float value is kept in lowest terms (peval and ceval normalise with Qred) *)
Definition qnormal (q : Q) : bool :=
  let r := Qred q in (Qnum r =? Qnum q) && Pos.eqb (Qden r) (Qden q).
Definition vfits (v : pval) : bool :=
  match v with VInt z => fits z | VFloat q => qnormal q | VBool _ | VStr _ => true | _ => false end.
Definition is_numv (v : pval) : bool := match v with VInt _ | VBool _ | VFloat _ => true | _ => false end.
Definition is_intv (v : pval) : bool := match v with VInt _ | VBool _ => true | _ => false end.
Definition is_floatv (v : pval) : bool := match v with VFloat _ => true | _ => false end.
Definition is_strv (v : pval) : bool := match v with VStr _ => true | _ => false end.
Definition is_boolv (v : pval) : bool := match v with VBool _ => true | _ => false end.

(* the guard of one binary operator on numeric operands (int, bool, float) *)
Definition op_guard (op : binop) (a b : pval) : bool :=
  match op with
  | Add | Sub | Mult => is_numv a && is_numv b
  | Div => is_numv a && is_numv b && (is_floatv a || is_floatv b)
  | FloorDiv | Mod => is_numv a && is_numv b          (* the helper templates follow Python on ints and floats *)
  | Pow | MatMult => false
  | BitAnd | BitOr | BitXor => is_intv a && is_intv b
  | LShift | RShift =>
      match is_intlike a, is_intlike b with Some _, Some y => (0 <=? y) && (y <? 32) | _, _ => false end
  end.

Definition bin_guard (op : binop) (a b : pval) (ta tb : cty) : bool :=
  if is_numv a && is_numv b then op_guard op a b
  else match op with
       | Add => is_strv a && is_strv b && negb (is_charp ta && is_charp tb)
       | _ => false
       end.

Definition cmp_guard (a b : pval) (ta tb : cty) : bool :=
  (is_numv a && is_numv b) || (is_strv a && is_strv b && negb (is_charp ta && is_charp tb)).

Definition kind_ok (ta tb : option cty) : bool :=
  match ta, tb with
  | Some ta, Some tb =>
      (is_intty ta && is_intty tb) || (is_numty ta && negb (is_intty ta) && is_numty tb && negb (is_intty tb))
      || (is_strty ta && is_strty tb)
  | _, _ => false
  end.

Definition ascii (s : text) : bool := forallb (fun c => (0 <=? c) && (c <? 128)) s.

Definition pv (rho : env) (e : pexpr) : option pval := match peval rho e with Ok v => Some v | Err _ => None end.
Definition sty (G : tcx) (e : pexpr) : option cty :=
  match to_c G e with TOk c => ctype (tc_types G) c | _ => None end.
Definition res_fits (r : res pval) : bool := match r with Ok v => vfits v | Err _ => false end.
(* the translation is well typed as a whole (also the operands Python never evaluates) *)
Definition wt (G : tcx) (e : pexpr) : bool := match sty G e with Some _ => true | None => false end.

Section GuardLists.
  Variable g : pexpr -> bool.
  Variable rho : env.
  Variable G : tcx.

  (* and / or: every operand that Python evaluates is a bool *)
  Fixpoint guard_bools (continue_on : bool) (l : list pexpr) : bool :=
    match l with
    | [] => true
    | x :: r =>
        g x && match pv rho x with
               | Some (VBool b) => if Bool.eqb b continue_on then guard_bools continue_on r else true
               | _ => false
               end
    end.

  Fixpoint guard_chain (lv : pval) (tl : cty) (ops : list cmpop) (rs : list pexpr) {struct rs} : bool :=
    match rs, ops with
    | r :: rs', op :: ops' =>
        g r && match pv rho r, sty G r with
               | Some rv, Some tr =>
                   cmp_guard lv rv tl tr &&
                   match py_cmp op lv rv with
                   | Ok true => guard_chain rv tr ops' rs'
                   | Ok false => true
                   | Err _ => false
                   end
               | _, _ => false
               end
    | [], [] => true
    | _, _ => false
    end.

  Fixpoint guard_parts (ps : list pexpr) : bool :=
    match ps with
    | [] => true
    | p :: r =>
        match p with
        | EStr s => lit_ok s
        | EFmt true v => g v && match pv rho v with Some (VInt _) | Some (VStr _) => true | _ => false end
        | _ => false
        end && guard_parts r
    end.
End GuardLists.

(* C's atol and Python's int() read the same number from the text (Proofs: always, when int() succeeds) *)
Definition atol_ok (s : text) : bool := match parse_int s with Ok z => c_atol s =? z | Err _ => false end.

Fixpoint expr_guard (G : tcx) (rho : env) (e : pexpr) {struct e} : bool :=
  match e with
  | EInt z => fits z
  | EBool _ | EFloat _ => true
  | EStr s => lit_ok s
  | EName x => match lookup x rho with Some v => vfits v | None => false end
  | EBin op a b =>
      expr_guard G rho a && expr_guard G rho b &&
      match pv rho a, pv rho b, sty G a, sty G b with
      | Some x, Some y, Some ta, Some tb =>
          bin_guard op x y (if add_wrap op a b then TString else ta) tb && res_fits (py_bin op x y)
      | _, _, _, _ => false
      end
  | EUn op a =>
      expr_guard G rho a &&
      match pv rho a with Some x => is_numv x && res_fits (py_un op x) | None => false end
  | EBoolOp op vs =>
      match vs with
      | [] => false
      | _ => wt G e && guard_bools (expr_guard G rho) rho (match op with And => true | Or => false end) vs
      end
  | ECompare l ops rs =>
      wt G e && expr_guard G rho l &&
      match ops, pv rho l, sty G l with
      | _ :: _, Some lv, Some tl => guard_chain (expr_guard G rho) rho G lv tl ops rs
      | _, _, _ => false
      end
  | EIfExp c a b =>
      expr_guard G rho c &&
      match pv rho c with
      | Some cv => is_numv cv && kind_ok (sty G a) (sty G b) && (if truthy cv then expr_guard G rho a else expr_guard G rho b)
      | None => false
      end
  | EJoined ps => guard_parts (expr_guard G rho) rho ps
  | ECall f args kws =>
      match kws, args with
      | [], [a] =>
          if text_eqb f n_str then
            expr_guard G rho a && match pv rho a with Some (VInt _) | Some (VStr _) => true | _ => false end
          else if text_eqb f n_int then
            expr_guard G rho a &&
            match pv rho a with
            | Some (VStr s) => match infer G a with Some LString => wt G e && res_fits (py_call n_int [VStr s]) && atol_ok s | _ => false end
            | Some x => is_numv x && match infer G a with Some LString | None => false | _ => true end
                        && res_fits (py_call n_int [x])
            | None => false
            end
          else if text_eqb f n_float then
            expr_guard G rho a &&
            match pv rho a with
            | Some x => is_numv x && match infer G a with Some LString | None => false | _ => true end
            | None => false
            end
          else if text_eqb f n_bool then
            expr_guard G rho a && match pv rho a with Some x => is_numv x | None => false end
          else if text_eqb f n_len then
            match lit_len G a with
            | Some n => fits n
            | None => expr_guard G rho a && match pv rho a with Some (VStr s) => ascii s && fits (Z.of_nat (length s)) | _ => false end
            end
          else if text_eqb f n_abs then
            expr_guard G rho a && match pv rho a with Some x => is_numv x && res_fits (py_call n_abs [x]) | None => false end
          else false
      | [], [a; b] =>
          if text_eqb f n_min || text_eqb f n_max then
            expr_guard G rho a && expr_guard G rho b &&
            match pv rho a, pv rho b with
            | Some x, Some y => is_numv x && is_numv y && kind_ok (sty G a) (sty G b)
            | _, _ => false
            end
          else false
      | _, _ => false
      end
  | _ => false
  end.

Definition py_len (v : pval) : option Z :=
  match v with
  | VStr s => Some (Z.of_nat (length s))
  | VList l | VTuple l => Some (Z.of_nat (length l))
  | _ => None
  end.

(* the C variables hold the Python values, at the declared types the emitter knows;
   names folded by len() still have the recorded length *)
Definition env_rel (G : tcx) (rho : env) (s : cenv) : Prop :=
  (forall x v, lookup x rho = Some v -> vfits v = true ->
     exists w, tlookup x s = Some w /\ vrel v w /\ tlookup x (tc_types G) = Some (tag_of w))
  /\ (forall x n, tlookup x (tc_lens G) = Some n ->
        match lookup x rho with Some v => py_len v = Some n | None => True end).
