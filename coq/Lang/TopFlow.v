(* Two parts of parse() / _parse_function that Lang/Lex.v left out (model only, no proofs).

   (1) THE END OF THE SCRIPT.  parse() keeps a flag `seen_main_loop`; it is set when the column-0
       `while True:` is taken, and from then on the first line that is neither blank nor a comment
       raises ValueError("statements after the main loop are unreachable") - before the target()
       capture, before the import filter, before every header test.  [top_flow] is Lex.top_parse
       with that flag: None = rejected.  (Lex.top_parse alone would hand a second `while True:`, a
       `def`, an `if` ... after the main loop to the statement layer as if Python could reach it.)

   (2) RE-SPECIALISATION OF A FUNCTION.  _parse_function keeps `(params_src, list(block))` in
       ctx["function_sources"]; a call site whose argument types differ from the signatures seen so
       far makes _ensure_function_variant parse THE KEPT LINES again
       (`_parse_simple_lines(block, ctx, scope="function", depth=1)`), once per new signature.
       [kept_source] is what is kept (the raw block, unchanged), [variant_nodes] the block skeleton
       of a variant, [variant_calls] the calls of _parse_simple_lines one re-specialisation makes
       (what the tie observes).  WHEN a variant is made depends on type inference at the call sites
       (C02's model); the tie accepts a variant segment at any point of the call trace
       ([explain]: the observed trace is the script's own trace with segments of [variant_calls] of
       defs of the script inserted). *)
From Coq Require Import ZArith List Bool.
From RV Require Import Base.Wire Base.Text Lang.Rx Lang.Lex.
Import ListNotations.
Open Scope Z_scope.

(* the test at the head of the dispatch loop: `if not text or text.startswith('#')` *)
Definition top_junk (raw : text) : bool :=
  let t := strip (strip_inline_comment raw) in is_nil t || starts_hash t.

Definition ocons {A} (x : A) (o : option (list A)) : option (list A) :=
  match o with Some l => Some (x :: l) | None => None end.

Fixpoint top_flow (fuel : nat) (seen : bool) (ls : list text) : option (list titem) :=
  match fuel with
  | O => Some []
  | S f =>
    match ls with
    | [] => Some []
    | raw :: rest =>
      let t := strip (strip_inline_comment raw) in
      if is_nil t || starts_hash t then top_flow f seen rest
      else if seen then None                       (* statements after the main loop are unreachable *)
      else if top_target t then top_flow f seen rest
      else if top_import t then top_flow f seen rest
      else if (indent_of raw =? 0)%nat && re_while_true t then
        let blk := take_block O rest in
        ocons (TLoop blk (parse_lines blk)) (top_flow f true (skipn (length blk) rest))
      else if (indent_of raw =? 0)%nat && re_while t then
        let blk := take_block O rest in
        ocons (TSetup (raw :: blk) (parse_lines (raw :: blk))) (top_flow f seen (skipn (length blk) rest))
      else if (indent_of raw =? 0)%nat && re_def t then
        let blk := take_block O rest in
        ocons (TDef t blk (parse_lines blk)) (top_flow f seen (skipn (length blk) rest))
      else if (indent_of raw =? 0)%nat && re_for_range t then
        let blk := take_block O rest in
        ocons (TSetup (raw :: blk) (parse_lines (raw :: blk))) (top_flow f seen (skipn (length blk) rest))
      else if re_if t then
        let sn := struct_scan re_elif_or_else (indent_of raw) true rest in
        ocons (TSetup (raw :: sn) (parse_lines (raw :: sn))) (top_flow f seen (skipn (length sn) rest))
      else if re_try t then
        let sn := struct_scan re_except (indent_of raw) true rest in
        ocons (TSetup (raw :: sn) (parse_lines (raw :: sn))) (top_flow f seen (skipn (length sn) rest))
      else ocons (TSetup [raw] (parse_lines [raw])) (top_flow f seen rest)
    end
  end.

Definition parse_flow (ls : list text) : option (list titem) := top_flow (S (length ls)) false ls.

Definition is_loop (it : titem) : bool := match it with TLoop _ _ => true | _ => false end.

(* the calls of _parse_simple_lines made before the rejection: the items taken so far *)
Fixpoint flow_prefix (fuel : nat) (seen : bool) (ls : list text) : list titem :=
  match fuel with
  | O => []
  | S f =>
    match ls with
    | [] => []
    | raw :: rest =>
      let t := strip (strip_inline_comment raw) in
      if is_nil t || starts_hash t then flow_prefix f seen rest
      else if seen then []
      else if top_target t then flow_prefix f seen rest
      else if top_import t then flow_prefix f seen rest
      else if (indent_of raw =? 0)%nat && re_while_true t then
        let blk := take_block O rest in
        TLoop blk (parse_lines blk) :: flow_prefix f true (skipn (length blk) rest)
      else if (indent_of raw =? 0)%nat && re_while t then
        let blk := take_block O rest in
        TSetup (raw :: blk) (parse_lines (raw :: blk)) :: flow_prefix f seen (skipn (length blk) rest)
      else if (indent_of raw =? 0)%nat && re_def t then
        let blk := take_block O rest in
        TDef t blk (parse_lines blk) :: flow_prefix f seen (skipn (length blk) rest)
      else if (indent_of raw =? 0)%nat && re_for_range t then
        let blk := take_block O rest in
        TSetup (raw :: blk) (parse_lines (raw :: blk)) :: flow_prefix f seen (skipn (length blk) rest)
      else if re_if t then
        let sn := struct_scan re_elif_or_else (indent_of raw) true rest in
        TSetup (raw :: sn) (parse_lines (raw :: sn)) :: flow_prefix f seen (skipn (length sn) rest)
      else if re_try t then
        let sn := struct_scan re_except (indent_of raw) true rest in
        TSetup (raw :: sn) (parse_lines (raw :: sn)) :: flow_prefix f seen (skipn (length sn) rest)
      else TSetup [raw] (parse_lines [raw]) :: flow_prefix f seen rest
    end
  end.

Definition flow_trace (ls : list text) : list (Z * nat * list text) :=
  flat_map (calls_item (S (length ls))) (flow_prefix (S (length ls)) false ls).

(* ---------------------------------------------------------------- function variants *)
Definition kept_source (blk : list text) : list text := blk.          (* `list(block)` *)
Definition variant_nodes (blk : list text) : list node := parse_lines (kept_source blk).
Definition variant_calls (fuel : nat) (blk : list text) : list (Z * nat * list text) :=
  (2, 1%nat, kept_source blk) :: calls_nodes fuel 2 2%nat (variant_nodes blk).

Definition def_blocks (its : list titem) : list (list text) :=
  flat_map (fun it => match it with TDef _ raw _ => [raw] | _ => [] end) its.

Definition text_eqb (a b : text) : bool :=
  (length a =? length b)%nat && forallb (fun p => fst p =? snd p) (combine a b).
Definition texts_eqb (a b : list text) : bool :=
  (length a =? length b)%nat && forallb (fun p => text_eqb (fst p) (snd p)) (combine a b).
Definition call_eqb (a b : Z * nat * list text) : bool :=
  match a, b with (s1, d1, l1), (s2, d2, l2) => (s1 =? s2) && (d1 =? d2)%nat && texts_eqb l1 l2 end.

(* is the observed trace the script's own trace with variant segments inserted - at any point, also inside another
   segment (a variant whose body calls a function with a new signature makes that function's variant on the spot)? *)
(* pre = true: the observed trace may stop early (a script the statement layer rejects half-way) *)
Fixpoint explain_p (pre : bool) (fuel : nat) (segs : list (list (Z * nat * list text)))
         (own real : list (Z * nat * list text)) : bool :=
  match fuel with
  | O => false
  | S f =>
    match real with
    | [] => pre || is_nil own
    | r :: real' =>
      (match own with
       | m :: own' => call_eqb m r && explain_p pre f segs own' real'
       | [] => false
       end)
      || existsb (fun seg => match seg with
                             | [] => false
                             | s :: seg' => call_eqb s r && explain_p pre f segs (seg' ++ own) real'
                             end) segs
    end
  end.

Definition explain := explain_p false.

Definition variant_segments (ls : list text) : list (list (Z * nat * list text)) :=
  map (variant_calls (S (length ls))) (def_blocks (flow_prefix (S (length ls)) false ls)).
