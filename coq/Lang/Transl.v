(* Gallina re-implementation of the statement translation of transpile/parser.py:
   _handle_assignment_ast, the if/while/for handlers of _parse_simple_lines with their
   child contexts, _promote_branch_decls, _make_promotion_decls, the two rewriters, the
   break guard, and parse()'s setup/loop split.  [None] = the parser raises ValueError.

   Where declarations go ([glob] = the statement list is at setup depth 0 OR is the body of the main
   `while True:` loop): a name first assigned there - directly, by a tuple assignment, or hoisted to that
   level out of a nested block - is a sketch GLOBAL (ctx["globals"]); at setup depth 0 a name-free constant
   becomes the static initialiser, in the main loop the global always gets the type's default value and the
   assignment stays in place (it runs on every pass).  Anywhere deeper a first assignment is a local
   VarDecl that the enclosing block hoists. *)
From Coq Require Import ZArith List Bool.
From RV Require Import Base.Wire Base.Text Lang.StmtAst.
Import ListNotations.
Open Scope Z_scope.

Record tst := {
  declared : list ident;                 (* ctx["var_declared"], in insertion order *)
  vtypes : list (ident * ty);            (* ctx["var_types"] *)
  globals : list gdecl;                  (* ctx["globals"] (shared by all contexts) *)
  tmpc : Z                               (* ctx["tmp_counter"] *)
}.

Definition st0 : tst := {| declared := []; vtypes := []; globals := []; tmpc := 0 |}.

Definition is_declared (x : ident) (s : tst) : bool := tmem x (declared s).
Fixpoint set_ty (x : ident) (t : ty) (l : list (ident * ty)) : list (ident * ty) :=
  match l with
  | [] => [(x, t)]
  | (y, u) :: r => if text_eqb x y then (x, t) :: r else (y, u) :: set_ty x t r
  end.
Definition get_ty (x : ident) (l : list (ident * ty)) : ty :=
  match tlookup x l with Some t => t | None => TyInt end.

Definition declare (x : ident) (s : tst) : tst :=
  {| declared := declared s ++ [x]; vtypes := vtypes s; globals := globals s; tmpc := tmpc s |}.
Definition with_ty (x : ident) (t : ty) (s : tst) : tst :=
  {| declared := declared s; vtypes := set_ty x t (vtypes s); globals := globals s; tmpc := tmpc s |}.
Definition add_global (g : gdecl) (s : tst) : tst :=
  {| declared := declared s; vtypes := vtypes s; globals := globals s ++ [g]; tmpc := tmpc s |}.
Definition with_tmpc (k : Z) (s : tst) : tst :=
  {| declared := declared s; vtypes := vtypes s; globals := globals s; tmpc := k |}.
Definition has_global (x : ident) (s : tst) : bool :=
  existsb (fun g => text_eqb (g_name g) x) (globals s).

(* child context: copies of declared / var_types, shared globals list *)
Definition child_of (parent : tst) (gl : list gdecl) : tst :=
  {| declared := declared parent; vtypes := vtypes parent; globals := gl; tmpc := tmpc parent |}.

(* ---- single-name assignment ---- *)
Definition tr_assign (glob : bool) (x : ident) (e : ann) (s : tst) : list cnode * tst :=
  let s1 := with_ty x (a_ty e) s in
  if is_declared x s then ([NAssign x (XE (a_id e))], s1)
  else
    let s2 := declare x s1 in
    if glob then
      if closed_const e
      then ([], add_global {| g_name := x; g_ty := a_ty e; g_init := XE (a_id e) |} s2)
      else ([NAssign x (XE (a_id e))],
            add_global {| g_name := x; g_ty := a_ty e; g_init := XDefault (a_ty e) |} s2)
    else ([NDecl x (a_ty e) (XE (a_id e)) false], s2).

(* in the main-loop body no first assignment becomes a static initialiser: the value is assigned on every pass *)
Definition rt_ann (main_loop : bool) (e : ann) : ann :=
  if main_loop then {| a_id := a_id e; a_ty := a_ty e; a_const := false; a_fv := a_fv e |} else e.

(* ---- tuple assignment ---- *)
Fixpoint set_tys (xs : list ident) (es : list ann) (s : tst) : tst :=
  match xs, es with
  | x :: xr, e :: er => set_tys xr er (with_ty x (a_ty e) s)
  | _, _ => s
  end.

Fixpoint tuple_global (xs : list ident) (es : list ann) (s : tst) : list cnode * tst :=
  match xs, es with
  | x :: xr, e :: er =>
      let s1 := declare x s in
      let '(ns, s2) :=
        if closed_const e
        then ([], add_global {| g_name := x; g_ty := a_ty e; g_init := XE (a_id e) |} s1)
        else ([NAssign x (XE (a_id e))],
              add_global {| g_name := x; g_ty := a_ty e; g_init := XDefault (a_ty e) |} s1) in
      let '(rest, s3) := tuple_global xr er s2 in
      (ns ++ rest, s3)
  | _, _ => ([], s)
  end.

Fixpoint tuple_tmps (es : list ann) (k : Z) : list cnode :=
  match es with
  | [] => []
  | e :: er => NDeclTmp k (a_ty e) (XE (a_id e)) :: tuple_tmps er (k + 1)
  end.

Fixpoint tuple_binds (xs : list ident) (es : list ann) (k : Z) (s : tst) : list cnode * tst :=
  match xs, es with
  | x :: xr, e :: er =>
      let '(n, s1) :=
        if is_declared x s then (NAssign x (XTmp k), s)
        else (NDecl x (a_ty e) (XTmp k) false, declare x s) in
      let '(rest, s2) := tuple_binds xr er (k + 1) s1 in
      (n :: rest, s2)
  | _, _ => ([], s)
  end.

Definition tr_tuple (glob : bool) (xs : list ident) (es : list ann) (s : tst) : option (list cnode * tst) :=
  if negb (Nat.leb (length xs) (length es)) then None (* fewer values than names: IndexError in the code *)
  else
    let es' := firstn (length xs) es in
    let s1 := set_tys xs es' s in
    let all_new := forallb (fun x => negb (is_declared x s)) xs in
    if all_new && glob then Some (tuple_global xs es' s1)
    else
      let k := tmpc s1 in
      let tmps := tuple_tmps es' k in
      let s2 := with_tmpc (k + Z.of_nat (length es')) s1 in
      let '(binds, s3) := tuple_binds xs es' k s2 in
      Some (tmps ++ binds, s3).

(* tuple assignment at the body level of the main loop: always through the temporaries; a NEW name is a global
   with the default initialiser, assigned from its temporary *)
Fixpoint tuple_binds_main (xs : list ident) (es : list ann) (k : Z) (s : tst) : list cnode * tst :=
  match xs, es with
  | x :: xr, e :: er =>
      let s1 := if is_declared x s then s
                else add_global {| g_name := x; g_ty := a_ty e; g_init := XDefault (a_ty e) |} (declare x s) in
      let '(rest, s2) := tuple_binds_main xr er (k + 1) s1 in
      (NAssign x (XTmp k) :: rest, s2)
  | _, _ => ([], s)
  end.

Definition tr_tuple_main (xs : list ident) (es : list ann) (s : tst) : option (list cnode * tst) :=
  if negb (Nat.leb (length xs) (length es)) then None
  else
    let es' := firstn (length xs) es in
    let s1 := set_tys xs es' s in
    let k := tmpc s1 in
    let tmps := tuple_tmps es' k in
    let s2 := with_tmpc (k + Z.of_nat (length es')) s1 in
    let '(binds, s3) := tuple_binds_main xs es' k s2 in
    Some (tmps ++ binds, s3).

(* ---- promotion ---- *)
Definition new_names (child parent_base : list ident) : list ident :=
  filter (fun x => negb (tmem x parent_base)) child.

(* the default-initialised declaration [_make_promotion_decls] leaves in front of a nested block
   (VarDecl(hoisted=True)); XDefault occurs in a node only there *)
Definition is_hoisted (prom : list ident) (n : cnode) : bool :=
  match n with NDecl x _ (XDefault _) false => tmem x prom | _ => false end.

(* both rewriters DROP the hoisted declaration of a name the enclosing block hoists again (it used to become
   `x = <default>;`, re-executed on every iteration / pass).  Such a node only ever stands at the top level of the
   list being rewritten (its own block's rewrite has already removed the ones further in), so the model drops there. *)
Definition drop_hoisted (prom : list ident) (l : list cnode) : list cnode :=
  filter (fun n => negb (is_hoisted prom n)) l.

(* _rewrite_nodes: replace declarations of promoted names by assignments, everywhere *)
Fixpoint rewrite_deep (prom : list ident) (n : cnode) : cnode :=
  let fix go (l : list cnode) : list cnode :=
    match l with [] => [] | x :: r => rewrite_deep prom x :: go r end in
  let fix gob (l : list (Z * list cnode)) : list (Z * list cnode) :=
    match l with [] => [] | (c, b) :: r => (c, go b) :: gob r end in
  match n with
  | NDecl x t e false => if tmem x prom then NAssign x e else n
  | NIf bs els => NIf (gob bs) (go els)
  | NWhile c b => NWhile c (go b)
  | NFor x c b => NFor x c (go b)
  | _ => n
  end.

(* the `if` handler's private rewriter: descends only into nested IfStatements *)
Fixpoint rewrite_if (prom : list ident) (n : cnode) : cnode :=
  let fix go (l : list cnode) : list cnode :=
    match l with [] => [] | x :: r => rewrite_if prom x :: go r end in
  let fix gob (l : list (Z * list cnode)) : list (Z * list cnode) :=
    match l with [] => [] | (c, b) :: r => (c, go b) :: gob r end in
  match n with
  | NDecl x t e false => if tmem x prom then NAssign x e else n
  | NIf bs els => NIf (gob bs) (go els)
  | _ => n
  end.

(* _make_promotion_decls: [glob] (setup depth 0 / main-loop body) - a global with the default value, no node;
   deeper - a hoisted local declaration *)
Fixpoint promo_decls (glob : bool) (names : list (ident * ty)) (s : tst) : list cnode * tst :=
  match names with
  | [] => ([], s)
  | (x, t) :: r =>
      let s0 := if tmem x (map fst (vtypes s)) then s else with_ty x TyInt s in
      let s1 := if is_declared x s0 then s0 else declare x s0 in
      if glob then
        let s2 := if has_global x s1 then s1
                  else add_global {| g_name := x; g_ty := t; g_init := XDefault t |} s1 in
        promo_decls glob r s2
      else
        let '(rest, s2) := promo_decls glob r s1 in
        (NDecl x t (XDefault t) false :: rest, s2)
  end.

(* order of first VarDecl in a loop body (recursively), _collect_order *)
Fixpoint decl_order (n : cnode) : list ident :=
  let fix go (l : list cnode) : list ident :=
    match l with [] => [] | x :: r => decl_order x ++ go r end in
  let fix gob (l : list (Z * list cnode)) : list ident :=
    match l with [] => [] | (_, b) :: r => go b ++ gob r end in
  match n with
  | NDecl x _ _ false => [x]
  | NIf bs els => gob bs ++ go els
  | NWhile _ b => go b
  | NFor _ _ b => go b
  | _ => []
  end.

Fixpoint dedup (l : list ident) (seen : list ident) : list ident :=
  match l with
  | [] => []
  | x :: r => if tmem x seen then dedup r seen else x :: dedup r (x :: seen)
  end.

(* ---- blocks ---- *)
Section Block.
  Variable main_loop : bool.

  (* one unit of fuel per statement (nested or in sequence) *)
  Fixpoint tr_block (fuel : nat) (glob : bool) (loop_depth : nat) (s : tst) (ps : list pstmt) {struct fuel}
    : option (list cnode * tst) :=
    match fuel with
    | O => None
    | S f =>
      match ps with
      | [] => Some ([], s)
      | p :: rest =>
        let continue_with := fun (r : option (list cnode * tst)) =>
          match r with
          | None => None
          | Some (ns, s1) =>
              match tr_block f glob loop_depth s1 rest with
              | None => None
              | Some (ms, s2) => Some (ns ++ ms, s2)
              end
          end in
        match p with
        | PAssign x e => continue_with (Some (tr_assign glob x (rt_ann main_loop e) s))
        | PAug x op e t_after => continue_with (Some ([NAssign x (XAug x op (a_id e))], with_ty x t_after s))
        | PTuple xs es => continue_with (if glob && main_loop then tr_tuple_main xs es s else tr_tuple glob xs es s)
        | PBreak =>
            continue_with (match loop_depth with
                           | O => None
                           | S O => if main_loop then None else Some ([NBreak], s)
                           | _ => Some ([NBreak], s)
                           end)
        | PContinue =>
            (* `continue`: outside any loop -> ValueError; at the level of the main loop (its body is
               loop()) -> ReturnStmt(expr=None), i.e. `return;`; inside a for/while loop -> ContinueStmt *)
            continue_with (match loop_depth with
                           | O => None
                           | S O => if main_loop then Some ([NReturn], s) else Some ([NContinue], s)
                           | _ => Some ([NContinue], s)
                           end)
        | PWrite e => continue_with (Some ([NWrite (a_id e)], s))
        | PSleep e => continue_with (Some ([NSleep (a_id e)], s))
        | PExprS e => continue_with (if closed_const e then Some ([], s) else Some ([NExprS (a_id e)], s))
        | PIf c body elifs els =>
            (* every branch starts from the snapshot taken before the first one; the globals
               list is shared, so it is threaded through *)
            let branch := fun (gl : list gdecl) (b : list pstmt) =>
              tr_block f false loop_depth (child_of s gl) b in
            let fix branches (gl : list gdecl) (l : list (ann * list pstmt))
                : option (list (Z * list cnode * tst) * list gdecl) :=
              match l with
              | [] => Some ([], gl)
              | (c', b) :: r =>
                  match branch gl b with
                  | None => None
                  | Some (ns, cs) =>
                      match branches (globals cs) r with
                      | None => None
                      | Some (rest', gl') => Some ((a_id c', ns, cs) :: rest', gl')
                      end
                  end
              end in
            continue_with
            (match branches (globals s) ((c, body) :: elifs) with
             | None => None
             | Some (brs, gl1) =>
                let els_res := match els with
                               | [] => Some (None, gl1)
                               | _ => match branch gl1 els with
                                      | None => None
                                      | Some (ns, cs) => Some (Some (ns, cs), globals cs)
                                      end
                               end in
                match els_res with
                | None => None
                | Some (eo, gl2) =>
                    let ctxs := map (fun x => snd x) brs ++ match eo with Some (_, cs) => [cs] | None => [] end in
                    (* promoted names: per context, its new names; the first context that declares a
                       name fixes its type (that context's var_types at the end of the branch) *)
                    let fix collect (cl : list tst) (seen : list ident) : list (ident * ty) :=
                      match cl with
                      | [] => []
                      | cs :: r =>
                          let ns := filter (fun x => negb (tmem x seen)) (new_names (declared cs) (declared s)) in
                          map (fun x => (x, get_ty x (vtypes cs))) ns ++ collect r (seen ++ ns)
                      end in
                    let prom := collect ctxs [] in
                    let pn := map fst prom in
                    let s1 := {| declared := declared s; vtypes := vtypes s; globals := gl2; tmpc := tmpc s |} in
                    let s2 := fold_left (fun acc xt => with_ty (fst xt) (snd xt) acc) prom s1 in
                    let '(decls, s3) := promo_decls glob prom s2 in
                    let rw := fun (ns : list cnode) => map (rewrite_if pn) (drop_hoisted pn ns) in
                    let brs' := map (fun x => (fst (fst x), rw (snd (fst x)))) brs in
                    let els' := match eo with Some (ns, _) => rw ns | None => [] end in
                    Some (decls ++ [NIf brs' els'], s3)
                end
             end)
        | PWhile c body =>
            continue_with
            (match tr_block f false (S loop_depth) (child_of s (globals s)) body with
             | None => None
             | Some (ns, cs) =>
                let pset := new_names (declared cs) (declared s) in
                let ordered := dedup (filter (fun x => tmem x pset) (flat_map decl_order ns)) [] in
                let pn := ordered ++ filter (fun x => negb (tmem x ordered)) pset in
                let prom := map (fun x => (x, get_ty x (vtypes cs))) pn in
                let s1 := {| declared := declared s; vtypes := vtypes s; globals := globals cs; tmpc := tmpc cs |} in
                let s2 := fold_left (fun acc xt => with_ty (fst xt) (snd xt) acc) prom s1 in
                let '(decls, s3) := promo_decls glob prom s2 in
                Some (decls ++ [NWhile (a_id c) (map (rewrite_deep pn) (drop_hoisted pn ns))], s3)
             end)
        | PFor x cnt body =>
            let base := {| declared := declared s ++ (if is_declared x s then [] else [x]);
                           vtypes := set_ty x TyInt (vtypes s); globals := globals s; tmpc := tmpc s |} in
            continue_with
            (match tr_block f false (S loop_depth) base body with
             | None => None
             | Some (ns, cs) =>
                let pset := new_names (declared cs) (declared base) in
                let ordered := dedup (filter (fun y => tmem y pset) (flat_map decl_order ns)) [] in
                let pn := ordered ++ filter (fun y => negb (tmem y ordered)) pset in
                let prom := map (fun y => (y, get_ty y (vtypes cs))) pn in
                let s1 := {| declared := declared s; vtypes := vtypes s; globals := globals cs; tmpc := tmpc cs |} in
                let s2 := fold_left (fun acc xt => with_ty (fst xt) (snd xt) acc) prom s1 in
                let '(decls, s3) := promo_decls glob prom s2 in
                Some (decls ++ [NFor x (a_id cnt) (map (rewrite_deep pn) (drop_hoisted pn ns))], s3)
             end)
        end
      end
    end.
End Block.

(* number of statements, nested ones included: enough fuel for tr_block *)
Fixpoint ssize (p : pstmt) : nat :=
  let fix go (l : list pstmt) : nat := match l with [] => O | x :: r => (ssize x + go r)%nat end in
  let fix gob (l : list (ann * list pstmt)) : nat := match l with [] => O | (_, b) :: r => (S (go b) + gob r)%nat end in
  S (match p with
     | PIf _ b el e => S (go b) + gob el + S (go e)
     | PWhile _ b | PFor _ _ b => S (go b)
     | _ => O
     end)%nat.
Definition bsize (l : list pstmt) : nat := S (fold_right (fun p acc => (ssize p + acc)%nat) O l).

(* parse(): top-level statements at scope=setup depth=0; the body of `while True:` in the SAME
   context with scope=loop, depth=1, loop_depth=1, main_loop=True: its first assignments are globals too *)
Definition transl (p : pprog) : option cprog :=
  match tr_block false (bsize (p_pre p)) true 0 st0 (p_pre p) with
  | None => None
  | Some (setup, s1) =>
      match p_main p with
      | None => Some {| c_globals := globals s1; c_setup := setup; c_loop := [] |}
      | Some body =>
          match tr_block true (bsize body) true 1 s1 body with
          | None => None
          | Some (loop, s2) => Some {| c_globals := globals s2; c_setup := setup; c_loop := loop |}
          end
      end
  end.
