(* C01, tuple assignment: the order in which the emitted nodes evaluate the right-hand sides.
   [eval_order] lists the source expressions a flat node list evaluates, in execution order (the C++ statements of
   one block run top to bottom; XTmp / XDefault read no source expression). *)
From Coq Require Import ZArith List Bool.
From RV Require Import Base.Wire Base.Text Lang.StmtAst Lang.Transl.
Import ListNotations.
Open Scope Z_scope.

Definition cexpr_ids (e : cexpr) : list Z :=
  match e with XE id => [id] | XAug _ _ id => [id] | XDefault _ | XTmp _ => [] end.
Definition node_ids (n : cnode) : list Z :=
  match n with
  | NDecl _ _ i false => cexpr_ids i
  | NDeclTmp _ _ i => cexpr_ids i
  | NAssign _ e => cexpr_ids e
  | NWrite id | NSleep id | NExprS id => [id]
  | _ => []
  end.
Definition eval_order (ns : list cnode) : list Z := flat_map node_ids ns.

(* the temporaries path of _handle_assignment_ast is taken *)
Definition through_tmps (glob : bool) (xs : list ident) (s : tst) : bool :=
  negb (forallb (fun x => negb (is_declared x s)) xs && glob).
