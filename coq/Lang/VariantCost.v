(* The WORK of the function-variant machinery of parser.py ('terminates promptly' beyond the regular expressions).

   A user function is re-parsed once per CALL SIGNATURE: _infer_expr_type meets a call f(a, b), records the tuple of
   argument types in ctx["function_call_signatures"], and calls _ensure_function_variant(f, signature, ctx).  That
   function is a memo in front of _parse_function (which parses the whole body again with the parameters forced to the
   signature, and thereby meets the calls inside the body, and so on):

     canonical = aliases[name].get(signature, signature)            # _resolve_signature_alias
     if canonical in function_defs[name]: return                     # the fast path
     if name not in function_sources: return                         # called before its def
     if (name, signature) in _refreshing_functions: return           # recursion
     _parse_function(name, ..., forced_signature=signature)          # the work

   and _parse_function stores the variant under its FINAL signature (a parameter that meets a String in a + becomes a
   String: `return helper(v) + v`), and the alias requested -> final when the two differ.  The memo is keyed by
   (name, signature) THROUGH the alias table; whether it is is the parameter [ua] of this model ([ua = false]: the fast
   path looks the raw signature up - the variants whose parameters were promoted are then never found again).

   Fragment: a function is `def f(p0, .., pk): return t1 + t2 + .. + tn` with terms that are parameters, literals or
   calls g(args) whose arguments are parameters or literals; a script is a list of defs and top-level calls.
   The trace is the sequence of _parse_function invocations (name, forced signature) - what the harness records on the
   real parser with a wrapper.  No proofs in this file. *)
From Coq Require Import ZArith List Bool.
Import ListNotations.
Open Scope Z_scope.

Definition ty := Z.                    (* 0 int, 1 float, 2 bool, 3 String *)
Definition sig := list ty.
Definition key := (Z * sig)%type.      (* (function name, call signature) *)

Definition sig_dec : forall a b : sig, {a = b} + {a <> b} := list_eq_dec Z.eq_dec.
Definition key_dec : forall a b : key, {a = b} + {a <> b}.
Proof. decide equality. apply sig_dec. apply Z.eq_dec. Defined.

Inductive arg := AParam (i : nat) | ALit (t : ty).
Inductive term := TParam (i : nat) | TLit (t : ty) | TCall (f : Z) (args : list arg).
Record fn := mkfn { f_arity : nat; f_body : list term }.
Inductive item := IDef (name : Z) (f : fn) | ICall (name : Z) (s : sig).
Definition prog := list item.

Record st := mkst {
  defs : list key;                     (* function_defs: (name, final signature) *)
  alias : list (key * sig);            (* function_signature_aliases: (name, requested) -> final; latest first *)
  rets : list (key * ty);              (* ctx["functions"]: return type per (name, signature), insertion order *)
  refr : list key;                     (* _refreshing_functions *)
  trace : list (Z * option sig);       (* _parse_function invocations, latest first *)
  sources : list (Z * fn);             (* function_sources, latest first *)
  sigs : list key;                     (* function_call_signatures, in order of recording *)
  oof : bool }.                        (* the fuel of the model ran out / a forced signature of the wrong arity *)

Definition st0 : st := mkst [] [] [] [] [] [] [] false.

Definition set_defs v s := mkst v (alias s) (rets s) (refr s) (trace s) (sources s) (sigs s) (oof s).
Definition set_alias v s := mkst (defs s) v (rets s) (refr s) (trace s) (sources s) (sigs s) (oof s).
Definition set_rets v s := mkst (defs s) (alias s) v (refr s) (trace s) (sources s) (sigs s) (oof s).
Definition set_refr v s := mkst (defs s) (alias s) (rets s) v (trace s) (sources s) (sigs s) (oof s).
Definition set_trace v s := mkst (defs s) (alias s) (rets s) (refr s) v (sources s) (sigs s) (oof s).
Definition set_sources v s := mkst (defs s) (alias s) (rets s) (refr s) (trace s) v (sigs s) (oof s).
Definition set_sigs v s := mkst (defs s) (alias s) (rets s) (refr s) (trace s) (sources s) v (oof s).
Definition set_oof s := mkst (defs s) (alias s) (rets s) (refr s) (trace s) (sources s) (sigs s) true.

Fixpoint assoc {B} (k : key) (l : list (key * B)) : option B :=
  match l with
  | [] => None
  | (k', v) :: r => if key_dec k k' then Some v else assoc k r
  end.

Definition canon (s : st) (k : key) : sig := match assoc k (alias s) with Some f => f | None => snd k end.

(* the fast path of _ensure_function_variant *)
Definition hit (ua : bool) (s : st) (k : key) : bool :=
  if ua then (if in_dec key_dec (fst k, canon s k) (defs s) then true else false)
  else (if in_dec key_dec k (defs s) then true else false).

Fixpoint find_source (n : Z) (l : list (Z * fn)) : option fn :=
  match l with
  | [] => None
  | (m, f) :: r => if n =? m then Some f else find_source n r
  end.

Definition record_sig (k : key) (s : st) : st :=
  if in_dec key_dec k (sigs s) then s else set_sigs (sigs s ++ [k]) s.

(* dict assignment: an existing key keeps its place *)
Fixpoint set_ret (k : key) (t : ty) (l : list (key * ty)) : list (key * ty) :=
  match l with
  | [] => [(k, t)]
  | (k', v) :: r => if key_dec k k' then (k, t) :: r else (k', v) :: set_ret k t r
  end.

Fixpoint first_same_arity (n : Z) (a : nat) (l : list (key * ty)) : option ty :=
  match l with
  | [] => None
  | ((m, sg), t) :: r => if (n =? m) && Nat.eqb (length sg) a then Some t else first_same_arity n a r
  end.

(* the return type _infer_expr_type gives a call after the variant was ensured *)
Definition ret_lookup (s : st) (k : key) : ty :=
  match find_source (fst k) (sources s) with
  | None => 0
  | Some _ =>
    match assoc (fst k, canon s k) (rets s) with
    | Some t => t
    | None =>
      match assoc k (rets s) with
      | Some t => t
      | None => match first_same_arity (fst k) (length (snd k)) (rets s) with Some t => t | None => 0 end
      end
    end
  end.

Definition tjoin (a b : ty) : ty :=
  if (a =? 3) || (b =? 3) then 3 else if (a =? 1) || (b =? 1) then 1 else 0.

Fixpoint set_nth (i : nat) (v : ty) (l : list ty) : list ty :=
  match i, l with
  | O, _ :: r => v :: r
  | S j, x :: r => x :: set_nth j v r
  | _, [] => []
  end.

Definition arg_ty (vt : list ty) (a : arg) : ty := match a with AParam i => nth i vt 0 | ALit t => t end.

(* a Name operand of a + whose other side is a String becomes a String *)
Definition promote (vt : list ty) (t : term) (tt : ty) : list ty :=
  match t with
  | TParam i => if tt =? 3 then vt else set_nth i 3 vt
  | _ => vt
  end.

Definition pending (n : Z) (s : st) : list sig :=
  map snd (filter (fun k => fst k =? n) (sigs s)).

Section Body.
  Variable ens : key -> st -> st.      (* _ensure_function_variant, one level down *)

  Definition infer_term (vt : list ty) (t : term) (s : st) : ty * st :=
    match t with
    | TParam i => (nth i vt 0, s)
    | TLit t => (t, s)
    | TCall f args =>
        let k := (f, map (arg_ty vt) args) in
        let s1 := ens k (record_sig k s) in
        (ret_lookup s1 k, s1)
    end.

  (* the BinOp nodes of t1 + t2 + ... + tn from the innermost: [left] is the left operand when it is a leaf *)
  Fixpoint walk_rest (vt : list ty) (acc : ty) (left : option term) (ts : list term) (s : st) : ty * list ty * st :=
    match ts with
    | [] => (acc, vt, s)
    | t :: r =>
        let '(b, s1) := infer_term vt t s in
        if (acc =? 3) || (b =? 3) then
          let vt1 := match left with Some l => promote vt l acc | None => vt end in
          let vt2 := promote vt1 t b in
          walk_rest vt2 3 None r s1
        else walk_rest vt (tjoin acc b) None r s1
    end.

  Definition walk (vt : list ty) (ts : list term) (s : st) : ty * list ty * st :=
    match ts with
    | [] => (0, vt, s)
    | t :: r => let '(a, s1) := infer_term vt t s in walk_rest vt a (Some t) r s1
    end.

  Definition finish (name : Z) (requested final : sig) (rt : ty) (s : st) : st :=
    let s2 := set_rets (set_ret (name, final) rt (rets s)) s in
    let s3 := if sig_dec requested final then s2
              else set_rets (set_ret (name, requested) rt (rets s2)) (set_alias (((name, requested), final) :: alias s2) s2) in
    set_defs ((name, final) :: defs s3) s3.

  (* _parse_function *)
  Definition parse_fn (name : Z) (f : fn) (forced : option sig) (s : st) : st :=
    let s0 := set_trace ((name, forced) :: trace s) (set_sources ((name, f) :: sources s) s) in
    match forced with
    | Some sg =>
        (* "call signature arity does not match function definition": the whole parse() ends in a ValueError *)
        if Nat.eqb (length sg) (f_arity f) then
          let '(rt, vt, s1) := walk sg (f_body f) s0 in
          finish name sg vt rt s1
        else set_oof s
    | None =>
        let '(rt, vt, s1) := walk (repeat 0 (f_arity f)) (f_body f) s0 in
        let s4 := finish name vt vt rt s1 in
        fold_left (fun acc rq => if sig_dec rq vt then acc else ens (name, rq) acc) (pending name s4) s4
    end.
End Body.

(* _ensure_function_variant *)
Fixpoint ensure (ua : bool) (fuel : nat) (k : key) (s : st) : st :=
  match fuel with
  | O => set_oof s
  | S fu =>
    if hit ua s k then s else
    match find_source (fst k) (sources s) with
    | None => s
    | Some f =>
      if in_dec key_dec k (refr s) then s else
      let s2 := parse_fn (ensure ua fu) (fst k) f (Some (snd k)) (set_refr (k :: refr s) s) in
      set_refr (remove key_dec k (refr s2)) s2
    end
  end.

Definition step (ua : bool) (fuel : nat) (s : st) (it : item) : st :=
  match it with
  | IDef name f => parse_fn (ensure ua fuel) name f None s
  | ICall name sg => ensure ua fuel (name, sg) (record_sig (name, sg) s)
  end.

Definition vrun (ua : bool) (fuel : nat) (p : prog) : st := fold_left (step ua fuel) p st0.

Fixpoint forced (l : list (Z * option sig)) : list key :=
  match l with
  | [] => []
  | (n, Some sg) :: r => (n, sg) :: forced r
  | (_, None) :: r => forced r
  end.

Definition n_defs (p : prog) : nat := length (filter (fun it => match it with IDef _ _ => true | _ => false end) p).

(* the helper chain of the witness: tag0(v) = v + ";" ; tag_k(v) = tag_{k-1}(v) + ... (fan times) ... + v ; y = tag_d(7) *)
Definition leaf : fn := mkfn 1 [TParam 0; TLit 3].
Definition link (k : Z) (fan : nat) : fn := mkfn 1 (repeat (TCall (k - 1) [AParam 0]) fan ++ [TParam 0]).
Fixpoint links (d : nat) (fan : nat) : prog :=
  match d with
  | O => [IDef 0 leaf]
  | S e => links e fan ++ [IDef (Z.of_nat d) (link (Z.of_nat d) fan)]
  end.
Definition chain (d fan : nat) : prog := links d fan ++ [ICall (Z.of_nat d) [0]].

Definition parses (ua : bool) (p : prog) : nat := length (trace (vrun ua 2000 p)).
