(* C10 - the re-entrancy guard of _ensure_function_variant under REJECTED transpilations.  Model only.

   parser.py  _ensure_function_variant(name, signature, ctx):
                  if canonical in defs[name]: return it
                  refreshing = ctx.setdefault("_refreshing_functions", set())        -> [v_scope] = PerParse
                  key = (name, signature)
                  if key in refreshing: return defs.get(name, {}).get(canonical)      -> the [key_mem] branch
                  refreshing.add(key)
                  try:     _parse_function(name, params_src, block, ctx, forced_signature=signature)
                  finally: refreshing.remove(key)                                     -> [v_release] = Finally
   parser.py  _parse_function: the body is parsed with the parameter typed by the signature; _merge_return_types raises
              ValueError("conflicting return types") when a String return meets another type            -> [merge], [variant_ret]
   parser.py  _infer_expr_type, ast.Call: records the call signature, asks for the variant, and types the call from
              functions[fname]: the variant of the canonical signature, else the first variant of the same arity   -> [primary_ret]

   Fragment: helpers `def f(x):` whose body returns the parameter and / or literals on different paths ([ret]), defined before the
   column-0 statements `v = f(<literal>)` that call them ([vcall]); every helper defined once.  A [vcfg] says where the guard set
   lives (in the per-parse ctx / at module level) and how it is released (in a finally block / by a statement after the call);
   [vrun] is one parse()+emit() in a process whose module-level set holds [ms]; [vsession] a sequence of them; [vspec] is the
   specification: the same translation without any guard set. *)
From Coq Require Import ZArith List Bool String.
From RV Require Import Base.Wire Base.Text Lang.Order.
Import ListNotations.
Open Scope Z_scope.

Inductive ret := RParam | RLit (t : ty).

Record fdef := mk_fdef { f_name : ident; f_body : list ret }.
Record vcall := mk_vcall { c_var : ident; c_fn : ident; c_arg : ty }.
Record vprog := mk_vprog { p_defs : list fdef; p_calls : list vcall }.

Definition ret_ty (t : ty) (r : ret) : ty := match r with RParam => t | RLit u => u end.

Definition has (t : ty) (l : list ty) : bool := existsb (Z.eqb t) l.

(* _merge_return_types over the labels of the value returns of a body (no bare return): None = ValueError; 4 = void *)
Definition merge (l : list ty) : option ty :=
  match l with
  | [] => Some 4
  | _ => if has 3 l then (if forallb (Z.eqb 3) l then Some 3 else None)
         else if has 1 l then Some 1
         else if forallb (Z.eqb 2) l then Some 2
         else Some 0
  end.

(* the return label of the variant of [d] for a parameter of type [t] *)
Definition variant_ret (d : fdef) (t : ty) : option ty := merge (map (ret_ty t) (f_body d)).

Definition variant := (ident * ty * ty)%type.           (* helper, parameter label, return label *)
Definition vkey := (ident * ty)%type.

Definition key_eqb (a b : vkey) : bool := text_eqb (fst a) (fst b) && (snd a =? snd b).
Definition key_mem (k : vkey) (g : list vkey) : bool := existsb (key_eqb k) g.

Fixpoint find_def (f : ident) (ds : list fdef) : option fdef :=
  match ds with
  | [] => None
  | d :: r => if text_eqb f (f_name d) then Some d else find_def f r
  end.

Fixpoint find_variant (f : ident) (t : ty) (vs : list variant) : option ty :=
  match vs with
  | [] => None
  | (g, u, r) :: q => if text_eqb f g && (t =? u) then Some r else find_variant f t q
  end.

(* functions[fname]: `for candidate_sig, return_type in variants.items(): if len(candidate_sig) == len(signature): return` -
   the first variant recorded for the helper, i.e. the one of its def-time parse *)
Fixpoint primary_ret (f : ident) (vs : list variant) : ty :=
  match vs with
  | [] => 0
  | (g, _, r) :: q => if text_eqb f g then r else primary_ret f q
  end.

(* the def statements: each helper is parsed once with an int parameter *)
Fixpoint defs_run (ds : list fdef) (vs : list variant) : option (list variant) :=
  match ds with
  | [] => Some vs
  | d :: r => match variant_ret d 0 with
              | None => None
              | Some r0 => defs_run r (vs ++ [(f_name d, 0, r0)])
              end
  end.

Inductive gscope := PerParse | ModuleLevel.
Inductive grelease := Finally | Straight.
Record vcfg := mk_vcfg { v_scope : gscope; v_release : grelease }.

Definition vstate := (list variant * list (ident * ty))%type.

(* the call statements under a guard set [g]: (None, g') = ValueError escaped, with the guard set as the exception leaves it *)
Fixpoint calls_run (rel : grelease) (ds : list fdef) (cs : list vcall) (vs : list variant) (vars : list (ident * ty))
                   (g : list vkey) : option vstate * list vkey :=
  match cs with
  | [] => (Some (vs, vars), g)
  | c :: r =>
      match find_def (c_fn c) ds with
      | None => calls_run rel ds r vs (vars ++ [(c_var c, 0)]) g
      | Some d =>
          match find_variant (c_fn c) (c_arg c) vs with
          | Some rt => calls_run rel ds r vs (vars ++ [(c_var c, rt)]) g
          | None =>
              if key_mem (c_fn c, c_arg c) g
              then calls_run rel ds r vs (vars ++ [(c_var c, primary_ret (c_fn c) vs)]) g
              else match variant_ret d (c_arg c) with
                   | None => (None, match rel with Finally => g | Straight => (c_fn c, c_arg c) :: g end)
                   | Some rt => calls_run rel ds r (vs ++ [(c_fn c, c_arg c, rt)]) (vars ++ [(c_var c, rt)]) g
                   end
          end
      end
  end.

(* the same without any guard set *)
Fixpoint calls_spec (ds : list fdef) (cs : list vcall) (vs : list variant) (vars : list (ident * ty)) : option vstate :=
  match cs with
  | [] => Some (vs, vars)
  | c :: r =>
      match find_def (c_fn c) ds with
      | None => calls_spec ds r vs (vars ++ [(c_var c, 0)])
      | Some d =>
          match find_variant (c_fn c) (c_arg c) vs with
          | Some rt => calls_spec ds r vs (vars ++ [(c_var c, rt)])
          | None =>
              match variant_ret d (c_arg c) with
              | None => None
              | Some rt => calls_spec ds r (vs ++ [(c_fn c, c_arg c, rt)]) (vars ++ [(c_var c, rt)])
              end
          end
      end
  end.

(* what the sketch contains: the variants some call asks for; a helper nobody calls keeps its def-time variant *)
Definition requested (p : vprog) (f : ident) (t : ty) : bool :=
  existsb (fun c => text_eqb (c_fn c) f && (c_arg c =? t)) (p_calls p).
Definition called (p : vprog) (f : ident) : bool := existsb (fun c => text_eqb (c_fn c) f) (p_calls p).

Definition emitted (p : vprog) (vs : list variant) : list variant :=
  filter (fun v => let '(f, t, _) := v in if called p f then requested p f t else (t =? 0)) vs.

Inductive outcome := Rejected | Accepted (vars : list (ident * ty)) (fns : list variant).

Definition finish (p : vprog) (r : option vstate) : outcome :=
  match r with None => Rejected | Some (vs, vars) => Accepted vars (emitted p vs) end.

Definition vspec (p : vprog) : outcome :=
  match defs_run (p_defs p) [] with
  | None => Rejected
  | Some vs0 => finish p (calls_spec (p_defs p) (p_calls p) vs0 [])
  end.

(* one parse()+emit() in a process whose module-level guard set holds [ms] *)
Definition vrun (c : vcfg) (ms : list vkey) (p : vprog) : outcome * list vkey :=
  let g0 := match v_scope c with ModuleLevel => ms | PerParse => [] end in
  match defs_run (p_defs p) [] with
  | None => (Rejected, ms)
  | Some vs0 =>
      let (r, g1) := calls_run (v_release c) (p_defs p) (p_calls p) vs0 [] g0 in
      (finish p r, match v_scope c with ModuleLevel => g1 | PerParse => ms end)
  end.

Fixpoint vsession (c : vcfg) (ms : list vkey) (ps : list vprog) : list outcome :=
  match ps with
  | [] => []
  | p :: r => let (o, ms') := vrun c ms p in o :: vsession c ms' r
  end.

(* the guard of the statelessness theorem: the set dies with the parse, or every exit path releases the key *)
Definition cfg_safe (c : vcfg) : bool :=
  match v_scope c, v_release c with
  | ModuleLevel, Straight => false
  | _, _ => true
  end.

Definition cfg_code : vcfg := mk_vcfg PerParse Finally.          (* the code as it is *)
Definition cfg_leaky : vcfg := mk_vcfg ModuleLevel Straight.

(* witness programs: A is rejected while the String variant of `pick` is generated; B is valid and asks for the same variant *)
Definition n_pick : ident := txt "pick".
Definition n_v : ident := txt "v".
Definition rej_A : vprog := mk_vprog [mk_fdef n_pick [RParam; RLit 0]] [mk_vcall n_v n_pick 3].
Definition ok_B : vprog := mk_vprog [mk_fdef n_pick [RParam]] [mk_vcall n_v n_pick 3].
