(* Proofs about Host/ActuatorsX.v: where IEEE specials get through the validations of
   Servo.py / DCMotor.py (refuted clauses with witnesses), the guards under which they do not
   (partial clauses), and the agreement with the finite-float models on finite inputs. *)
From Coq Require Import ZArith QArith Qfield Lia Lqa List Bool.
From RV Require Import Base.Wire Base.NumM Base.XFloat Gen.C19Motor Host.DCMotor Host.ActuatorsX
                       Proofs.NumMP Proofs.DCMotorP.
Import ListNotations.
Open Scope Q_scope.

(* ---- Servo bounds ---- *)

Lemma servo_bounds_finite qa qb qc qd :
  servo_bounds_accepted (XFin qa) (XFin qb) (XFin qc) (XFin qd) = true <-> qa < qb /\ qc < qd.
Proof.
  unfold servo_bounds_accepted, xge, xle. rewrite andb_true_iff, !negb_true_iff, !Qleb_false. tauto.
Qed.

Lemma servo_bounds_nonfinite_refuted :
  exists a b c d, servo_bounds_accepted a b c d = true /\
                  ~ (xfinite a = true /\ xfinite b = true /\ xfinite c = true /\ xfinite d = true).
Proof.
  exists XNaN, (XFin (180 # 1)), (XFin (544 # 1)), (XFin (2400 # 1)).
  split; [reflexivity|]. intros (H & _). discriminate H.
Qed.

(* ---- _clamp_speed ---- *)

Lemma xclamp_finite q : xclamp (XFin q) = XFin (clampq q).
Proof.
  unfold xclamp, xgt, xlt, clampq, qclamp.
  destruct (Qltb 1 q); [reflexivity|]. destruct (Qltb q (-(1))); reflexivity.
Qed.

Lemma xclamp_nan_refuted : exists x, ~ in_unit (xclamp x).
Proof. exists XNaN. cbn. intro H. exact H. Qed.

Lemma xclamp_partial x : xnan x = false -> in_unit (xclamp x).
Proof.
  destruct x as [q| | |]; intro H; try discriminate H.
  - rewrite xclamp_finite. cbn. apply clampq_bounds.
  - cbn. split; lra.
  - cbn. split; lra.
Qed.

(* ---- run_for / ramp with a special duration ---- *)

Definition m_half : motor := mkMotor (PI 2, PI 3, PI 5) (1 # 2) false Drive (1 # 2) LastOther.
Definition m_zero : motor := mkMotor (PI 2, PI 3, PI 5) 0 false Coast 0 LastOther.

Lemma run_for_nonatomic_refuted :
  exists m d v m' e k, run_for_x m d v = (m', e, XRaised k) /\ m' <> m.
Proof.
  exists m_zero, XNaN, (PF (1 # 2)), m_half, [MLvl (1 # 2) (1 # 2) Drive], XValueError.
  split; [vm_compute; reflexivity | discriminate].
Qed.

Lemma ramp_nonatomic_refuted :
  exists m t d m' e k, ramp_x m t d = (m', e, XRaised k) /\ m' <> m.
Proof.
  exists m_zero, (PF (1 # 2)), XPInf,
         (mkMotor (PI 2, PI 3, PI 5) (1 # 40) false Drive (1 # 40) LastOther), [MLvl (1 # 40) (1 # 40) Drive], XOverflowError.
  split; [vm_compute; reflexivity | discriminate].
Qed.

Lemma xok_not_raised (a : motor) (b : list mev) m' e k : (a, b, XOk) = (m', e, XRaised k) -> False.
Proof. intro H. discriminate H. Qed.

Lemma run_for_atomic_partial m d v m' e k :
  d <> XNaN -> d <> XPInf -> run_for_x m d v = (m', e, XRaised k) -> m' = m /\ e = [].
Proof.
  intros Hn Hp. unfold run_for_x. destruct d as [q| | |]; try contradiction.
  - unfold dur_rejected, xlt. destruct (Qltb q 0) eqn:E.
    + intro H. inversion H. split; reflexivity.
    + destruct (clamp_speed v) as [s|]; [|intro H; inversion H; split; reflexivity].
      destruct (set_speed_q m s) as [m1 e1]. cbn [sleep_rejects]. rewrite E.
      destruct (halt m1 Brake) as [m2 e2]. intro H. discriminate H.
  - cbn. intro H. inversion H. split; reflexivity.
Qed.

Opaque ramp_run.

Lemma ramp_atomic_partial m t d m' e k :
  d <> XNaN -> d <> XPInf -> ramp_x m t d = (m', e, XRaised k) -> m' = m /\ e = [].
Proof.
  intros Hn Hp. unfold ramp_x. destruct d as [q| | |]; try contradiction.
  - unfold dur_rejected, xlt. destruct (Qltb q 0) eqn:E.
    + intro H. inversion H. split; reflexivity.
    + destruct (clamp_speed t) as [s|]; [|intro H; inversion H; split; reflexivity].
      cbn [xdiv20]. destruct (xgt (XFin (q / 20)) (XFin 0)) eqn:G.
      * cbn [sleep_rejects].
        assert (Hq : Qltb (q / 20) 0 = false).
        { apply Qltb_false. apply Qltb_false in E. apply Qle_shift_div_l; [reflexivity | lra]. }
        rewrite Hq. intro H. exfalso. exact (xok_not_raised _ _ _ _ _ H).
      * intro H. exfalso. exact (xok_not_raised _ _ _ _ _ H).
  - cbn. intro H. inversion H. split; reflexivity.
Qed.

Transparent ramp_run.

(* with a NaN duration ramp() does not even fail: delay_ms > 0 is False, no sleep at all *)
Lemma ramp_nan_duration m t :
  ramp_x m t XNaN =
  match clamp_speed t with
  | None => (m, [], XRaised XTypeError)
  | Some target => (with_ghost (fst (ramp_run m target 0)) LastOther, snd (ramp_run m target 0), XOk)
  end.
Proof. unfold ramp_x. cbn. destruct (clamp_speed t); reflexivity. Qed.

(* ---- agreement with the finite model ---- *)

Definition xres_of (r : result mret) : xresult :=
  match r with
  | Ok _ => XOk
  | Raised ValueError => XRaised XValueError
  | Raised TypeError => XRaised XTypeError
  end.

Lemma run_for_x_finite m q v :
  run_for_x m (XFin q) v =
  (mstate (mstep m (MRunFor (PF q) v)), mevents (mstep m (MRunFor (PF q) v)), xres_of (mresult (mstep m (MRunFor (PF q) v)))).
Proof.
  unfold run_for_x, mstate, mevents, mresult. cbn [mstep]. unfold py_lt, dur_rejected, xlt. cbn [qof qval].
  change (inject_Z 0) with 0. destruct (Qltb q 0) eqn:E; [reflexivity|].
  destruct (clamp_speed v) as [s|]; [|reflexivity].
  destruct (set_speed_q m s) as [m1 e1]. cbn [sleep_rejects]. rewrite E.
  destruct (halt m1 Brake) as [m2 e2]. reflexivity.
Qed.

Lemma ramp_loop_nodelay ks : forall m0 st sv d1 d2, Qltb 0 d1 = false -> Qltb 0 d2 = false ->
  ramp_loop ks m0 st sv d1 = ramp_loop ks m0 st sv d2.
Proof.
  induction ks as [|k ks IH]; intros m0 st sv d1 d2 H1 H2; [reflexivity|].
  cbn [ramp_loop]. destruct (set_speed_q m0 (st + sv * inject_Z k)) as [m1 e1].
  rewrite H1, H2. rewrite (IH m1 st sv d1 d2 H1 H2). reflexivity.
Qed.

Lemma ramp_run_nodelay m target d1 d2 :
  Qltb 0 (d1 / 20) = false -> Qltb 0 (d2 / 20) = false -> ramp_run m target d1 = ramp_run m target d2.
Proof.
  intros H1 H2. rewrite !ramp_run_eq. apply ramp_loop_nodelay; assumption.
Qed.

Lemma mstep_ramp_cases m t q :
  mstep m (MRamp t (PF q)) =
  if Qltb q 0 then (m, [], Raised ValueError)
  else match clamp_speed t with
       | None => (m, [], Raised TypeError)
       | Some target => ok_with LastOther (ramp_run m target q)
       end.
Proof.
  cbn [mstep]. unfold py_lt. cbn [qof qval]. change (inject_Z 0) with 0.
  destruct (Qltb q 0); reflexivity.
Qed.

Opaque ramp_run.

Lemma ramp_x_finite m t q :
  ramp_x m t (XFin q) =
  (mstate (mstep m (MRamp t (PF q))), mevents (mstep m (MRamp t (PF q))), xres_of (mresult (mstep m (MRamp t (PF q))))).
Proof.
  rewrite mstep_ramp_cases. unfold ramp_x, dur_rejected, xlt.
  destruct (Qltb q 0) eqn:E; [reflexivity|].
  destruct (clamp_speed t) as [target|]; [|reflexivity].
  rewrite ok_with_state, ok_with_events, ok_with_result.
  cbn [xdiv20 xres_of]. unfold xgt, xlt.
  assert (Hq : Qltb (q / 20) 0 = false).
  { apply Qltb_false. apply Qltb_false in E. apply Qle_shift_div_l; [reflexivity | lra]. }
  destruct (Qltb 0 (q / 20)) eqn:G.
  - cbn [sleep_rejects]. rewrite Hq. reflexivity.
  - (* q / 20 <= 0 and 0 <= q: a ramp with delay 0 emits the same events as one with delay q/20 *)
    rewrite (ramp_run_nodelay m target 0 q); [reflexivity | reflexivity | exact G].
Qed.

Transparent ramp_run.

