(* Proofs about Host/ActuatorsX.v: the validations of Servo.py / DCMotor.py on floats with IEEE
   specials.  NaN / infinite bounds, NaN speeds and NaN / infinite durations are rejected before any
   write; every call with special arguments either raises ValueError leaving the object as it was, or
   is one of the ordinary calls of Host/DCMotor.v - so the invariant, the atomicity of failing calls and
   the "ends braked" clause extend to all arguments. *)
From Coq Require Import ZArith QArith Qfield Lia Lqa List Bool.
From RV Require Import Base.Wire Base.NumM Base.XFloat Gen.C19Motor Host.DCMotor Host.ActuatorsX
                       Proofs.NumMP Proofs.DCMotorP.
Import ListNotations.
Open Scope Q_scope.

(* ---- Servo bounds ---- *)

Lemma servo_bounds_finite qa qb qc qd :
  servo_bounds_accepted (XFin qa) (XFin qb) (XFin qc) (XFin qd) = true <-> qa < qb /\ qc < qd.
Proof.
  unfold servo_bounds_accepted, xlt. cbn [forallb xfinite]. rewrite !andb_true_r, andb_true_iff, !Qltb_true. tauto.
Qed.

Lemma servo_bounds_all_finite a b c d :
  servo_bounds_accepted a b c d = true ->
  xfinite a = true /\ xfinite b = true /\ xfinite c = true /\ xfinite d = true.
Proof.
  unfold servo_bounds_accepted. cbn [forallb]. rewrite !andb_true_iff. tauto.
Qed.

Lemma servo_bounds_spec a b c d :
  servo_bounds_accepted a b c d = true <->
  exists qa qb qc qd, a = XFin qa /\ b = XFin qb /\ c = XFin qc /\ d = XFin qd /\ qa < qb /\ qc < qd.
Proof.
  split.
  - intro H. destruct (servo_bounds_all_finite _ _ _ _ H) as (Fa & Fb & Fc & Fd).
    destruct a as [qa| | |]; try discriminate Fa. destruct b as [qb| | |]; try discriminate Fb.
    destruct c as [qc| | |]; try discriminate Fc. destruct d as [qd| | |]; try discriminate Fd.
    apply servo_bounds_finite in H. exists qa, qb, qc, qd. tauto.
  - intros (qa & qb & qc & qd & -> & -> & -> & -> & H). apply servo_bounds_finite. exact H.
Qed.

(* ---- _clamp_speed ---- *)

Lemma xclamp_finite q : xclamp (XFin q) = Some (XFin (clampq q)).
Proof.
  unfold xclamp, xgt, xlt, clampq, qclamp. cbn [xnan].
  destruct (Qltb 1 q); [reflexivity|]. destruct (Qltb q (-(1))); reflexivity.
Qed.

Lemma xclamp_result x y : xclamp x = Some y -> in_unit y.
Proof.
  destruct x as [q| | |].
  - rewrite xclamp_finite. intro H. injection H as <-. cbn. apply clampq_bounds.
  - discriminate.
  - cbn. intro H. injection H as <-. cbn. split; lra.
  - cbn. intro H. injection H as <-. cbn. split; lra.
Qed.

Lemma xclamp_nan x : xclamp x = None <-> x = XNaN.
Proof.
  split.
  - destruct x as [q| | |]; [rewrite xclamp_finite| |cbn|cbn]; try discriminate. reflexivity.
  - intros ->. reflexivity.
Qed.

(* ---- _check_duration ---- *)

Lemma dur_accepted d : dur_rejected d = false <-> exists q, d = XFin q /\ 0 <= q.
Proof.
  unfold dur_rejected. split.
  - destruct d as [q| | |]; cbn; try discriminate. rewrite orb_false_r. intro H. apply Qltb_false in H.
    exists q. split; [reflexivity | exact H].
  - intros (q & -> & H). cbn. rewrite orb_false_r. apply Qltb_false. exact H.
Qed.

(* no duration that passes _check_duration is rejected by the sleep *)
Lemma checked_duration_sleeps d : dur_rejected d = false -> sleep_rejects d = None.
Proof.
  intro H. apply dur_accepted in H. destruct H as (q & -> & H). cbn. apply Qltb_false in H. rewrite H. reflexivity.
Qed.

Lemma checked_delay_sleeps d : dur_rejected d = false -> sleep_rejects (xdiv20 d) = None.
Proof.
  intro H. apply dur_accepted in H. destruct H as (q & -> & H). cbn.
  assert (Hq : Qltb (q / 20) 0 = false).
  { apply Qltb_false. apply Qle_shift_div_l; [reflexivity | lra]. }
  rewrite Hq. reflexivity.
Qed.

(* ---- speed arguments ---- *)

Definition cs_of (v : pynum) : Q + xexn :=
  match clamp_speed v with Some q => inl q | None => inr XTypeError end.

Lemma clamp_speed_x_lower a v : arg_lower a = Some v -> clamp_speed_x a = cs_of v.
Proof.
  destruct a as [w|[q| | |]]; cbn [arg_lower]; intro H; try discriminate H; injection H as <-.
  - reflexivity.
  - cbn [clamp_speed_x]. rewrite xclamp_finite. reflexivity.
  - reflexivity.
  - reflexivity.
Qed.

Lemma clamp_speed_x_nan a : arg_lower a = None -> clamp_speed_x a = inr XValueError.
Proof. destruct a as [w|[q| | |]]; cbn [arg_lower]; intro H; try discriminate H. reflexivity. Qed.

Lemma clamp_speed_x_bounds a q : clamp_speed_x a = inl q -> -(1) <= q /\ q <= 1.
Proof.
  destruct a as [w|x]; cbn [clamp_speed_x].
  - unfold clamp_speed. destruct (qof w) as [r|]; [|discriminate]. intro H. injection H as <-. apply clampq_bounds.
  - destruct (xclamp x) as [y|] eqn:E; [|discriminate]. apply xclamp_result in E.
    destruct y as [r| | |]; try discriminate. intro H. injection H as <-. exact E.
Qed.

(* ---- the calls with special arguments are ordinary calls, or rejected outright ---- *)

Definition xres_of (r : result mret) : xresult :=
  match r with
  | Ok _ => XOk
  | Raised ValueError => XRaised XValueError
  | Raised TypeError => XRaised XTypeError
  end.

Definition lift (r : motor * list mev * result mret) : motor * list mev * xresult :=
  (mstate r, mevents r, xres_of (mresult r)).

Lemma set_speed_x_lower m a v : arg_lower a = Some v -> set_speed_x m a = lift (mstep m (MSetSpeed v)).
Proof.
  intro H. unfold set_speed_x. rewrite (clamp_speed_x_lower _ _ H). unfold cs_of, lift. cbn [mstep].
  destruct (clamp_speed v); reflexivity.
Qed.

Lemma backward_x_lower m a v : arg_lower a = Some v -> backward_x m a = lift (mstep m (MBackward (Some v))).
Proof.
  intro H. unfold backward_x. rewrite (clamp_speed_x_lower _ _ H). unfold cs_of, lift. cbn [mstep dflt_back].
  destruct (clamp_speed v); reflexivity.
Qed.

Lemma run_for_x_lower m q a v :
  arg_lower a = Some v -> run_for_x m (XFin q) a = lift (mstep m (MRunFor (PF q) v)).
Proof.
  intro H. unfold run_for_x, lift, mstate, mevents, mresult. cbn [mstep]. unfold py_lt, dur_rejected, xlt.
  cbn [qof qval xfinite negb]. rewrite orb_false_r.
  change (inject_Z 0) with 0. destruct (Qltb q 0) eqn:E; [reflexivity|].
  rewrite (clamp_speed_x_lower _ _ H). unfold cs_of.
  destruct (clamp_speed v) as [s|]; [|reflexivity].
  destruct (set_speed_q m s) as [m1 e1]. cbn [sleep_rejects]. rewrite E.
  destruct (halt m1 Brake) as [m2 e2]. reflexivity.
Qed.

Lemma ramp_loop_nodelay ks : forall m0 st sv d1 d2, Qltb 0 d1 = false -> Qltb 0 d2 = false ->
  ramp_loop ks m0 st sv d1 = ramp_loop ks m0 st sv d2.
Proof.
  induction ks as [|k ks IH]; intros m0 st sv d1 d2 H1 H2; [reflexivity|].
  cbn [ramp_loop]. destruct (set_speed_q m0 (st + sv * inject_Z k)) as [m1 e1].
  rewrite H1, H2. rewrite (IH m1 st sv d1 d2 H1 H2). reflexivity.
Qed.

Lemma ramp_run_nodelay m target d1 d2 :
  Qltb 0 (d1 / 20) = false -> Qltb 0 (d2 / 20) = false -> ramp_run m target d1 = ramp_run m target d2.
Proof.
  intros H1 H2. rewrite !ramp_run_eq. apply ramp_loop_nodelay; assumption.
Qed.

Lemma mstep_ramp_cases m t q :
  mstep m (MRamp t (PF q)) =
  if Qltb q 0 then (m, [], Raised ValueError)
  else match clamp_speed t with
       | None => (m, [], Raised TypeError)
       | Some target => ok_with LastOther (ramp_run m target q)
       end.
Proof.
  cbn [mstep]. unfold py_lt. cbn [qof qval]. change (inject_Z 0) with 0.
  destruct (Qltb q 0); reflexivity.
Qed.

Opaque ramp_run.

Lemma ramp_x_lower m a t q :
  arg_lower a = Some t -> ramp_x m a (XFin q) = lift (mstep m (MRamp t (PF q))).
Proof.
  intro H. rewrite mstep_ramp_cases. unfold ramp_x, lift, dur_rejected, xlt.
  cbn [xfinite negb]. rewrite orb_false_r.
  destruct (Qltb q 0) eqn:E; [reflexivity|].
  rewrite (clamp_speed_x_lower _ _ H). unfold cs_of.
  destruct (clamp_speed t) as [target|]; [|reflexivity].
  rewrite ok_with_state, ok_with_events, ok_with_result.
  cbn [xdiv20 xres_of]. unfold xgt, xlt.
  assert (Hq : Qltb (q / 20) 0 = false).
  { apply Qltb_false. apply Qltb_false in E. apply Qle_shift_div_l; [reflexivity | lra]. }
  destruct (Qltb 0 (q / 20)) eqn:G.
  - cbn [sleep_rejects]. rewrite Hq. reflexivity.
  - (* q / 20 <= 0 and 0 <= q: a ramp with delay 0 emits the same events as one with delay q/20 *)
    rewrite (ramp_run_nodelay m target 0 q); [reflexivity | reflexivity | exact G].
Qed.

Transparent ramp_run.

Lemma dur_lower_none d : dur_lower d = None -> dur_rejected d = true.
Proof. destruct d; cbn; try discriminate; reflexivity. Qed.

(* a NaN speed: ValueError whatever the (finite) duration - from _check_duration when it is negative,
   from _clamp_speed otherwise; either way before any write *)
Lemma run_for_x_nan_speed m d a : arg_lower a = None -> run_for_x m d a = raised_x m XValueError.
Proof.
  intro H. unfold run_for_x. destruct (dur_rejected d); [reflexivity|].
  rewrite (clamp_speed_x_nan _ H). reflexivity.
Qed.

Lemma ramp_x_nan_speed m a d : arg_lower a = None -> ramp_x m a d = raised_x m XValueError.
Proof.
  intro H. unfold ramp_x. destruct (dur_rejected d); [reflexivity|].
  rewrite (clamp_speed_x_nan _ H). reflexivity.
Qed.

(* THE reduction: every call with special arguments is the ordinary call [lower] names, or - NaN speed,
   NaN / infinite duration - raises ValueError with nothing written, nothing slept *)
Lemma mstep_x_lower m o :
  mstep_x m o = match lower o with
                | Some op => lift (mstep m op)
                | None => raised_x m XValueError
                end.
Proof.
  destruct o as [a|a|t d|d v]; cbn [mstep_x lower].
  - destruct (arg_lower a) as [v|] eqn:E; [apply set_speed_x_lower; exact E|].
    unfold set_speed_x. rewrite (clamp_speed_x_nan _ E). reflexivity.
  - destruct (arg_lower a) as [v|] eqn:E; [apply backward_x_lower; exact E|].
    unfold backward_x. rewrite (clamp_speed_x_nan _ E). reflexivity.
  - destruct (arg_lower t) as [t'|] eqn:E.
    + destruct d as [q| | |]; cbn [dur_lower]; [apply ramp_x_lower; exact E | | |]; reflexivity.
    + apply ramp_x_nan_speed. exact E.
  - destruct d as [q| | |]; cbn [dur_lower]; try reflexivity.
    destruct (arg_lower v) as [v'|] eqn:E; [apply run_for_x_lower; exact E|].
    apply run_for_x_nan_speed. exact E.
Qed.

(* ---- consequences: atomicity, invariant, ends braked, for ALL arguments ---- *)

Lemma lift_raised r m' e k : lift r = (m', e, XRaised k) -> exists k', r = (m', e, Raised k').
Proof.
  destruct r as [[m1 e1] [ret|k']]; unfold lift, mstate, mevents, mresult; cbn [fst snd xres_of].
  - intro H. discriminate H.
  - intro H. exists k'. destruct k'; injection H as -> -> _; reflexivity.
Qed.

Lemma mstep_x_failed_atomic m o m' e k : mstep_x m o = (m', e, XRaised k) -> m' = m /\ e = [].
Proof.
  rewrite mstep_x_lower. destruct (lower o) as [op|].
  - intro H. apply lift_raised in H. destruct H as (k' & H). exact (motor_failed_atomic _ _ _ _ _ H).
  - unfold raised_x. intro H. injection H as <- <- _. split; reflexivity.
Qed.

Lemma mstep_x_state m o :
  xstate (mstep_x m o) = match lower o with Some op => mstate (mstep m op) | None => m end.
Proof. rewrite mstep_x_lower. destruct (lower o); reflexivity. Qed.

Lemma mstep_x_inv m o : motor_inv m -> motor_inv (xstate (mstep_x m o)).
Proof.
  intro H. rewrite mstep_x_state. destruct (lower o) as [op|]; [apply step_inv; exact H | exact H].
Qed.

Lemma mstep_x_pins m o : pins (xstate (mstep_x m o)) = pins m.
Proof. rewrite mstep_x_state. destruct (lower o) as [op|]; [apply step_pins | reflexivity]. Qed.

Lemma step_any_inv m o : motor_inv m -> motor_inv (step_any m o).
Proof. destruct o as [op|ox]; cbn [step_any]; [apply step_inv | apply mstep_x_inv]. Qed.

Lemma step_any_pins m o : pins (step_any m o) = pins m.
Proof. destruct o as [op|ox]; cbn [step_any]; [apply step_pins | apply mstep_x_pins]. Qed.

Lemma run_any_inv ops : forall m, motor_inv m -> motor_inv (mrun_any ops m) /\ pins (mrun_any ops m) = pins m.
Proof.
  induction ops as [|o r IH]; intros m H; [split; [exact H | reflexivity]|].
  cbn [mrun_any fold_left]. destruct (IH (step_any m o) (step_any_inv m o H)) as [I P].
  split; [exact I | rewrite <- (step_any_pins m o); exact P].
Qed.

Lemma reachable_any_inv i1 i2 en m0 ops :
  motor_ctor i1 i2 en = inl m0 ->
  motor_inv (mrun_any ops m0) /\ pins (mrun_any ops m0) = (i1, i2, en).
Proof.
  intro C. destruct (ctor_accepts _ _ _ _ C) as [-> _].
  destruct (run_any_inv ops _ (init_inv i1 i2 en)) as [I P]. split; [exact I | exact P].
Qed.

(* |speed| <= 1 after every history, in the plain words of the statement *)
Lemma reachable_any_speed_bound i1 i2 en m0 ops :
  motor_ctor i1 i2 en = inl m0 -> -(1) <= speed (mrun_any ops m0) /\ speed (mrun_any ops m0) <= 1.
Proof.
  intro C. destruct (reachable_any_inv _ _ _ _ ops C) as [I _]. exact (proj1 I).
Qed.

(* run_for with any arguments: it raises with nothing written, or ends braked having slept exactly
   the (finite, non-negative) duration once *)
Lemma run_for_x_outcome m d v :
  (xres (run_for_x m d v) <> XOk /\ xstate (run_for_x m d v) = m /\ xevents (run_for_x m d v) = []) \/
  (xres (run_for_x m d v) = XOk /\ exists q, d = XFin q /\ 0 <= q /\
   sleeps (xevents (run_for_x m d v)) = [q] /\
   mmode (xstate (run_for_x m d v)) = Brake /\ speed (xstate (run_for_x m d v)) = 0 /\
   applied (xstate (run_for_x m d v)) = 0 /\ ghost (xstate (run_for_x m d v)) = LastStop).
Proof.
  change (run_for_x m d v) with (mstep_x m (XRunFor d v)).
  destruct (xres (mstep_x m (XRunFor d v))) eqn:R.
  - right. split; [reflexivity|]. revert R. rewrite mstep_x_lower. cbn [lower].
    destruct d as [q| | |]; cbn [dur_lower]; try (unfold raised_x, xres; cbn; discriminate).
    destruct (arg_lower v) as [v'|] eqn:E; [|unfold raised_x, xres; cbn; discriminate].
    unfold lift, xres. cbn [snd]. intro R.
    assert (Hq : exists qv, qof v' = Some qv /\ 0 <= q).
    { revert R. cbn [mstep]. unfold py_lt. cbn [qof]. change (inject_Z 0) with 0.
      destruct (Qltb q 0) eqn:Eq; [unfold mresult; cbn; discriminate|].
      unfold clamp_speed. destruct (qof v') as [qv|]; [|unfold mresult; cbn; discriminate].
      intros _. exists qv. split; [reflexivity | apply Qltb_false; exact Eq]. }
    destruct Hq as (qv & Hv & H0).
    pose proof (run_for_exact m (PF q) v' q qv eq_refl Hv H0) as X. cbn zeta in X.
    destruct X as (_ & Sl & _ & Sp & Ap & Md & Gh & _).
    exists q. unfold xstate, xevents. cbn [fst snd]. repeat split; assumption.
  - left. split; [discriminate|].
    destruct (mstep_x m (XRunFor d v)) as [[m' e] r] eqn:S. unfold xres in R. cbn [snd] in R. subst r.
    destruct (mstep_x_failed_atomic _ _ _ _ _ S) as [-> ->]. split; reflexivity.
Qed.

(* with a NaN or infinite duration ramp() and run_for() raise ValueError at once *)
Lemma nonfinite_duration_rejected m a d :
  xfinite d = false ->
  run_for_x m d a = raised_x m XValueError /\ ramp_x m a d = raised_x m XValueError.
Proof.
  intro H. unfold run_for_x, ramp_x, dur_rejected. rewrite H. cbn [negb]. rewrite orb_true_r. split; reflexivity.
Qed.

(* ---- agreement with the finite model (kept from before the repair) ---- *)

Lemma run_for_x_finite m q v :
  run_for_x m (XFin q) (XNum v) =
  (mstate (mstep m (MRunFor (PF q) v)), mevents (mstep m (MRunFor (PF q) v)), xres_of (mresult (mstep m (MRunFor (PF q) v)))).
Proof. exact (run_for_x_lower m q (XNum v) v eq_refl). Qed.

Lemma ramp_x_finite m t q :
  ramp_x m (XNum t) (XFin q) =
  (mstate (mstep m (MRamp t (PF q))), mevents (mstep m (MRamp t (PF q))), xres_of (mresult (mstep m (MRamp t (PF q))))).
Proof. exact (ramp_x_lower m (XNum t) t q eq_refl). Qed.

(* witnesses of the repaired findings, now rejected *)
Definition m_half : motor := mkMotor (PI 2, PI 3, PI 5) (1 # 2) false Drive (1 # 2) LastOther.
Definition m_zero : motor := mkMotor (PI 2, PI 3, PI 5) 0 false Coast 0 LastOther.

Lemma run_for_x_failed_atomic m d v m' e k : run_for_x m d v = (m', e, XRaised k) -> m' = m /\ e = [].
Proof. exact (mstep_x_failed_atomic m (XRunFor d v) m' e k). Qed.

Lemma ramp_x_failed_atomic m t d m' e k : ramp_x m t d = (m', e, XRaised k) -> m' = m /\ e = [].
Proof. exact (mstep_x_failed_atomic m (XRamp t d) m' e k). Qed.

Lemma checked_duration_never_fails_in_sleep d :
  dur_rejected d = false -> sleep_rejects d = None /\ sleep_rejects (xdiv20 d) = None.
Proof. intro H. split; [apply checked_duration_sleeps | apply checked_delay_sleeps]; exact H. Qed.
