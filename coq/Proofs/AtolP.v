(* Unit C01_expr: C's atol (String.toInt) reads the number Python's int() reads, whenever int() succeeds. *)
From Coq Require Import ZArith List Bool Lia.
From RV Require Import Base.Wire Base.Text Lang.PyAst Lang.PySem Lang.CAst Lang.CSem Lang.ToC.
Import ListNotations.
Open Scope Z_scope.

Lemma lstrip_split l : exists bl, l = bl ++ lstrip l /\ forallb is_blank bl = true.
Proof.
  induction l as [|c r IH]; [exists []; auto|].
  cbn [lstrip]. destruct (is_blank c) eqn:E.
  - destruct IH as (bl & H1 & H2). exists (c :: bl). cbn [forallb app]. rewrite E, H2. split; [f_equal; exact H1|reflexivity].
  - exists []. auto.
Qed.

Lemma lstrip_strip s : exists bl, lstrip s = strip s ++ bl /\ forallb is_blank bl = true.
Proof.
  unfold strip. remember (lstrip s) as u. destruct (lstrip_split (rev u)) as (bl & H1 & H2).
  exists (rev bl). split.
  - apply (f_equal (@rev Z)) in H1. rewrite rev_involutive, rev_app_distr in H1. exact H1.
  - apply forallb_forall. intros x Hx. apply in_rev in Hx. rewrite forallb_forall in H2. auto.
Qed.

Lemma blank_not_digit c : is_blank c = true -> is_digit c = false.
Proof.
  unfold is_blank, is_digit. intro H. apply orb_true_iff in H as [H|H].
  - apply Z.eqb_eq in H. subst. reflexivity.
  - apply andb_true_iff in H as [H1 H2]. apply Z.leb_le in H1. apply Z.leb_le in H2.
    destruct (48 <=? c) eqn:E; [apply Z.leb_le in E; lia|reflexivity].
Qed.

Lemma atol_digits_app ds bl acc z :
  digits_val acc ds = Some z -> forallb is_blank bl = true -> atol_digits acc (ds ++ bl) = z.
Proof.
  revert acc. induction ds as [|c r IH]; intros acc Hd Hb.
  - cbn in Hd. inversion Hd; subst. cbn [app]. destruct bl as [|b bl']; [reflexivity|].
    cbn [forallb] in Hb. apply andb_true_iff in Hb as [Hb _]. cbn [atol_digits]. rewrite (blank_not_digit _ Hb). reflexivity.
  - cbn [digits_val] in Hd. cbn [app atol_digits]. unfold is_digit.
    destruct ((48 <=? c) && (c <=? 57)); [|discriminate]. apply IH; assumption.
Qed.

Lemma parse_int_atol s z : parse_int s = Ok z -> c_atol s = z.
Proof.
  unfold parse_int, c_atol. destruct (lstrip_strip s) as (bl & Hl & Hb). rewrite Hl.
  generalize (strip s). intro t. destruct (existsb _ t); [discriminate|].
  destruct t as [|c r]; [discriminate|]. intro H. cbn [app].
  destruct c as [|p|p]; cbv beta iota in H |- *.
  2: repeat (match goal with
             | |- context [match ?q with xI _ => _ | xO _ => _ | xH => _ end] => is_var q; destruct q
             end; cbv beta iota in H |- *).
  all: try (destruct r as [|c2 r2]; cbv beta iota in H |- *).
  all: try discriminate H.
  all: try (match type of H with context [digits_val 0 ?ds] => destruct (digits_val 0 ds) as [z'|] eqn:E end;
            [|discriminate H]; inversion H; subst; clear H;
            first [ rewrite (atol_digits_app _ _ _ _ E Hb); reflexivity
                  | change (?x :: ?l ++ bl) with ((x :: l) ++ bl); rewrite (atol_digits_app _ _ _ _ E Hb); reflexivity ]).
Qed.

(* hence the clause atol_ok of expr_guard holds whenever Python's int() succeeds *)
Lemma atol_ok_of_parse s z : parse_int s = Ok z -> Lang.ToC.atol_ok s = true.
Proof. intro H. unfold Lang.ToC.atol_ok. rewrite H. apply Z.eqb_eq. apply parse_int_atol. exact H. Qed.
