(* C08, emitter stage - proofs about Lang/BindEmit.v *)
From Coq Require Import String Ascii ZArith List Bool Arith Lia.
From RV Require Import Base.Wire Base.Text Lang.Sig Gen.Signatures Lang.Bind Lang.EmitTypes Gen.EmitStage
  Lang.BindEmit Lang.EmitSlots Proofs.BindP.
Import ListNotations.
Local Open Scope Z_scope.

(* ------------------------------------------------------------------ the presence tests, for every value *)
Lemma reach_sound_explicit t v :
  test_sound t = true -> v <> FConst CNone -> reach t v = AGiven v.
Proof.
  intros Ht Hv. destruct t; try discriminate; cbn.
  - reflexivity.
  - destruct v as [c|e]; [destruct c|]; try reflexivity. congruence.
Qed.

Lemma reach_sound_none_not_a_value t c :
  test_sound t = true -> c <> CNone -> reach t (FConst CNone) <> AGiven (FConst c).
Proof.
  intros Ht Hc. destruct t; try discriminate Ht; cbn; intros E; try discriminate E. injection E as E'. congruence.
Qed.

Lemma reach_sound_omitted_ne_explicit t c :
  test_sound t = true -> c <> CNone -> reach t (FConst c) <> reach t (FConst CNone).
Proof.
  intros Ht Hc E. rewrite (reach_sound_explicit t (FConst c) Ht) in E by congruence.
  symmetry in E. exact (reach_sound_none_not_a_value t c Ht Hc E).
Qed.

(* what a truthiness test does instead: every falsy constant is written like an omitted argument *)
Lemma truthy_test_loses_falsy c : falsy c = true -> reach PTruthy (FConst c) = reach PTruthy (FConst CNone).
Proof. intros H. cbn. rewrite H. reflexivity. Qed.

Lemma truthy_test_unsound : test_sound PTruthy = false /\ test_sound PNoneAsZero = false /\ test_sound PUnread = false.
Proof. repeat split. Qed.

(* ------------------------------------------------------------------ the regenerated table *)
Lemma tests_ok_now : tests_ok = true.
Proof. vm_compute. reflexivity. Qed.

Lemma falsy_default_ok_now : falsy_default_ok = true.
Proof. vm_compute. reflexivity. Qed.

Lemma places_stable_now : places_stable = true.
Proof. vm_compute. reflexivity. Qed.

Lemma methods_ok_now : methods_ok = true.
Proof. vm_compute. reflexivity. Qed.

Lemma ir_table_matches_now : ir_table_matches = true.
Proof. vm_compute. reflexivity. Qed.

Lemma places_pinned : place_summary = expected_places.
Proof. vm_compute. reflexivity. Qed.

Lemma tlookup_In {A} k (l : list (text * A)) v : tlookup k l = Some v -> In (k, v) l.
Proof.
  induction l as [|[k' v'] r IH]; cbn; [discriminate|].
  destruct (text_eqb k k') eqn:E.
  - intros H. injection H as <-. apply text_eqb_eq in E. subst. left. reflexivity.
  - intros H. right. exact (IH H).
Qed.

Lemma find_field_In f fs e : find_field f fs = Some e -> In e fs /\ ef_name e = f.
Proof.
  induction fs as [|e' r IH]; cbn; [discriminate|].
  destruct (text_eqb f (ef_name e')) eqn:E.
  - intros H. injection H as <-. apply text_eqb_eq in E. split; [left; reflexivity|congruence].
  - intros H. destruct (IH H) as [Hi Hn]. split; [right; exact Hi|exact Hn].
Qed.

(* every field of every probed node kind outside the guard: only None selects the omitted code *)
Lemma field_test_sound k f e :
  field_of k f = Some e -> guarded k f = false -> test_sound (ef_test e) = true.
Proof.
  unfold field_of. intros H Hg.
  destruct (tlookup k emit_table) as [fs|] eqn:Ek; [|discriminate].
  apply tlookup_In in Ek. apply find_field_In in H. destruct H as [Hi Hn].
  pose proof tests_ok_now as Hall. unfold tests_ok in Hall.
  rewrite forallb_forall in Hall. specialize (Hall _ Ek). cbn [fst snd] in Hall.
  rewrite forallb_forall in Hall. specialize (Hall _ Hi).
  rewrite Hn, Hg in Hall. exact Hall.
Qed.

Theorem emit_explicit_value_reaches_slot : forall k f e v,
  field_of k f = Some e -> guarded k f = false -> v <> FConst CNone ->
  reach (ef_test e) v = AGiven v.
Proof. intros k f e v H Hg Hv. apply reach_sound_explicit; [exact (field_test_sound k f e H Hg)|exact Hv]. Qed.

Theorem emit_omitted_ne_explicit_falsy : forall k f e c,
  field_of k f = Some e -> guarded k f = false -> c <> CNone ->
  reach (ef_test e) (FConst c) <> reach (ef_test e) (FConst CNone).
Proof. intros k f e c H Hg Hc. apply reach_sound_omitted_ne_explicit; [exact (field_test_sound k f e H Hg)|exact Hc]. Qed.

Theorem emit_no_falsy_constant_written_as_default : forall k fs e,
  In (k, fs) emit_table -> In e fs -> ef_falsy_def e = false.
Proof.
  intros k fs e Hk He. pose proof falsy_default_ok_now as Hall. unfold falsy_default_ok in Hall.
  rewrite forallb_forall in Hall. specialize (Hall _ Hk). cbn [fst snd] in Hall.
  rewrite forallb_forall in Hall. specialize (Hall _ He). now apply negb_true_iff in Hall.
Qed.

Theorem emit_places_stable : forall k fs e s0 rest pat x,
  In (k, fs) emit_table -> tmem k place_guard = false -> In e fs ->
  ef_slots e = s0 :: rest -> In pat rest -> In x pat -> In x s0.
Proof.
  intros k fs e s0 rest pat x Hk Hg He Hs Hp Hx.
  pose proof places_stable_now as Hall. unfold places_stable in Hall.
  rewrite forallb_forall in Hall. specialize (Hall _ Hk). cbn [fst snd] in Hall. rewrite Hg in Hall. cbn [orb] in Hall.
  rewrite forallb_forall in Hall. specialize (Hall _ He). unfold places_stable_field in Hall. rewrite Hs in Hall.
  rewrite forallb_forall in Hall. specialize (Hall _ Hp). unfold subset in Hall.
  rewrite forallb_forall in Hall. specialize (Hall _ Hx). now apply tmem_In in Hall.
Qed.

(* ------------------------------------------------------------------ from the call to the firmware arguments *)
Lemma method_test_sound m p :
  In m translated_methods -> In p (device_params m) -> param_guarded m p = false -> test_sound (test_of m p) = true.
Proof.
  intros Hm Hp Hg. pose proof methods_ok_now as Hall. unfold methods_ok in Hall.
  rewrite forallb_forall in Hall. specialize (Hall _ Hm).
  rewrite forallb_forall in Hall. specialize (Hall _ Hp). rewrite Hg in Hall. exact Hall.
Qed.

Lemma restrict_In ps b p s : In (p, s) (restrict ps b) -> In p ps /\ In (p, s) b.
Proof. unfold restrict. rewrite filter_In. cbn. intros [H1 H2]. split; [now apply tmem_In|exact H1]. Qed.

Definition fw_arg_is_pythons (m : method) (val : tag -> fval) (p : text) (s : slot) : Prop :=
  (value val s <> FConst CNone -> fw_arg m val p s = AGiven (value val s)) /\
  (value val s = FConst CNone -> forall c, c <> CNone -> fw_arg m val p s <> AGiven (FConst c)).

Theorem firmware_args_are_pythons_partial : forall m sh b val,
  In m translated_methods ->
  guard_ok (guard_of m) sh = true ->
  py_bind (sig_of m) sh = Some b ->
  redu_bind m sh = Rejected \/
  (redu_bind m sh = Bound (restrict (device_params m) b) /\
   forall p s, In (p, s) (restrict (device_params m) b) -> param_guarded m p = false ->
               In (p, s) b /\ fw_arg_is_pythons m val p s).
Proof.
  intros m sh b val Hm Hg Hpy.
  destruct (bind_agrees_guarded m sh b Hm Hg Hpy) as [R|B]; [left; exact R|right].
  split; [exact B|]. intros p s Hin Hpg.
  destruct (restrict_In _ _ _ _ Hin) as [Hp Hb]. split; [exact Hb|].
  pose proof (method_test_sound m p Hm Hp Hpg) as Ht. unfold fw_arg_is_pythons, fw_arg. split.
  - intros Hv. apply reach_sound_explicit; assumption.
  - intros Hv c Hc. rewrite Hv. apply reach_sound_none_not_a_value; assumption.
Qed.

(* an explicit falsy argument and an omitted None-default argument never give the same firmware argument *)
Theorem explicit_falsy_is_not_omitted : forall m val p t c,
  In m translated_methods -> In p (device_params m) -> param_guarded m p = false ->
  val t = FConst c -> c <> CNone ->
  fw_arg m val p (STag t) <> fw_arg m val p (SDefault DNone).
Proof.
  intros m val p t c Hm Hp Hg Hv Hc. unfold fw_arg. cbn [value cst_of_dval]. rewrite Hv.
  apply reach_sound_omitted_ne_explicit; [exact (method_test_sound m p Hm Hp Hg)|exact Hc].
Qed.

(* ------------------------------------------------------------------ non-vacuity *)
Lemma nonvacuous_emit :
  (exists e, field_of (T "BuzzerBeep") (T "frequency") = Some e /\ ef_test e = PNotNone /\ guarded (T "BuzzerBeep") (T "frequency") = false) /\
  (exists e, field_of (T "LCDMessage") (T "bottom") = Some e /\ ef_test e = PNotNone /\ List.length (ef_slots e) = 2%nat) /\
  test_of (T "Buzzer.beep") (T "frequency") = PNotNone /\
  test_of (T "Buzzer.play_tone") (T "duration_ms") = PNotNone /\
  test_of (T "Buzzer.beep") (T "times") = PAlways /\
  (let val := fun t => match t with TPos _ => FConst (CNum 0 1) | TKw _ => FConst (CBool false) end in
   fw_arg (T "Buzzer.beep") val (T "frequency") (STag (TPos 0)) = AGiven (FConst (CNum 0 1)) /\
   fw_arg (T "Buzzer.beep") val (T "frequency") (SDefault DNone) = AOmitted /\
   fw_arg (T "Buzzer.play_tone") val (T "duration_ms") (STag (TKw (T "duration_ms"))) = AGiven (FConst (CBool false))) /\
  (35 <= List.length emit_table)%nat.
Proof.
  split; [vm_compute; eexists; repeat split|]. split; [vm_compute; eexists; repeat split|].
  repeat split; try (vm_compute; reflexivity). vm_compute. lia.
Qed.
