(* Proofs for C08 (model: Lang/Bind.v, signatures: Gen/Signatures.v). *)
From Coq Require Import String Ascii ZArith List Bool Arith Lia Permutation.
From RV Require Import Base.Wire Base.Text Lang.Sig Gen.Signatures Lang.Bind.
Import ListNotations.
Local Open Scope nat_scope.

(* ------------------------------------------------------------------ list facts *)
Lemma tmem_perm k l l' : Permutation l l' -> tmem k l = tmem k l'.
Proof.
  intro P. destruct (tmem k l) eqn:E; symmetry.
  - apply tmem_In. apply tmem_In in E. eapply Permutation_in; eauto.
  - destruct (tmem k l') eqn:E'; auto. apply tmem_In in E'.
    apply Permutation_sym in P. apply (Permutation_in _ P) in E'. apply tmem_In in E'. congruence.
Qed.

Lemma has_dup_NoDup l : has_dup l = false <-> NoDup l.
Proof.
  induction l as [|a r IH]; cbn.
  - split; [constructor | reflexivity].
  - rewrite orb_false_iff, IH. split.
    + intros [H1 H2]. constructor; auto. intro Hin. apply tmem_In in Hin. congruence.
    + intro H. inversion H as [|x y Hn Hd]; subst. split; auto.
      destruct (tmem a r) eqn:E; auto. apply tmem_In in E. contradiction.
Qed.

Lemma has_dup_perm l l' : Permutation l l' -> has_dup l = has_dup l'.
Proof.
  intro P. destruct (has_dup l) eqn:E, (has_dup l') eqn:E'; auto.
  - apply has_dup_NoDup in E'. apply Permutation_sym in P.
    pose proof (Permutation_NoDup P E') as N. apply has_dup_NoDup in N. congruence.
  - apply has_dup_NoDup in E. pose proof (Permutation_NoDup P E) as N.
    apply has_dup_NoDup in N. congruence.
Qed.

Lemma forallb_perm {A} (f : A -> bool) l l' : Permutation l l' -> forallb f l = forallb f l'.
Proof.
  induction 1 as [|x l l' P IH|x y l|l l' l'' P1 IH1 P2 IH2]; cbn; auto.
  - rewrite IH; auto.
  - destruct (f x), (f y); auto.
  - congruence.
Qed.

Lemma existsb_perm {A} (f : A -> bool) l l' : Permutation l l' -> existsb f l = existsb f l'.
Proof.
  induction 1 as [|x l l' P IH|x y l|l l' l'' P1 IH1 P2 IH2]; cbn; auto.
  - rewrite IH; auto.
  - destruct (f x), (f y); auto.
  - congruence.
Qed.

Lemma forallb_ext' {A} (f g : A -> bool) l : (forall x, f x = g x) -> forallb f l = forallb g l.
Proof. intro H. induction l as [|a r IH]; cbn; auto. rewrite H, IH. reflexivity. Qed.

Lemma existsb_ext' {A} (f g : A -> bool) l : (forall x, f x = g x) -> existsb f l = existsb g l.
Proof. intro H. induction l as [|a r IH]; cbn; auto. rewrite H, IH. reflexivity. Qed.

Lemma filter_in_sublists {A} (f : A -> bool) l : In (filter f l) (sublists l).
Proof.
  induction l as [|a r IH]; cbn; auto.
  destruct (f a); apply in_or_app; [left; apply in_map; auto | right; auto].
Qed.

Lemma perm_nil_l {A} (l : list A) : Permutation [] l -> l = [].
Proof. apply Permutation_nil. Qed.

Lemma perm_cons_not_nil {A} (a : A) r l : Permutation (a :: r) l -> l <> [].
Proof. intros P E. subst. apply Permutation_sym in P. apply Permutation_nil in P. discriminate. Qed.

(* ------------------------------------------------------------------ decidable equalities *)
Lemma dval_eqb_eq a b : dval_eqb a b = true <-> a = b.
Proof.
  destruct a as [|n d|t|x], b as [|n' d'|t'|y]; cbn; split; intro H; try discriminate; try reflexivity.
  - apply andb_true_iff in H as [H1 H2]. apply Z.eqb_eq in H1. apply Z.eqb_eq in H2. congruence.
  - inversion H; subst. rewrite !Z.eqb_refl. reflexivity.
  - apply text_eqb_eq in H. congruence.
  - inversion H; subst. apply text_eqb_refl.
  - apply eqb_prop in H. congruence.
  - inversion H; subst. apply eqb_reflx.
Qed.

Lemma tag_eqb_eq a b : tag_eqb a b = true <-> a = b.
Proof.
  destruct a as [i|k], b as [j|k']; cbn; split; intro H; try discriminate.
  - apply Nat.eqb_eq in H. congruence.
  - inversion H; subst. apply Nat.eqb_refl.
  - apply text_eqb_eq in H. congruence.
  - inversion H; subst. apply text_eqb_refl.
Qed.

Lemma slot_eqb_eq a b : slot_eqb a b = true <-> a = b.
Proof.
  destruct a as [t|d], b as [t'|d']; cbn; split; intro H; try discriminate.
  - apply tag_eqb_eq in H. congruence.
  - inversion H; subst. apply tag_eqb_eq. reflexivity.
  - apply dval_eqb_eq in H. congruence.
  - inversion H; subst. apply dval_eqb_eq. reflexivity.
Qed.

Lemma binding_eqb_eq a b : binding_eqb a b = true <-> a = b.
Proof.
  revert b. induction a as [|[n s] a IH]; intros [|[n' s'] b]; cbn; split; intro H;
    try discriminate; try reflexivity.
  - apply andb_true_iff in H as [H12 H3]. apply andb_true_iff in H12 as [H1 H2].
    apply text_eqb_eq in H1. apply slot_eqb_eq in H2. apply IH in H3. congruence.
  - inversion H; subst. rewrite text_eqb_refl. cbn.
    replace (slot_eqb s' s') with true by (symmetry; apply slot_eqb_eq; reflexivity). cbn.
    apply IH. reflexivity.
Qed.

(* ------------------------------------------------------------------ keyword order: Python's binder *)
Lemma bind_params_ext n mem mem' sg :
  (forall k, mem k = mem' k) -> forall i, bind_params n mem sg i = bind_params n mem' sg i.
Proof.
  intro H. induction sg as [|p r IH]; intro i; cbn; auto. rewrite H, IH. reflexivity.
Qed.

Lemma py_bind_perm sg n ks ks' :
  Permutation ks ks' -> py_bind sg (mk_shape n ks) = py_bind sg (mk_shape n ks').
Proof.
  intro P. unfold py_bind; cbn [npos kws].
  rewrite (has_dup_perm _ _ P), (forallb_perm _ _ _ P), (existsb_perm _ _ _ P).
  rewrite (bind_params_ext n _ (fun k => tmem k ks')); auto.
  intro k. apply tmem_perm; auto.
Qed.

(* ------------------------------------------------------------------ keyword order: the parser's lookups *)
Lemma extract_arg_perm n ks ks' p k :
  Permutation ks ks' -> extract_arg (mk_shape n ks) p k = extract_arg (mk_shape n ks') p k.
Proof. intro P. destruct k as [k|]; cbn; auto. rewrite (tmem_perm _ _ _ P). reflexivity. Qed.

Lemma try_kws_perm n ks ks' l :
  Permutation ks ks' -> try_kws (mk_shape n ks) l = try_kws (mk_shape n ks') l.
Proof.
  intro P. induction l as [|k r IH]; cbn [try_kws]; auto.
  rewrite (extract_arg_perm n ks ks' 0 (Some k) P), IH. reflexivity.
Qed.

Lemma run_lookup_perm n ks ks' l :
  Permutation ks ks' -> run_lookup (mk_shape n ks) l = run_lookup (mk_shape n ks') l.
Proof.
  intro P. destruct l as [l i|l|i|l g i|k i| |k|]; cbn [run_lookup npos kws].
  - rewrite (try_kws_perm n ks ks' l P), (extract_arg_perm n ks ks' i None P). reflexivity.
  - rewrite (try_kws_perm n ks ks' l P). reflexivity.
  - rewrite (extract_arg_perm n ks ks' i None P). reflexivity.
  - rewrite (try_kws_perm n ks ks' l P), (tmem_perm g _ _ P).
    rewrite (extract_arg_perm n ks ks' _ None P). reflexivity.
  - rewrite (tmem_perm k _ _ P). reflexivity.
  - destruct ks as [|a r].
    + apply perm_nil_l in P. subst. reflexivity.
    + pose proof (perm_cons_not_nil _ _ _ P) as NE. destruct ks' as [|a' r']; [congruence|]. reflexivity.
  - destruct ks as [|a [|b r]].
    + apply perm_nil_l in P. subst. reflexivity.
    + apply Permutation_length_1_inv in P. subst. reflexivity.
    + pose proof (Permutation_length P) as L. destruct ks' as [|a' [|b' r']]; cbn in L; try discriminate.
      destruct n as [|[|n]]; reflexivity.
  - reflexivity.
Qed.

Lemma run_entries_perm n ks ks' es :
  Permutation ks ks' -> run_entries (mk_shape n ks) es = run_entries (mk_shape n ks') es.
Proof.
  intro P. induction es as [|e r IH]; cbn [run_entries]; auto.
  rewrite (run_lookup_perm n ks ks' _ P), IH. reflexivity.
Qed.

Lemma run_row_perm n ks ks' r :
  Permutation ks ks' -> run_row r (mk_shape n ks) = run_row r (mk_shape n ks').
Proof.
  intro P. destruct r as [[al|] es| |k fb pr ab]; cbn [run_row npos kws].
  - rewrite (forallb_perm _ _ _ P), (run_entries_perm n ks ks' es P). reflexivity.
  - apply run_entries_perm; auto.
  - destruct ks as [|a r].
    + apply perm_nil_l in P. subst. reflexivity.
    + pose proof (perm_cons_not_nil _ _ _ P) as NE. destruct ks' as [|a' r']; [congruence|].
      destruct n; reflexivity.
  - rewrite (tmem_perm k _ _ P), (run_entries_perm n ks ks' pr P), (run_entries_perm n ks ks' ab P).
    rewrite (existsb_ext' (fun f => tmem f ks) (fun f => tmem f ks')) by (intro; apply tmem_perm; auto).
    reflexivity.
Qed.

Lemma redu_bind_perm m n ks ks' :
  Permutation ks ks' -> redu_bind m (mk_shape n ks) = redu_bind m (mk_shape n ks').
Proof. intro P. unfold redu_bind. destruct (tlookup m table); auto. apply run_row_perm; auto. Qed.

Lemma guard_ok_perm g n ks ks' :
  Permutation ks ks' -> guard_ok g (mk_shape n ks) = guard_ok g (mk_shape n ks').
Proof.
  intro P. unfold guard_ok; cbn [kws]. apply forallb_ext'. intro c.
  rewrite (forallb_ext' (fun k => tmem k ks) (fun k => tmem k ks')) by (intro; apply tmem_perm; auto).
  rewrite (existsb_ext' (fun k => tmem k ks) (fun k => tmem k ks')) by (intro; apply tmem_perm; auto).
  reflexivity.
Qed.

(* ------------------------------------------------------------------ what Python rejects *)
Lemma py_bind_too_many sg sh : List.length (pk_names sg) < npos sh -> py_bind sg sh = None.
Proof. intro H. unfold py_bind. apply Nat.ltb_lt in H. rewrite H. reflexivity. Qed.

Lemma py_bind_repeated_kw sg sh : ~ NoDup (kws sh) -> py_bind sg sh = None.
Proof.
  intro H. unfold py_bind. destruct (_ <? _); auto.
  destruct (has_dup (kws sh)) eqn:D; auto. apply has_dup_NoDup in D. contradiction.
Qed.

Lemma py_bind_unknown_kw sg sh k : In k (kws sh) -> ~ In k (names sg) -> py_bind sg sh = None.
Proof.
  intros Hin Hn. unfold py_bind. destruct (_ <? _); auto. destruct (has_dup _); auto.
  destruct (forallb _ (kws sh)) eqn:F; cbn; auto.
  rewrite forallb_forall in F. apply F in Hin. apply tmem_In in Hin. contradiction.
Qed.

Lemma py_bind_pos_and_kw sg sh k :
  In k (kws sh) -> In k (firstn (npos sh) (pk_names sg)) -> py_bind sg sh = None.
Proof.
  intros Hin Hp. unfold py_bind. destruct (_ <? _); auto. destruct (has_dup _); auto.
  destruct (negb _); auto.
  destruct (existsb _ (kws sh)) eqn:E; auto.
  assert (existsb (fun k0 => tmem k0 (firstn (npos sh) (pk_names sg))) (kws sh) = true) as X.
  { apply existsb_exists. exists k. split; auto. apply tmem_In; auto. }
  congruence.
Qed.

(* an accepted call passes distinct, known keywords and not too many positionals *)
Lemma py_bind_accepts sg sh b :
  py_bind sg sh = Some b ->
  npos sh <= List.length (pk_names sg) /\ NoDup (kws sh) /\ (forall k, In k (kws sh) -> In k (names sg)).
Proof.
  unfold py_bind. intro H.
  destruct (_ <? _) eqn:L; [discriminate|]. apply Nat.ltb_ge in L.
  destruct (has_dup (kws sh)) eqn:D; [discriminate|]. apply has_dup_NoDup in D.
  destruct (forallb _ (kws sh)) eqn:K; cbn in H; [|discriminate].
  rewrite forallb_forall in K.
  repeat split; auto. intros k Hk. apply tmem_In. apply K; auto.
Qed.

(* ------------------------------------------------------------------ reduction to the finite set of shapes *)
Lemma canon_perm sg sh b :
  has_dup (names sg) = false -> py_bind sg sh = Some b ->
  Permutation (kws sh) (kws (canon_shape sg sh)).
Proof.
  intros ND H. apply py_bind_accepts in H as (_ & D & K). cbn [canon_shape kws].
  apply NoDup_Permutation; auto.
  - apply NoDup_filter. apply has_dup_NoDup; auto.
  - intro x. rewrite filter_In. split.
    + intro Hin. split; auto. apply tmem_In; auto.
    + intros [_ Hm]. apply tmem_In; auto.
Qed.

Lemma canon_in_enum sg sh :
  npos sh <= List.length (pk_names sg) -> In (canon_shape sg sh) (enum_shapes sg).
Proof.
  intro L. unfold enum_shapes, canon_shape. apply in_flat_map. exists (npos sh). split.
  - apply in_seq. lia.
  - apply in_map. apply filter_in_sublists.
Qed.

Definition agrees (m : method) (sh : call_shape) (b : binding) : Prop :=
  redu_bind m sh = Rejected \/ redu_bind m sh = Bound (restrict (device_params m) b).

Lemma check_method_sound m :
  check_method m = true ->
  forall sh b, guard_ok (guard_of m) sh = true -> py_bind (sig_of m) sh = Some b -> agrees m sh b.
Proof.
  unfold check_method. intros C sh b G H.
  apply andb_true_iff in C as [ND C]. apply negb_true_iff in ND.
  pose proof (canon_perm _ _ _ ND H) as P.
  pose proof (py_bind_accepts _ _ _ H) as (L & _ & _).
  pose proof (canon_in_enum (sig_of m) sh L) as I.
  destruct sh as [n ks]. unfold canon_shape in *. cbn [kws npos] in *.
  set (ks' := filter (fun k => tmem k ks) (names (sig_of m))) in *.
  rewrite (py_bind_perm _ n _ _ P) in H.
  rewrite (guard_ok_perm _ n _ _ P) in G.
  unfold agrees. rewrite (redu_bind_perm m n _ _ P).
  rewrite forallb_forall in C. apply C in I. unfold check_shape in I. rewrite G, H in I.
  unfold outcome_ok in I. destruct (redu_bind m (mk_shape n ks')) as [|b']; auto.
  right. f_equal. apply binding_eqb_eq. exact I.
Qed.

(* the finite part: every row, every (positional count <= arity, keyword subset) - computed *)
Lemma all_checked : forallb check_method translated_methods = true.
Proof. vm_compute. reflexivity. Qed.

Theorem bind_agrees_guarded : forall m sh b,
  In m translated_methods -> guard_ok (guard_of m) sh = true ->
  py_bind (sig_of m) sh = Some b -> agrees m sh b.
Proof.
  intros m sh b Hin. apply check_method_sound.
  pose proof all_checked as A. rewrite forallb_forall in A. auto.
Qed.

Lemma unguarded_ok m sh : unguarded m = true -> guard_ok (guard_of m) sh = true.
Proof. unfold unguarded. destruct (guard_of m) as [|c g]; [reflexivity|discriminate]. Qed.

Lemma agreeing_in m : In m agreeing_methods -> In m translated_methods /\ unguarded m = true.
Proof. unfold agreeing_methods. intro H. apply filter_In in H. exact H. Qed.

Theorem bind_agrees_partial : forall m sh b,
  In m agreeing_methods -> py_bind (sig_of m) sh = Some b -> agrees m sh b.
Proof.
  intros m sh b Hin H. destruct (agreeing_in m Hin) as [Hin' U].
  exact (bind_agrees_guarded m sh b Hin' (unguarded_ok m sh U) H).
Qed.

(* ------------------------------------------------------------------ refutations *)
Definition disagrees (m : method) (sh : call_shape) : bool :=
  match py_bind (sig_of m) sh, redu_bind m sh with
  | Some b, Bound b' => negb (binding_eqb b' (restrict (device_params m) b))
  | _, _ => false
  end.

Lemma refute_by_compute m sh :
  disagrees m sh = true ->
  exists b b', py_bind (sig_of m) sh = Some b /\ redu_bind m sh = Bound b'
               /\ b' <> restrict (device_params m) b.
Proof.
  unfold disagrees. destruct (py_bind (sig_of m) sh) as [b|]; [|discriminate].
  destruct (redu_bind m sh) as [|b']; [discriminate|]. intro H.
  exists b, b'. repeat split. intro E. apply binding_eqb_eq in E. rewrite E in H. discriminate.
Qed.

(* ------------------------------------------------------------------ rows that never reject *)
(* a lookup that cannot answer LReject, an entry that falls back to its default when missing *)
Definition lookup_total (l : lookup) : bool :=
  match l with
  | LKwPos _ _ | LKw _ | LPos _ | LKwPosAfter _ _ _ | LNever => true
  | LStrict _ _ | LWhole | LSole _ => false
  end.

Definition entry_total (e : entry) : bool := lookup_total (e_look e) && negb (e_required e).

Definition method_total (m : method) : bool :=
  match tlookup m table with
  | Some (Row None es) => forallb entry_total es
  | _ => false
  end.

Lemma run_lookup_total sh l : lookup_total l = true -> run_lookup sh l <> LReject.
Proof.
  destruct l as [l i|l|i|l g i|k i| |k|]; cbn [lookup_total run_lookup]; intro H; try discriminate H;
    try (unfold of_opt; match goal with |- context [match ?o with _ => _ end] => destruct o end; discriminate).
  discriminate.
Qed.

Lemma run_entries_total sh es :
  forallb entry_total es = true -> exists b, run_entries sh es = Bound b.
Proof.
  induction es as [|e r IH]; cbn [forallb run_entries]; intro H.
  - exists []. reflexivity.
  - apply andb_true_iff in H as [He Hr]. destruct (IH Hr) as [b Hb]. rewrite Hb.
    unfold entry_total in He. apply andb_true_iff in He as [Hl Hq]. apply negb_true_iff in Hq.
    pose proof (run_lookup_total sh _ Hl) as NR. rewrite Hq.
    destruct (run_lookup sh (e_look e)) as [t| |]; [eexists; reflexivity|eexists; reflexivity|congruence].
Qed.

Lemma method_total_sound m sh : method_total m = true -> exists b, redu_bind m sh = Bound b.
Proof.
  unfold method_total, redu_bind. destruct (tlookup m table) as [[[al|] es| |k fb pr ab]|]; try discriminate.
  intro H. cbn [run_row]. apply run_entries_total. exact H.
Qed.

(* ------------------------------------------------------------------ RGBLed.on (repaired row) *)
(* every call of rgb.on Python accepts is bound - never rejected - to exactly Python's binding *)
Lemma rgb_on_binds : forall sh b,
  py_bind (sig_of (T "RGBLed.on")) sh = Some b ->
  redu_bind (T "RGBLed.on") sh = Bound (restrict (device_params (T "RGBLed.on")) b).
Proof.
  intros sh b H.
  assert (In (T "RGBLed.on") agreeing_methods) as Hin by (apply tmem_In; vm_compute; reflexivity).
  destruct (bind_agrees_partial _ _ _ Hin H) as [R|B]; [|exact B].
  assert (method_total (T "RGBLed.on") = true) as Tot by (vm_compute; reflexivity).
  destruct (method_total_sound _ sh Tot) as [b' Hb']. congruence.
Qed.

(* the negation of the former refutation, literally *)
Lemma rgb_on_no_disagreement : forall sh b b',
  py_bind (sig_of (T "RGBLed.on")) sh = Some b ->
  redu_bind (T "RGBLed.on") sh = Bound b' ->
  b' = restrict (device_params (T "RGBLed.on")) b.
Proof. intros sh b b' H R. rewrite (rgb_on_binds sh b H) in R. congruence. Qed.

(* the three spellings of the property text command the same colour: each parameter receives
   the argument Python gives it - rgb.on(red=.., green=.., blue=..), rgb.on(r, g, b),
   rgb.on(r, blue=.., green=..) *)
Lemma rgb_on_spellings :
  let m := T "RGBLed.on" in
  In m agreeing_methods /\
  redu_bind m (mk_shape 0 [T "red"; T "green"; T "blue"]) =
    Bound [(T "red", STag (TKw (T "red"))); (T "green", STag (TKw (T "green"))); (T "blue", STag (TKw (T "blue")))] /\
  redu_bind m (mk_shape 3 []) =
    Bound [(T "red", STag (TPos 0)); (T "green", STag (TPos 1)); (T "blue", STag (TPos 2))] /\
  redu_bind m (mk_shape 1 [T "blue"; T "green"]) =
    Bound [(T "red", STag (TPos 0)); (T "green", STag (TKw (T "green"))); (T "blue", STag (TKw (T "blue")))] /\
  redu_bind m (mk_shape 0 [T "blue"]) =
    Bound [(T "red", SDefault (DNum 255 1)); (T "green", SDefault (DNum 255 1)); (T "blue", STag (TKw (T "blue")))] /\
  (forall sh, In sh [mk_shape 0 [T "red"; T "green"; T "blue"]; mk_shape 3 []; mk_shape 1 [T "blue"; T "green"]; mk_shape 0 [T "blue"]] ->
     exists b, py_bind (sig_of m) sh = Some b /\ redu_bind m sh = Bound b).
Proof.
  cbv zeta. split; [apply tmem_In; vm_compute; reflexivity|].
  split; [vm_compute; reflexivity|]. split; [vm_compute; reflexivity|].
  split; [vm_compute; reflexivity|]. split; [vm_compute; reflexivity|].
  intros sh Hin. cbn [In] in Hin.
  destruct Hin as [E|[E|[E|[E|[]]]]]; subst sh; eexists; split; vm_compute; reflexivity.
Qed.

(* ------------------------------------------------------------------ no guard is left *)
Lemma all_methods_agree : agreeing_methods = translated_methods.
Proof. vm_compute. reflexivity. Qed.

Lemma guard_ok_always m sh : guard_ok (guard_of m) sh = true.
Proof. unfold guard_of, guards. cbn [tlookup]. reflexivity. Qed.

(* the property for every handler and every call shape, without any guard *)
Theorem bind_agrees : forall m sh b,
  In m translated_methods -> py_bind (sig_of m) sh = Some b -> agrees m sh b.
Proof. intros m sh b Hin H. exact (bind_agrees_guarded m sh b Hin (guard_ok_always m sh) H). Qed.

(* LCD(rs=.., i2c_addr=..): the former witness of F-C08-lcd-i2c-parallel-pins *)
Definition lcd_init_witness : call_shape := mk_shape 0 [T "rs"; T "i2c_addr"].

(* the I2C branch rejects every parallel pin (and every positional argument), whatever else is passed *)
Lemma lcd_i2c_rejects_parallel : forall sh k,
  In (T "i2c_addr") (kws sh) -> In k lcd_parallel_pins -> In k (kws sh) ->
  redu_bind (T "LCD.__init__") sh = Rejected.
Proof.
  intros sh k Hi Hk Hin.
  assert (E : redu_bind (T "LCD.__init__") sh = run_row (RowSwitch (T "i2c_addr") lcd_parallel_pins lcd_i2c lcd_parallel) sh)
    by reflexivity.
  rewrite E. cbn [run_row].
  replace (tmem (T "i2c_addr") (kws sh)) with true by (symmetry; apply tmem_In; exact Hi).
  replace (existsb (fun f => tmem f (kws sh)) lcd_parallel_pins) with true.
  - rewrite orb_true_r. reflexivity.
  - symmetry. apply existsb_exists. exists k. split; [exact Hk|apply tmem_In; exact Hin].
Qed.

Lemma lcd_i2c_rejects_positional : forall sh,
  In (T "i2c_addr") (kws sh) -> 0 < npos sh -> redu_bind (T "LCD.__init__") sh = Rejected.
Proof.
  intros sh Hi Hp.
  assert (E : redu_bind (T "LCD.__init__") sh = run_row (RowSwitch (T "i2c_addr") lcd_parallel_pins lcd_i2c lcd_parallel) sh)
    by reflexivity.
  rewrite E. cbn [run_row].
  replace (tmem (T "i2c_addr") (kws sh)) with true by (symmetry; apply tmem_In; exact Hi).
  replace (0 <? npos sh) with true by (symmetry; apply Nat.ltb_lt; exact Hp). reflexivity.
Qed.

(* the negation of the former refutation, literally: no call of LCD(...) Python accepts is bound differently *)
Lemma lcd_init_no_disagreement : forall sh b b',
  py_bind (sig_of (T "LCD.__init__")) sh = Some b ->
  redu_bind (T "LCD.__init__") sh = Bound b' ->
  b' = restrict (device_params (T "LCD.__init__")) b.
Proof.
  intros sh b b' H R.
  assert (In (T "LCD.__init__") translated_methods) as Hin by (apply tmem_In; vm_compute; reflexivity).
  destruct (bind_agrees _ _ _ Hin H) as [X|X]; congruence.
Qed.

Lemma lcd_init_witness_rejected :
  py_bind (sig_of (T "LCD.__init__")) lcd_init_witness <> None /\
  redu_bind (T "LCD.__init__") lcd_init_witness = Rejected /\
  redu_bind (T "LCD.__init__") (mk_shape 0 [T "i2c_addr"; T "rw"]) = Rejected /\
  redu_bind (T "LCD.__init__") (mk_shape 1 [T "i2c_addr"]) = Rejected /\
  (exists b, redu_bind (T "LCD.__init__") (mk_shape 0 [T "backlight_pin"; T "i2c_addr"; T "rows"]) = Bound b) /\
  (exists b, redu_bind (T "LCD.__init__") (mk_shape 0 [T "rs"; T "en"; T "d4"; T "d5"; T "d6"; T "d7"; T "rw"]) = Bound b).
Proof.
  split; [vm_compute; discriminate|]. split; [vm_compute; reflexivity|]. split; [vm_compute; reflexivity|].
  split; [vm_compute; reflexivity|]. split; eexists; vm_compute; reflexivity.
Qed.

(* ------------------------------------------------------------------ the table covers the host surface *)
Lemma surface_classified_b :
  forallb (fun m => tmem m translated_methods || tmem m host_only_methods) (map fst signatures) = true.
Proof. vm_compute. reflexivity. Qed.

Lemma table_has_signatures_b :
  forallb (fun m => tmem m (map fst signatures)) (translated_methods ++ host_only_methods) = true.
Proof. vm_compute. reflexivity. Qed.

Theorem surface_classified : forall m,
  In m (map fst signatures) -> In m translated_methods \/ In m host_only_methods.
Proof.
  intros m H. pose proof surface_classified_b as A. rewrite forallb_forall in A. apply A in H.
  apply orb_true_iff in H as [H|H]; apply tmem_In in H; auto.
Qed.

Theorem table_has_signatures : forall m,
  In m translated_methods \/ In m host_only_methods -> In m (map fst signatures).
Proof.
  intros m H. pose proof table_has_signatures_b as A. rewrite forallb_forall in A.
  apply tmem_In. apply A. apply in_or_app. exact H.
Qed.

(* ------------------------------------------------------------------ non-vacuity witnesses *)
Lemma nonvacuous_binding :
  let sh := mk_shape 1 [T "blue"; T "steps"; T "green"] in
  let b := [(T "red", STag (TPos 0)); (T "green", STag (TKw (T "green"))); (T "blue", STag (TKw (T "blue")));
            (T "duration_ms", SDefault (DNum 1000 1)); (T "steps", STag (TKw (T "steps")))] in
  In (T "RGBLed.fade") agreeing_methods /\
  py_bind (sig_of (T "RGBLed.fade")) sh = Some b /\
  redu_bind (T "RGBLed.fade") sh = Bound b /\
  restrict (device_params (T "RGBLed.fade")) b = b.
Proof.
  cbv zeta. split; [apply tmem_In; vm_compute; reflexivity|].
  split; [vm_compute; reflexivity|]. split; vm_compute; reflexivity.
Qed.

Lemma nonvacuous_rejections :
  py_bind (sig_of (T "RGBLed.set_color")) (mk_shape 4 []) = None /\
  py_bind (sig_of (T "RGBLed.set_color")) (mk_shape 1 [T "red"; T "green"; T "blue"]) = None /\
  py_bind (sig_of (T "LCD.write")) (mk_shape 0 [T "col"; T "row"; T "text"]) <> None /\
  redu_bind (T "LCD.write") (mk_shape 0 [T "col"; T "row"; T "text"]) = Rejected.
Proof.
  split; [vm_compute; reflexivity|]. split; [vm_compute; reflexivity|].
  split; [vm_compute; discriminate|vm_compute; reflexivity].
Qed.

Lemma nonvacuous_guard :
  let sh := mk_shape 0 [T "cols"; T "i2c_addr"] in
  guard_ok (guard_of (T "LCD.__init__")) sh = true /\
  (exists b, py_bind (sig_of (T "LCD.__init__")) sh = Some b /\
             redu_bind (T "LCD.__init__") sh = Bound (restrict (device_params (T "LCD.__init__")) b)) /\
  60 <= List.length agreeing_methods.
Proof.
  cbv zeta. split; [vm_compute; reflexivity|]. split.
  - destruct (py_bind (sig_of (T "LCD.__init__")) (mk_shape 0 [T "cols"; T "i2c_addr"])) as [b|] eqn:E;
      [|vm_compute in E; discriminate E].
    exists b. split; [reflexivity|].
    assert (In (T "LCD.__init__") translated_methods) as Hin by (apply tmem_In; vm_compute; reflexivity).
    assert (guard_ok (guard_of (T "LCD.__init__")) (mk_shape 0 [T "cols"; T "i2c_addr"]) = true) as G
      by (vm_compute; reflexivity).
    destruct (bind_agrees_guarded _ _ _ Hin G E) as [R|B]; [|exact B].
    vm_compute in R. discriminate R.
  - apply Nat.leb_le. vm_compute. reflexivity.
Qed.
