(* Proofs about the host Button over whole call histories (Host/ButtonHist.v), for C15. *)
From Coq Require Import ZArith List Bool Arith Lia.
From RV Require Import Base.NumC Device.DButton Host.ButtonHist Proofs.InputsP.
Import ListNotations.
Open Scope nat_scope.

(* a handler that does not itself sample the button (or no handler) *)
Definition plain (cfg : hcfg) : Prop := hcalls (hc_click cfg) = 0.
Definition has_click (cfg : hcfg) : bool := match hc_click cfg with Some _ => true | None => false end.

(* what one is_pressed() must produce, given the previous sample and this one *)
Definition spec_poll (click prev x : bool) : list hev :=
  if click && (x && negb prev) then [HClick; HRet x] else [HRet x].

Fixpoint spec_events (click prev : bool) (s : list bool) : list (list hev) :=
  match s with
  | [] => []
  | x :: r => spec_poll click prev x :: spec_events click x r
  end.

Definition after_poll (cfg : hcfg) (s : hstate) (x : bool) : hstate :=
  {| hs_pressed := hs_pressed s; hs_was := x; hs_np := if hc_provider cfg then S (hs_np s) else hs_np s |}.

Definition sample_at (cfg : hcfg) (prov : nat -> bool) (s : hstate) : bool :=
  if hc_provider cfg then prov (hs_np s) else hs_pressed s.

Lemma poll_plain d cfg prov s :
  plain cfg ->
  h_poll (S d) cfg prov s =
  (after_poll cfg s (sample_at cfg prov s), spec_poll (has_click cfg) (hs_was s) (sample_at cfg prov s), true).
Proof.
  unfold plain, has_click, sample_at, after_poll, spec_poll. intro Hp.
  cbn [h_poll]. destruct cfg as [[n|] pv]; cbn [hc_click hc_provider hcalls] in *.
  - subst n. destruct pv; cbn [hs_was hs_np hs_pressed andb].
    + destruct (prov (hs_np s) && negb (hs_was s)); reflexivity.
    + destruct (hs_pressed s && negb (hs_was s)); destruct s; reflexivity.
  - destruct pv; destruct s; reflexivity.
Qed.

(* the whole history: it never raises, and its is_pressed() calls are exactly the specification applied to the
   sampled signal - the set_pressed calls in between show only through the level in force at the next sample *)
Lemma hist_plain d cfg prov ops : forall s,
  plain cfg ->
  snd (h_hist (S d) cfg prov s ops) = true /\
  poll_events ops (fst (h_hist (S d) cfg prov s ops)) =
  spec_events (has_click cfg) (hs_was s) (sampled (hc_provider cfg) prov (hs_pressed s) (hs_np s) ops).
Proof.
  induction ops as [|o r IH]; intros s Hp; [split; reflexivity|].
  destruct o as [v|].
  - cbn [h_hist sampled]. specialize (IH (h_set s v) Hp).
    destruct (h_hist (S d) cfg prov (h_set s v) r) as [l ok] eqn:E. cbn [fst snd poll_events] in *.
    exact IH.
  - cbn [h_hist sampled]. rewrite (poll_plain d cfg prov s Hp).
    specialize (IH (after_poll cfg s (sample_at cfg prov s)) Hp).
    destruct (h_hist (S d) cfg prov (after_poll cfg s (sample_at cfg prov s)) r) as [l ok] eqn:E.
    cbn [fst snd poll_events spec_events] in *. destruct IH as [IH1 IH2]. split; [exact IH1|].
    unfold sample_at in *. unfold after_poll in IH2. cbn [hs_was hs_pressed hs_np] in IH2.
    rewrite IH2. destruct (hc_provider cfg); reflexivity.
Qed.

Lemma hclicks_spec_poll click prev x : hclicks (spec_poll click prev x) = b2n (click && (x && negb prev)).
Proof. unfold spec_poll. destruct (click && (x && negb prev)); reflexivity. Qed.

Lemma clicks_spec_events prev s : map hclicks (spec_events true prev s) = map b2n (edges prev s).
Proof.
  revert prev. induction s as [|x r IH]; intro prev; cbn [spec_events map edges]; [reflexivity|].
  rewrite hclicks_spec_poll, IH. reflexivity.
Qed.

Lemma clicks_spec_events_none prev s : map hclicks (spec_events false prev s) = map (fun _ => 0) s.
Proof.
  revert prev. induction s as [|x r IH]; intro prev; cbn [spec_events map]; [reflexivity|].
  rewrite hclicks_spec_poll, IH. reflexivity.
Qed.

Definition ret_of (evs : list hev) : option bool :=
  match last evs HClick with HRet v => Some v | HClick => None end.

Lemma rets_spec_events click prev s : map ret_of (spec_events click prev s) = map Some s.
Proof.
  revert prev. induction s as [|x r IH]; intro prev; cbn [spec_events map]; [reflexivity|].
  rewrite IH. unfold spec_poll. destruct (click && (x && negb prev)); reflexivity.
Qed.

(* ---- the statements used by Props/C15.v *)

Lemma host_hist_clicks d pv prov ops :
  let cfg := {| hc_click := Some 0; hc_provider := pv |} in
  let h := h_hist (S d) cfg prov hs_init ops in
  snd h = true /\
  map hclicks (poll_events ops (fst h)) = map b2n (edges false (sampled pv prov false 0 ops)) /\
  map ret_of (poll_events ops (fst h)) = map Some (sampled pv prov false 0 ops).
Proof.
  cbv zeta.
  destruct (hist_plain d {| hc_click := Some 0; hc_provider := pv |} prov ops hs_init eq_refl) as [H1 H2].
  split; [exact H1|]. rewrite H2. cbn [has_click hc_click hs_init hs_was hs_pressed hs_np hc_provider].
  split; [apply clicks_spec_events|apply rets_spec_events].
Qed.

Lemma host_hist_no_callback d pv prov ops :
  let cfg := {| hc_click := None; hc_provider := pv |} in
  let h := h_hist (S d) cfg prov hs_init ops in
  snd h = true /\
  map hclicks (poll_events ops (fst h)) = map (fun _ => 0) (sampled pv prov false 0 ops) /\
  map ret_of (poll_events ops (fst h)) = map Some (sampled pv prov false 0 ops).
Proof.
  cbv zeta.
  destruct (hist_plain d {| hc_click := None; hc_provider := pv |} prov ops hs_init eq_refl) as [H1 H2].
  split; [exact H1|]. rewrite H2. cbn [has_click hc_click hs_init hs_was hs_pressed hs_np hc_provider].
  split; [apply clicks_spec_events_none|apply rets_spec_events].
Qed.

(* device and host, any drive: whatever set_pressed calls lie between the samples *)
Lemma host_agrees_any_drive pl n d pv prov ops ps :
  sampled pv prov false 0 ops = map fst ps ->
  map clicks (dev_run pl (Some n) false ps) =
  map hclicks (poll_events ops (fst (h_hist (S d) {| hc_click := Some 0; hc_provider := pv |} prov hs_init ops))).
Proof.
  intro Hs. destruct (host_hist_clicks d pv prov ops) as [_ [H _]]. rewrite H, Hs. apply clicks_dev.
Qed.

(* two histories with the same sampled signal are indistinguishable at their is_pressed() calls *)
Lemma unsampled_levels_invisible d cfg prov1 prov2 ops1 ops2 :
  plain cfg ->
  sampled (hc_provider cfg) prov1 false 0 ops1 = sampled (hc_provider cfg) prov2 false 0 ops2 ->
  poll_events ops1 (fst (h_hist (S d) cfg prov1 hs_init ops1)) =
  poll_events ops2 (fst (h_hist (S d) cfg prov2 hs_init ops2)).
Proof.
  intros Hp Hs.
  rewrite (proj2 (hist_plain d cfg prov1 ops1 hs_init Hp)), (proj2 (hist_plain d cfg prov2 ops2 hs_init Hp)).
  cbn [hs_init hs_was hs_pressed hs_np]. rewrite Hs. reflexivity.
Qed.

(* set_pressed touches nothing but the level *)
Lemma set_keeps_edge_state s v :
  hs_was (h_set s v) = hs_was s /\ hs_np (h_set s v) = hs_np s /\ hs_pressed (h_set s v) = truthy v.
Proof. repeat split. Qed.

Lemma sets_keep_was s vs : hs_was (fold_left h_set vs s) = hs_was s.
Proof. revert s. induction vs as [|v r IH]; intro s; cbn [fold_left]; [reflexivity|]. rewrite IH. reflexivity. Qed.

Lemma hist_sets d cfg prov vs : forall s rest,
  h_hist d cfg prov s (map HSet vs ++ rest) =
  (map (fun _ => []) vs ++ fst (h_hist d cfg prov (fold_left h_set vs s) rest),
   snd (h_hist d cfg prov (fold_left h_set vs s) rest)).
Proof.
  induction vs as [|v r IH]; intros s rest; cbn [map app fold_left].
  - destruct (h_hist d cfg prov s rest); reflexivity.
  - cbn [h_hist]. rewrite IH. reflexivity.
Qed.

(* never while held: the previous sample was "pressed"; whatever is set in between - released and pressed again any
   number of times - the next is_pressed() does not enter the handler *)
Lemma no_click_after_pressed_sample d cfg prov s vs :
  plain cfg -> hs_was s = true ->
  Forall (fun evs => hclicks evs = 0) (fst (h_hist (S d) cfg prov s (map HSet vs ++ [HPoll]))) /\
  snd (h_hist (S d) cfg prov s (map HSet vs ++ [HPoll])) = true.
Proof.
  intros Hp Hw. rewrite hist_sets. cbn [fst snd h_hist].
  rewrite (poll_plain d cfg prov _ Hp). cbn [fst snd]. split; [|reflexivity].
  apply Forall_app. split.
  - induction vs as [|v r IH]; cbn [map]; constructor; auto.
  - constructor; [|constructor]. rewrite hclicks_spec_poll, sets_keep_was, Hw.
    destruct (has_click cfg), (sample_at cfg prov (fold_left h_set vs s)); reflexivity.
Qed.

(* ---- a handler that itself calls is_pressed(): the host never gets out of it *)
Lemma hclicks_repeat n : hclicks (repeat HClick n) = n.
Proof. unfold hclicks. induction n as [|n IH]; cbn [repeat filter is_hclick length]; [reflexivity|]. rewrite IH. reflexivity. Qed.

Lemma reentrant_never_returns n prov depth : forall s,
  hs_pressed s = true -> hs_was s = false ->
  h_poll depth {| hc_click := Some (S n); hc_provider := false |} prov s = (s, repeat HClick depth, false).
Proof.
  induction depth as [|d IH]; intros s Hp Hw; [reflexivity|].
  cbn [h_poll hc_provider hc_click]. rewrite Hp, Hw. cbn [andb negb iter_calls].
  rewrite (IH s Hp Hw). reflexivity.
Qed.

(* with a provider the nested call takes a new sample; as long as the provider keeps saying "pressed" it is the same *)
Lemma reentrant_never_returns_provider n prov depth : forall s,
  (forall k, prov k = true) -> hs_was s = false ->
  exists s', h_poll depth {| hc_click := Some (S n); hc_provider := true |} prov s = (s', repeat HClick depth, false) /\
             hs_was s' = false.
Proof.
  induction depth as [|d IH]; intros s Hp Hw; [exists s; split; [reflexivity|exact Hw]|].
  cbn [h_poll hc_provider hc_click]. rewrite Hp. cbn [hs_was]. rewrite Hw. cbn [andb negb iter_calls].
  destruct (IH {| hs_pressed := hs_pressed s; hs_was := hs_was s; hs_np := S (hs_np s) |} Hp Hw) as [s' [E Hw']].
  cbn [hs_was] in E. rewrite Hw in *. rewrite E. exists s'. split; [reflexivity|exact Hw'].
Qed.

Lemma reentrancy_refuted :
  exists (n : nat) (ops : list hop) (ps : list (bool * nat)),
    (forall prov, sampled false prov false 0 ops = map fst ps) /\
    map clicks (dev_run BeforeLoop (Some n) false ps) = [1] /\
    forall depth prov,
      h_hist depth {| hc_click := Some n; hc_provider := false |} prov hs_init ops = ([[]; repeat HClick depth], false).
Proof.
  exists 1, [HSet (PB true); HPoll], [(true, 0)].
  split; [reflexivity|]. split; [reflexivity|].
  intros depth prov. cbn [h_hist].
  rewrite (reentrant_never_returns 0 prov depth (h_set hs_init (PB true)) eq_refl eq_refl). reflexivity.
Qed.
