(* Lemmas and proofs for property C16 (buzzer protocol).  Statements used by Props/C16.v. *)
From Coq Require Import ZArith QArith Qround Lia Lqa List Bool Sorted.
From RV Require Import Base.Wire Base.Text Device.DBuzzer Device.BuzzerSpec Device.MelodySpec Gen.Melodies.
Import ListNotations.
Open Scope Z_scope.

Arguments tone_of : simpl never.
Arguments c_ulong : simpl never.
Arguments c_int : simpl never.
Arguments Qfloor : simpl never.

(* the guarded step delay of a sweep is the plain quotient once the count is clamped at 0 (x / 0 = 0 in Z) *)
Lemma step_delay_of_max total k : step_delay_of total (Z.max 0 k) = total / Z.max 0 k.
Proof.
  unfold step_delay_of. destruct (0 <? Z.max 0 k) eqn:E; [reflexivity|].
  apply Z.ltb_ge in E. replace (Z.max 0 k) with 0 by lia. symmetry. apply Zdiv_0_r.
Qed.

(* ------------------------------------------------------------------ comparisons *)
Lemma qlt_true a b : qlt a b = true <-> (a < b)%Q.
Proof.
  unfold qlt. rewrite negb_true_iff. split; intro H.
  - apply Qnot_le_lt. intro Hle. apply Qle_bool_iff in Hle. congruence.
  - destruct (Qle_bool b a) eqn:E; [|reflexivity].
    apply Qle_bool_iff in E. exfalso. apply (Qlt_not_le _ _ H E).
Qed.

Lemma qlt_false a b : qlt a b = false <-> (b <= a)%Q.
Proof.
  unfold qlt. rewrite negb_false_iff. apply Qle_bool_iff.
Qed.

Lemma qle_true a b : qle a b = true <-> (a <= b)%Q.
Proof. apply Qle_bool_iff. Qed.

Lemma qle_false a b : qle a b = false <-> (b < a)%Q.
Proof.
  unfold qle. split; intro H.
  - apply Qnot_le_lt. intro Hle. apply Qle_bool_iff in Hle. congruence.
  - destruct (Qle_bool a b) eqn:E; [|reflexivity].
    apply Qle_bool_iff in E. exfalso. apply (Qlt_not_le _ _ H E).
Qed.

Lemma qle_qlt a b : qle a b = negb (qlt b a).
Proof. unfold qlt, qle. rewrite negb_involutive. reflexivity. Qed.

Lemma q0_is_0 : (q0 == 0)%Q.
Proof. reflexivity. Qed.

(* ------------------------------------------------------------------ clamp0 *)
Lemma clamp0_pos q : qlt q0 q = true -> clamp0 q = q.
Proof.
  intro H. unfold clamp0. destruct (qlt q q0) eqn:E; [|reflexivity].
  apply qlt_true in H. apply qlt_true in E. exfalso. apply (Qlt_irrefl q0). eapply Qlt_trans; eauto.
Qed.

Lemma clamp0_nonneg q : (0 <= clamp0 q)%Q.
Proof.
  unfold clamp0. destruct (qlt q q0) eqn:E.
  - apply Qle_refl.
  - apply qlt_false in E. exact E.
Qed.

Lemma clamp0_nonpos q : qle q q0 = true -> qlt q0 (clamp0 q) = false.
Proof.
  intro H. apply qlt_false. unfold clamp0. destruct (qlt q q0) eqn:E.
  - apply Qle_refl.
  - apply qle_true in H. exact H.
Qed.

Lemma clamp0_nonpos_eq0 q : qle q q0 = true -> (clamp0 q == 0)%Q.
Proof.
  intro H. apply Qle_antisym.
  - apply qlt_false. apply clamp0_nonpos. exact H.
  - apply clamp0_nonneg.
Qed.

Lemma clamp0_zero q : (q == 0)%Q -> qlt q0 (clamp0 q) = false.
Proof.
  intro H. apply clamp0_nonpos. apply qle_true. rewrite H. apply Qle_refl.
Qed.

Lemma clamp0_mono a b : (a <= b)%Q -> (clamp0 a <= clamp0 b)%Q.
Proof.
  intro H. unfold clamp0. destruct (qlt a q0) eqn:Ea; destruct (qlt b q0) eqn:Eb.
  - apply Qle_refl.
  - apply qlt_false in Eb. exact Eb.
  - apply qlt_false in Ea. apply qlt_true in Eb. exfalso.
    apply (Qlt_irrefl q0). eapply Qle_lt_trans; [exact Ea|]. eapply Qle_lt_trans; eauto.
  - exact H.
Qed.

Lemma clamp0_comp a b : (a == b)%Q -> (clamp0 a == clamp0 b)%Q.
Proof.
  intro H. apply Qle_antisym; apply clamp0_mono; rewrite H; apply Qle_refl.
Qed.

(* ------------------------------------------------------------------ clamph *)
Lemma qhalf_pos q : qle qhalf q = true -> qlt q0 q = true.
Proof. intro H. apply qle_true in H. apply qlt_true. unfold qhalf, q0 in *. lra. Qed.

Lemma clamph_ge q : qle qhalf q = true -> clamph q = q.
Proof.
  intro H. unfold clamph. destruct (qlt q qhalf) eqn:E; [|reflexivity].
  apply qlt_true in E. apply qle_true in H. exfalso. apply (Qlt_irrefl q). eapply Qlt_le_trans; eauto.
Qed.

Lemma clamph_lt q : qlt q qhalf = true -> clamph q = q0.
Proof. intro H. unfold clamph. rewrite H. reflexivity. Qed.

Lemma clamph_cases q : (qlt q qhalf = true /\ clamph q = q0) \/ (qle qhalf q = true /\ clamph q = q).
Proof.
  unfold clamph. destruct (qlt q qhalf) eqn:E; [left; split; reflexivity|].
  right. split; [|reflexivity]. apply qle_true. apply qlt_false. exact E.
Qed.

Lemma clamph_nonneg q : (0 <= clamph q)%Q.
Proof.
  destruct (clamph_cases q) as [[_ H]|[H1 H]]; rewrite H; [apply Qle_refl|].
  apply qle_true in H1. unfold qhalf in H1. lra.
Qed.

(* a clamped frequency is 0 or at least 1/2 *)
Lemma clamph_pos_half q : qlt q0 (clamph q) = true -> qle qhalf (clamph q) = true /\ clamph q = q.
Proof.
  intro Hp. destruct (clamph_cases q) as [[_ H]|[H1 H]]; rewrite H in *.
  - discriminate.
  - split; [exact H1|reflexivity].
Qed.

Lemma clamph_nonpos q : qle q q0 = true -> qlt q0 (clamph q) = false.
Proof.
  intro H. rewrite clamph_lt; [reflexivity|].
  apply qle_true in H. apply qlt_true. unfold qhalf, q0 in *. lra.
Qed.

Lemma clamph_zero q : (q == 0)%Q -> qlt q0 (clamph q) = false.
Proof.
  intro H. apply clamph_nonpos. apply qle_true. rewrite H. apply Qle_refl.
Qed.

Lemma clamph_mono a b : (a <= b)%Q -> (clamph a <= clamph b)%Q.
Proof.
  intro H. destruct (clamph_cases a) as [[Ha Ea]|[Ha Ea]]; destruct (clamph_cases b) as [[Hb Eb]|[Hb Eb]];
    rewrite Ea, Eb.
  - apply Qle_refl.
  - apply qle_true in Hb. unfold qhalf, q0 in *. lra.
  - apply qle_true in Ha. apply qlt_true in Hb. exfalso. unfold qhalf in *. lra.
  - exact H.
Qed.

Lemma clamph_comp a b : (a == b)%Q -> (clamph a == clamph b)%Q.
Proof.
  intro H. apply Qle_antisym; apply clamph_mono; rewrite H; apply Qle_refl.
Qed.

Lemma tone_of_ge1 f : qle qhalf f = true -> 1 <= tone_of f.
Proof.
  intro H. apply qle_true in H. unfold tone_of. change 1 with (Qfloor 1).
  apply Qfloor_resp_le. unfold qhalf in *. lra.
Qed.

(* ------------------------------------------------------------------ durations *)
Lemma c_ulong_max d : c_ulong d = Z.max 0 (Qfloor d).
Proof.
  unfold c_ulong. destruct (qlt q0 d) eqn:E.
  - apply qlt_true in E. assert (0 <= Qfloor d); [|lia].
    change 0 with (Qfloor 0). apply Qfloor_resp_le. apply Qlt_le_weak. exact E.
  - apply qlt_false in E. assert (Qfloor d <= 0); [|lia].
    change 0 with (Qfloor 0). apply Qfloor_resp_le. exact E.
Qed.

Lemma c_ulong_ge0 d : 0 <= c_ulong d.
Proof. rewrite c_ulong_max. lia. Qed.

Lemma c_ulong_nonneg d : qle q0 d = true -> c_ulong d = Qfloor d /\ 0 <= Qfloor d.
Proof.
  intro H. apply qle_true in H.
  assert (Hp : 0 <= Qfloor d) by (change 0 with (Qfloor 0); apply Qfloor_resp_le; exact H).
  rewrite c_ulong_max. split; lia.
Qed.

Lemma c_ulong_nonpos d : qle d q0 = true -> c_ulong d = 0.
Proof.
  intro H. unfold c_ulong. rewrite qle_qlt in H. apply negb_true_iff in H. rewrite H. reflexivity.
Qed.

Lemma tone_of_mono a b : (a <= b)%Q -> tone_of a <= tone_of b.
Proof.
  intro H. unfold tone_of. apply Qfloor_resp_le. apply Qplus_le_compat; [exact H|apply Qle_refl].
Qed.

Lemma tone_of_comp a b : (a == b)%Q -> tone_of a = tone_of b.
Proof.
  intro H. unfold tone_of. apply Qfloor_comp. rewrite H. reflexivity.
Qed.

(* ------------------------------------------------------------------ observations *)
Lemma sounding_from_app b x y : sounding_from b (x ++ y) = sounding_from (sounding_from b x) y.
Proof.
  revert b; induction x as [|e x IH]; intro b; [reflexivity|].
  destruct e; cbn; apply IH.
Qed.

Lemma last_tone_from_app o x y : last_tone_from o (x ++ y) = last_tone_from (last_tone_from o x) y.
Proof.
  revert o; induction x as [|e x IH]; intro o; [reflexivity|].
  destruct e; cbn; apply IH.
Qed.

Lemma tones_app x y : tones (x ++ y) = tones x ++ tones y.
Proof. unfold tones. apply flat_map_app. Qed.

Lemma delays_app x y : delays (x ++ y) = delays x ++ delays y.
Proof. unfold delays. apply flat_map_app. Qed.

Lemma zsum_app x y : zsum (x ++ y) = zsum x + zsum y.
Proof. unfold zsum. induction x as [|a x IH]; cbn; [reflexivity|]. rewrite IH. lia. Qed.

Lemma delay_sum_app x y : delay_sum (x ++ y) = delay_sum x + delay_sum y.
Proof. unfold delay_sum. rewrite delays_app. apply zsum_app. Qed.

Lemma notones_app x y : notones (x ++ y) = (notones x + notones y)%nat.
Proof. unfold notones. rewrite filter_app, app_length. reflexivity. Qed.

Lemma sounding_dl b ms : sounding_from b (dl ms) = b.
Proof. unfold dl. destruct (0 <? ms); reflexivity. Qed.
Lemma last_tone_dl o ms : last_tone_from o (dl ms) = o.
Proof. unfold dl. destruct (0 <? ms); reflexivity. Qed.
Lemma tones_dl ms : tones (dl ms) = [].
Proof. unfold dl. destruct (0 <? ms); reflexivity. Qed.
Lemma notones_dl ms : notones (dl ms) = 0%nat.
Proof. unfold dl. destruct (0 <? ms); reflexivity. Qed.
Lemma sounding_qdelay b d : sounding_from b (qdelay d) = b.
Proof. unfold qdelay. destruct (qlt q0 d); reflexivity. Qed.
Lemma last_tone_qdelay o d : last_tone_from o (qdelay d) = o.
Proof. unfold qdelay. destruct (qlt q0 d); reflexivity. Qed.
Lemma tones_qdelay d : tones (qdelay d) = [].
Proof. unfold qdelay. destruct (qlt q0 d); reflexivity. Qed.

(* ------------------------------------------------------------------ the getter invariant *)
Definition lastok (default : Q) (st : bz) (o : option Z) : Prop :=
  match o with
  | Some t => (0 < b_last st)%Q /\ t = tone_of (b_last st)
  | None => b_last st = default
  end.

Definition inv (default : Q) (st : bz) (b : bool) (o : option Z) : Prop :=
  b_state st = b /\
  (b = false -> b_current st = q0) /\
  (b = true -> (0 < b_current st)%Q /\ b_current st = b_last st /\ o = Some (tone_of (b_current st))) /\
  lastok default st o.

Lemma inv_getters default st tr :
  inv default st (sounding tr) (last_tone tr) <-> getters_ok default st tr.
Proof. unfold inv, getters_ok, lastok, get_state, get_frequency, get_last_frequency. tauto. Qed.

Lemma inv_lastok d st b o : inv d st b o -> lastok d st o.
Proof. intros (_ & _ & _ & H). exact H. Qed.

Lemma inv_quiet d st o : lastok d st o -> inv d (quiet st) false o.
Proof.
  intro H. unfold inv, quiet; cbn. repeat split; try congruence. exact H.
Qed.

Lemma inv_start d pin f st : qlt q0 f = true ->
  inv d (fst (start_tone pin f st)) true (Some (tone_of f)).
Proof.
  intro H. apply qlt_true in H. unfold inv, lastok; cbn. repeat split; try congruence; exact H.
Qed.

(* sound: tone if f > 0, else silence *)
Lemma inv_sound d pin f st b o : lastok d st o ->
  inv d (fst (sound pin f st))
        (sounding_from b (snd (sound pin f st))) (last_tone_from o (snd (sound pin f st))).
Proof.
  intro H. unfold sound. destruct (qlt q0 f) eqn:E; cbn [fst snd start_tone silence sounding_from last_tone_from].
  - apply (inv_start d pin f st E).
  - apply inv_quiet. exact H.
Qed.

(* --- beep loop *)
Lemma beep_loop_inv d pin target on off k : forall st b o,
  inv d st b o ->
  inv d (fst (beep_loop pin target on off k st))
        (sounding_from b (snd (beep_loop pin target on off k st)))
        (last_tone_from o (snd (beep_loop pin target on off k st))).
Proof.
  induction k as [|k IH]; intros st b o H; [exact H|].
  cbn [beep_loop].
  pose proof (inv_sound d pin target st b o (inv_lastok _ _ _ _ H)) as Hs.
  destruct (sound pin target st) as [st1 e1] eqn:Es. cbn [fst snd] in Hs.
  specialize (IH (quiet st1) false (last_tone_from o e1) (inv_quiet _ _ _ (inv_lastok _ _ _ _ Hs))).
  destruct (beep_loop pin target on off k (quiet st1)) as [st3 e3] eqn:El. cbn [fst snd] in *.
  rewrite !sounding_from_app, !last_tone_from_app.
  rewrite ?sounding_dl, ?last_tone_dl. cbn [sounding_from last_tone_from].
  destruct k; cbn [app]; [|rewrite ?sounding_dl, ?last_tone_dl]; exact IH.
Qed.

(* --- sweep loop *)
Lemma sweep_loop_inv d pin s e steps sd k : forall i st b o,
  inv d st b o ->
  inv d (fst (sweep_loop pin s e steps sd k i st))
        (sounding_from b (snd (sweep_loop pin s e steps sd k i st)))
        (last_tone_from o (snd (sweep_loop pin s e steps sd k i st))).
Proof.
  induction k as [|k IH]; intros i st b o H; [exact H|].
  cbn [sweep_loop].
  pose proof (inv_sound d pin (sweep_freq s e steps i) st b o (inv_lastok _ _ _ _ H)) as Hs.
  destruct (sound pin (sweep_freq s e steps i) st) as [st1 e1] eqn:Es. cbn [fst snd] in Hs.
  specialize (IH (i + 1) st1 _ _ Hs).
  destruct (sweep_loop pin s e steps sd k (i + 1) st1) as [st2 e3] eqn:El. cbn [fst snd] in *.
  rewrite !sounding_from_app, !last_tone_from_app, ?sounding_dl, ?last_tone_dl. exact IH.
Qed.

(* --- melody loop *)
Lemma melody_loop_inv d pin beat seq : forall st b o,
  inv d st b o ->
  inv d (fst (melody_loop pin beat seq st))
        (sounding_from b (snd (melody_loop pin beat seq st)))
        (last_tone_from o (snd (melody_loop pin beat seq st))).
Proof.
  induction seq as [|[f bt] r IH]; intros st b o H; [exact H|].
  cbn [melody_loop].
  destruct (qle f q0) eqn:Ef.
  - specialize (IH (quiet st) false o (inv_quiet _ _ _ (inv_lastok _ _ _ _ H))).
    destruct (melody_loop pin beat r (quiet st)) as [st2 e2] eqn:El. cbn [fst snd] in *.
    rewrite !sounding_from_app, !last_tone_from_app. cbn [sounding_from last_tone_from].
    rewrite ?sounding_qdelay, ?last_tone_qdelay. exact IH.
  - assert (Hpos : qlt q0 f = true) by (apply qlt_true; apply qle_false; exact Ef).
    pose proof (inv_start d pin f st Hpos) as Hs.
    specialize (IH (quiet (fst (start_tone pin f st))) false (Some (tone_of f))
                   (inv_quiet _ _ _ (inv_lastok _ _ _ _ Hs))).
    destruct (melody_loop pin beat r (quiet (fst (start_tone pin f st)))) as [st2 e2] eqn:El.
    cbn [fst snd] in *.
    rewrite !sounding_from_app, !last_tone_from_app. cbn [start_tone snd sounding_from last_tone_from].
    rewrite ?sounding_from_app, ?last_tone_from_app, ?sounding_qdelay, ?last_tone_qdelay.
    cbn [sounding_from last_tone_from]. exact IH.
Qed.

(* --- one step *)
Lemma dstep_inv d pin tbl st o b lt :
  inv d st b lt ->
  inv d (fst (dstep pin tbl st o))
        (sounding_from b (snd (dstep pin tbl st o)))
        (last_tone_from lt (snd (dstep pin tbl st o))).
Proof.
  intro H. destruct o as [f dur| |f on off times|s e dq steps|name tempo]; cbn [dstep].
  - (* play_tone *)
    unfold play_tone.
    destruct (qle (clamph f) q0) eqn:Ef.
    + assert (Hn : qlt q0 (clamph f) = false) by (rewrite qle_qlt in Ef; apply negb_true_iff in Ef; exact Ef).
      cbn [silence]. destruct dur as [dq|]; cbn [fst snd].
      * rewrite Hn. rewrite !sounding_from_app, !last_tone_from_app. cbn [sounding_from last_tone_from].
        rewrite ?sounding_dl, ?last_tone_dl. cbn [sounding_from last_tone_from].
        apply inv_quiet. cbn. apply (inv_lastok _ _ _ _ H).
      * cbn [sounding_from last_tone_from]. apply inv_quiet. apply (inv_lastok _ _ _ _ H).
    + assert (Hp : qlt q0 (clamph f) = true) by (rewrite qle_qlt in Ef; apply negb_false_iff in Ef; exact Ef).
      pose proof (inv_start d pin (clamph f) st Hp) as Hs.
      cbn [start_tone] in *. destruct dur as [dq|]; cbn [fst snd] in *.
      * rewrite Hp. rewrite !sounding_from_app, !last_tone_from_app. cbn [sounding_from last_tone_from].
        rewrite ?sounding_dl, ?last_tone_dl. cbn [sounding_from last_tone_from].
        apply inv_quiet. apply (inv_lastok _ _ _ _ Hs).
      * cbn [sounding_from last_tone_from]. exact Hs.
  - (* stop *)
    unfold stop, silence. cbn [fst snd sounding_from last_tone_from].
    apply inv_quiet. apply (inv_lastok _ _ _ _ H).
  - (* beep *)
    unfold beep.
    match goal with |- context [beep_loop ?p ?t ?on' ?off' ?k ?s0] =>
      pose proof (beep_loop_inv d p t on' off' k s0 b lt H) as Hl;
      destruct (beep_loop p t on' off' k s0) as [st1 e1] end.
    cbn [fst snd] in *.
    rewrite sounding_from_app, last_tone_from_app. cbn [sounding_from last_tone_from].
    apply inv_quiet. apply (inv_lastok _ _ _ _ Hl).
  - (* sweep *)
    unfold sweep. rewrite step_delay_of_max.
    pose proof (sweep_loop_inv d pin (clamp0 s) (clamp0 e) (Z.max 0 (c_int steps))
                  (c_ulong dq / Z.max 0 (c_int steps))
                  (Z.to_nat (Z.max 0 (c_int steps))) 0 st b lt H) as Hl.
    destruct (sweep_loop pin (clamp0 s) (clamp0 e) (Z.max 0 (c_int steps))
                (c_ulong dq / Z.max 0 (c_int steps))
                (Z.to_nat (Z.max 0 (c_int steps))) 0 st) as [st1 e1] eqn:El.
    cbn [fst snd] in *.
    rewrite sounding_from_app, last_tone_from_app. cbn [sounding_from last_tone_from].
    apply inv_quiet. apply (inv_lastok _ _ _ _ Hl).
  - (* melody *)
    unfold melody. destruct (tlookup name tbl) as [[t0 seq]|]; [|exact H].
    apply melody_loop_inv. exact H.
Qed.

Lemma run_inv d pin tbl ops : forall st b lt,
  inv d st b lt ->
  inv d (fst (run pin tbl st ops))
        (sounding_from b (snd (run pin tbl st ops)))
        (last_tone_from lt (snd (run pin tbl st ops))).
Proof.
  induction ops as [|o r IH]; intros st b lt H; [exact H|].
  cbn [run].
  pose proof (dstep_inv d pin tbl st o b lt H) as Hs.
  destruct (dstep pin tbl st o) as [st1 e1]. cbn [fst snd] in Hs.
  specialize (IH st1 _ _ Hs).
  destruct (run pin tbl st1 r) as [st2 e2]. cbn [fst snd] in *.
  rewrite sounding_from_app, last_tone_from_app. exact IH.
Qed.

Lemma inv_init d : inv d (init d) false None.
Proof. unfold inv, init, lastok; cbn. repeat split; congruence. Qed.

(* C16_getters *)
Lemma getters_all_sequences : forall pin tbl default ops,
  getters_ok default (fst (run pin tbl (init default) ops)) (snd (run pin tbl (init default) ops)).
Proof.
  intros. apply inv_getters. apply (run_inv default pin tbl ops (init default) false None (inv_init default)).
Qed.

(* ------------------------------------------------------------------ run over an appended sequence *)
Lemma run_app pin tbl a b : forall st,
  run pin tbl st (a ++ b) =
  (fst (run pin tbl (fst (run pin tbl st a)) b),
   snd (run pin tbl st a) ++ snd (run pin tbl (fst (run pin tbl st a)) b)).
Proof.
  induction a as [|o r IH]; intro st.
  - cbn. destruct (run pin tbl st b); reflexivity.
  - cbn [app run]. destruct (dstep pin tbl st o) as [st1 e1]. rewrite IH.
    destruct (run pin tbl st1 r) as [st2 e2]. cbn [fst snd].
    rewrite app_assoc. reflexivity.
Qed.

Lemma run_single pin tbl st o :
  run pin tbl st [o] = (fst (dstep pin tbl st o), snd (dstep pin tbl st o)).
Proof.
  cbn. destruct (dstep pin tbl st o) as [st1 e1]. cbn. rewrite app_nil_r. reflexivity.
Qed.

(* ------------------------------------------------------------------ timed calls end silent *)
Lemma beep_loop_state pin target on off k : forall st, k <> O ->
  b_state (fst (beep_loop pin target on off k st)) = false.
Proof.
  induction k as [|k IH]; intros st Hk; [congruence|].
  cbn [beep_loop]. destruct (sound pin target st) as [st1 e1].
  destruct k as [|k'].
  - cbn. reflexivity.
  - specialize (IH (quiet st1) ltac:(congruence)).
    destruct (beep_loop pin target on off (S k') (quiet st1)) as [st3 e3]. exact IH.
Qed.

Lemma melody_loop_state pin beat seq : forall st, seq <> [] ->
  b_state (fst (melody_loop pin beat seq st)) = false.
Proof.
  induction seq as [|[f bt] r IH]; intros st Hs; [congruence|].
  cbn [melody_loop].
  destruct (qle f q0).
  - destruct r as [|x r'].
    + cbn. reflexivity.
    + specialize (IH (quiet st) ltac:(congruence)).
      destruct (melody_loop pin beat (x :: r') (quiet st)) as [st2 e2]. exact IH.
  - destruct r as [|x r'].
    + cbn. reflexivity.
    + specialize (IH (quiet (fst (start_tone pin f st))) ltac:(congruence)).
      destruct (melody_loop pin beat (x :: r') (quiet (fst (start_tone pin f st)))) as [st2 e2]. exact IH.
Qed.

Lemma timed_state_false pin tbl st o :
  timed o = true -> silent_guard tbl o = true -> b_state (fst (dstep pin tbl st o)) = false.
Proof.
  intros Ht Hg. destruct o as [f [dq|]| |f on off times|s e dq steps|name tempo]; cbn in Ht; try discriminate;
    cbn [dstep].
  - unfold play_tone. destruct (qle (clamph f) q0); reflexivity.
  - unfold beep. destruct (beep_loop _ _ _ _ _ _) as [st1 e1]. reflexivity.
  - unfold sweep. rewrite step_delay_of_max.
    destruct (sweep_loop pin (clamp0 s) (clamp0 e) (Z.max 0 (c_int steps))
                (c_ulong dq / Z.max 0 (c_int steps))
                (Z.to_nat (Z.max 0 (c_int steps))) 0 st) as [st1 e1].
    reflexivity.
  - unfold melody. cbn in Hg. destruct (tlookup name tbl) as [[t0 seq]|]; [|discriminate].
    destruct seq as [|x r]; [discriminate|]. apply melody_loop_state. congruence.
Qed.

(* C16_timed_calls_end_silent (silent_guard: a melody needs a score in the table) *)
Lemma timed_calls_end_silent : forall pin tbl default ops o,
  timed o = true -> silent_guard tbl o = true ->
  get_state (fst (run pin tbl (init default) (ops ++ [o]))) = false /\
  get_frequency (fst (run pin tbl (init default) (ops ++ [o]))) = q0 /\
  sounding (snd (run pin tbl (init default) (ops ++ [o]))) = false.
Proof.
  intros pin tbl default ops o Ht Hg.
  pose proof (getters_all_sequences pin tbl default (ops ++ [o])) as (H1 & H2 & _).
  assert (Hs : get_state (fst (run pin tbl (init default) (ops ++ [o]))) = false).
  { rewrite run_app, run_single. cbn [fst]. unfold get_state. apply timed_state_false; assumption. }
  rewrite H1 in Hs. split; [rewrite H1; exact Hs|]. split; [apply H2; exact Hs|exact Hs].
Qed.

(* beep, whatever its count (times = 0 included), leaves the pin silent - in any state, after any trace *)
Lemma beep_always_silent : forall pin tbl st f on off times b,
  get_state (fst (dstep pin tbl st (Beep f on off times))) = false /\
  get_frequency (fst (dstep pin tbl st (Beep f on off times))) = q0 /\
  sounding_from b (snd (dstep pin tbl st (Beep f on off times))) = false.
Proof.
  intros. cbn [dstep]. unfold beep. destruct (beep_loop _ _ _ _ _ _) as [st1 e1]. cbn [fst snd].
  rewrite sounding_from_app. repeat split.
Qed.

(* ------------------------------------------------------------------ frequency <= 0 never tones *)
Lemma sound_nonpos pin f st : qlt q0 f = false ->
  tones (snd (sound pin f st)) = [] /\ b_last (fst (sound pin f st)) = b_last st.
Proof. intro H. unfold sound. rewrite H. cbn. split; reflexivity. Qed.

Lemma beep_loop_nonpos pin target on off k : forall st, qlt q0 target = false ->
  tones (snd (beep_loop pin target on off k st)) = [] /\
  b_last (fst (beep_loop pin target on off k st)) = b_last st.
Proof.
  induction k as [|k IH]; intros st H; [cbn; split; reflexivity|].
  cbn [beep_loop].
  destruct (sound_nonpos pin target st H) as [Ht Hl].
  destruct (sound pin target st) as [st1 e1]. cbn [fst snd] in *.
  destruct (IH (quiet st1) H) as [Ht2 Hl2].
  destruct (beep_loop pin target on off k (quiet st1)) as [st3 e3]. cbn [fst snd] in *.
  split.
  - rewrite !tones_app, Ht, Ht2, tones_dl. cbn. destruct k; [reflexivity|rewrite tones_dl; reflexivity].
  - rewrite Hl2. cbn. exact Hl.
Qed.

Lemma sweep_freq_zero s e steps i : (s == 0)%Q -> (e == 0)%Q -> qlt q0 (sweep_freq s e steps i) = false.
Proof.
  intros Hs He. unfold sweep_freq. apply clamph_zero. rewrite Hs, He. ring.
Qed.

Lemma sweep_loop_nonpos pin s e steps sd k : forall i st, (s == 0)%Q -> (e == 0)%Q ->
  tones (snd (sweep_loop pin s e steps sd k i st)) = [] /\
  b_last (fst (sweep_loop pin s e steps sd k i st)) = b_last st.
Proof.
  induction k as [|k IH]; intros i st Hs He; [cbn; split; reflexivity|].
  cbn [sweep_loop].
  destruct (sound_nonpos pin _ st (sweep_freq_zero s e steps i Hs He)) as [Ht Hl].
  destruct (sound pin (sweep_freq s e steps i) st) as [st1 e1]. cbn [fst snd] in *.
  destruct (IH (i + 1) st1 Hs He) as [Ht2 Hl2].
  destruct (sweep_loop pin s e steps sd k (i + 1) st1) as [st2 e3]. cbn [fst snd] in *.
  split.
  - rewrite !tones_app, Ht, Ht2, tones_dl. reflexivity.
  - congruence.
Qed.

Lemma nonpositive_step pin tbl st o :
  nonpositive_in (b_last st) o = true ->
  tones (snd (dstep pin tbl st o)) = [] /\ b_last (fst (dstep pin tbl st o)) = b_last st.
Proof.
  intro H. destruct o as [f dur| |[f|] on off times|s e dq steps|name tempo]; cbn in H; try discriminate;
    cbn [dstep].
  - unfold play_tone.
    assert (Hc : qle (clamph f) q0 = true).
    { rewrite qle_qlt. apply negb_true_iff. apply clamph_nonpos. exact H. }
    rewrite Hc. cbn [silence]. destruct dur as [dq|]; cbn [fst snd].
    + rewrite (clamph_nonpos f H). rewrite !tones_app, tones_dl. cbn. split; reflexivity.
    + cbn. split; reflexivity.
  - cbn. split; reflexivity.
  - unfold beep.
    match goal with |- context [beep_loop ?p ?t ?on' ?off' ?k ?s0] =>
      destruct (beep_loop_nonpos p t on' off' k s0 (clamph_nonpos _ H)) as [Ht Hl];
      destruct (beep_loop p t on' off' k s0) as [st1 e1] end.
    cbn [fst snd quiet b_last] in *. rewrite tones_app, Ht. cbn. split; [reflexivity|exact Hl].
  - unfold beep.
    match goal with |- context [beep_loop ?p ?t ?on' ?off' ?k ?s0] =>
      destruct (beep_loop_nonpos p t on' off' k s0 (clamph_nonpos _ H)) as [Ht Hl];
      destruct (beep_loop p t on' off' k s0) as [st1 e1] end.
    cbn [fst snd quiet b_last] in *. rewrite tones_app, Ht. cbn. split; [reflexivity|exact Hl].
  - unfold sweep. rewrite step_delay_of_max. apply andb_true_iff in H as [Hs He].
    destruct (sweep_loop_nonpos pin (clamp0 s) (clamp0 e) (Z.max 0 (c_int steps))
                (c_ulong dq / Z.max 0 (c_int steps))
                (Z.to_nat (Z.max 0 (c_int steps))) 0 st
                (clamp0_nonpos_eq0 s Hs) (clamp0_nonpos_eq0 e He)) as [Ht Hl].
    destruct (sweep_loop pin (clamp0 s) (clamp0 e) (Z.max 0 (c_int steps))
                (c_ulong dq / Z.max 0 (c_int steps))
                (Z.to_nat (Z.max 0 (c_int steps))) 0 st) as [st1 e1].
    cbn [fst snd] in *. rewrite tones_app, Ht. cbn. split; [reflexivity|exact Hl].
Qed.

(* C16_nonpositive_never_tones, per call, in any state (= after any history) *)
Lemma nonpositive_never_tones : forall pin tbl st o,
  nonpositive_call o = true -> tones (snd (dstep pin tbl st o)) = [].
Proof.
  intros pin tbl st o H. apply nonpositive_step.
  destruct o as [f dur| |[f|] on off times|s e dq steps|name tempo]; cbn in *; try discriminate; exact H.
Qed.

(* a beep without frequency repeats the last frequency: no tone if that is <= 0 *)
Lemma beep_default_nonpositive : forall pin tbl st on off times,
  qle (get_last_frequency st) q0 = true ->
  tones (snd (dstep pin tbl st (Beep None on off times))) = [].
Proof. intros. apply nonpositive_step. cbn. assumption. Qed.

(* whole sequences *)
Lemma nonpositive_sequences : forall pin tbl ops st,
  forallb (nonpositive_in (b_last st)) ops = true -> tones (snd (run pin tbl st ops)) = [].
Proof.
  intros pin tbl ops; induction ops as [|o r IH]; intros st H; [reflexivity|].
  cbn in H. apply andb_true_iff in H as [Ho Hr]. cbn [run].
  destruct (nonpositive_step pin tbl st o Ho) as [Ht Hl].
  destruct (dstep pin tbl st o) as [st1 e1]. cbn [fst snd] in *.
  rewrite <- Hl in Hr. specialize (IH st1 Hr).
  destruct (run pin tbl st1 r) as [st2 e2]. cbn [fst snd] in *.
  rewrite tones_app, Ht, IH. reflexivity.
Qed.

(* every tone the firmware ever starts comes from a strictly positive frequency *)
Definition tone_positive (e : ev) : Prop :=
  match e with Tone _ t => exists f, (0 < f)%Q /\ t = tone_of f | _ => True end.

Lemma Forall_dl (P : ev -> Prop) ms : (forall d, P (Delay d)) -> Forall P (dl ms).
Proof. intro H. unfold dl. destruct (0 <? ms); repeat constructor. apply H. Qed.
Lemma Forall_qdelay (P : ev -> Prop) d : (forall x, P (Delay x)) -> Forall P (qdelay d).
Proof. intro H. unfold qdelay. destruct (qlt q0 d); repeat constructor. apply H. Qed.

Ltac fa := repeat first [apply Forall_app; split | apply Forall_cons | apply Forall_nil
                        | apply Forall_dl | apply Forall_qdelay | assumption]; auto.

(* a generic "every event satisfies P" principle for the five emitters *)
Section EventInvariant.
  Variable pin : Z.
  Variable P : ev -> Prop.
  Hypothesis Pdelay : forall d, P (Delay d).
  Hypothesis Pnotone : P (NoTone pin).
  Hypothesis Ptone : forall f, qlt q0 f = true -> P (Tone pin (tone_of f)).

  Lemma sound_all f st : Forall P (snd (sound pin f st)).
  Proof.
    unfold sound. destruct (qlt q0 f) eqn:E; cbn; repeat constructor; auto.
  Qed.

  Lemma beep_loop_all target on off k : forall st, Forall P (snd (beep_loop pin target on off k st)).
  Proof.
    induction k as [|k IH]; intro st; [constructor|].
    cbn [beep_loop]. pose proof (sound_all target st) as Hs.
    destruct (sound pin target st) as [st1 e1]. specialize (IH (quiet st1)).
    destruct (beep_loop pin target on off k (quiet st1)) as [st3 e3]. cbn [fst snd] in *.
    fa. destruct k; fa.
  Qed.

  Lemma sweep_loop_all s e steps sd k : forall i st, Forall P (snd (sweep_loop pin s e steps sd k i st)).
  Proof.
    induction k as [|k IH]; intros i st; [constructor|].
    cbn [sweep_loop]. pose proof (sound_all (sweep_freq s e steps i) st) as Hs.
    destruct (sound pin (sweep_freq s e steps i) st) as [st1 e1]. specialize (IH (i + 1) st1).
    destruct (sweep_loop pin s e steps sd k (i + 1) st1) as [st2 e3]. cbn [fst snd] in *.
    fa.
  Qed.

  Lemma melody_loop_all beat seq : forall st, Forall P (snd (melody_loop pin beat seq st)).
  Proof.
    induction seq as [|[f bt] r IH]; intro st; [constructor|].
    cbn [melody_loop]. destruct (qle f q0) eqn:Ef.
    - specialize (IH (quiet st)). destruct (melody_loop pin beat r (quiet st)) as [st2 e2].
      cbn [fst snd] in *. fa.
    - specialize (IH (quiet (fst (start_tone pin f st)))).
      destruct (melody_loop pin beat r (quiet (fst (start_tone pin f st)))) as [st2 e2].
      cbn [fst snd start_tone] in *.
      fa. apply Ptone. apply qlt_true. apply qle_false. exact Ef.
  Qed.

  Lemma dstep_all tbl st o : Forall P (snd (dstep pin tbl st o)).
  Proof.
    destruct o as [f dur| |f on off times|s e dq steps|name tempo]; cbn [dstep].
    - unfold play_tone. destruct (qle (clamph f) q0) eqn:Ef.
      + destruct dur as [dq|]; cbn [silence fst snd].
        * fa. destruct (qlt q0 (clamph f)); fa.
        * fa.
      + assert (Hp : qlt q0 (clamph f) = true) by (apply qlt_true; apply qle_false; exact Ef).
        destruct dur as [dq|]; cbn [start_tone fst snd].
        * rewrite Hp. fa.
        * fa.
    - cbn [stop silence snd]. fa.
    - unfold beep.
      match goal with |- context [beep_loop ?p ?t ?on' ?off' ?k ?s0] =>
        pose proof (beep_loop_all t on' off' k s0) as Hl;
        destruct (beep_loop p t on' off' k s0) as [st1 e1] end.
      cbn [fst snd] in *. fa.
    - unfold sweep. rewrite step_delay_of_max.
      pose proof (sweep_loop_all (clamp0 s) (clamp0 e) (Z.max 0 (c_int steps))
                   (c_ulong dq / Z.max 0 (c_int steps))
                   (Z.to_nat (Z.max 0 (c_int steps))) 0 st) as Hl.
      destruct (sweep_loop pin (clamp0 s) (clamp0 e) (Z.max 0 (c_int steps))
                  (c_ulong dq / Z.max 0 (c_int steps))
                  (Z.to_nat (Z.max 0 (c_int steps))) 0 st) as [st1 e1].
      cbn [fst snd] in *. fa.
    - unfold melody. destruct (tlookup name tbl) as [[t0 seq]|]; [|constructor].
      apply melody_loop_all.
  Qed.

  Lemma run_all tbl ops : forall st, Forall P (snd (run pin tbl st ops)).
  Proof.
    induction ops as [|o r IH]; intro st; [constructor|].
    cbn [run]. pose proof (dstep_all tbl st o) as Hs.
    destruct (dstep pin tbl st o) as [st1 e1]. specialize (IH st1).
    destruct (run pin tbl st1 r) as [st2 e2]. cbn [fst snd] in *.
    apply Forall_app; split; assumption.
  Qed.
End EventInvariant.

Lemma every_tone_positive : forall pin tbl st ops,
  Forall tone_positive (snd (run pin tbl st ops)).
Proof.
  intros. apply run_all; cbn; auto.
  intros f H. exists f. split; [apply qlt_true; exact H|reflexivity].
Qed.

Lemma only_own_pin : forall pin tbl st ops,
  Forall (on_pin pin) (snd (run pin tbl st ops)).
Proof. intros. apply run_all; cbn; auto. Qed.

(* ------------------------------------------------------------------ beep: counts and shape *)
Lemma beep_loop_events pin target on off k : forall st,
  snd (beep_loop pin target on off k st) =
  intercalate (dl off)
    (repeat (if qlt q0 target then beep_block pin (tone_of target) on else mute_block pin on) k).
Proof.
  induction k as [|k IH]; intro st; [reflexivity|].
  cbn [beep_loop repeat].
  assert (Hs : snd (sound pin target st) =
               if qlt q0 target then [Tone pin (tone_of target)] else [NoTone pin]).
  { unfold sound. destruct (qlt q0 target); reflexivity. }
  destruct (sound pin target st) as [st1 e1]. cbn [snd] in Hs. subst e1.
  specialize (IH (quiet st1)).
  destruct (beep_loop pin target on off k (quiet st1)) as [st3 e3]. cbn [fst snd] in *.
  rewrite IH. destruct k as [|k'].
  - cbn [repeat intercalate]. unfold beep_block, mute_block.
    destruct (qlt q0 target); cbn [app]; rewrite ?app_nil_r; reflexivity.
  - cbn [repeat intercalate]. unfold beep_block, mute_block.
    destruct (qlt q0 target); cbn [app]; rewrite <- ?app_assoc; reflexivity.
Qed.

Lemma tones_intercalate_beep pin t on off k :
  tones (intercalate (dl off) (repeat (beep_block pin t on) k)) = repeat t k.
Proof.
  induction k as [|k IH]; [reflexivity|].
  cbn [repeat]. destruct k as [|k'].
  - cbn [repeat intercalate]. unfold beep_block. rewrite !tones_app, tones_dl. reflexivity.
  - cbn [repeat intercalate] in *. unfold beep_block at 1. rewrite !tones_app, !tones_dl, IH. reflexivity.
Qed.

Lemma notones_intercalate_beep pin t on off k :
  notones (intercalate (dl off) (repeat (beep_block pin t on) k)) = k.
Proof.
  induction k as [|k IH]; [reflexivity|].
  cbn [repeat]. destruct k as [|k'].
  - cbn [repeat intercalate]. unfold beep_block. rewrite !notones_app, notones_dl. reflexivity.
  - cbn [repeat intercalate] in *. unfold beep_block at 1.
    rewrite !notones_app, !notones_dl, IH. reflexivity.
Qed.

Lemma tones_intercalate_mute pin on off k :
  tones (intercalate (dl off) (repeat (mute_block pin on) k)) = [].
Proof.
  induction k as [|k IH]; [reflexivity|].
  cbn [repeat]. destruct k as [|k'].
  - cbn [repeat intercalate]. unfold mute_block. rewrite !tones_app, tones_dl. reflexivity.
  - cbn [repeat intercalate] in *. unfold mute_block at 1. rewrite !tones_app, !tones_dl, IH. reflexivity.
Qed.

Lemma to_nat_max0 z : Z.to_nat (Z.max 0 z) = Z.to_nat z.
Proof. destruct z; reflexivity. Qed.

(* C16_beep_counts *)
Lemma beep_counts : forall pin tbl st f on off times,
  let target := clamph (match f with Some q => q | None => get_last_frequency st end) in
  let n := Z.to_nat (c_int times) in
  let tr := snd (dstep pin tbl st (Beep f on off times)) in
  (qlt q0 target = true ->
     tr = intercalate (dl (c_ulong off))
            (repeat (beep_block pin (tone_of target) (c_ulong on)) n) ++ [NoTone pin] /\
     tones tr = repeat (tone_of target) n /\ notones tr = S n /\ 1 <= tone_of target) /\
  (qlt q0 target = false ->
     tr = intercalate (dl (c_ulong off)) (repeat (mute_block pin (c_ulong on)) n) ++ [NoTone pin] /\
     tones tr = []).
Proof.
  intros pin tbl st f on off times target n tr.
  assert (Htr : tr = intercalate (dl (c_ulong off))
                 (repeat (if qlt q0 target then beep_block pin (tone_of target) (c_ulong on)
                          else mute_block pin (c_ulong on)) n) ++ [NoTone pin]).
  { subst tr n target. cbn [dstep]. unfold beep, get_last_frequency.
    match goal with |- context [beep_loop ?p ?t ?on' ?off' ?k ?s0] =>
      pose proof (beep_loop_events p t on' off' k s0) as He;
      destruct (beep_loop p t on' off' k s0) as [st1 e1] end.
    cbn [snd] in *. rewrite He, to_nat_max0. reflexivity. }
  split; intro H; rewrite H in Htr; rewrite Htr.
  - split; [reflexivity|]. split; [|split].
    + rewrite tones_app, tones_intercalate_beep. cbn. apply app_nil_r.
    + rewrite notones_app, notones_intercalate_beep. cbn. apply Nat.add_1_r.
    + apply tone_of_ge1. apply (clamph_pos_half _ H).
  - split; [reflexivity|]. rewrite tones_app, tones_intercalate_mute. reflexivity.
Qed.

(* a positive frequency is used as it is *)
Lemma beep_target_given : forall f, qle qhalf f = true -> clamph f = f.
Proof. exact clamph_ge. Qed.

(* ------------------------------------------------------------------ melody *)
Lemma melody_loop_events pin beat seq : forall st,
  snd (melody_loop pin beat seq st) = play_score pin beat seq.
Proof.
  induction seq as [|[f bt] r IH]; intro st; [reflexivity|].
  cbn [melody_loop play_score flat_map note_events].
  destruct (qle f q0).
  - specialize (IH (quiet st)). destruct (melody_loop pin beat r (quiet st)) as [st2 e2].
    cbn [fst snd] in *. rewrite IH. reflexivity.
  - specialize (IH (quiet (fst (start_tone pin f st)))).
    destruct (melody_loop pin beat r (quiet (fst (start_tone pin f st)))) as [st2 e2].
    cbn [fst snd start_tone] in *. rewrite IH. reflexivity.
Qed.

Lemma melody_events pin tbl st name tempo t0 seq :
  tlookup name tbl = Some (t0, seq) ->
  snd (dstep pin tbl st (Melody name tempo)) =
  play_score pin (Qmake 60000 1 / eff_tempo t0 tempo)%Q seq.
Proof.
  intro H. cbn [dstep]. unfold melody, score in *. rewrite H. apply melody_loop_events.
Qed.

Lemma eff_tempo_cases t0 tempo :
  match tempo with
  | None => eff_tempo t0 tempo = t0
  | Some q => (qle q q0 = true -> eff_tempo t0 tempo = t0) /\ (qlt q0 q = true -> eff_tempo t0 tempo = q)
  end.
Proof.
  unfold eff_tempo. destruct tempo as [q|].
  - split; intro H.
    + rewrite H. reflexivity.
    + rewrite qle_qlt, H. reflexivity.
  - destruct (qle t0 q0); reflexivity.
Qed.

(* ------------------------------------------------------------------ tables *)
Lemma qeq_leibniz_eq a b : qeq_leibniz a b = true -> a = b.
Proof.
  destruct a as [n d], b as [m e]. unfold qeq_leibniz. cbn. intro H.
  apply andb_true_iff in H as [H1 H2]. apply Z.eqb_eq in H1. apply Pos.eqb_eq in H2. congruence.
Qed.

Lemma notes_eqb_eq a : forall b, notes_eqb a b = true -> a = b.
Proof.
  induction a as [|[f x] a IH]; intros [|[g y] b] H; cbn in H; try discriminate; [reflexivity|].
  apply andb_true_iff in H as [H H3]. apply andb_true_iff in H as [H1 H2].
  apply qeq_leibniz_eq in H1. apply qeq_leibniz_eq in H2. apply IH in H3. congruence.
Qed.

Lemma score_opt_eqb_eq a b : score_opt_eqb a b = true -> a = b.
Proof.
  destruct a as [[t s]|], b as [[u r]|]; cbn; intro H; try discriminate; [|reflexivity].
  apply andb_true_iff in H as [H1 H2]. apply qeq_leibniz_eq in H1. apply notes_eqb_eq in H2. congruence.
Qed.

Lemma tlookup_notin {A} k (l : list (text * A)) : ~ In k (map fst l) -> tlookup k l = None.
Proof.
  induction l as [|[k' v] r IH]; intro H; [reflexivity|].
  cbn in *. destruct (text_eqb k k') eqn:E.
  - apply text_eqb_eq in E. exfalso. apply H. left. congruence.
  - apply IH. intro Hin. apply H. right. exact Hin.
Qed.

Lemma tlookup_in {A} k (l : list (text * A)) : In k (map fst l) -> exists v, tlookup k l = Some v.
Proof.
  induction l as [|[k' v] r IH]; intro H; [destruct H|].
  cbn in *. destruct (text_eqb k k') eqn:E; [eexists; reflexivity|].
  destruct H as [H|H]; [|apply IH; exact H].
  subst k'. rewrite text_eqb_refl in E. discriminate.
Qed.

Lemma tables_agree_sound ta tb : tables_agree_b ta tb = true ->
  forall k, tlookup k ta = tlookup k tb.
Proof.
  intros H k. unfold tables_agree_b in H. rewrite forallb_forall in H.
  destruct (in_dec (list_eq_dec Z.eq_dec) k (map fst ta ++ map fst tb)) as [Hin|Hout].
  - apply score_opt_eqb_eq. apply H. exact Hin.
  - rewrite !tlookup_notin; [reflexivity| |]; intro Hc; apply Hout; apply in_or_app; auto.
Qed.

Lemma same_names_sound a b : same_names_b a b = true -> forall k, In k a <-> In k b.
Proof.
  intros H k. unfold same_names_b in H. apply andb_true_iff in H as [H1 H2].
  rewrite forallb_forall in H1, H2. split; intro Hin.
  - apply tmem_In. apply H1. exact Hin.
  - apply tmem_In. apply H2. exact Hin.
Qed.

Lemma scores_ok_sound (tbl : list (text * score)) :
  forallb (fun kv => score_ok (snd kv)) tbl = true ->
  forall k t0 seq, tlookup k tbl = Some (t0, seq) -> (0 < t0)%Q /\ seq <> [].
Proof.
  intro H. induction tbl as [|[k' [t s]] r IH]; intros k t0 seq Hl; [discriminate|].
  cbn in H. apply andb_true_iff in H as [H1 H2]. cbn in Hl.
  destruct (text_eqb k k').
  - inversion Hl; subst. unfold score_ok in H1. cbn in H1. apply andb_true_iff in H1 as [Ht Hs].
    split; [apply qlt_true; exact Ht|]. destruct seq; [discriminate|congruence].
  - apply (IH H2 _ _ _ Hl).
Qed.

(* the generated tables, re-read from the source on every run *)
Lemma generated_names_ok : same_names_b parser_melody_names (map fst emitter_melodies) = true.
Proof. vm_compute. reflexivity. Qed.

Lemma generated_scores_pinned : tables_agree_b emitter_melodies spec_melodies = true.
Proof. vm_compute. reflexivity. Qed.

Lemma generated_scores_ok : forallb (fun kv => score_ok (snd kv)) emitter_melodies = true.
Proof. vm_compute. reflexivity. Qed.

Lemma spec_names_ok : same_names_b spec_names (map fst spec_melodies) = true.
Proof. vm_compute. reflexivity. Qed.

(* C16_tables_agree *)
Lemma tables_agree :
  (forall name, In name parser_melody_names <-> In name (map fst emitter_melodies)) /\
  (forall name, tlookup name emitter_melodies = tlookup name spec_melodies) /\
  (forall name, In name parser_melody_names <-> In name spec_names) /\
  (forall name t0 seq, tlookup name emitter_melodies = Some (t0, seq) -> (0 < t0)%Q /\ seq <> []).
Proof.
  split; [exact (same_names_sound _ _ generated_names_ok)|].
  split; [exact (tables_agree_sound _ _ generated_scores_pinned)|].
  split; [|exact (scores_ok_sound _ generated_scores_ok)].
  intro name. rewrite (same_names_sound _ _ generated_names_ok name).
  rewrite (same_names_sound _ _ spec_names_ok name).
  pose proof (tables_agree_sound _ _ generated_scores_pinned name) as Hx.
  split; intro H.
  - destruct (tlookup_in _ _ H) as [v Hv].
    destruct (in_dec (list_eq_dec Z.eq_dec) name (map fst spec_melodies)) as [Hi|Ho]; [exact Hi|].
    pose proof (tlookup_notin _ _ Ho) as Hn.
    pose proof (eq_trans (eq_trans (eq_sym Hv) Hx) Hn) as Hc. discriminate.
  - destruct (tlookup_in _ _ H) as [v Hv].
    destruct (in_dec (list_eq_dec Z.eq_dec) name (map fst emitter_melodies)) as [Hi|Ho]; [exact Hi|].
    pose proof (tlookup_notin _ _ Ho) as Hn.
    pose proof (eq_trans (eq_trans (eq_sym Hv) (eq_sym Hx)) Hn) as Hc. discriminate.
Qed.

(* parser: an accepted name is the lower-cased name and is in the parser's set *)
Lemma parser_melody_sound names name l : parser_melody names name = Some l ->
  l = map lower_cp name /\ In l names.
Proof.
  unfold parser_melody. destruct (tmem (map lower_cp name) names) eqn:E; [|discriminate].
  intro H. inversion H; subst. split; [reflexivity|]. apply tmem_In. exact E.
Qed.

(* C16_melody on the generated emitter table, against the pinned score *)
Lemma melody_plays_pinned_score : forall pin st name tempo t0 seq,
  tlookup name spec_melodies = Some (t0, seq) ->
  snd (dstep pin emitter_melodies st (Melody name tempo)) =
  play_score pin (Qmake 60000 1 / eff_tempo t0 tempo)%Q seq.
Proof.
  intros pin st name tempo t0 seq H. apply melody_events.
  exact (eq_trans (tables_agree_sound _ _ generated_scores_pinned name) H).
Qed.

(* every name the parser accepts has a pinned score, and ends silent *)
Lemma accepted_melody_has_score : forall name l,
  parser_melody parser_melody_names name = Some l ->
  exists t0 seq, tlookup l spec_melodies = Some (t0, seq) /\ tlookup l emitter_melodies = Some (t0, seq) /\
                 (0 < t0)%Q /\ seq <> [] /\ silent_guard emitter_melodies (Melody l None) = true.
Proof.
  intros name l H. apply parser_melody_sound in H as [_ Hin].
  destruct tables_agree as (Hn & Ht & _ & Hok).
  apply Hn in Hin. destruct (tlookup_in _ _ Hin) as [[t0 seq] Hv].
  exists t0, seq. destruct (Hok _ _ _ Hv) as [Hp Hs].
  split; [exact (eq_trans (eq_sym (Ht l)) Hv)|]. split; [exact Hv|]. split; [exact Hp|]. split; [exact Hs|].
  unfold silent_guard, score in *. rewrite Hv. destruct seq; [congruence|reflexivity].
Qed.

(* ------------------------------------------------------------------ sweep *)
Lemma tones_sound pin f st :
  tones (snd (sound pin f st)) = if qlt q0 f then [tone_of f] else [].
Proof. unfold sound. destruct (qlt q0 f); reflexivity. Qed.

Lemma sweep_loop_tones pin s e steps sd k : forall a st,
  tones (snd (sweep_loop pin s e steps sd k (Z.of_nat a) st)) =
  map tone_of (positives (map (fun j => sweep_freq s e steps (Z.of_nat j)) (seq a k))).
Proof.
  induction k as [|k IH]; intros a st; [reflexivity|].
  cbn [sweep_loop seq map].
  pose proof (tones_sound pin (sweep_freq s e steps (Z.of_nat a)) st) as Hs.
  destruct (sound pin (sweep_freq s e steps (Z.of_nat a)) st) as [st1 e1]. cbn [snd] in Hs.
  replace (Z.of_nat a + 1) with (Z.of_nat (S a)) by lia.
  specialize (IH (S a) st1).
  destruct (sweep_loop pin s e steps sd k (Z.of_nat (S a)) st1) as [st2 e3]. cbn [fst snd] in *.
  rewrite !tones_app, tones_dl, Hs, IH. unfold positives. cbn [filter].
  destruct (qlt q0 (sweep_freq s e steps (Z.of_nat a))); reflexivity.
Qed.

Lemma sweep_tones pin tbl st s e d steps :
  tones (snd (dstep pin tbl st (Sweep s e d steps))) =
  map tone_of (positives (sweep_freqs (clamp0 s) (clamp0 e) (Z.max 0 (c_int steps)))).
Proof.
  cbn [dstep]. unfold sweep, sweep_freqs. rewrite step_delay_of_max.
  pose proof (sweep_loop_tones pin (clamp0 s) (clamp0 e) (Z.max 0 (c_int steps))
               (c_ulong d / Z.max 0 (c_int steps))
               (Z.to_nat (Z.max 0 (c_int steps))) 0%nat st) as Hl.
  change (Z.of_nat 0) with 0 in Hl.
  destruct (sweep_loop pin (clamp0 s) (clamp0 e) (Z.max 0 (c_int steps))
              (c_ulong d / Z.max 0 (c_int steps))
              (Z.to_nat (Z.max 0 (c_int steps))) 0 st) as [st1 e1].
  cbn [fst snd] in *. rewrite tones_app, Hl. cbn. rewrite app_nil_r. reflexivity.
Qed.

Lemma den_pos n : 1 < n -> (0 < inject_Z n - 1)%Q.
Proof.
  intro H. setoid_replace (inject_Z n - 1)%Q with (inject_Z (n - 1)).
  - change 0%Q with (inject_Z 0). rewrite <- Zlt_Qlt. lia.
  - unfold Zminus. rewrite inject_Z_plus. reflexivity.
Qed.

Lemma progress_range n i : 1 < n -> 0 <= i <= n - 1 ->
  (0 <= inject_Z i / (inject_Z n - 1) /\ inject_Z i / (inject_Z n - 1) <= 1)%Q.
Proof.
  intros Hn Hi. pose proof (den_pos n Hn) as HD. split.
  - apply Qle_shift_div_l; [exact HD|]. rewrite Qmult_0_l.
    change 0%Q with (inject_Z 0). rewrite <- Zle_Qle. lia.
  - apply Qle_shift_div_r; [exact HD|]. rewrite Qmult_1_l.
    setoid_replace (inject_Z n - 1)%Q with (inject_Z (n - 1)).
    + rewrite <- Zle_Qle. lia.
    + unfold Zminus. rewrite inject_Z_plus. reflexivity.
Qed.

Lemma interp_ge_half s e n i : (qhalf <= s)%Q -> (qhalf <= e)%Q -> 1 <= n -> 0 <= i <= n - 1 ->
  (qhalf <= s + (e - s) * (if n =? 1 then 1 # 1 else inject_Z i / (inject_Z n - (1 # 1))))%Q.
Proof.
  intros Hs He Hn Hi. destruct (n =? 1) eqn:E.
  - setoid_replace (s + (e - s) * (1 # 1))%Q with e by ring. exact He.
  - apply Z.eqb_neq in E. destruct (progress_range n i ltac:(lia) Hi) as [H0 H1].
    set (p := (inject_Z i / (inject_Z n - (1 # 1)))%Q) in *. unfold qhalf in *. nra.
Qed.

(* both ends audible: every interpolated frequency is (at least 1/2, so it is not clamped) *)
Lemma sweep_freq_ge_half s e n i : (qhalf <= s)%Q -> (qhalf <= e)%Q -> 1 <= n -> 0 <= i <= n - 1 ->
  (qhalf <= sweep_freq s e n i)%Q.
Proof.
  intros Hs He Hn Hi. pose proof (interp_ge_half s e n i Hs He Hn Hi) as Hx.
  unfold sweep_freq. rewrite clamph_ge by (apply qle_true; exact Hx). exact Hx.
Qed.

Lemma sweep_freq_pos s e n i : (qhalf <= s)%Q -> (qhalf <= e)%Q -> 1 <= n -> 0 <= i <= n - 1 ->
  qlt q0 (sweep_freq s e n i) = true.
Proof.
  intros Hs He Hn Hi. apply qhalf_pos. apply qle_true. apply sweep_freq_ge_half; assumption.
Qed.

Lemma positives_all l : Forall (fun f => qlt q0 f = true) l -> positives l = l.
Proof.
  induction 1 as [|f l Hf _ IH]; [reflexivity|]. unfold positives in *. cbn. rewrite Hf, IH. reflexivity.
Qed.

Lemma sweep_freqs_all_pos s e n : (qhalf <= s)%Q -> (qhalf <= e)%Q -> 1 <= n ->
  Forall (fun f => qlt q0 f = true) (sweep_freqs s e n).
Proof.
  intros Hs He Hn. unfold sweep_freqs. apply Forall_forall. intros f Hin.
  apply in_map_iff in Hin as (j & Hj & Hin). subst f. apply in_seq in Hin.
  apply sweep_freq_pos; try assumption. rewrite <- (Z2Nat.id n) by lia. lia.
Qed.

Lemma sweep_freqs_length s e n : length (sweep_freqs s e n) = Z.to_nat n.
Proof. unfold sweep_freqs. rewrite map_length, seq_length. reflexivity. Qed.

(* monotone in the step index *)
Lemma progress_mono n i j : 1 < n -> i <= j ->
  (inject_Z i / (inject_Z n - 1) <= inject_Z j / (inject_Z n - 1))%Q.
Proof.
  intros Hn Hij. unfold Qdiv. apply Qmult_le_compat_r.
  - rewrite <- Zle_Qle. exact Hij.
  - apply Qinv_le_0_compat. apply Qlt_le_weak. apply den_pos. exact Hn.
Qed.

Lemma sweep_freq_up s e n i j : (s <= e)%Q -> 1 <= n -> i <= j ->
  (sweep_freq s e n i <= sweep_freq s e n j)%Q.
Proof.
  intros Hse Hn Hij. unfold sweep_freq. destruct (n =? 1) eqn:E; [apply Qle_refl|].
  apply Z.eqb_neq in E. apply clamph_mono.
  pose proof (progress_mono n i j ltac:(lia) Hij) as Hp.
  set (p := (inject_Z i / (inject_Z n - (1 # 1)))%Q) in *.
  set (r := (inject_Z j / (inject_Z n - (1 # 1)))%Q) in *. nra.
Qed.

Lemma sweep_freq_down s e n i j : (e <= s)%Q -> 1 <= n -> i <= j ->
  (sweep_freq s e n j <= sweep_freq s e n i)%Q.
Proof.
  intros Hse Hn Hij. unfold sweep_freq. destruct (n =? 1) eqn:E; [apply Qle_refl|].
  apply Z.eqb_neq in E. apply clamph_mono.
  pose proof (progress_mono n i j ltac:(lia) Hij) as Hp.
  set (p := (inject_Z i / (inject_Z n - (1 # 1)))%Q) in *.
  set (r := (inject_Z j / (inject_Z n - (1 # 1)))%Q) in *. nra.
Qed.

Lemma positives_map (g : nat -> Q) l :
  positives (map g l) = map g (filter (fun j => qlt q0 (g j)) l).
Proof.
  unfold positives. induction l as [|a l IH]; [reflexivity|].
  cbn. destruct (qlt q0 (g a)); cbn; rewrite IH; reflexivity.
Qed.

Lemma sorted_map_filter (R : Z -> Z -> Prop) (h : nat -> Z) (keep : nat -> bool) :
  (forall i j, (i <= j)%nat -> R (h i) (h j)) ->
  forall k a, StronglySorted R (map h (filter keep (seq a k))).
Proof.
  intros Hm. induction k as [|k IH]; intro a; [constructor|].
  cbn [seq filter]. destruct (keep a); [|apply IH].
  cbn [map]. constructor; [apply IH|].
  apply Forall_forall. intros x Hx. apply in_map_iff in Hx as (j & Hj & Hin). subst x.
  apply filter_In in Hin as [Hin _]. apply in_seq in Hin. apply Hm. lia.
Qed.

Lemma sweep_tones_sorted (R : Z -> Z -> Prop) s e n :
  (forall i j, (i <= j)%nat ->
     R (tone_of (sweep_freq s e n (Z.of_nat i))) (tone_of (sweep_freq s e n (Z.of_nat j)))) ->
  StronglySorted R (map tone_of (positives (sweep_freqs s e n))).
Proof.
  intro H. unfold sweep_freqs. rewrite positives_map, map_map.
  apply (sorted_map_filter R (fun j => tone_of (sweep_freq s e n (Z.of_nat j)))). exact H.
Qed.


(* first and last *)
Lemma sweep_freq_first s e n : 1 < n -> (sweep_freq s e n 0 == clamph s)%Q.
Proof.
  intro Hn. unfold sweep_freq. replace (n =? 1) with false by (symmetry; apply Z.eqb_neq; lia).
  apply clamph_comp. unfold Qdiv. change (inject_Z 0) with 0%Q. ring.
Qed.

Lemma sweep_freq_last s e n : 1 <= n -> (sweep_freq s e n (n - 1) == clamph e)%Q.
Proof.
  intro Hn. unfold sweep_freq. destruct (n =? 1) eqn:E.
  - apply clamph_comp. ring.
  - apply Z.eqb_neq in E. apply clamph_comp.
    assert (HD : (0 < inject_Z n - 1)%Q) by (apply den_pos; lia).
    setoid_replace (inject_Z (n - 1)) with (inject_Z n - 1)%Q
      by (unfold Zminus; rewrite inject_Z_plus; reflexivity).
    setoid_replace ((inject_Z n - 1) / (inject_Z n - (1 # 1)))%Q with 1%Q.
    + ring.
    + unfold Qdiv. apply Qmult_inv_r. intro Hz. rewrite Hz in HD. apply (Qlt_irrefl 0). exact HD.
Qed.

Lemma seq_last_split n : (0 < n)%nat -> seq 0 n = seq 0 (n - 1) ++ [(n - 1)%nat].
Proof.
  intro H. replace n with (S (n - 1)) at 1 by lia. rewrite seq_S. reflexivity.
Qed.

Lemma positives_app a b : positives (a ++ b) = positives a ++ positives b.
Proof. unfold positives. apply filter_app. Qed.

Lemma sweep_last_tone s e n : 1 <= n -> qlt q0 (clamph e) = true ->
  last (map tone_of (positives (sweep_freqs s e n))) 0 = tone_of (clamph e).
Proof.
  intros Hn He. unfold sweep_freqs.
  rewrite (seq_last_split (Z.to_nat n)) by lia.
  rewrite map_app, positives_app, map_app. cbn [map].
  replace (Z.of_nat (Z.to_nat n - 1)) with (n - 1) by lia.
  assert (Hq : qlt q0 (sweep_freq s e n (n - 1)) = true).
  { apply qlt_true. rewrite (sweep_freq_last s e n Hn). apply qlt_true. exact He. }
  unfold positives at 2. cbn [filter]. rewrite Hq. cbn [map].
  rewrite last_last. apply tone_of_comp. apply sweep_freq_last. exact Hn.
Qed.

Lemma sweep_first_tone s e n : 1 < n -> qlt q0 (clamph s) = true ->
  hd 0 (map tone_of (positives (sweep_freqs s e n))) = tone_of (clamph s).
Proof.
  intros Hn Hs. unfold sweep_freqs.
  replace (Z.to_nat n) with (S (Z.to_nat n - 1)) by lia. cbn [seq map].
  change (Z.of_nat 0) with 0.
  assert (Hq : qlt q0 (sweep_freq s e n 0) = true).
  { apply qlt_true. rewrite (sweep_freq_first s e n Hn). apply qlt_true. exact Hs. }
  unfold positives. cbn [filter]. rewrite Hq. cbn [map hd].
  apply tone_of_comp. apply sweep_freq_first. exact Hn.
Qed.

(* delays *)
Lemma delay_sum_sound pin f st : delay_sum (snd (sound pin f st)) = 0.
Proof. unfold sound. destruct (qlt q0 f); reflexivity. Qed.

Lemma sweep_loop_delays pin s e steps sd k : forall i st,
  delay_sum (snd (sweep_loop pin s e steps sd k i st)) = Z.of_nat k * delay_sum (dl sd).
Proof.
  induction k as [|k IH]; intros i st; [reflexivity|].
  cbn [sweep_loop].
  pose proof (delay_sum_sound pin (sweep_freq s e steps i) st) as Hs.
  destruct (sound pin (sweep_freq s e steps i) st) as [st1 e1]. cbn [snd] in Hs.
  specialize (IH (i + 1) st1).
  destruct (sweep_loop pin s e steps sd k (i + 1) st1) as [st2 e3]. cbn [fst snd] in *.
  rewrite !delay_sum_app, Hs, IH. lia.
Qed.

Lemma step_delay_bound total n : 0 <= total -> 0 <= n ->
  n * delay_sum (dl (total / n)) <= total.
Proof.
  intros Ht Hn. assert (Hc : n = 0 \/ 1 <= n) by lia. destruct Hc as [Hz|Hp]; [subst n; lia|].
  unfold dl. destruct (0 <? total / n).
  - unfold delay_sum. cbn. rewrite Z.add_0_r. apply Z.mul_div_le. lia.
  - unfold delay_sum. cbn. lia.
Qed.

Lemma sweep_delay_sum pin tbl st s e d steps :
  delay_sum (snd (dstep pin tbl st (Sweep s e d steps))) =
  Z.max 0 (c_int steps) * delay_sum (dl (c_ulong d / Z.max 0 (c_int steps))).
Proof.
  cbn [dstep]. unfold sweep. rewrite step_delay_of_max.
  pose proof (sweep_loop_delays pin (clamp0 s) (clamp0 e) (Z.max 0 (c_int steps))
               (c_ulong d / Z.max 0 (c_int steps))
               (Z.to_nat (Z.max 0 (c_int steps))) 0 st) as Hl.
  destruct (sweep_loop pin (clamp0 s) (clamp0 e) (Z.max 0 (c_int steps))
              (c_ulong d / Z.max 0 (c_int steps))
              (Z.to_nat (Z.max 0 (c_int steps))) 0 st) as [st1 e1].
  cbn [fst snd] in *. rewrite delay_sum_app, Hl. unfold delay_sum at 2. cbn. rewrite Z2Nat.id by lia. lia.
Qed.

Lemma filter_len_le {A} (f : A -> bool) l : (length (filter f l) <= length l)%nat.
Proof. induction l as [|a l IH]; cbn; [lia|]. destruct (f a); cbn; lia. Qed.

(* C16_sweep *)
Lemma sweep_protocol : forall pin tbl st s e d steps,
  let n := Z.max 0 (c_int steps) in
  let tr := snd (dstep pin tbl st (Sweep s e d steps)) in
  (* the tones are the audible ones among the n interpolated frequencies, in order *)
  tones tr = map tone_of (positives (sweep_freqs (clamp0 s) (clamp0 e) n)) /\
  (length (tones tr) <= Z.to_nat n)%nat /\
  (* no tone(pin, 0): every tone is at least 1 *)
  Forall (fun t => 1 <= t) (tones tr) /\
  (* both ends audible (>= 1/2) => exactly n tones *)
  (qle qhalf s = true -> qle qhalf e = true ->
     tones tr = map tone_of (sweep_freqs s e n) /\ length (tones tr) = Z.to_nat n) /\
  (* monotone, in the direction start -> end (clamped at 0) *)
  ((clamp0 s <= clamp0 e)%Q -> StronglySorted Z.le (tones tr)) /\
  ((clamp0 e <= clamp0 s)%Q -> StronglySorted Z.ge (tones tr)) /\
  (* first = start when steps > 1; last = end *)
  (1 < n -> qle qhalf s = true -> hd 0 (tones tr) = tone_of s) /\
  (1 <= n -> qle qhalf e = true -> last (tones tr) 0 = tone_of e) /\
  (* the delays never add up to more than the given duration - any duration: the step delay is an integer
     quotient, and a negative duration counts as zero *)
  (delay_sum tr <= Z.max 0 (Qfloor d) /\ (qle q0 d = true -> (inject_Z (delay_sum tr) <= d)%Q)) /\
  (* and the call ends with noTone *)
  sounding_from true tr = false.
Proof.
  intros pin tbl st s e d steps n tr.
  assert (Hn0 : 0 <= n) by (subst n; lia).
  assert (Ht : tones tr = map tone_of (positives (sweep_freqs (clamp0 s) (clamp0 e) n)))
    by (apply sweep_tones).
  assert (Hz : n = 0 -> tones tr = []).
  { intro Hz. rewrite Ht, Hz. reflexivity. }
  assert (Hcase : n = 0 \/ 1 <= n) by lia.
  assert (Hc0 : forall x, qle qhalf x = true -> clamp0 x = x).
  { intros x Hx. apply clamp0_pos. apply qhalf_pos. exact Hx. }
  split; [exact Ht|]. split.
  { rewrite Ht, map_length. unfold positives.
    eapply Nat.le_trans; [apply filter_len_le|]. rewrite sweep_freqs_length. apply Nat.le_refl. }
  split.
  { rewrite Ht. apply Forall_forall. intros t Hin. apply in_map_iff in Hin as (fq & Hq & Hin). subst t.
    unfold positives in Hin. apply filter_In in Hin as [Hin Hp]. unfold sweep_freqs in Hin.
    apply in_map_iff in Hin as (i & Hfq & _). subst fq. unfold sweep_freq in *.
    apply tone_of_ge1. apply (clamph_pos_half _ Hp). }
  split.
  { intros Hs He. destruct Hcase as [Hz0|Hn]; [rewrite (Hz Hz0), Hz0; split; reflexivity|].
    rewrite Ht, (Hc0 s Hs), (Hc0 e He).
    rewrite positives_all by (apply sweep_freqs_all_pos; try apply qle_true; assumption).
    split; [reflexivity|]. rewrite map_length. apply sweep_freqs_length. }
  split.
  { intro Hse. destruct Hcase as [Hz0|Hn]; [rewrite (Hz Hz0); constructor|].
    rewrite Ht. apply sweep_tones_sorted. intros i j Hij.
    apply tone_of_mono. apply sweep_freq_up; [exact Hse|exact Hn|lia]. }
  split.
  { intro Hse. destruct Hcase as [Hz0|Hn]; [rewrite (Hz Hz0); constructor|].
    rewrite Ht. apply sweep_tones_sorted. intros i j Hij.
    apply Z.le_ge. apply tone_of_mono. apply sweep_freq_down; [exact Hse|exact Hn|lia]. }
  split.
  { intros H1 Hs. rewrite Ht. rewrite (Hc0 s Hs).
    rewrite (sweep_first_tone s (clamp0 e) n H1); rewrite (clamph_ge s Hs); [reflexivity|apply qhalf_pos; exact Hs]. }
  split.
  { intros Hn He. rewrite Ht. rewrite (Hc0 e He).
    rewrite (sweep_last_tone (clamp0 s) e n Hn); rewrite (clamph_ge e He); [reflexivity|apply qhalf_pos; exact He]. }
  split.
  { assert (Hb : delay_sum tr <= Z.max 0 (Qfloor d)).
    { subst tr. rewrite sweep_delay_sum, <- c_ulong_max. apply step_delay_bound; [apply c_ulong_ge0|exact Hn0]. }
    split; [exact Hb|]. intro Hd. destruct (c_ulong_nonneg d Hd) as [_ Hp].
    eapply Qle_trans; [|apply Qfloor_le]. rewrite <- Zle_Qle. lia. }
  subst tr. cbn [dstep]. unfold sweep. rewrite step_delay_of_max.
  destruct (sweep_loop pin (clamp0 s) (clamp0 e) (Z.max 0 (c_int steps))
              (c_ulong d / Z.max 0 (c_int steps))
              (Z.to_nat (Z.max 0 (c_int steps))) 0 st) as [st1 e1].
  cbn [snd]. rewrite sounding_from_app. reflexivity.
Qed.

(* a negative duration counts as zero: the sweep does not delay at all *)
Lemma sweep_negative_duration : forall pin tbl st s e d steps,
  (d < 0)%Q -> delay_sum (snd (dstep pin tbl st (Sweep s e d steps))) = 0.
Proof.
  intros pin tbl st s e d steps Hd. rewrite sweep_delay_sum.
  rewrite c_ulong_nonpos by (apply qle_true; apply Qlt_le_weak; exact Hd).
  rewrite Zdiv_0_l. cbn. lia.
Qed.

(* formerly sweep_nonpositive_steps_refuted (steps <= 0 was clamped to 1 and sounded the end frequency): a sweep
   of no steps plays no tone and does not wait - it only silences the pin *)
Lemma sweep_nonpositive_steps : forall pin tbl st s e d steps,
  c_int steps <= 0 ->
  dstep pin tbl st (Sweep s e d steps) = (quiet st, [NoTone pin]).
Proof.
  intros pin tbl st s e d steps H. cbn [dstep]. unfold sweep.
  replace (Z.max 0 (c_int steps)) with 0 by lia. reflexivity.
Qed.

(* and for every count the number of tones is at most, with audible ends exactly, max(0, trunc steps) *)
Lemma sweep_tone_count : forall pin tbl st s e d steps,
  qle qhalf s = true -> qle qhalf e = true ->
  length (tones (snd (dstep pin tbl st (Sweep s e d steps)))) = Z.to_nat (c_int steps).
Proof.
  intros pin tbl st s e d steps Hs He.
  destruct (sweep_protocol pin tbl st s e d steps) as (_ & _ & _ & H & _).
  destruct (H Hs He) as [_ Hl]. rewrite Hl. lia.
Qed.
