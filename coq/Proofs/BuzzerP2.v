(* Second batch of lemmas for property C16: the play_tone protocol, the notes and delays of a melody,
   the total length of a beep, and the exact value of get_last_frequency after every call. *)
From Coq Require Import ZArith QArith Qround Lia Lqa List Bool.
From RV Require Import Base.Wire Base.Text Device.DBuzzer Device.BuzzerSpec Device.MelodySpec Gen.Melodies
  Proofs.BuzzerP.
Import ListNotations.
Open Scope Z_scope.

Arguments tone_of : simpl never.
Arguments c_ulong : simpl never.
Arguments c_int : simpl never.
Arguments Qfloor : simpl never.

(* ------------------------------------------------------------------ play_tone *)
Lemma clamp0_nonpos_le q : qle q q0 = true -> qle (clamp0 q) q0 = true.
Proof.
  intro H. unfold clamp0. destruct (qlt q q0); [reflexivity|exact H].
Qed.

(* C16_play_tone *)
Lemma play_tone_protocol : forall pin neg tbl st f d,
  (qlt q0 f = true ->
     dstep pin neg tbl st (PlayTone f None) = (mkbz true f f, [Tone pin (tone_of f)]) /\
     dstep pin neg tbl st (PlayTone f (Some d)) =
       (mkbz false q0 f, [Tone pin (tone_of f)] ++ dl (c_ulong neg d) ++ [NoTone pin])) /\
  (qle f q0 = true ->
     dstep pin neg tbl st (PlayTone f None) = (quiet st, [NoTone pin]) /\
     dstep pin neg tbl st (PlayTone f (Some d)) = (quiet st, [NoTone pin] ++ dl (c_ulong neg d))).
Proof.
  intros pin neg tbl st f d. split; intro H; cbn [dstep]; unfold play_tone.
  - rewrite (clamp0_pos _ H). rewrite qle_qlt, H. cbn [negb start_tone quiet b_last].
    split; reflexivity.
  - rewrite (clamp0_nonpos_le _ H). rewrite (clamp0_nonpos _ H). cbn [silence quiet b_last].
    rewrite app_nil_r. split; reflexivity.
Qed.

(* ------------------------------------------------------------------ melody: notes and delays *)
Lemma tones_play_score pin beat seq :
  tones (play_score pin beat seq) = map tone_of (positives (map fst seq)).
Proof.
  induction seq as [|[f b] r IH]; [reflexivity|].
  cbn [play_score flat_map note_events map fst positives filter] in *.
  rewrite tones_app. fold (play_score pin beat r). rewrite IH.
  rewrite qle_qlt. destruct (qlt q0 f); cbn [negb].
  - rewrite !tones_app, tones_qdelay. reflexivity.
  - rewrite tones_app, tones_qdelay. reflexivity.
Qed.

Lemma delays_qdelay d : delays (qdelay d) = if qlt q0 d then [Qfloor d] else [].
Proof. unfold qdelay. destruct (qlt q0 d); reflexivity. Qed.

Lemma delays_play_score pin beat seq :
  delays (play_score pin beat seq) = note_delays beat seq.
Proof.
  induction seq as [|[f b] r IH]; [reflexivity|].
  cbn [play_score note_delays flat_map note_events snd] in *.
  rewrite delays_app. fold (play_score pin beat r). rewrite IH.
  f_equal. destruct (qle f q0).
  - rewrite delays_app, delays_qdelay. reflexivity.
  - rewrite !delays_app, delays_qdelay. cbn. rewrite app_nil_r. reflexivity.
Qed.

Lemma notones_qdelay d : notones (qdelay d) = 0%nat.
Proof. unfold qdelay. destruct (qlt q0 d); reflexivity. Qed.

(* every note, sounded or rest, issues exactly one noTone *)
Lemma notones_play_score pin beat seq : notones (play_score pin beat seq) = length seq.
Proof.
  induction seq as [|[f b] r IH]; [reflexivity|].
  cbn [play_score flat_map note_events length] in *.
  rewrite notones_app. fold (play_score pin beat r). rewrite IH.
  destruct (qle f q0).
  - rewrite notones_app, notones_qdelay. reflexivity.
  - rewrite !notones_app, notones_qdelay. reflexivity.
Qed.

Lemma note_delays_bound beat seq : (0 <= beat)%Q -> beats_nonneg seq = true ->
  (inject_Z (zsum (note_delays beat seq)) <= beats_total seq * beat)%Q.
Proof.
  intros Hb Hn. induction seq as [|[f b] r IH].
  - unfold beats_total. cbn. rewrite Qmult_0_l. apply Qle_refl.
  - cbn [beats_nonneg forallb snd] in Hn. apply andb_true_iff in Hn as [H1 H2].
    specialize (IH H2). apply qle_true in H1. change (q0 <= b)%Q in H1.
    unfold beats_total in *. cbn [map fold_right snd note_delays flat_map].
    fold (note_delays beat r). rewrite zsum_app, inject_Z_plus.
    assert (Hx : (inject_Z (zsum (if qlt q0 (b * beat)%Q then [Qfloor (b * beat)%Q] else [])) <= b * beat)%Q).
    { destruct (qlt q0 (b * beat)%Q) eqn:E.
      - cbn [zsum fold_right]. rewrite Z.add_0_r. apply Qfloor_le.
      - cbn. apply Qmult_le_0_compat; [exact H1|exact Hb]. }
    rewrite Qmult_plus_distr_l. apply Qplus_le_compat; assumption.
Qed.

Lemma spec_beats_nonneg : forallb (fun kv => beats_nonneg (snd (snd kv))) spec_melodies = true.
Proof. vm_compute. reflexivity. Qed.

Lemma beats_nonneg_lookup (tbl : list (text * score)) :
  forallb (fun kv => beats_nonneg (snd (snd kv))) tbl = true ->
  forall k t0 seq, tlookup k tbl = Some (t0, seq) -> beats_nonneg seq = true.
Proof.
  intro H. induction tbl as [|[k' [t s]] r IH]; intros k t0 seq Hl; [discriminate|].
  cbn [forallb snd] in H. apply andb_true_iff in H as [H1 H2]. cbn [tlookup] in Hl.
  destruct (text_eqb k k').
  - inversion Hl; subst. exact H1.
  - apply (IH H2 _ _ _ Hl).
Qed.

Lemma eff_tempo_pos t0 tempo : (0 < t0)%Q -> (0 < eff_tempo t0 tempo)%Q.
Proof.
  intro H. unfold eff_tempo.
  destruct (qle (match tempo with Some q => q | None => t0 end) q0) eqn:E; [exact H|].
  apply qle_false in E. exact E.
Qed.

(* C16_melody_notes *)
Lemma melody_notes : forall pin neg st name tempo t0 seq,
  tlookup name spec_melodies = Some (t0, seq) ->
  let beat := (Qmake 60000 1 / eff_tempo t0 tempo)%Q in
  let tr := snd (dstep pin neg emitter_melodies st (Melody name tempo)) in
  tones tr = map tone_of (positives (map fst seq)) /\
  delays tr = note_delays beat seq /\
  notones tr = length seq /\
  (inject_Z (delay_sum tr) <= beats_total seq * beat)%Q.
Proof.
  intros pin neg st name tempo t0 seq H beat tr.
  assert (Htr : tr = play_score pin beat seq) by (apply melody_plays_pinned_score; exact H).
  rewrite Htr. split; [apply tones_play_score|]. split; [apply delays_play_score|].
  split; [apply notones_play_score|].
  unfold delay_sum. rewrite delays_play_score. apply note_delays_bound.
  - destruct tables_agree as (_ & Ht & _ & Hok).
    assert (Hp : (0 < t0)%Q).
    { apply (Hok name t0 seq). rewrite Ht. exact H. }
    pose proof (eff_tempo_pos t0 tempo Hp) as He. subst beat.
    apply Qlt_le_weak. apply Qlt_shift_div_l; [exact He|]. rewrite Qmult_0_l. reflexivity.
  - apply (beats_nonneg_lookup _ spec_beats_nonneg name t0 seq H).
Qed.

(* ------------------------------------------------------------------ beep: total length *)
Lemma delay_sum_dl ms : 0 <= ms -> delay_sum (dl ms) = ms.
Proof.
  intro H. unfold dl. destruct (0 <? ms) eqn:E.
  - cbn. lia.
  - apply Z.ltb_ge in E. cbn. lia.
Qed.

Lemma delay_sum_beeps pin t on off k : 0 <= on -> 0 <= off ->
  delay_sum (intercalate (dl off) (repeat (beep_block pin t on) (S k))) =
  Z.of_nat (S k) * on + Z.of_nat k * off.
Proof.
  intros Hon Hoff. induction k as [|k IH].
  - cbn [repeat intercalate]. unfold beep_block. rewrite !delay_sum_app, delay_sum_dl by exact Hon.
    cbn [delay_sum delays flat_map zsum fold_right app]. lia.
  - change (repeat (beep_block pin t on) (S (S k)))
      with (beep_block pin t on :: repeat (beep_block pin t on) (S k)).
    cbn [intercalate]. cbn [repeat] in IH |- *.
    rewrite !delay_sum_app. cbn [repeat] in IH. rewrite IH.
    unfold beep_block. rewrite !delay_sum_app, !delay_sum_dl by assumption. cbn [delay_sum delays flat_map zsum fold_right app].
    lia.
Qed.

(* C16_beep_duration *)
Lemma beep_duration : forall pin neg tbl st f on off times,
  let target := clamp0 (match f with Some q => q | None => get_last_frequency st end) in
  let n := c_int times in
  let tr := snd (dstep pin neg tbl st (Beep f on off times)) in
  qlt q0 target = true -> qle q0 on = true -> qle q0 off = true -> 1 <= n ->
  delay_sum tr = n * Qfloor on + (n - 1) * Qfloor off.
Proof.
  intros pin neg tbl st f on off times target n tr Ht Hon Hoff Hn.
  destruct (beep_counts pin neg tbl st f on off times) as [Hpos _].
  destruct (Hpos Ht) as (Htr & _ & _). fold tr in Htr. rewrite Htr.
  destruct (c_ulong_nonneg neg on Hon) as [Eon Pon].
  destruct (c_ulong_nonneg neg off Hoff) as [Eoff Poff].
  rewrite Eon, Eoff.
  fold n. destruct (Z.to_nat n) as [|k] eqn:Ek; [lia|].
  rewrite delay_sum_beeps by assumption.
  assert (Hk : Z.of_nat (S k) = n) by (rewrite <- Ek; apply Z2Nat.id; lia).
  rewrite Hk. replace (Z.of_nat k) with (n - 1) by lia. reflexivity.
Qed.

(* ------------------------------------------------------------------ get_last_frequency, exactly *)
Lemma last_indep {A} (l : list A) d d' : l <> [] -> last l d = last l d'.
Proof.
  induction l as [|x r IH]; intro H; [congruence|].
  destruct r as [|y r']; [reflexivity|].
  change (last (x :: y :: r') d) with (last (y :: r') d).
  change (last (x :: y :: r') d') with (last (y :: r') d').
  apply IH. congruence.
Qed.

Lemma last_cons_default {A} (x : A) l d : last (x :: l) d = last l x.
Proof.
  destruct l as [|y r]; [reflexivity|].
  change (last (x :: y :: r) d) with (last (y :: r) d). apply last_indep. congruence.
Qed.

Lemma last_positives_cons f l d :
  last (positives (f :: l)) d = last (positives l) (if qlt q0 f then f else d).
Proof.
  unfold positives. cbn [filter]. destruct (qlt q0 f); [apply last_cons_default|reflexivity].
Qed.

Lemma sound_last pin f st : b_last (fst (sound pin f st)) = if qlt q0 f then f else b_last st.
Proof. unfold sound. destruct (qlt q0 f); reflexivity. Qed.

Lemma beep_loop_last pin target on off k : forall st,
  b_last (fst (beep_loop pin target on off k st)) =
  if qlt q0 target && negb (Nat.eqb k 0) then target else b_last st.
Proof.
  induction k as [|k IH]; intro st.
  - cbn. rewrite andb_false_r. reflexivity.
  - cbn [beep_loop]. pose proof (sound_last pin target st) as Hs.
    destruct (sound pin target st) as [st1 e1]. cbn [fst] in Hs.
    specialize (IH (quiet st1)).
    destruct (beep_loop pin target on off k (quiet st1)) as [st3 e3]. cbn [fst] in *.
    rewrite IH. cbn [quiet b_last Nat.eqb negb]. rewrite Hs, andb_true_r.
    destruct (qlt q0 target); cbn [andb]; [|reflexivity].
    destruct (negb (Nat.eqb k 0)); reflexivity.
Qed.

Lemma sweep_loop_last pin s e steps sd k : forall a st,
  b_last (fst (sweep_loop pin s e steps sd k (Z.of_nat a) st)) =
  last (positives (map (fun j => sweep_freq s e steps (Z.of_nat j)) (seq a k))) (b_last st).
Proof.
  induction k as [|k IH]; intros a st; [reflexivity|].
  cbn [sweep_loop seq map].
  pose proof (sound_last pin (sweep_freq s e steps (Z.of_nat a)) st) as Hs.
  destruct (sound pin (sweep_freq s e steps (Z.of_nat a)) st) as [st1 e1]. cbn [fst] in Hs.
  replace (Z.of_nat a + 1) with (Z.of_nat (S a)) by lia.
  specialize (IH (S a) st1).
  destruct (sweep_loop pin s e steps sd k (Z.of_nat (S a)) st1) as [st2 e3]. cbn [fst] in *.
  rewrite IH, last_positives_cons, Hs. reflexivity.
Qed.

Lemma melody_loop_last pin beat seq : forall st,
  b_last (fst (melody_loop pin beat seq st)) = last (positives (map fst seq)) (b_last st).
Proof.
  induction seq as [|[f b] r IH]; intro st; [reflexivity|].
  cbn [melody_loop map fst]. rewrite last_positives_cons. rewrite qle_qlt.
  destruct (qlt q0 f); cbn [negb].
  - specialize (IH (quiet (fst (start_tone pin f st)))).
    destruct (melody_loop pin beat r (quiet (fst (start_tone pin f st)))) as [st2 e2].
    cbn [fst] in *. rewrite IH. reflexivity.
  - specialize (IH (quiet st)).
    destruct (melody_loop pin beat r (quiet st)) as [st2 e2].
    cbn [fst] in *. rewrite IH. reflexivity.
Qed.

(* C16_last_frequency_exact *)
Lemma last_frequency_exact : forall pin neg tbl st o,
  get_last_frequency (fst (dstep pin neg tbl st o)) = last_after tbl st o.
Proof.
  intros pin neg tbl st o. unfold get_last_frequency.
  destruct o as [f d| |f on off times|s e dq steps|name tempo]; cbn [dstep last_after].
  - destruct (qlt q0 f) eqn:E.
    + destruct (play_tone_protocol pin neg tbl st f (Qmake 0 1)) as [Hp _].
      destruct d as [d|].
      * destruct (play_tone_protocol pin neg tbl st f d) as [Hp' _].
        destruct (Hp' E) as [_ H2]. cbn [dstep] in H2. rewrite H2. reflexivity.
      * destruct (Hp E) as [H1 _]. cbn [dstep] in H1. rewrite H1. reflexivity.
    + assert (E' : qle f q0 = true) by (rewrite qle_qlt, E; reflexivity).
      destruct d as [d|].
      * destruct (play_tone_protocol pin neg tbl st f d) as [_ Hp'].
        destruct (Hp' E') as [_ H2]. cbn [dstep] in H2. rewrite H2. reflexivity.
      * destruct (play_tone_protocol pin neg tbl st f (Qmake 0 1)) as [_ Hp].
        destruct (Hp E') as [H1 _]. cbn [dstep] in H1. rewrite H1. reflexivity.
  - reflexivity.
  - unfold beep. rewrite beep_loop_last.
    assert (Hk : negb (Nat.eqb (Z.to_nat (Z.max 0 (c_int times))) 0) = (1 <=? c_int times)).
    { destruct (1 <=? c_int times) eqn:E.
      - apply Z.leb_le in E. destruct (Z.to_nat (Z.max 0 (c_int times))) eqn:Ek; [lia|reflexivity].
      - apply Z.leb_gt in E. replace (Z.max 0 (c_int times)) with 0 by lia. reflexivity. }
    rewrite Hk. reflexivity.
  - unfold sweep, sweep_freqs.
    pose proof (sweep_loop_last pin (clamp0 s) (clamp0 e) (Z.max 1 (c_int steps))
                 (inject_Z (c_ulong neg dq) / inject_Z (Z.max 1 (c_int steps)))%Q
                 (Z.to_nat (Z.max 1 (c_int steps))) 0%nat st) as Hl.
    change (Z.of_nat 0) with 0 in Hl.
    destruct (sweep_loop pin (clamp0 s) (clamp0 e) (Z.max 1 (c_int steps))
                (inject_Z (c_ulong neg dq) / inject_Z (Z.max 1 (c_int steps)))%Q
                (Z.to_nat (Z.max 1 (c_int steps))) 0 st) as [st1 e1].
    cbn [fst quiet b_last] in *. exact Hl.
  - unfold melody, score in *. destruct (tlookup name tbl) as [[t0 seq]|]; [|reflexivity].
    apply melody_loop_last.
Qed.

(* ... and what that value is for the calls the statement speaks about *)
Lemma last_app_single {A} (l : list A) x d : last (l ++ [x]) d = x.
Proof. apply last_last. Qed.

(* C16_last_frequency_sweep: a sweep whose end frequency is positive leaves get_last_frequency == end *)
Lemma last_frequency_sweep : forall pin neg tbl st s e d steps,
  qlt q0 e = true ->
  (get_last_frequency (fst (dstep pin neg tbl st (Sweep s e d steps))) == e)%Q.
Proof.
  intros pin neg tbl st s e d steps He.
  rewrite last_frequency_exact. cbn [last_after].
  set (n := Z.max 1 (c_int steps)).
  assert (Hn : 1 <= n) by (subst n; lia).
  unfold sweep_freqs.
  assert (Hnat : (0 < Z.to_nat n)%nat) by lia.
  rewrite (seq_last_split _ Hnat), map_app, positives_app. cbn [map].
  replace (Z.of_nat (Z.to_nat n - 1)) with (n - 1) by lia.
  pose proof (sweep_freq_last (clamp0 s) (clamp0 e) n Hn) as Hl.
  assert (Hce : clamp0 (clamp0 e) = e).
  { rewrite (clamp0_pos _ He). apply clamp0_pos. exact He. }
  rewrite Hce in Hl.
  assert (Hpos : qlt q0 (sweep_freq (clamp0 s) (clamp0 e) n (n - 1)) = true).
  { apply qlt_true. rewrite Hl. apply qlt_true. exact He. }
  unfold positives at 2. cbn [filter]. rewrite Hpos.
  rewrite last_app_single. exact Hl.
Qed.
