(* Second batch of lemmas for property C16: the play_tone protocol, the notes and delays of a melody,
   the total length of a beep, and the exact value of get_last_frequency after every call. *)
From Coq Require Import ZArith QArith Qround Lia Lqa List Bool.
From RV Require Import Base.Wire Base.Text Device.DBuzzer Device.BuzzerSpec Device.MelodySpec Gen.Melodies
  Proofs.BuzzerP.
Import ListNotations.
Open Scope Z_scope.

Arguments tone_of : simpl never.
Arguments c_ulong : simpl never.
Arguments c_int : simpl never.
Arguments Qfloor : simpl never.

(* ------------------------------------------------------------------ play_tone *)
Lemma clamp0_nonpos_le q : qle q q0 = true -> qle (clamp0 q) q0 = true.
Proof.
  intro H. unfold clamp0. destruct (qlt q q0); [reflexivity|exact H].
Qed.

(* C16_play_tone *)
Lemma play_tone_protocol : forall pin neg tbl st f d,
  (qlt q0 f = true ->
     dstep pin neg tbl st (PlayTone f None) = (mkbz true f f, [Tone pin (tone_of f)]) /\
     dstep pin neg tbl st (PlayTone f (Some d)) =
       (mkbz false q0 f, [Tone pin (tone_of f)] ++ dl (c_ulong neg d) ++ [NoTone pin])) /\
  (qle f q0 = true ->
     dstep pin neg tbl st (PlayTone f None) = (quiet st, [NoTone pin]) /\
     dstep pin neg tbl st (PlayTone f (Some d)) = (quiet st, [NoTone pin] ++ dl (c_ulong neg d))).
Proof.
  intros pin neg tbl st f d. split; intro H; cbn [dstep]; unfold play_tone.
  - rewrite (clamp0_pos _ H). rewrite qle_qlt, H. cbn [negb start_tone quiet b_last].
    split; reflexivity.
  - rewrite (clamp0_nonpos_le _ H). rewrite (clamp0_nonpos _ H). cbn [silence quiet b_last].
    rewrite app_nil_r. split; reflexivity.
Qed.

(* ------------------------------------------------------------------ melody: notes and delays *)
Lemma tones_play_score pin beat seq :
  tones (play_score pin beat seq) = map tone_of (positives (map fst seq)).
Proof.
  induction seq as [|[f b] r IH]; [reflexivity|].
  cbn [play_score flat_map note_events map fst positives filter] in *.
  rewrite tones_app. fold (play_score pin beat r). rewrite IH.
  rewrite qle_qlt. destruct (qlt q0 f); cbn [negb].
  - rewrite !tones_app, tones_qdelay. reflexivity.
  - rewrite tones_app, tones_qdelay. reflexivity.
Qed.

Lemma delays_qdelay d : delays (qdelay d) = if qlt q0 d then [Qfloor d] else [].
Proof. unfold qdelay. destruct (qlt q0 d); reflexivity. Qed.

Lemma delays_play_score pin beat seq :
  delays (play_score pin beat seq) = note_delays beat seq.
Proof.
  induction seq as [|[f b] r IH]; [reflexivity|].
  cbn [play_score note_delays flat_map note_events snd] in *.
  rewrite delays_app. fold (play_score pin beat r). rewrite IH.
  f_equal. destruct (qle f q0).
  - rewrite delays_app, delays_qdelay. reflexivity.
  - rewrite !delays_app, delays_qdelay. cbn. rewrite app_nil_r. reflexivity.
Qed.

Lemma notones_qdelay d : notones (qdelay d) = 0%nat.
Proof. unfold qdelay. destruct (qlt q0 d); reflexivity. Qed.

(* every note, sounded or rest, issues exactly one noTone *)
Lemma notones_play_score pin beat seq : notones (play_score pin beat seq) = length seq.
Proof.
  induction seq as [|[f b] r IH]; [reflexivity|].
  cbn [play_score flat_map note_events length] in *.
  rewrite notones_app. fold (play_score pin beat r). rewrite IH.
  destruct (qle f q0).
  - rewrite notones_app, notones_qdelay. reflexivity.
  - rewrite !notones_app, notones_qdelay. reflexivity.
Qed.

Lemma note_delays_bound beat seq : (0 <= beat)%Q -> beats_nonneg seq = true ->
  (inject_Z (zsum (note_delays beat seq)) <= beats_total seq * beat)%Q.
Proof.
  intros Hb Hn. induction seq as [|[f b] r IH].
  - unfold beats_total. cbn. rewrite Qmult_0_l. apply Qle_refl.
  - cbn [beats_nonneg forallb snd] in Hn. apply andb_true_iff in Hn as [H1 H2].
    specialize (IH H2). apply qle_true in H1. change (q0 <= b)%Q in H1.
    unfold beats_total in *. cbn [map fold_right snd note_delays flat_map].
    fold (note_delays beat r). rewrite zsum_app, inject_Z_plus.
    assert (Hx : (inject_Z (zsum (if qlt q0 (b * beat)%Q then [Qfloor (b * beat)%Q] else [])) <= b * beat)%Q).
    { destruct (qlt q0 (b * beat)%Q) eqn:E.
      - cbn [zsum fold_right]. rewrite Z.add_0_r. apply Qfloor_le.
      - cbn. apply Qmult_le_0_compat; [exact H1|exact Hb]. }
    rewrite Qmult_plus_distr_l. apply Qplus_le_compat; assumption.
Qed.

Lemma spec_beats_nonneg : forallb (fun kv => beats_nonneg (snd (snd kv))) spec_melodies = true.
Proof. vm_compute. reflexivity. Qed.

Lemma beats_nonneg_lookup (tbl : list (text * score)) :
  forallb (fun kv => beats_nonneg (snd (snd kv))) tbl = true ->
  forall k t0 seq, tlookup k tbl = Some (t0, seq) -> beats_nonneg seq = true.
Proof.
  intro H. induction tbl as [|[k' [t s]] r IH]; intros k t0 seq Hl; [discriminate|].
  cbn [forallb snd] in H. apply andb_true_iff in H as [H1 H2]. cbn [tlookup] in Hl.
  destruct (text_eqb k k').
  - inversion Hl; subst. exact H1.
  - apply (IH H2 _ _ _ Hl).
Qed.

Lemma eff_tempo_pos t0 tempo : (0 < t0)%Q -> (0 < eff_tempo t0 tempo)%Q.
Proof.
  intro H. unfold eff_tempo.
  destruct (qle (match tempo with Some q => q | None => t0 end) q0) eqn:E; [exact H|].
  apply qle_false in E. exact E.
Qed.

(* C16_melody_notes *)
Lemma melody_notes : forall pin neg st name tempo t0 seq,
  tlookup name spec_melodies = Some (t0, seq) ->
  let beat := (Qmake 60000 1 / eff_tempo t0 tempo)%Q in
  let tr := snd (dstep pin neg emitter_melodies st (Melody name tempo)) in
  tones tr = map tone_of (positives (map fst seq)) /\
  delays tr = note_delays beat seq /\
  notones tr = length seq /\
  (inject_Z (delay_sum tr) <= beats_total seq * beat)%Q.
Proof.
  intros pin neg st name tempo t0 seq H beat tr.
  assert (Htr : tr = play_score pin beat seq) by (apply melody_plays_pinned_score; exact H).
  rewrite Htr. split; [apply tones_play_score|]. split; [apply delays_play_score|].
  split; [apply notones_play_score|].
  unfold delay_sum. rewrite delays_play_score. apply note_delays_bound.
  - destruct tables_agree as (_ & Ht & _ & Hok).
    assert (Hp : (0 < t0)%Q).
    { apply (Hok name t0 seq). rewrite Ht. exact H. }
    pose proof (eff_tempo_pos t0 tempo Hp) as He. subst beat.
    apply Qlt_le_weak. apply Qlt_shift_div_l; [exact He|]. rewrite Qmult_0_l. reflexivity.
  - apply (beats_nonneg_lookup _ spec_beats_nonneg name t0 seq H).
Qed.

(* ------------------------------------------------------------------ beep: total length *)
Lemma delay_sum_dl ms : 0 <= ms -> delay_sum (dl ms) = ms.
Proof.
  intro H. unfold dl. destruct (0 <? ms) eqn:E.
  - cbn. lia.
  - apply Z.ltb_ge in E. cbn. lia.
Qed.

Lemma delay_sum_beeps pin t on off k : 0 <= on -> 0 <= off ->
  delay_sum (intercalate (dl off) (repeat (beep_block pin t on) (S k))) =
  Z.of_nat (S k) * on + Z.of_nat k * off.
Proof.
  intros Hon Hoff. induction k as [|k IH].
  - cbn [repeat intercalate]. unfold beep_block. rewrite !delay_sum_app, delay_sum_dl by exact Hon.
    cbn [delay_sum delays flat_map zsum fold_right app]. lia.
  - change (repeat (beep_block pin t on) (S (S k)))
      with (beep_block pin t on :: repeat (beep_block pin t on) (S k)).
    cbn [intercalate]. cbn [repeat] in IH |- *.
    rewrite !delay_sum_app. cbn [repeat] in IH. rewrite IH.
    unfold beep_block. rewrite !delay_sum_app, !delay_sum_dl by assumption. cbn [delay_sum delays flat_map zsum fold_right app].
    lia.
Qed.

(* C16_beep_duration *)
Lemma beep_duration : forall pin neg tbl st f on off times,
  let target := clamp0 (match f with Some q => q | None => get_last_frequency st end) in
  let n := c_int times in
  let tr := snd (dstep pin neg tbl st (Beep f on off times)) in
  qlt q0 target = true -> qle q0 on = true -> qle q0 off = true -> 1 <= n ->
  delay_sum tr = n * Qfloor on + (n - 1) * Qfloor off.
Proof.
  intros pin neg tbl st f on off times target n tr Ht Hon Hoff Hn.
  destruct (beep_counts pin neg tbl st f on off times) as [Hpos _].
  destruct (Hpos Ht) as (Htr & _ & _). fold tr in Htr. rewrite Htr.
  destruct (c_ulong_nonneg neg on Hon) as [Eon Pon].
  destruct (c_ulong_nonneg neg off Hoff) as [Eoff Poff].
  rewrite Eon, Eoff.
  fold n. destruct (Z.to_nat n) as [|k] eqn:Ek; [lia|].
  rewrite delay_sum_beeps by assumption.
  assert (Hk : Z.of_nat (S k) = n) by (rewrite <- Ek; apply Z2Nat.id; lia).
  rewrite Hk. replace (Z.of_nat k) with (n - 1) by lia. reflexivity.
Qed.

(* ------------------------------------------------------------------ get_last_frequency, exactly *)
Lemma last_indep {A} (l : list A) d d' : l <> [] -> last l d = last l d'.
Proof.
  induction l as [|x r IH]; intro H; [congruence|].
  destruct r as [|y r']; [reflexivity|].
  change (last (x :: y :: r') d) with (last (y :: r') d).
  change (last (x :: y :: r') d') with (last (y :: r') d').
  apply IH. congruence.
Qed.

Lemma last_cons_default {A} (x : A) l d : last (x :: l) d = last l x.
Proof.
  destruct l as [|y r]; [reflexivity|].
  change (last (x :: y :: r) d) with (last (y :: r) d). apply last_indep. congruence.
Qed.

Lemma last_positives_cons f l d :
  last (positives (f :: l)) d = last (positives l) (if qlt q0 f then f else d).
Proof.
  unfold positives. cbn [filter]. destruct (qlt q0 f); [apply last_cons_default|reflexivity].
Qed.

Lemma sound_last pin f st : b_last (fst (sound pin f st)) = if qlt q0 f then f else b_last st.
Proof. unfold sound. destruct (qlt q0 f); reflexivity. Qed.

Lemma beep_loop_last pin target on off k : forall st,
  b_last (fst (beep_loop pin target on off k st)) =
  if qlt q0 target && negb (Nat.eqb k 0) then target else b_last st.
Proof.
  induction k as [|k IH]; intro st.
  - cbn. rewrite andb_false_r. reflexivity.
  - cbn [beep_loop]. pose proof (sound_last pin target st) as Hs.
    destruct (sound pin target st) as [st1 e1]. cbn [fst] in Hs.
    specialize (IH (quiet st1)).
    destruct (beep_loop pin target on off k (quiet st1)) as [st3 e3]. cbn [fst] in *.
    rewrite IH. cbn [quiet b_last Nat.eqb negb]. rewrite Hs, andb_true_r.
    destruct (qlt q0 target); cbn [andb]; [|reflexivity].
    destruct (negb (Nat.eqb k 0)); reflexivity.
Qed.

Lemma sweep_loop_last pin s e steps sd k : forall a st,
  b_last (fst (sweep_loop pin s e steps sd k (Z.of_nat a) st)) =
  last (positives (map (fun j => sweep_freq s e steps (Z.of_nat j)) (seq a k))) (b_last st).
Proof.
  induction k as [|k IH]; intros a st; [reflexivity|].
  cbn [sweep_loop seq map].
  pose proof (sound_last pin (sweep_freq s e steps (Z.of_nat a)) st) as Hs.
  destruct (sound pin (sweep_freq s e steps (Z.of_nat a)) st) as [st1 e1]. cbn [fst] in Hs.
  replace (Z.of_nat a + 1) with (Z.of_nat (S a)) by lia.
  specialize (IH (S a) st1).
  destruct (sweep_loop pin s e steps sd k (Z.of_nat (S a)) st1) as [st2 e3]. cbn [fst] in *.
  rewrite IH, last_positives_cons, Hs. reflexivity.
Qed.

Lemma melody_loop_last pin beat seq : forall st,
  b_last (fst (melody_loop pin beat seq st)) = last (positives (map fst seq)) (b_last st).
Proof.
  induction seq as [|[f b] r IH]; intro st; [reflexivity|].
  cbn [melody_loop map fst]. rewrite last_positives_cons. rewrite qle_qlt.
  destruct (qlt q0 f); cbn [negb].
  - specialize (IH (quiet (fst (start_tone pin f st)))).
    destruct (melody_loop pin beat r (quiet (fst (start_tone pin f st)))) as [st2 e2].
    cbn [fst] in *. rewrite IH. reflexivity.
  - specialize (IH (quiet st)).
    destruct (melody_loop pin beat r (quiet st)) as [st2 e2].
    cbn [fst] in *. rewrite IH. reflexivity.
Qed.

(* C16_last_frequency_exact *)
Lemma last_frequency_exact : forall pin neg tbl st o,
  get_last_frequency (fst (dstep pin neg tbl st o)) = last_after tbl st o.
Proof.
  intros pin neg tbl st o. unfold get_last_frequency.
  destruct o as [f d| |f on off times|s e dq steps|name tempo]; cbn [dstep last_after].
  - destruct (qlt q0 f) eqn:E.
    + destruct (play_tone_protocol pin neg tbl st f (Qmake 0 1)) as [Hp _].
      destruct d as [d|].
      * destruct (play_tone_protocol pin neg tbl st f d) as [Hp' _].
        destruct (Hp' E) as [_ H2]. cbn [dstep] in H2. rewrite H2. reflexivity.
      * destruct (Hp E) as [H1 _]. cbn [dstep] in H1. rewrite H1. reflexivity.
    + assert (E' : qle f q0 = true) by (rewrite qle_qlt, E; reflexivity).
      destruct d as [d|].
      * destruct (play_tone_protocol pin neg tbl st f d) as [_ Hp'].
        destruct (Hp' E') as [_ H2]. cbn [dstep] in H2. rewrite H2. reflexivity.
      * destruct (play_tone_protocol pin neg tbl st f (Qmake 0 1)) as [_ Hp].
        destruct (Hp E') as [H1 _]. cbn [dstep] in H1. rewrite H1. reflexivity.
  - reflexivity.
  - unfold beep. rewrite beep_loop_last.
    assert (Hk : negb (Nat.eqb (Z.to_nat (Z.max 0 (c_int times))) 0) = (1 <=? c_int times)).
    { destruct (1 <=? c_int times) eqn:E.
      - apply Z.leb_le in E. destruct (Z.to_nat (Z.max 0 (c_int times))) eqn:Ek; [lia|reflexivity].
      - apply Z.leb_gt in E. replace (Z.max 0 (c_int times)) with 0 by lia. reflexivity. }
    rewrite Hk. reflexivity.
  - unfold sweep, sweep_freqs.
    pose proof (sweep_loop_last pin (clamp0 s) (clamp0 e) (Z.max 1 (c_int steps))
                 (inject_Z (f32z (c_ulong neg dq)) / inject_Z (Z.max 1 (c_int steps)))%Q
                 (Z.to_nat (Z.max 1 (c_int steps))) 0%nat st) as Hl.
    change (Z.of_nat 0) with 0 in Hl.
    destruct (sweep_loop pin (clamp0 s) (clamp0 e) (Z.max 1 (c_int steps))
                (inject_Z (f32z (c_ulong neg dq)) / inject_Z (Z.max 1 (c_int steps)))%Q
                (Z.to_nat (Z.max 1 (c_int steps))) 0 st) as [st1 e1].
    cbn [fst quiet b_last] in *. exact Hl.
  - unfold melody, score in *. destruct (tlookup name tbl) as [[t0 seq]|]; [|reflexivity].
    apply melody_loop_last.
Qed.

(* ... and what that value is for the calls the statement speaks about *)
Lemma last_app_single {A} (l : list A) x d : last (l ++ [x]) d = x.
Proof. apply last_last. Qed.

(* C16_last_frequency_sweep: a sweep whose end frequency is positive leaves get_last_frequency == end *)
Lemma last_frequency_sweep : forall pin neg tbl st s e d steps,
  qlt q0 e = true ->
  (get_last_frequency (fst (dstep pin neg tbl st (Sweep s e d steps))) == e)%Q.
Proof.
  intros pin neg tbl st s e d steps He.
  rewrite last_frequency_exact. cbn [last_after].
  set (n := Z.max 1 (c_int steps)).
  assert (Hn : 1 <= n) by (subst n; lia).
  unfold sweep_freqs.
  assert (Hnat : (0 < Z.to_nat n)%nat) by lia.
  rewrite (seq_last_split _ Hnat), map_app, positives_app. cbn [map].
  replace (Z.of_nat (Z.to_nat n - 1)) with (n - 1) by lia.
  pose proof (sweep_freq_last (clamp0 s) (clamp0 e) n Hn) as Hl.
  assert (Hce : clamp0 (clamp0 e) = e).
  { rewrite (clamp0_pos _ He). apply clamp0_pos. exact He. }
  rewrite Hce in Hl.
  assert (Hpos : qlt q0 (sweep_freq (clamp0 s) (clamp0 e) n (n - 1)) = true).
  { apply qlt_true. rewrite Hl. apply qlt_true. exact He. }
  unfold positives at 2. cbn [filter]. rewrite Hpos.
  rewrite last_app_single. exact Hl.
Qed.

(* ------------------------------------------------------------------ the tone() argument is bounded *)
Section Bounded.
  Variable pin : Z.
  Variable M : Q.
  Hypothesis M_nonneg : (0 <= M)%Q.

  Let P := tone_le (tone_of M).

  Lemma tone_of_nonneg f : (0 <= f)%Q -> 0 <= tone_of f.
  Proof.
    intro H. unfold tone_of. change 0 with (Qfloor 0). apply Qfloor_resp_le.
    unfold qhalf. lra.
  Qed.

  Lemma P_tone f : qlt q0 f = true -> (f <= M)%Q -> P (Tone pin (tone_of f)).
  Proof.
    intros Hp Hle. cbn. split.
    - apply tone_of_nonneg. apply Qlt_le_weak. apply qlt_true. exact Hp.
    - apply tone_of_mono. exact Hle.
  Qed.

  Lemma clamp0_le x : (x <= M)%Q -> (clamp0 x <= M)%Q.
  Proof. intro H. unfold clamp0. destruct (qlt x q0); [exact M_nonneg|exact H]. Qed.

  Ltac fb := repeat first [ apply Forall_app; split | apply Forall_nil | assumption
                          | apply Forall_dl; intro; exact I | apply Forall_qdelay; intro; exact I
                          | apply Forall_cons; [exact I|] ].

  Lemma sound_le f st : (qlt q0 f = true -> (f <= M)%Q) -> (b_last st <= M)%Q ->
    Forall P (snd (sound pin f st)) /\ (b_last (fst (sound pin f st)) <= M)%Q.
  Proof.
    intros Hf Hl. unfold sound. destruct (qlt q0 f) eqn:E; cbn [start_tone silence quiet fst snd b_last].
    - split; [apply Forall_cons; [apply P_tone; auto|apply Forall_nil]|auto].
    - split; [fb|exact Hl].
  Qed.

  Lemma beep_loop_le target on off k : (qlt q0 target = true -> (target <= M)%Q) ->
    forall st, (b_last st <= M)%Q ->
    Forall P (snd (beep_loop pin target on off k st)) /\ (b_last (fst (beep_loop pin target on off k st)) <= M)%Q.
  Proof.
    intro Ht. induction k as [|k IH]; intros st Hl; [split; [constructor|exact Hl]|].
    cbn [beep_loop]. destruct (sound_le target st Ht Hl) as [Hs Hl1].
    destruct (sound pin target st) as [st1 e1]. cbn [fst snd] in *.
    destruct (IH (quiet st1) Hl1) as [He3 Hl3].
    destruct (beep_loop pin target on off k (quiet st1)) as [st3 e3]. cbn [fst snd] in *.
    split; [|exact Hl3]. destruct k; fb.
  Qed.

  Lemma sweep_freq_le s e n i : (s <= M)%Q -> (e <= M)%Q -> 1 <= n -> 0 <= i <= n - 1 ->
    (sweep_freq s e n i <= M)%Q.
  Proof.
    intros Hs He Hn Hi. unfold sweep_freq. apply clamp0_le.
    destruct (n =? 1) eqn:E.
    - setoid_replace (s + (e - s) * (1 # 1))%Q with e by ring. exact He.
    - apply Z.eqb_neq in E. destruct (progress_range n i ltac:(lia) Hi) as [H0 H1].
      set (p := (inject_Z i / (inject_Z n - (1 # 1)))%Q) in *. nra.
  Qed.

  Lemma sweep_loop_le s e steps sd k : (s <= M)%Q -> (e <= M)%Q -> 1 <= steps ->
    forall a st, Z.of_nat a + Z.of_nat k <= steps -> (b_last st <= M)%Q ->
    Forall P (snd (sweep_loop pin s e steps sd k (Z.of_nat a) st)) /\
    (b_last (fst (sweep_loop pin s e steps sd k (Z.of_nat a) st)) <= M)%Q.
  Proof.
    intros Hs He Hn. induction k as [|k IH]; intros a st Hr Hl; [split; [constructor|exact Hl]|].
    cbn [sweep_loop].
    assert (Hf : qlt q0 (sweep_freq s e steps (Z.of_nat a)) = true -> (sweep_freq s e steps (Z.of_nat a) <= M)%Q).
    { intros _. apply sweep_freq_le; try assumption. lia. }
    destruct (sound_le _ st Hf Hl) as [Hs1 Hl1].
    destruct (sound pin (sweep_freq s e steps (Z.of_nat a)) st) as [st1 e1]. cbn [fst snd] in *.
    replace (Z.of_nat a + 1) with (Z.of_nat (S a)) by lia.
    destruct (IH (S a) st1 ltac:(lia) Hl1) as [He3 Hl3].
    destruct (sweep_loop pin s e steps sd k (Z.of_nat (S a)) st1) as [st2 e3]. cbn [fst snd] in *.
    split; [|exact Hl3]. fb.
  Qed.

  Lemma melody_loop_le beat seq : notes_le M seq = true ->
    forall st, (b_last st <= M)%Q ->
    Forall P (snd (melody_loop pin beat seq st)) /\ (b_last (fst (melody_loop pin beat seq st)) <= M)%Q.
  Proof.
    induction seq as [|[f b] r IH]; intros Hn st Hl; [split; [constructor|exact Hl]|].
    cbn [notes_le forallb fst] in Hn. apply andb_true_iff in Hn as [Hf Hr]. apply qle_true in Hf.
    cbn [melody_loop]. destruct (qle f q0) eqn:Ef.
    - destruct (IH Hr (quiet st) Hl) as [H2 L2].
      destruct (melody_loop pin beat r (quiet st)) as [st2 e2]. cbn [fst snd] in *.
      split; [|exact L2]. fb.
    - destruct (IH Hr (quiet (fst (start_tone pin f st))) Hf) as [H2 L2].
      destruct (melody_loop pin beat r (quiet (fst (start_tone pin f st)))) as [st2 e2]. cbn [fst snd start_tone] in *.
      split; [|exact L2].
      assert (Hp : qlt q0 f = true) by (rewrite qle_qlt in Ef; apply negb_false_iff in Ef; exact Ef).
      apply Forall_app; split; [|exact H2].
      apply Forall_app; split; [apply Forall_cons; [apply P_tone; assumption|apply Forall_nil]|fb].
  Qed.

  Lemma notes_le_lookup (tbl : list (text * score)) : table_le M tbl = true ->
    forall k t0 seq, tlookup k tbl = Some (t0, seq) -> notes_le M seq = true.
  Proof.
    intro H. induction tbl as [|[k' [t s]] r IH]; intros k t0 seq Hl; [discriminate|].
    cbn [table_le forallb snd] in H. apply andb_true_iff in H as [H1 H2]. cbn [tlookup] in Hl.
    destruct (text_eqb k k').
    - inversion Hl; subst. exact H1.
    - apply (IH H2 _ _ _ Hl).
  Qed.

  Lemma dstep_le neg tbl st o : table_le M tbl = true -> freq_le M o = true -> (b_last st <= M)%Q ->
    Forall P (snd (dstep pin neg tbl st o)) /\ (b_last (fst (dstep pin neg tbl st o)) <= M)%Q.
  Proof.
    intros Ht Ho Hl. destruct o as [f dur| |f on off times|s e dq steps|name tempo]; cbn [freq_le] in Ho.
    - apply qle_true in Ho.
      destruct (qlt q0 f) eqn:E.
      + destruct (play_tone_protocol pin neg tbl st f (match dur with Some d => d | None => q0 end)) as [Hp _].
        destruct (Hp E) as [H1 H2].
        destruct dur as [d|].
        * rewrite H2. cbn [fst snd b_last]. split; [|exact Ho].
          apply Forall_app; split; [apply Forall_cons; [apply P_tone; assumption|apply Forall_nil]|fb].
        * rewrite H1. cbn [fst snd b_last]. split; [|exact Ho].
          apply Forall_cons; [apply P_tone; assumption|apply Forall_nil].
      + assert (E' : qle f q0 = true) by (rewrite qle_qlt, E; reflexivity).
        destruct (play_tone_protocol pin neg tbl st f (match dur with Some d => d | None => q0 end)) as [_ Hp].
        destruct (Hp E') as [H1 H2].
        destruct dur as [d|].
        * rewrite H2. cbn [fst snd quiet b_last]. split; [fb|exact Hl].
        * rewrite H1. cbn [fst snd quiet b_last]. split; [fb|exact Hl].
    - cbn [dstep stop silence fst snd quiet b_last]. split; [fb|exact Hl].
    - cbn [dstep]. unfold beep. apply beep_loop_le; [|exact Hl].
      intros _. apply clamp0_le. destruct f as [f|]; [apply qle_true; exact Ho|exact Hl].
    - apply andb_true_iff in Ho as [Hs He]. apply qle_true in Hs. apply qle_true in He.
      cbn [dstep]. unfold sweep.
      destruct (sweep_loop_le (clamp0 s) (clamp0 e) (Z.max 1 (c_int steps))
                  (inject_Z (f32z (c_ulong neg dq)) / inject_Z (Z.max 1 (c_int steps)))%Q
                  (Z.to_nat (Z.max 1 (c_int steps))) (clamp0_le _ Hs) (clamp0_le _ He) ltac:(lia)
                  0%nat st ltac:(lia) Hl) as [H1 L1].
      change (Z.of_nat 0) with 0 in *.
      destruct (sweep_loop pin (clamp0 s) (clamp0 e) (Z.max 1 (c_int steps))
                  (inject_Z (f32z (c_ulong neg dq)) / inject_Z (Z.max 1 (c_int steps)))%Q
                  (Z.to_nat (Z.max 1 (c_int steps))) 0 st) as [st1 e1].
      cbn [fst snd quiet b_last] in *. split; [fb|exact L1].
    - cbn [dstep]. unfold melody, score in *. destruct (tlookup name tbl) as [[t0 seq]|] eqn:El.
      + apply melody_loop_le; [|exact Hl]. apply (notes_le_lookup tbl Ht name t0 seq El).
      + cbn [fst snd]. split; [constructor|exact Hl].
  Qed.

  Lemma run_le neg tbl ops : table_le M tbl = true -> forall st,
    forallb (freq_le M) ops = true -> (b_last st <= M)%Q ->
    Forall P (snd (run pin neg tbl st ops)).
  Proof.
    intro Ht. induction ops as [|o r IH]; intros st Ho Hl; [constructor|].
    cbn [forallb] in Ho. apply andb_true_iff in Ho as [Ho Hr].
    cbn [run]. destruct (dstep_le neg tbl st o Ht Ho Hl) as [H1 L1].
    destruct (dstep pin neg tbl st o) as [st1 e1]. cbn [fst snd] in *.
    specialize (IH st1 Hr L1).
    destruct (run pin neg tbl st1 r) as [st2 e2]. cbn [fst snd] in *.
    apply Forall_app; split; assumption.
  Qed.
End Bounded.

(* C16_tone_value_bounded *)
Lemma tone_value_bounded : forall pin neg tbl M default ops,
  (0 <= M)%Q -> table_le M tbl = true -> qle default M = true -> forallb (freq_le M) ops = true ->
  Forall (tone_le (tone_of M)) (snd (run pin neg tbl (init default) ops)).
Proof.
  intros pin neg tbl M default ops HM Ht Hd Ho.
  apply run_le; try assumption. cbn. apply qle_true. exact Hd.
Qed.

Lemma generated_table_fits : table_le (Qmake 65535 1) emitter_melodies = true.
Proof. vm_compute. reflexivity. Qed.

(* C16_tone_fits_16_bits: on the generated table, with every frequency argument and default_frequency
   <= 65535 the argument of every tone() is below 2^16 (the unsigned int of an AVR does not wrap) *)
Lemma tone_fits_16_bits : forall pin neg default ops,
  qle default (Qmake 65535 1) = true -> forallb (freq_le (Qmake 65535 1)) ops = true ->
  Forall (fun e => match e with Tone _ t => 0 <= t < 2 ^ 16 | _ => True end)
         (snd (run pin neg emitter_melodies (init default) ops)).
Proof.
  intros pin neg default ops Hd Ho.
  assert (HM : (0 <= Qmake 65535 1)%Q) by (unfold Qle; cbn; lia).
  pose proof (tone_value_bounded pin neg emitter_melodies (Qmake 65535 1) default ops HM
                generated_table_fits Hd Ho) as H.
  eapply Forall_impl; [|exact H].
  intros [p t|p|d]; cbn [tone_le]; auto. intros [H0 H1].
  assert (E : tone_of (65535 # 1) = 65535) by (vm_compute; reflexivity).
  rewrite E in H1. split; [exact H0|]. change (2 ^ 16) with 65536. lia.
Qed.

(* the guard is needed: play_tone(65536) asks for tone(pin, 65536) *)
Lemma tone_fits_16_bits_guard_needed :
  exists pin neg default ops,
    Exists (fun e => match e with Tone _ t => 2 ^ 16 <= t | _ => False end)
           (snd (run pin neg emitter_melodies (init default) ops)).
Proof.
  exists 8, neg_literal, (Qmake 440 1), [PlayTone (Qmake 65536 1) None].
  vm_compute. apply Exists_cons_hd. discriminate.
Qed.

(* ------------------------------------------------------------------ tone(pin, 0) *)
Lemma tone_of_ge1 f : qle qhalf f = true -> 1 <= tone_of f.
Proof.
  intro H. apply qle_true in H. unfold tone_of. change 1 with (Qfloor 1).
  apply Qfloor_resp_le. unfold qhalf in *. lra.
Qed.

Lemma tone_zero_iff : forall f, (0 < f)%Q -> (tone_of f = 0 <-> (f < 1 # 2)%Q).
Proof.
  intros f Hp. split; intro H.
  - apply Qnot_le_lt. intro Hc.
    assert (H1 : 1 <= tone_of f) by (apply tone_of_ge1; apply qle_true; exact Hc). lia.
  - assert (H0 : 0 <= tone_of f).
    { unfold tone_of. change 0 with (Qfloor 0). apply Qfloor_resp_le. unfold qhalf. lra. }
    assert (H1 : tone_of f < 1).
    { unfold tone_of. rewrite Zlt_Qlt. eapply Qle_lt_trans; [apply Qfloor_le|]. unfold qhalf. change (inject_Z 1) with 1%Q. lra. }
    lia.
Qed.

Lemma audible_pos f : audible_arg f = true -> qlt q0 f = true -> qle qhalf f = true.
Proof.
  unfold audible_arg. intros H Hp. apply orb_true_iff in H as [H|H]; [|exact H].
  rewrite qle_qlt, Hp in H. discriminate.
Qed.

Lemma Forall_repeat {A} (Q : A -> Prop) x n : Q x -> Forall Q (repeat x n).
Proof. intro H. induction n; cbn; constructor; auto. Qed.

Lemma sweep_freq_ge_half s e n i : (qhalf <= s)%Q -> (qhalf <= e)%Q -> 1 <= n -> 0 <= i <= n - 1 ->
  (qhalf <= sweep_freq s e n i)%Q.
Proof.
  intros Hs He Hn Hi. unfold sweep_freq.
  assert (Hx : (qhalf <= s + (e - s) * (if n =? 1 then 1 # 1 else inject_Z i / (inject_Z n - (1 # 1))))%Q).
  { destruct (n =? 1) eqn:E.
    - setoid_replace (s + (e - s) * (1 # 1))%Q with e by ring. exact He.
    - apply Z.eqb_neq in E. destruct (progress_range n i ltac:(lia) Hi) as [H0 H1].
      set (p := (inject_Z i / (inject_Z n - (1 # 1)))%Q) in *. unfold qhalf in *. nra. }
  unfold clamp0. destruct (qlt _ q0) eqn:Ec; [|exact Hx].
  apply qlt_true in Ec. unfold qhalf, q0 in *. lra.
Qed.

Lemma Forall_map_filter_seq (R : Z -> Prop) (h : nat -> Z) (keep : nat -> bool) a k :
  (forall j, (a <= j < a + k)%nat -> keep j = true -> R (h j)) ->
  Forall R (map h (filter keep (seq a k))).
Proof.
  revert a. induction k as [|k IH]; intros a H; [constructor|].
  cbn [seq filter]. destruct (keep a) eqn:E.
  - cbn [map]. constructor; [apply H; [lia|exact E]|]. apply IH. intros j Hj. apply H. lia.
  - apply IH. intros j Hj. apply H. lia.
Qed.

(* C16_no_zero_tone_partial *)
Lemma no_zero_tone : forall pin neg tbl st o,
  half_guard tbl (get_last_frequency st) o = true ->
  Forall (fun t => 1 <= t) (tones (snd (dstep pin neg tbl st o))).
Proof.
  intros pin neg tbl st o H. unfold get_last_frequency in H.
  destruct o as [f dur| |f on off times|s e dq steps|name tempo]; cbn [half_guard] in H.
  - destruct (qlt q0 f) eqn:E.
    + destruct (play_tone_protocol pin neg tbl st f (match dur with Some d => d | None => q0 end)) as [Hp _].
      destruct (Hp E) as [H1 H2]. pose proof (tone_of_ge1 f (audible_pos f H E)) as Hg.
      destruct dur as [d|].
      * rewrite H2. cbn [snd]. rewrite !tones_app, tones_dl. cbn. repeat constructor. exact Hg.
      * rewrite H1. cbn. repeat constructor. exact Hg.
    + rewrite nonpositive_never_tones; [constructor|]. cbn. rewrite qle_qlt, E. reflexivity.
  - cbn. constructor.
  - destruct (beep_counts pin neg tbl st f on off times) as [Hpos Hneg].
    set (target := clamp0 (match f with Some x => x | None => get_last_frequency st end)) in *.
    destruct (qlt q0 target) eqn:E.
    + destruct (Hpos eq_refl) as (_ & Ht & _). rewrite Ht. apply Forall_repeat.
      apply tone_of_ge1.
      assert (Ha : audible_arg (match f with Some x => x | None => get_last_frequency st end) = true).
      { destruct f; exact H. }
      assert (Hp : qlt q0 (match f with Some x => x | None => get_last_frequency st end) = true).
      { subst target. unfold clamp0 in E. destruct (qlt _ q0) eqn:Ec in E; [discriminate|exact E]. }
      subst target. rewrite (clamp0_pos _ Hp). apply audible_pos; assumption.
    + destruct (Hneg eq_refl) as (_ & Ht). rewrite Ht. constructor.
  - apply orb_true_iff in H as [H|H].
    + rewrite nonpositive_never_tones; [constructor|exact H].
    + apply andb_true_iff in H as [Hs He].
      rewrite sweep_tones.
      assert (Hcs : clamp0 s = s).
      { apply clamp0_pos. apply qlt_true. apply qle_true in Hs. unfold qhalf, q0 in *. lra. }
      assert (Hce : clamp0 e = e).
      { apply clamp0_pos. apply qlt_true. apply qle_true in He. unfold qhalf, q0 in *. lra. }
      rewrite Hcs, Hce.
      set (n := Z.max 1 (c_int steps)).
      apply Forall_forall. intros t Hin. apply in_map_iff in Hin as (fq & Ht & Hin).
      unfold positives in Hin. apply filter_In in Hin as [Hin _]. unfold sweep_freqs in Hin.
      apply in_map_iff in Hin as (i & Hfq & Hi).
      apply in_seq in Hi. subst t fq. apply tone_of_ge1. apply qle_true.
      apply sweep_freq_ge_half; [apply qle_true; exact Hs|apply qle_true; exact He|subst n; lia|subst n; lia].
  - cbn [dstep]. unfold melody, score in *. destruct (tlookup name tbl) as [[t0 seq]|]; [|constructor].
    rewrite melody_loop_events, tones_play_score.
    apply Forall_forall. intros t Hin. apply in_map_iff in Hin as (fq & Ht & Hin).
    unfold positives in Hin. apply filter_In in Hin as [Hin Hp].
    apply in_map_iff in Hin as ([f b] & Hf & Hin). cbn in Hf. subst fq t.
    rewrite forallb_forall in H. specialize (H _ Hin). cbn in H.
    apply tone_of_ge1. apply audible_pos; assumption.
Qed.

(* every melody of the generated table is inside that guard *)
Lemma generated_melodies_audible :
  forallb (fun kv => forallb (fun fb => audible_arg (fst fb)) (snd (snd kv))) emitter_melodies = true.
Proof. vm_compute. reflexivity. Qed.

(* C16_tone_zero_refuted: play_tone(0.25) calls tone(pin, 0) *)
Lemma tone_zero_refuted :
  exists pin neg tbl st f, (0 < f)%Q /\ snd (dstep pin neg tbl st (PlayTone f None)) = [Tone pin 0].
Proof.
  exists 8, neg_literal, [], (init (Qmake 440 1)), (Qmake 1 4). split; [reflexivity|]. vm_compute. reflexivity.
Qed.

(* ------------------------------------------------------------------ every sound is bounded *)
Lemma delay_sum_intercalate sep b k :
  delay_sum (intercalate sep (repeat b k)) = Z.of_nat k * delay_sum b + Z.of_nat (pred k) * delay_sum sep.
Proof.
  induction k as [|k IH]; [reflexivity|].
  destruct k as [|k'].
  - cbn [repeat intercalate pred]. lia.
  - change (repeat b (S (S k'))) with (b :: repeat b (S k')).
    change (intercalate sep (b :: repeat b (S k'))) with (b ++ sep ++ intercalate sep (repeat b (S k'))).
    rewrite !delay_sum_app, IH. cbn [pred]. lia.
Qed.

Lemma delay_sum_beep_block pin t on : 0 <= on -> delay_sum (beep_block pin t on) = on.
Proof.
  intro H. unfold beep_block. rewrite !delay_sum_app, delay_sum_dl by exact H.
  cbn [delay_sum delays flat_map zsum fold_right app]. lia.
Qed.

Lemma delay_sum_mute_block pin on : 0 <= on -> delay_sum (mute_block pin on) = on.
Proof.
  intro H. unfold mute_block. rewrite !delay_sum_app, delay_sum_dl by exact H.
  cbn [delay_sum delays flat_map zsum fold_right app]. lia.
Qed.

(* beep, in general (any target, any count): exactly n*on + max(0, n-1)*off ms *)
Lemma beep_duration_general : forall pin neg tbl st f on off times,
  qle q0 on = true -> qle q0 off = true ->
  let n := Z.max 0 (c_int times) in
  delay_sum (snd (dstep pin neg tbl st (Beep f on off times))) = n * Qfloor on + Z.max 0 (n - 1) * Qfloor off.
Proof.
  intros pin neg tbl st f on off times Hon Hoff n.
  destruct (c_ulong_nonneg neg on Hon) as [Eon Pon].
  destruct (c_ulong_nonneg neg off Hoff) as [Eoff Poff].
  cbn [dstep]. unfold beep. rewrite beep_loop_events, Eon, Eoff. fold n.
  rewrite delay_sum_intercalate, delay_sum_dl by exact Poff.
  assert (Hb : delay_sum (if qlt q0 (clamp0 (match f with Some q => q | None => b_last st end))
                          then beep_block pin (tone_of (clamp0 (match f with Some q => q | None => b_last st end))) (Qfloor on)
                          else mute_block pin (Qfloor on)) = Qfloor on).
  { destruct (qlt q0 _); [apply delay_sum_beep_block|apply delay_sum_mute_block]; exact Pon. }
  rewrite Hb. rewrite Z2Nat.id by lia.
  replace (Z.of_nat (pred (Z.to_nat n))) with (Z.max 0 (n - 1)) by lia. reflexivity.
Qed.

Lemma emitter_beats_nonneg : forallb (fun kv => beats_nonneg (snd (snd kv))) emitter_melodies = true.
Proof. vm_compute. reflexivity. Qed.

(* C16_every_call_bounded *)
Lemma every_call_bounded : forall pin neg st o,
  nonneg_durations o = true ->
  (inject_Z (delay_sum (snd (dstep pin neg emitter_melodies st o))) <= duration_bound emitter_melodies o)%Q.
Proof.
  intros pin neg st o H.
  destruct o as [f [d|]| |f on off times|s e d steps|name tempo]; cbn [nonneg_durations duration_bound] in *.
  - destruct (c_ulong_nonneg neg d H) as [Ed Pd].
    destruct (qlt q0 f) eqn:E.
    + destruct (play_tone_protocol pin neg emitter_melodies st f d) as [Hp _]. destruct (Hp E) as [_ H2].
      rewrite H2. cbn [snd]. rewrite !delay_sum_app, Ed, delay_sum_dl by exact Pd.
      cbn [delay_sum delays flat_map zsum fold_right app]. rewrite Z.add_0_l, Z.add_0_r. apply Qfloor_le.
    + assert (E' : qle f q0 = true) by (rewrite qle_qlt, E; reflexivity).
      destruct (play_tone_protocol pin neg emitter_melodies st f d) as [_ Hp]. destruct (Hp E') as [_ H2].
      rewrite H2. cbn [snd]. rewrite !delay_sum_app, Ed, delay_sum_dl by exact Pd.
      cbn [delay_sum delays flat_map zsum fold_right app]. rewrite Z.add_0_l. apply Qfloor_le.
  - destruct (qlt q0 f) eqn:E.
    + destruct (play_tone_protocol pin neg emitter_melodies st f q0) as [Hp _]. destruct (Hp E) as [H1 _].
      rewrite H1. cbn. apply Qle_refl.
    + assert (E' : qle f q0 = true) by (rewrite qle_qlt, E; reflexivity).
      destruct (play_tone_protocol pin neg emitter_melodies st f q0) as [_ Hp]. destruct (Hp E') as [H1 _].
      rewrite H1. cbn. apply Qle_refl.
  - cbn. apply Qle_refl.
  - apply andb_true_iff in H as [Hon Hoff].
    rewrite (beep_duration_general pin neg emitter_melodies st f on off times Hon Hoff). apply Qle_refl.
  - apply andb_true_iff in H as [H Hsmall]. apply Z.ltb_lt in Hsmall.
    destruct (sweep_protocol pin neg emitter_melodies st s e d steps) as (_ & _ & _ & _ & _ & _ & _ & Hd & _).
    destruct (Hd H Hsmall) as [_ Hq]. exact Hq.
  - cbn [dstep]. unfold melody, score in *.
    destruct (tlookup name emitter_melodies) as [[t0 seq]|] eqn:El; [|cbn; apply Qle_refl].
    rewrite melody_loop_events. unfold delay_sum. rewrite delays_play_score.
    apply note_delays_bound.
    + destruct tables_agree as (_ & _ & _ & Hok). destruct (Hok name t0 seq El) as [Hp _].
      pose proof (eff_tempo_pos t0 tempo Hp) as He.
      apply Qlt_le_weak. apply Qlt_shift_div_l; [exact He|]. rewrite Qmult_0_l. reflexivity.
    + apply (beats_nonneg_lookup _ emitter_beats_nonneg name t0 seq El).
Qed.

(* ------------------------------------------------------------------ when is the pin left sounding? *)
Lemma noop_dstep pin neg tbl st o : noop_call tbl o = true -> dstep pin neg tbl st o = (st, []).
Proof.
  unfold noop_call. intro H. apply andb_true_iff in H as [Ht Hg]. apply negb_true_iff in Hg.
  destruct o as [f [d|]| |f on off times|s e d steps|name tempo]; cbn in Ht, Hg; try discriminate; cbn [dstep].
  - unfold beep. apply Z.leb_gt in Hg.
    replace (Z.to_nat (Z.max 0 (c_int times))) with 0%nat by lia. reflexivity.
  - unfold melody, score in *. destruct (tlookup name tbl) as [[t0 [|x r]]|]; try discriminate; reflexivity.
Qed.

Lemma run_snoc pin neg tbl st ops o :
  run pin neg tbl st (ops ++ [o]) =
  (fst (dstep pin neg tbl (fst (run pin neg tbl st ops)) o),
   snd (run pin neg tbl st ops) ++ snd (dstep pin neg tbl (fst (run pin neg tbl st ops)) o)).
Proof. rewrite run_app, run_single. reflexivity. Qed.

(* C16_sounding_characterised: after any call sequence on a fresh buzzer the pin is sounding only if the last
   call that emitted any code was an untimed play_tone with a positive frequency - and then
   get_frequency = get_last_frequency = that frequency *)
Lemma sounding_characterised : forall pin neg tbl default ops,
  sounding (snd (run pin neg tbl (init default) ops)) = true ->
  exists pre f post,
    ops = pre ++ [PlayTone f None] ++ post /\ (0 < f)%Q /\ forallb (noop_call tbl) post = true /\
    get_frequency (fst (run pin neg tbl (init default) ops)) = f /\
    get_last_frequency (fst (run pin neg tbl (init default) ops)) = f.
Proof.
  intros pin neg tbl default ops. induction ops as [|o ops IH] using rev_ind; intro Hs.
  - cbn in Hs. discriminate.
  - destruct (noop_call tbl o) eqn:En.
    + (* nothing emitted: same trace, same state *)
      rewrite run_snoc in Hs |- *. rewrite (noop_dstep pin neg tbl _ o En) in Hs |- *.
      cbn [fst snd] in *. rewrite app_nil_r in Hs.
      destruct (IH Hs) as (pre & f & post & Ho & Hf & Hp & Hc & Hl).
      exists pre, f, (post ++ [o]). split; [rewrite Ho, <- !app_assoc; reflexivity|].
      split; [exact Hf|]. split; [rewrite forallb_app, Hp; cbn; rewrite En; reflexivity|].
      split; assumption.
    + pose proof (getters_all_sequences pin neg tbl default (ops ++ [o])) as (H1 & _).
      rewrite Hs in H1. unfold get_state in H1. rewrite run_snoc in H1. cbn [fst] in H1.
      set (st := fst (run pin neg tbl (init default) ops)) in *.
      destruct (timed o) eqn:Et.
      * (* a timed call inside the guard ends silent *)
        unfold noop_call in En. rewrite Et in En. cbn in En. apply negb_false_iff in En.
        rewrite (timed_state_false pin neg tbl st o Et En) in H1. discriminate.
      * (* untimed: stop() (state false: contradiction, closed by discriminate) or play_tone(f) *)
        destruct o as [f [d|]| |f on off times|s e d steps|name tempo]; cbn in Et; try discriminate.
        -- destruct (qlt q0 f) eqn:E.
           ++ destruct (play_tone_protocol pin neg tbl st f q0) as [Hp _]. destruct (Hp E) as [Hd _].
              exists ops, f, []. split; [reflexivity|]. split; [apply qlt_true; exact E|].
              split; [reflexivity|]. rewrite run_snoc. cbn [fst]. fold st. rewrite Hd. split; reflexivity.
           ++ assert (E' : qle f q0 = true) by (rewrite qle_qlt, E; reflexivity).
              destruct (play_tone_protocol pin neg tbl st f q0) as [_ Hp]. destruct (Hp E') as [Hd _].
              rewrite Hd in H1. cbn in H1. discriminate.
Qed.

(* ------------------------------------------------------------------ sweep: the delays, one by one *)
Lemma delays_sound pin f st : delays (snd (sound pin f st)) = [].
Proof. unfold sound. destruct (qlt q0 f); reflexivity. Qed.

Lemma sweep_loop_delay_list pin s e steps sd k : forall i st,
  delays (snd (sweep_loop pin s e steps sd k i st)) = if qlt q0 sd then repeat (Qfloor sd) k else [].
Proof.
  induction k as [|k IH]; intros i st; [destruct (qlt q0 sd); reflexivity|].
  cbn [sweep_loop].
  pose proof (delays_sound pin (sweep_freq s e steps i) st) as Hs.
  destruct (sound pin (sweep_freq s e steps i) st) as [st1 e1]. cbn [snd] in Hs.
  specialize (IH (i + 1) st1).
  destruct (sweep_loop pin s e steps sd k (i + 1) st1) as [st2 e3]. cbn [fst snd] in *.
  rewrite !delays_app, Hs, IH, delays_qdelay. destruct (qlt q0 sd); reflexivity.
Qed.

Lemma step_delay_pos total n : 1 <= n -> qlt q0 (inject_Z total / inject_Z n) = (0 <? total).
Proof.
  intro Hn.
  assert (Hnq : (0 < inject_Z n)%Q) by (change 0%Q with (inject_Z 0); rewrite <- Zlt_Qlt; lia).
  destruct (0 <? total) eqn:E.
  - apply Z.ltb_lt in E. apply qlt_true. apply Qlt_shift_div_l; [exact Hnq|].
    rewrite Qmult_0_l. change 0%Q with (inject_Z 0). rewrite <- Zlt_Qlt. exact E.
  - apply Z.ltb_ge in E. apply qlt_false. apply Qle_shift_div_r; [exact Hnq|].
    unfold q0. rewrite Qmult_0_l. change 0%Q with (inject_Z 0). rewrite <- Zle_Qle. exact E.
Qed.

(* C16_sweep_delays: every step waits floor(duration) / steps ms (integer division; delay(0) when that is
   0 but the duration is not), nothing at all for a zero duration *)
Lemma sweep_delays : forall pin neg tbl st s e d steps,
  qle q0 d = true -> Qfloor d < 2 ^ 24 ->
  let n := Z.max 1 (c_int steps) in
  delays (snd (dstep pin neg tbl st (Sweep s e d steps))) =
  if 0 <? Qfloor d then repeat (Qfloor d / n) (Z.to_nat n) else [].
Proof.
  intros pin neg tbl st s e d steps Hd Hsmall n.
  destruct (c_ulong_nonneg neg d Hd) as [Ed Pd].
  cbn [dstep]. unfold sweep. fold n. rewrite Ed, (f32z_small _ Hsmall).
  pose proof (sweep_loop_delay_list pin (clamp0 s) (clamp0 e) n (inject_Z (Qfloor d) / inject_Z n)%Q
               (Z.to_nat n) 0 st) as Hl.
  destruct (sweep_loop pin (clamp0 s) (clamp0 e) n (inject_Z (Qfloor d) / inject_Z n)%Q (Z.to_nat n) 0 st)
    as [st1 e1].
  cbn [fst snd] in *. rewrite delays_app, Hl. cbn [delays flat_map]. rewrite app_nil_r.
  rewrite step_delay_pos by (subst n; lia). rewrite <- Zdiv_Qdiv. reflexivity.
Qed.

(* ------------------------------------------------------------------ tone(pin, 0): whole sequences *)
Lemma last_nonempty_in {A} (d : A) : forall l a, In (last (a :: l) d) (a :: l).
Proof.
  induction l as [|b l IHl]; intro a; [left; reflexivity|].
  change (last (a :: b :: l) d) with (last (b :: l) d). right. apply IHl.
Qed.

Lemma last_in_or_default {A} (l : list A) d : last l d = d \/ In (last l d) l.
Proof. destruct l as [|a l]; [left; reflexivity|right; apply last_nonempty_in]. Qed.

Lemma positives_In f l : In f (positives l) -> In f l /\ qlt q0 f = true.
Proof. unfold positives. apply filter_In. Qed.

Lemma audible_ge_half f : qle qhalf f = true -> audible_arg f = true.
Proof. intro H. unfold audible_arg. rewrite H. apply orb_true_r. Qed.

(* inside the guard the last frequency stays outside (0, 1/2) *)
Lemma half_guard_last tbl st o :
  half_guard tbl (b_last st) o = true -> audible_arg (b_last st) = true ->
  audible_arg (last_after tbl st o) = true.
Proof.
  intros H Hl. destruct o as [f dur| |f on off times|s e dq steps|name tempo]; cbn [half_guard last_after] in *.
  - destruct (qlt q0 f); assumption.
  - exact Hl.
  - set (x := match f with Some q => q | None => b_last st end) in *.
    assert (Hx : audible_arg x = true) by (subst x; destruct f; assumption).
    destruct (qlt q0 (clamp0 x) && (1 <=? c_int times)) eqn:E; [|exact Hl].
    apply andb_true_iff in E as [E _].
    assert (Hp : qlt q0 x = true).
    { unfold clamp0 in E. destruct (qlt x q0) eqn:Ec in E; [discriminate|exact E]. }
    rewrite (clamp0_pos _ Hp). exact Hx.
  - destruct (last_in_or_default (positives (sweep_freqs (clamp0 s) (clamp0 e) (Z.max 1 (c_int steps)))) (b_last st))
      as [Hd|Hin]; [rewrite Hd; exact Hl|].
    set (x := last _ _) in *. clearbody x.
    apply positives_In in Hin as [Hin Hp]. unfold sweep_freqs in Hin.
    apply in_map_iff in Hin as (i & Hfq & Hi). apply in_seq in Hi. subst x.
    apply orb_true_iff in H as [H|H].
    + apply andb_true_iff in H as [Hs He].
      rewrite (sweep_freq_zero (clamp0 s) (clamp0 e) _ _ (clamp0_nonpos_eq0 s Hs) (clamp0_nonpos_eq0 e He)) in Hp.
      discriminate.
    + apply andb_true_iff in H as [Hs He].
      assert (Hcs : clamp0 s = s).
      { apply clamp0_pos. apply qlt_true. apply qle_true in Hs. unfold qhalf, q0 in *. lra. }
      assert (Hce : clamp0 e = e).
      { apply clamp0_pos. apply qlt_true. apply qle_true in He. unfold qhalf, q0 in *. lra. }
      rewrite Hcs, Hce. apply audible_ge_half. apply qle_true.
      apply sweep_freq_ge_half; [apply qle_true; exact Hs|apply qle_true; exact He|lia|lia].
  - destruct (tlookup name tbl) as [[t0 seq]|]; [|exact Hl].
    destruct (last_in_or_default (positives (map fst seq)) (b_last st)) as [Hd|Hin]; [rewrite Hd; exact Hl|].
    set (x := last _ _) in *. clearbody x.
    apply positives_In in Hin as [Hin _]. apply in_map_iff in Hin as ([f b] & Hf & Hin). cbn in Hf. subst x.
    rewrite forallb_forall in H. specialize (H _ Hin). cbn in H. exact H.
Qed.

Lemma half_guard_static_dyn tbl last o :
  half_guard_static tbl o = true -> audible_arg last = true -> half_guard tbl last o = true.
Proof.
  destruct o as [f dur| |[f|] on off times|s e dq steps|name tempo]; cbn; auto.
Qed.

(* C16_no_zero_tone_sequences_partial *)
Lemma no_zero_tone_sequences : forall pin neg tbl default ops,
  audible_arg default = true -> forallb (half_guard_static tbl) ops = true ->
  Forall (fun t => 1 <= t) (tones (snd (run pin neg tbl (init default) ops))).
Proof.
  intros pin neg tbl default ops Hd.
  assert (G : forall ops st, audible_arg (b_last st) = true -> forallb (half_guard_static tbl) ops = true ->
              Forall (fun t => 1 <= t) (tones (snd (run pin neg tbl st ops)))).
  { clear. induction ops as [|o r IH]; intros st Hl Ho; [constructor|].
    cbn [forallb] in Ho. apply andb_true_iff in Ho as [Ho Hr].
    pose proof (half_guard_static_dyn tbl (b_last st) o Ho Hl) as Hg.
    pose proof (no_zero_tone pin neg tbl st o Hg) as H1.
    pose proof (half_guard_last tbl st o Hg Hl) as L1.
    rewrite <- (last_frequency_exact pin neg tbl st o) in L1. unfold get_last_frequency in L1.
    cbn [run]. destruct (dstep pin neg tbl st o) as [st1 e1]. cbn [fst snd] in *.
    specialize (IH st1 L1 Hr). destruct (run pin neg tbl st1 r) as [st2 e2]. cbn [fst snd] in *.
    rewrite tones_app. apply Forall_app; split; assumption. }
  intro Ho. apply G; [exact Hd|exact Ho].
Qed.
