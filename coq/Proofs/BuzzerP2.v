(* Second batch of lemmas for property C16: the play_tone protocol, the notes and delays of a melody,
   the total length of a beep, and the exact value of get_last_frequency after every call. *)
From Coq Require Import ZArith QArith Qround Lia Lqa List Bool.
From RV Require Import Base.Wire Base.Text Device.DBuzzer Device.BuzzerSpec Device.MelodySpec Gen.Melodies
  Proofs.BuzzerP.
Import ListNotations.
Open Scope Z_scope.

Arguments tone_of : simpl never.
Arguments c_ulong : simpl never.
Arguments c_int : simpl never.
Arguments Qfloor : simpl never.

(* ------------------------------------------------------------------ play_tone *)
Lemma qlt_half_cases f : {qle qhalf f = true} + {qlt f qhalf = true}.
Proof.
  destruct (qle qhalf f) eqn:E; [left; reflexivity|right].
  apply qlt_true. apply qle_false. exact E.
Qed.

(* C16_play_tone *)
Lemma play_tone_protocol : forall pin tbl st f d,
  (qle qhalf f = true ->
     dstep pin tbl st (PlayTone f None) = (mkbz true f f, [Tone pin (tone_of f)]) /\
     dstep pin tbl st (PlayTone f (Some d)) =
       (mkbz false q0 f, [Tone pin (tone_of f)] ++ dl (c_ulong d) ++ [NoTone pin])) /\
  (qlt f qhalf = true ->
     dstep pin tbl st (PlayTone f None) = (quiet st, [NoTone pin]) /\
     dstep pin tbl st (PlayTone f (Some d)) = (quiet st, [NoTone pin] ++ dl (c_ulong d))).
Proof.
  intros pin tbl st f d. split; intro H; cbn [dstep]; unfold play_tone.
  - rewrite (clamph_ge _ H). rewrite qle_qlt, (qhalf_pos _ H). cbn [negb start_tone quiet b_last].
    split; reflexivity.
  - rewrite (clamph_lt _ H). change (qle q0 q0) with true. change (qlt q0 q0) with false.
    cbn [silence quiet b_last]. rewrite app_nil_r. split; reflexivity.
Qed.

(* ------------------------------------------------------------------ melody: notes and delays *)
Lemma tones_play_score pin beat seq :
  tones (play_score pin beat seq) = map tone_of (positives (map fst seq)).
Proof.
  induction seq as [|[f b] r IH]; [reflexivity|].
  cbn [play_score flat_map note_events map fst positives filter] in *.
  rewrite tones_app. fold (play_score pin beat r). rewrite IH.
  rewrite qle_qlt. destruct (qlt q0 f); cbn [negb].
  - rewrite !tones_app, tones_qdelay. reflexivity.
  - rewrite tones_app, tones_qdelay. reflexivity.
Qed.

Lemma delays_qdelay d : delays (qdelay d) = if qlt q0 d then [Qfloor d] else [].
Proof. unfold qdelay. destruct (qlt q0 d); reflexivity. Qed.

Lemma delays_play_score pin beat seq :
  delays (play_score pin beat seq) = note_delays beat seq.
Proof.
  induction seq as [|[f b] r IH]; [reflexivity|].
  cbn [play_score note_delays flat_map note_events snd] in *.
  rewrite delays_app. fold (play_score pin beat r). rewrite IH.
  f_equal. destruct (qle f q0).
  - rewrite delays_app, delays_qdelay. reflexivity.
  - rewrite !delays_app, delays_qdelay. cbn. rewrite app_nil_r. reflexivity.
Qed.

Lemma notones_qdelay d : notones (qdelay d) = 0%nat.
Proof. unfold qdelay. destruct (qlt q0 d); reflexivity. Qed.

(* every note, sounded or rest, issues exactly one noTone *)
Lemma notones_play_score pin beat seq : notones (play_score pin beat seq) = length seq.
Proof.
  induction seq as [|[f b] r IH]; [reflexivity|].
  cbn [play_score flat_map note_events length] in *.
  rewrite notones_app. fold (play_score pin beat r). rewrite IH.
  destruct (qle f q0).
  - rewrite notones_app, notones_qdelay. reflexivity.
  - rewrite !notones_app, notones_qdelay. reflexivity.
Qed.

Lemma note_delays_bound beat seq : (0 <= beat)%Q -> beats_nonneg seq = true ->
  (inject_Z (zsum (note_delays beat seq)) <= beats_total seq * beat)%Q.
Proof.
  intros Hb Hn. induction seq as [|[f b] r IH].
  - unfold beats_total. cbn. rewrite Qmult_0_l. apply Qle_refl.
  - cbn [beats_nonneg forallb snd] in Hn. apply andb_true_iff in Hn as [H1 H2].
    specialize (IH H2). apply qle_true in H1. change (q0 <= b)%Q in H1.
    unfold beats_total in *. cbn [map fold_right snd note_delays flat_map].
    fold (note_delays beat r). rewrite zsum_app, inject_Z_plus.
    assert (Hx : (inject_Z (zsum (if qlt q0 (b * beat)%Q then [Qfloor (b * beat)%Q] else [])) <= b * beat)%Q).
    { destruct (qlt q0 (b * beat)%Q) eqn:E.
      - cbn [zsum fold_right]. rewrite Z.add_0_r. apply Qfloor_le.
      - cbn. apply Qmult_le_0_compat; [exact H1|exact Hb]. }
    rewrite Qmult_plus_distr_l. apply Qplus_le_compat; assumption.
Qed.

Lemma spec_beats_nonneg : forallb (fun kv => beats_nonneg (snd (snd kv))) spec_melodies = true.
Proof. vm_compute. reflexivity. Qed.

Lemma beats_nonneg_lookup (tbl : list (text * score)) :
  forallb (fun kv => beats_nonneg (snd (snd kv))) tbl = true ->
  forall k t0 seq, tlookup k tbl = Some (t0, seq) -> beats_nonneg seq = true.
Proof.
  intro H. induction tbl as [|[k' [t s]] r IH]; intros k t0 seq Hl; [discriminate|].
  cbn [forallb snd] in H. apply andb_true_iff in H as [H1 H2]. cbn [tlookup] in Hl.
  destruct (text_eqb k k').
  - inversion Hl; subst. exact H1.
  - apply (IH H2 _ _ _ Hl).
Qed.

Lemma eff_tempo_pos t0 tempo : (0 < t0)%Q -> (0 < eff_tempo t0 tempo)%Q.
Proof.
  intro H. unfold eff_tempo.
  destruct (qle (match tempo with Some q => q | None => t0 end) q0) eqn:E; [exact H|].
  apply qle_false in E. exact E.
Qed.

(* C16_melody_notes *)
Lemma melody_notes : forall pin st name tempo t0 seq,
  tlookup name spec_melodies = Some (t0, seq) ->
  let beat := (Qmake 60000 1 / eff_tempo t0 tempo)%Q in
  let tr := snd (dstep pin emitter_melodies st (Melody name tempo)) in
  tones tr = map tone_of (positives (map fst seq)) /\
  delays tr = note_delays beat seq /\
  notones tr = length seq /\
  (inject_Z (delay_sum tr) <= beats_total seq * beat)%Q.
Proof.
  intros pin st name tempo t0 seq H beat tr.
  assert (Htr : tr = play_score pin beat seq) by (apply melody_plays_pinned_score; exact H).
  rewrite Htr. split; [apply tones_play_score|]. split; [apply delays_play_score|].
  split; [apply notones_play_score|].
  unfold delay_sum. rewrite delays_play_score. apply note_delays_bound.
  - destruct tables_agree as (_ & Ht & _ & Hok).
    assert (Hp : (0 < t0)%Q).
    { apply (Hok name t0 seq). rewrite Ht. exact H. }
    pose proof (eff_tempo_pos t0 tempo Hp) as He. subst beat.
    apply Qlt_le_weak. apply Qlt_shift_div_l; [exact He|]. rewrite Qmult_0_l. reflexivity.
  - apply (beats_nonneg_lookup _ spec_beats_nonneg name t0 seq H).
Qed.

(* ------------------------------------------------------------------ beep: total length *)
Lemma delay_sum_dl ms : 0 <= ms -> delay_sum (dl ms) = ms.
Proof.
  intro H. unfold dl. destruct (0 <? ms) eqn:E.
  - cbn. lia.
  - apply Z.ltb_ge in E. cbn. lia.
Qed.

Lemma delay_sum_beeps pin t on off k : 0 <= on -> 0 <= off ->
  delay_sum (intercalate (dl off) (repeat (beep_block pin t on) (S k))) =
  Z.of_nat (S k) * on + Z.of_nat k * off.
Proof.
  intros Hon Hoff. induction k as [|k IH].
  - cbn [repeat intercalate]. unfold beep_block. rewrite !delay_sum_app, delay_sum_dl by exact Hon.
    cbn [delay_sum delays flat_map zsum fold_right app]. lia.
  - change (repeat (beep_block pin t on) (S (S k)))
      with (beep_block pin t on :: repeat (beep_block pin t on) (S k)).
    cbn [intercalate]. cbn [repeat] in IH |- *.
    rewrite !delay_sum_app. cbn [repeat] in IH. rewrite IH.
    unfold beep_block. rewrite !delay_sum_app, !delay_sum_dl by assumption. cbn [delay_sum delays flat_map zsum fold_right app].
    lia.
Qed.

Lemma delay_sum_notone pin : delay_sum [NoTone pin] = 0.
Proof. reflexivity. Qed.

(* C16_beep_duration *)
Lemma beep_duration : forall pin tbl st f on off times,
  let target := clamph (match f with Some q => q | None => get_last_frequency st end) in
  let n := c_int times in
  let tr := snd (dstep pin tbl st (Beep f on off times)) in
  qlt q0 target = true -> 1 <= n ->
  delay_sum tr = n * c_ulong on + (n - 1) * c_ulong off.
Proof.
  intros pin tbl st f on off times target n tr Ht Hn.
  destruct (beep_counts pin tbl st f on off times) as [Hpos _].
  destruct (Hpos Ht) as (Htr & _ & _). fold tr in Htr. rewrite Htr.
  pose proof (c_ulong_ge0 on) as Pon. pose proof (c_ulong_ge0 off) as Poff.
  rewrite delay_sum_app, delay_sum_notone, Z.add_0_r.
  fold n. destruct (Z.to_nat n) as [|k] eqn:Ek; [lia|].
  rewrite delay_sum_beeps by assumption.
  assert (Hk : Z.of_nat (S k) = n) by (rewrite <- Ek; apply Z2Nat.id; lia).
  rewrite Hk. replace (Z.of_nat k) with (n - 1) by lia. reflexivity.
Qed.

(* ------------------------------------------------------------------ get_last_frequency, exactly *)
Lemma last_indep {A} (l : list A) d d' : l <> [] -> last l d = last l d'.
Proof.
  induction l as [|x r IH]; intro H; [congruence|].
  destruct r as [|y r']; [reflexivity|].
  change (last (x :: y :: r') d) with (last (y :: r') d).
  change (last (x :: y :: r') d') with (last (y :: r') d').
  apply IH. congruence.
Qed.

Lemma last_cons_default {A} (x : A) l d : last (x :: l) d = last l x.
Proof.
  destruct l as [|y r]; [reflexivity|].
  change (last (x :: y :: r) d) with (last (y :: r) d). apply last_indep. congruence.
Qed.

Lemma last_positives_cons f l d :
  last (positives (f :: l)) d = last (positives l) (if qlt q0 f then f else d).
Proof.
  unfold positives. cbn [filter]. destruct (qlt q0 f); [apply last_cons_default|reflexivity].
Qed.

Lemma sound_last pin f st : b_last (fst (sound pin f st)) = if qlt q0 f then f else b_last st.
Proof. unfold sound. destruct (qlt q0 f); reflexivity. Qed.

Lemma beep_loop_last pin target on off k : forall st,
  b_last (fst (beep_loop pin target on off k st)) =
  if qlt q0 target && negb (Nat.eqb k 0) then target else b_last st.
Proof.
  induction k as [|k IH]; intro st.
  - cbn. rewrite andb_false_r. reflexivity.
  - cbn [beep_loop]. pose proof (sound_last pin target st) as Hs.
    destruct (sound pin target st) as [st1 e1]. cbn [fst] in Hs.
    specialize (IH (quiet st1)).
    destruct (beep_loop pin target on off k (quiet st1)) as [st3 e3]. cbn [fst] in *.
    rewrite IH. cbn [quiet b_last Nat.eqb negb]. rewrite Hs, andb_true_r.
    destruct (qlt q0 target); cbn [andb]; [|reflexivity].
    destruct (negb (Nat.eqb k 0)); reflexivity.
Qed.

Lemma sweep_loop_last pin s e steps sd k : forall a st,
  b_last (fst (sweep_loop pin s e steps sd k (Z.of_nat a) st)) =
  last (positives (map (fun j => sweep_freq s e steps (Z.of_nat j)) (seq a k))) (b_last st).
Proof.
  induction k as [|k IH]; intros a st; [reflexivity|].
  cbn [sweep_loop seq map].
  pose proof (sound_last pin (sweep_freq s e steps (Z.of_nat a)) st) as Hs.
  destruct (sound pin (sweep_freq s e steps (Z.of_nat a)) st) as [st1 e1]. cbn [fst] in Hs.
  replace (Z.of_nat a + 1) with (Z.of_nat (S a)) by lia.
  specialize (IH (S a) st1).
  destruct (sweep_loop pin s e steps sd k (Z.of_nat (S a)) st1) as [st2 e3]. cbn [fst] in *.
  rewrite IH, last_positives_cons, Hs. reflexivity.
Qed.

Lemma melody_loop_last pin beat seq : forall st,
  b_last (fst (melody_loop pin beat seq st)) = last (positives (map fst seq)) (b_last st).
Proof.
  induction seq as [|[f b] r IH]; intro st; [reflexivity|].
  cbn [melody_loop map fst]. rewrite last_positives_cons. rewrite qle_qlt.
  destruct (qlt q0 f); cbn [negb].
  - specialize (IH (quiet (fst (start_tone pin f st)))).
    destruct (melody_loop pin beat r (quiet (fst (start_tone pin f st)))) as [st2 e2].
    cbn [fst] in *. rewrite IH. reflexivity.
  - specialize (IH (quiet st)).
    destruct (melody_loop pin beat r (quiet st)) as [st2 e2].
    cbn [fst] in *. rewrite IH. reflexivity.
Qed.

(* C16_last_frequency_exact *)
Lemma last_frequency_exact : forall pin tbl st o,
  get_last_frequency (fst (dstep pin tbl st o)) = last_after tbl st o.
Proof.
  intros pin tbl st o. unfold get_last_frequency.
  destruct o as [f d| |f on off times|s e dq steps|name tempo]; cbn [last_after].
  - destruct (play_tone_protocol pin tbl st f (match d with Some x => x | None => q0 end)) as [Hp Hn].
    destruct (qlt_half_cases f) as [E|E].
    + rewrite E. destruct (Hp E) as [H1 H2]. destruct d as [d|]; [rewrite H2|rewrite H1]; reflexivity.
    + assert (E' : qle qhalf f = false) by (apply qle_false; apply qlt_true; exact E).
      rewrite E'. destruct (Hn E) as [H1 H2]. destruct d as [d|]; [rewrite H2|rewrite H1]; reflexivity.
  - reflexivity.
  - cbn [dstep]. unfold beep.
    match goal with |- context [beep_loop ?p ?t ?on' ?off' ?k ?s0] =>
      pose proof (beep_loop_last p t on' off' k s0) as Hl;
      destruct (beep_loop p t on' off' k s0) as [st1 e1] end.
    cbn [fst quiet b_last] in *. rewrite Hl.
    assert (Hk : negb (Nat.eqb (Z.to_nat (Z.max 0 (c_int times))) 0) = (1 <=? c_int times)).
    { destruct (1 <=? c_int times) eqn:E.
      - apply Z.leb_le in E. destruct (Z.to_nat (Z.max 0 (c_int times))) eqn:Ek; [lia|reflexivity].
      - apply Z.leb_gt in E. replace (Z.max 0 (c_int times)) with 0 by lia. reflexivity. }
    rewrite Hk. reflexivity.
  - cbn [dstep]. unfold sweep, sweep_freqs. rewrite step_delay_of_max.
    pose proof (sweep_loop_last pin (clamp0 s) (clamp0 e) (Z.max 0 (c_int steps))
                 (c_ulong dq / Z.max 0 (c_int steps))
                 (Z.to_nat (Z.max 0 (c_int steps))) 0%nat st) as Hl.
    change (Z.of_nat 0) with 0 in Hl.
    destruct (sweep_loop pin (clamp0 s) (clamp0 e) (Z.max 0 (c_int steps))
                (c_ulong dq / Z.max 0 (c_int steps))
                (Z.to_nat (Z.max 0 (c_int steps))) 0 st) as [st1 e1].
    cbn [fst quiet b_last] in *. exact Hl.
  - cbn [dstep]. unfold melody, score in *. destruct (tlookup name tbl) as [[t0 seq]|]; [|reflexivity].
    apply melody_loop_last.
Qed.

(* ... and what that value is for the calls the statement speaks about *)
Lemma last_app_single {A} (l : list A) x d : last (l ++ [x]) d = x.
Proof. apply last_last. Qed.

(* C16_last_frequency_sweep: a sweep whose end frequency is audible leaves get_last_frequency == end *)
Lemma last_frequency_sweep : forall pin tbl st s e d steps,
  1 <= c_int steps -> qle qhalf e = true ->
  (get_last_frequency (fst (dstep pin tbl st (Sweep s e d steps))) == e)%Q.
Proof.
  intros pin tbl st s e d steps Hsteps He.
  rewrite last_frequency_exact. cbn [last_after].
  set (n := Z.max 0 (c_int steps)).
  assert (Hn : 1 <= n) by (subst n; lia).
  unfold sweep_freqs.
  assert (Hnat : (0 < Z.to_nat n)%nat) by lia.
  rewrite (seq_last_split _ Hnat), map_app, positives_app. cbn [map].
  replace (Z.of_nat (Z.to_nat n - 1)) with (n - 1) by lia.
  pose proof (sweep_freq_last (clamp0 s) (clamp0 e) n Hn) as Hl.
  assert (Hce : clamph (clamp0 e) = e).
  { rewrite (clamp0_pos _ (qhalf_pos _ He)). apply clamph_ge. exact He. }
  rewrite Hce in Hl.
  assert (Hpos : qlt q0 (sweep_freq (clamp0 s) (clamp0 e) n (n - 1)) = true).
  { apply qlt_true. rewrite Hl. apply qlt_true. apply qhalf_pos. exact He. }
  unfold positives at 2. cbn [filter]. rewrite Hpos.
  rewrite last_app_single. exact Hl.
Qed.

(* ------------------------------------------------------------------ the tone() argument is bounded *)
Section Bounded.
  Variable pin : Z.
  Variable M : Q.
  Hypothesis M_nonneg : (0 <= M)%Q.

  Let P := tone_le (tone_of M).

  Lemma tone_of_nonneg f : (0 <= f)%Q -> 0 <= tone_of f.
  Proof.
    intro H. unfold tone_of. change 0 with (Qfloor 0). apply Qfloor_resp_le.
    unfold qhalf. lra.
  Qed.

  Lemma P_tone f : qlt q0 f = true -> (f <= M)%Q -> P (Tone pin (tone_of f)).
  Proof.
    intros Hp Hle. cbn. split.
    - apply tone_of_nonneg. apply Qlt_le_weak. apply qlt_true. exact Hp.
    - apply tone_of_mono. exact Hle.
  Qed.

  Lemma clamp0_le x : (x <= M)%Q -> (clamp0 x <= M)%Q.
  Proof. intro H. unfold clamp0. destruct (qlt x q0); [exact M_nonneg|exact H]. Qed.

  Lemma clamph_le x : (x <= M)%Q -> (clamph x <= M)%Q.
  Proof. intro H. unfold clamph. destruct (qlt x qhalf); [exact M_nonneg|exact H]. Qed.

  Ltac fb := repeat first [ apply Forall_app; split | apply Forall_nil | assumption
                          | apply Forall_dl; intro; exact I | apply Forall_qdelay; intro; exact I
                          | apply Forall_cons; [exact I|] ].

  Lemma sound_le f st : (qlt q0 f = true -> (f <= M)%Q) -> (b_last st <= M)%Q ->
    Forall P (snd (sound pin f st)) /\ (b_last (fst (sound pin f st)) <= M)%Q.
  Proof.
    intros Hf Hl. unfold sound. destruct (qlt q0 f) eqn:E; cbn [start_tone silence quiet fst snd b_last].
    - split; [apply Forall_cons; [apply P_tone; auto|apply Forall_nil]|auto].
    - split; [fb|exact Hl].
  Qed.

  Lemma beep_loop_le target on off k : (qlt q0 target = true -> (target <= M)%Q) ->
    forall st, (b_last st <= M)%Q ->
    Forall P (snd (beep_loop pin target on off k st)) /\ (b_last (fst (beep_loop pin target on off k st)) <= M)%Q.
  Proof.
    intro Ht. induction k as [|k IH]; intros st Hl; [split; [constructor|exact Hl]|].
    cbn [beep_loop]. destruct (sound_le target st Ht Hl) as [Hs Hl1].
    destruct (sound pin target st) as [st1 e1]. cbn [fst snd] in *.
    destruct (IH (quiet st1) Hl1) as [He3 Hl3].
    destruct (beep_loop pin target on off k (quiet st1)) as [st3 e3]. cbn [fst snd] in *.
    split; [|exact Hl3]. destruct k; fb.
  Qed.

  Lemma sweep_freq_le s e n i : (s <= M)%Q -> (e <= M)%Q -> 1 <= n -> 0 <= i <= n - 1 ->
    (sweep_freq s e n i <= M)%Q.
  Proof.
    intros Hs He Hn Hi. unfold sweep_freq. apply clamph_le.
    destruct (n =? 1) eqn:E.
    - setoid_replace (s + (e - s) * (1 # 1))%Q with e by ring. exact He.
    - apply Z.eqb_neq in E. destruct (progress_range n i ltac:(lia) Hi) as [H0 H1].
      set (p := (inject_Z i / (inject_Z n - (1 # 1)))%Q) in *. nra.
  Qed.

  Lemma sweep_loop_le s e steps sd k : (s <= M)%Q -> (e <= M)%Q -> 0 <= steps ->
    forall a st, Z.of_nat a + Z.of_nat k <= steps -> (b_last st <= M)%Q ->
    Forall P (snd (sweep_loop pin s e steps sd k (Z.of_nat a) st)) /\
    (b_last (fst (sweep_loop pin s e steps sd k (Z.of_nat a) st)) <= M)%Q.
  Proof.
    intros Hs He Hn. induction k as [|k IH]; intros a st Hr Hl; [split; [constructor|exact Hl]|].
    cbn [sweep_loop].
    assert (Hf : qlt q0 (sweep_freq s e steps (Z.of_nat a)) = true -> (sweep_freq s e steps (Z.of_nat a) <= M)%Q).
    { intros _. apply sweep_freq_le; try assumption; lia. }
    destruct (sound_le _ st Hf Hl) as [Hs1 Hl1].
    destruct (sound pin (sweep_freq s e steps (Z.of_nat a)) st) as [st1 e1]. cbn [fst snd] in *.
    replace (Z.of_nat a + 1) with (Z.of_nat (S a)) by lia.
    destruct (IH (S a) st1 ltac:(lia) Hl1) as [He3 Hl3].
    destruct (sweep_loop pin s e steps sd k (Z.of_nat (S a)) st1) as [st2 e3]. cbn [fst snd] in *.
    split; [|exact Hl3]. fb.
  Qed.

  Lemma melody_loop_le beat seq : notes_le M seq = true ->
    forall st, (b_last st <= M)%Q ->
    Forall P (snd (melody_loop pin beat seq st)) /\ (b_last (fst (melody_loop pin beat seq st)) <= M)%Q.
  Proof.
    induction seq as [|[f b] r IH]; intros Hn st Hl; [split; [constructor|exact Hl]|].
    cbn [notes_le forallb fst] in Hn. apply andb_true_iff in Hn as [Hf Hr]. apply qle_true in Hf.
    cbn [melody_loop]. destruct (qle f q0) eqn:Ef.
    - destruct (IH Hr (quiet st) Hl) as [H2 L2].
      destruct (melody_loop pin beat r (quiet st)) as [st2 e2]. cbn [fst snd] in *.
      split; [|exact L2]. fb.
    - destruct (IH Hr (quiet (fst (start_tone pin f st))) Hf) as [H2 L2].
      destruct (melody_loop pin beat r (quiet (fst (start_tone pin f st)))) as [st2 e2]. cbn [fst snd start_tone] in *.
      split; [|exact L2].
      assert (Hp : qlt q0 f = true) by (rewrite qle_qlt in Ef; apply negb_false_iff in Ef; exact Ef).
      apply Forall_app; split; [|exact H2].
      apply Forall_app; split; [apply Forall_cons; [apply P_tone; assumption|apply Forall_nil]|fb].
  Qed.

  Lemma notes_le_lookup (tbl : list (text * score)) : table_le M tbl = true ->
    forall k t0 seq, tlookup k tbl = Some (t0, seq) -> notes_le M seq = true.
  Proof.
    intro H. induction tbl as [|[k' [t s]] r IH]; intros k t0 seq Hl; [discriminate|].
    cbn [table_le forallb snd] in H. apply andb_true_iff in H as [H1 H2]. cbn [tlookup] in Hl.
    destruct (text_eqb k k').
    - inversion Hl; subst. exact H1.
    - apply (IH H2 _ _ _ Hl).
  Qed.

  Lemma dstep_le tbl st o : table_le M tbl = true -> freq_le M o = true -> (b_last st <= M)%Q ->
    Forall P (snd (dstep pin tbl st o)) /\ (b_last (fst (dstep pin tbl st o)) <= M)%Q.
  Proof.
    intros Ht Ho Hl. destruct o as [f dur| |f on off times|s e dq steps|name tempo]; cbn [freq_le] in Ho.
    - apply qle_true in Ho.
      destruct (play_tone_protocol pin tbl st f (match dur with Some d => d | None => q0 end)) as [Hp Hn].
      destruct (qlt_half_cases f) as [E|E].
      + destruct (Hp E) as [H1 H2]. pose proof (qhalf_pos _ E) as Epos.
        destruct dur as [d|].
        * rewrite H2. cbn [fst snd b_last]. split; [|exact Ho].
          apply Forall_app; split; [apply Forall_cons; [apply P_tone; assumption|apply Forall_nil]|fb].
        * rewrite H1. cbn [fst snd b_last]. split; [|exact Ho].
          apply Forall_cons; [apply P_tone; assumption|apply Forall_nil].
      + destruct (Hn E) as [H1 H2].
        destruct dur as [d|].
        * rewrite H2. cbn [fst snd quiet b_last]. split; [fb|exact Hl].
        * rewrite H1. cbn [fst snd quiet b_last]. split; [fb|exact Hl].
    - cbn [dstep stop silence fst snd quiet b_last]. split; [fb|exact Hl].
    - cbn [dstep]. unfold beep.
      match goal with |- context [beep_loop ?p ?t ?on' ?off' ?k ?s0] =>
        assert (Hx : Forall P (snd (beep_loop p t on' off' k s0)) /\ (b_last (fst (beep_loop p t on' off' k s0)) <= M)%Q);
        [|destruct (beep_loop p t on' off' k s0) as [st1 e1]] end.
      { apply beep_loop_le; [|exact Hl].
        intros _. apply clamph_le. destruct f as [f|]; [apply qle_true; exact Ho|exact Hl]. }
      cbn [fst snd quiet b_last] in *. destruct Hx as [H1 L1]. split; [fb|exact L1].
    - apply andb_true_iff in Ho as [Hs He]. apply qle_true in Hs. apply qle_true in He.
      cbn [dstep]. unfold sweep. rewrite step_delay_of_max.
      destruct (sweep_loop_le (clamp0 s) (clamp0 e) (Z.max 0 (c_int steps))
                  (c_ulong dq / Z.max 0 (c_int steps))
                  (Z.to_nat (Z.max 0 (c_int steps))) (clamp0_le _ Hs) (clamp0_le _ He) ltac:(lia)
                  0%nat st ltac:(lia) Hl) as [H1 L1].
      change (Z.of_nat 0) with 0 in *.
      destruct (sweep_loop pin (clamp0 s) (clamp0 e) (Z.max 0 (c_int steps))
                  (c_ulong dq / Z.max 0 (c_int steps))
                  (Z.to_nat (Z.max 0 (c_int steps))) 0 st) as [st1 e1].
      cbn [fst snd quiet b_last] in *. split; [fb|exact L1].
    - cbn [dstep]. unfold melody, score in *. destruct (tlookup name tbl) as [[t0 seq]|] eqn:El.
      + apply melody_loop_le; [|exact Hl]. apply (notes_le_lookup tbl Ht name t0 seq El).
      + cbn [fst snd]. split; [constructor|exact Hl].
  Qed.

  Lemma run_le tbl ops : table_le M tbl = true -> forall st,
    forallb (freq_le M) ops = true -> (b_last st <= M)%Q ->
    Forall P (snd (run pin tbl st ops)).
  Proof.
    intro Ht. induction ops as [|o r IH]; intros st Ho Hl; [constructor|].
    cbn [forallb] in Ho. apply andb_true_iff in Ho as [Ho Hr].
    cbn [run]. destruct (dstep_le tbl st o Ht Ho Hl) as [H1 L1].
    destruct (dstep pin tbl st o) as [st1 e1]. cbn [fst snd] in *.
    specialize (IH st1 Hr L1).
    destruct (run pin tbl st1 r) as [st2 e2]. cbn [fst snd] in *.
    apply Forall_app; split; assumption.
  Qed.
End Bounded.

(* C16_tone_value_bounded *)
Lemma tone_value_bounded : forall pin tbl M default ops,
  (0 <= M)%Q -> table_le M tbl = true -> qle default M = true -> forallb (freq_le M) ops = true ->
  Forall (tone_le (tone_of M)) (snd (run pin tbl (init default) ops)).
Proof.
  intros pin tbl M default ops HM Ht Hd Ho.
  apply run_le; try assumption. cbn. apply qle_true. exact Hd.
Qed.

Lemma generated_table_fits : table_le (Qmake 65535 1) emitter_melodies = true.
Proof. vm_compute. reflexivity. Qed.

(* C16_tone_fits_16_bits: on the generated table, with every frequency argument and default_frequency
   <= 65535 the argument of every tone() is below 2^16 (the unsigned int of an AVR does not wrap) *)
Lemma tone_fits_16_bits : forall pin default ops,
  qle default (Qmake 65535 1) = true -> forallb (freq_le (Qmake 65535 1)) ops = true ->
  Forall (fun e => match e with Tone _ t => 0 <= t < 2 ^ 16 | _ => True end)
         (snd (run pin emitter_melodies (init default) ops)).
Proof.
  intros pin default ops Hd Ho.
  assert (HM : (0 <= Qmake 65535 1)%Q) by (unfold Qle; cbn; lia).
  pose proof (tone_value_bounded pin emitter_melodies (Qmake 65535 1) default ops HM
                generated_table_fits Hd Ho) as H.
  eapply Forall_impl; [|exact H].
  intros [p t|p|d]; cbn [tone_le]; auto. intros [H0 H1].
  assert (E : tone_of (65535 # 1) = 65535) by (vm_compute; reflexivity).
  rewrite E in H1. split; [exact H0|]. change (2 ^ 16) with 65536. lia.
Qed.

(* the guard is needed: play_tone(65536) asks for tone(pin, 65536) *)
Lemma tone_fits_16_bits_guard_needed :
  exists pin default ops,
    Exists (fun e => match e with Tone _ t => 2 ^ 16 <= t | _ => False end)
           (snd (run pin emitter_melodies (init default) ops)).
Proof.
  exists 8, (Qmake 440 1), [PlayTone (Qmake 65536 1) None].
  vm_compute. apply Exists_cons_hd. discriminate.
Qed.

(* ------------------------------------------------------------------ tone(pin, 0) *)
Lemma tone_zero_iff : forall f, (0 < f)%Q -> (tone_of f = 0 <-> (f < 1 # 2)%Q).
Proof.
  intros f Hp. split; intro H.
  - apply Qnot_le_lt. intro Hc.
    assert (H1 : 1 <= tone_of f) by (apply tone_of_ge1; apply qle_true; exact Hc). lia.
  - assert (H0 : 0 <= tone_of f).
    { unfold tone_of. change 0 with (Qfloor 0). apply Qfloor_resp_le. unfold qhalf. lra. }
    assert (H1 : tone_of f < 1).
    { unfold tone_of. rewrite Zlt_Qlt. eapply Qle_lt_trans; [apply Qfloor_le|]. unfold qhalf. change (inject_Z 1) with 1%Q. lra. }
    lia.
Qed.

Lemma audible_pos f : audible_arg f = true -> qlt q0 f = true -> qle qhalf f = true.
Proof.
  unfold audible_arg. intros H Hp. apply orb_true_iff in H as [H|H]; [|exact H].
  rewrite qle_qlt, Hp in H. discriminate.
Qed.

Lemma Forall_repeat {A} (Q : A -> Prop) x n : Q x -> Forall Q (repeat x n).
Proof. intro H. induction n; cbn; constructor; auto. Qed.

(* C16_no_zero_tone: no call ever issues tone(pin, 0) (melody: as long as the table has no note in (0, 1/2)) *)
Lemma no_zero_tone : forall pin tbl st o,
  half_guard tbl o = true ->
  Forall (fun t => 1 <= t) (tones (snd (dstep pin tbl st o))).
Proof.
  intros pin tbl st o H.
  destruct o as [f dur| |f on off times|s e dq steps|name tempo]; cbn [half_guard] in H.
  - destruct (play_tone_protocol pin tbl st f (match dur with Some d => d | None => q0 end)) as [Hp Hn].
    destruct (qlt_half_cases f) as [E|E].
    + destruct (Hp E) as [H1 H2]. pose proof (tone_of_ge1 f E) as Hg.
      destruct dur as [d|].
      * rewrite H2. cbn [snd]. rewrite !tones_app, tones_dl. cbn. repeat constructor. exact Hg.
      * rewrite H1. cbn. repeat constructor. exact Hg.
    + destruct (Hn E) as [H1 H2].
      destruct dur as [d|].
      * rewrite H2. cbn [snd]. rewrite tones_app, tones_dl. cbn. constructor.
      * rewrite H1. cbn. constructor.
  - cbn. constructor.
  - destruct (beep_counts pin tbl st f on off times) as [Hpos Hneg].
    set (target := clamph (match f with Some x => x | None => get_last_frequency st end)) in *.
    destruct (qlt q0 target) eqn:E.
    + destruct (Hpos eq_refl) as (_ & Ht & _ & Hg). rewrite Ht. apply Forall_repeat. exact Hg.
    + destruct (Hneg eq_refl) as (_ & Ht). rewrite Ht. constructor.
  - destruct (sweep_protocol pin tbl st s e dq steps) as (_ & _ & Hz & _). exact Hz.
  - cbn [dstep]. unfold melody, score in *. destruct (tlookup name tbl) as [[t0 seq]|]; [|constructor].
    rewrite melody_loop_events, tones_play_score.
    apply Forall_forall. intros t Hin. apply in_map_iff in Hin as (fq & Ht & Hin).
    unfold positives in Hin. apply filter_In in Hin as [Hin Hp].
    apply in_map_iff in Hin as ([f b] & Hf & Hin). cbn in Hf. subst fq t.
    rewrite forallb_forall in H. specialize (H _ Hin). cbn in H.
    apply tone_of_ge1. apply audible_pos; assumption.
Qed.

(* every melody of the generated table is inside that guard *)
Lemma generated_melodies_audible : table_audible emitter_melodies = true.
Proof. vm_compute. reflexivity. Qed.

Lemma table_audible_guard tbl o : table_audible tbl = true -> half_guard tbl o = true.
Proof.
  intro H. destruct o as [f dur| |f on off times|s e dq steps|name tempo]; cbn [half_guard]; try reflexivity.
  unfold table_audible in H. induction tbl as [|[k [t sq]] r IH]; [reflexivity|].
  cbn [forallb snd] in H. apply andb_true_iff in H as [H1 H2]. cbn [tlookup].
  destruct (text_eqb name k); [exact H1|apply IH; exact H2].
Qed.

(* the former witness, now silent: play_tone(0.25) issues noTone only and leaves get_state() false *)
Lemma subhalf_is_silent : forall pin tbl st f,
  qlt f qhalf = true ->
  snd (dstep pin tbl st (PlayTone f None)) = [NoTone pin] /\
  get_state (fst (dstep pin tbl st (PlayTone f None))) = false /\
  get_last_frequency (fst (dstep pin tbl st (PlayTone f None))) = get_last_frequency st.
Proof.
  intros pin tbl st f H. destruct (play_tone_protocol pin tbl st f q0) as [_ Hn].
  destruct (Hn H) as [H1 _]. rewrite H1. repeat split.
Qed.

(* ------------------------------------------------------------------ every sound is bounded *)
Lemma delay_sum_intercalate sep b k :
  delay_sum (intercalate sep (repeat b k)) = Z.of_nat k * delay_sum b + Z.of_nat (pred k) * delay_sum sep.
Proof.
  induction k as [|k IH]; [reflexivity|].
  destruct k as [|k'].
  - cbn [repeat intercalate pred]. lia.
  - change (repeat b (S (S k'))) with (b :: repeat b (S k')).
    change (intercalate sep (b :: repeat b (S k'))) with (b ++ sep ++ intercalate sep (repeat b (S k'))).
    rewrite !delay_sum_app, IH. cbn [pred]. lia.
Qed.

Lemma delay_sum_beep_block pin t on : 0 <= on -> delay_sum (beep_block pin t on) = on.
Proof.
  intro H. unfold beep_block. rewrite !delay_sum_app, delay_sum_dl by exact H.
  cbn [delay_sum delays flat_map zsum fold_right app]. lia.
Qed.

Lemma delay_sum_mute_block pin on : 0 <= on -> delay_sum (mute_block pin on) = on.
Proof.
  intro H. unfold mute_block. rewrite !delay_sum_app, delay_sum_dl by exact H.
  cbn [delay_sum delays flat_map zsum fold_right app]. lia.
Qed.

(* beep, in general (any target, any count, any on/off): exactly n*on + max(0, n-1)*off ms, a negative
   on_ms / off_ms counting as zero *)
Lemma beep_duration_general : forall pin tbl st f on off times,
  let n := Z.max 0 (c_int times) in
  delay_sum (snd (dstep pin tbl st (Beep f on off times))) = n * c_ulong on + Z.max 0 (n - 1) * c_ulong off.
Proof.
  intros pin tbl st f on off times n.
  pose proof (c_ulong_ge0 on) as Pon. pose proof (c_ulong_ge0 off) as Poff.
  cbn [dstep]. unfold beep.
  match goal with |- context [beep_loop ?p ?t ?on' ?off' ?k ?s0] =>
    pose proof (beep_loop_events p t on' off' k s0) as He;
    destruct (beep_loop p t on' off' k s0) as [st1 e1] end.
  cbn [snd] in *. rewrite delay_sum_app, He. fold n.
  rewrite delay_sum_intercalate, delay_sum_dl by exact Poff.
  assert (Hb : delay_sum (if qlt q0 (clamph (match f with Some q => q | None => b_last st end))
                          then beep_block pin (tone_of (clamph (match f with Some q => q | None => b_last st end))) (c_ulong on)
                          else mute_block pin (c_ulong on)) = c_ulong on).
  { destruct (qlt q0 _); [apply delay_sum_beep_block|apply delay_sum_mute_block]; exact Pon. }
  rewrite Hb. rewrite Z2Nat.id by lia. cbn [delay_sum delays flat_map zsum fold_right app].
  replace (Z.of_nat (pred (Z.to_nat n))) with (Z.max 0 (n - 1)) by lia. lia.
Qed.

Lemma emitter_beats_nonneg : forallb (fun kv => beats_nonneg (snd (snd kv))) emitter_melodies = true.
Proof. vm_compute. reflexivity. Qed.

Lemma c_ulong_le_qmax0 d : (inject_Z (c_ulong d) <= qmax0 d)%Q.
Proof.
  unfold c_ulong, qmax0. destruct (qlt q0 d); [apply Qfloor_le|apply Qle_refl].
Qed.

(* C16_every_call_bounded *)
Lemma every_call_bounded : forall pin st o,
  (inject_Z (delay_sum (snd (dstep pin emitter_melodies st o))) <= duration_bound emitter_melodies o)%Q.
Proof.
  intros pin st o.
  destruct o as [f [d|]| |f on off times|s e d steps|name tempo]; cbn [duration_bound] in *.
  - pose proof (c_ulong_ge0 d) as Pd.
    destruct (play_tone_protocol pin emitter_melodies st f d) as [Hp Hn].
    destruct (qlt_half_cases f) as [E|E].
    + destruct (Hp E) as [_ H2].
      rewrite H2. cbn [snd]. rewrite !delay_sum_app, delay_sum_dl by exact Pd.
      cbn [delay_sum delays flat_map zsum fold_right app]. rewrite Z.add_0_l, Z.add_0_r. apply c_ulong_le_qmax0.
    + destruct (Hn E) as [_ H2].
      rewrite H2. cbn [snd]. rewrite !delay_sum_app, delay_sum_dl by exact Pd.
      cbn [delay_sum delays flat_map zsum fold_right app]. rewrite Z.add_0_l. apply c_ulong_le_qmax0.
  - destruct (play_tone_protocol pin emitter_melodies st f q0) as [Hp Hn].
    destruct (qlt_half_cases f) as [E|E].
    + destruct (Hp E) as [H1 _]. rewrite H1. cbn. apply Qle_refl.
    + destruct (Hn E) as [H1 _]. rewrite H1. cbn. apply Qle_refl.
  - cbn. apply Qle_refl.
  - rewrite (beep_duration_general pin emitter_melodies st f on off times). apply Qle_refl.
  - destruct (sweep_protocol pin emitter_melodies st s e d steps) as (_ & _ & _ & _ & _ & _ & _ & _ & Hd & _).
    destruct Hd as [Hb _]. rewrite <- c_ulong_max in Hb.
    eapply Qle_trans; [|apply c_ulong_le_qmax0]. rewrite <- Zle_Qle. exact Hb.
  - cbn [dstep]. unfold melody, score in *.
    destruct (tlookup name emitter_melodies) as [[t0 seq]|] eqn:El; [|cbn; apply Qle_refl].
    rewrite melody_loop_events. unfold delay_sum. rewrite delays_play_score.
    apply note_delays_bound.
    + destruct tables_agree as (_ & _ & _ & Hok). destruct (Hok name t0 seq El) as [Hp _].
      pose proof (eff_tempo_pos t0 tempo Hp) as He.
      apply Qlt_le_weak. apply Qlt_shift_div_l; [exact He|]. rewrite Qmult_0_l. reflexivity.
    + apply (beats_nonneg_lookup _ emitter_beats_nonneg name t0 seq El).
Qed.

(* ------------------------------------------------------------------ when is the pin left sounding? *)
Lemma noop_dstep pin tbl st o : noop_call tbl o = true -> dstep pin tbl st o = (st, []).
Proof.
  unfold noop_call. intro H. apply andb_true_iff in H as [Ht Hg]. apply negb_true_iff in Hg.
  destruct o as [f [d|]| |f on off times|s e d steps|name tempo]; cbn in Ht, Hg; try discriminate; cbn [dstep].
  - unfold melody, score in *. destruct (tlookup name tbl) as [[t0 [|x r]]|]; try discriminate; reflexivity.
Qed.

Lemma run_snoc pin tbl st ops o :
  run pin tbl st (ops ++ [o]) =
  (fst (dstep pin tbl (fst (run pin tbl st ops)) o),
   snd (run pin tbl st ops) ++ snd (dstep pin tbl (fst (run pin tbl st ops)) o)).
Proof. rewrite run_app, run_single. reflexivity. Qed.

(* C16_sounding_characterised: after any call sequence on a fresh buzzer the pin is sounding only if the last
   call that emitted any code was an untimed play_tone with a positive frequency - and then
   get_frequency = get_last_frequency = that frequency *)
Lemma sounding_characterised : forall pin tbl default ops,
  sounding (snd (run pin tbl (init default) ops)) = true ->
  exists pre f post,
    ops = pre ++ [PlayTone f None] ++ post /\ (0 < f)%Q /\ forallb (noop_call tbl) post = true /\
    get_frequency (fst (run pin tbl (init default) ops)) = f /\
    get_last_frequency (fst (run pin tbl (init default) ops)) = f.
Proof.
  intros pin tbl default ops. induction ops as [|o ops IH] using rev_ind; intro Hs.
  - cbn in Hs. discriminate.
  - destruct (noop_call tbl o) eqn:En.
    + (* nothing emitted: same trace, same state *)
      rewrite run_snoc in Hs |- *. rewrite (noop_dstep pin tbl _ o En) in Hs |- *.
      cbn [fst snd] in *. rewrite app_nil_r in Hs.
      destruct (IH Hs) as (pre & f & post & Ho & Hf & Hp & Hc & Hl).
      exists pre, f, (post ++ [o]). split; [rewrite Ho, <- !app_assoc; reflexivity|].
      split; [exact Hf|]. split; [rewrite forallb_app, Hp; cbn; rewrite En; reflexivity|].
      split; assumption.
    + pose proof (getters_all_sequences pin tbl default (ops ++ [o])) as (H1 & _).
      rewrite Hs in H1. unfold get_state in H1. rewrite run_snoc in H1. cbn [fst] in H1.
      set (st := fst (run pin tbl (init default) ops)) in *.
      destruct (timed o) eqn:Et.
      * (* a timed call inside the guard ends silent *)
        unfold noop_call in En. rewrite Et in En. cbn in En. apply negb_false_iff in En.
        rewrite (timed_state_false pin tbl st o Et En) in H1. discriminate.
      * (* untimed: stop() (state false: contradiction, closed by discriminate) or play_tone(f) *)
        destruct o as [f [d|]| |f on off times|s e d steps|name tempo]; cbn in Et; try discriminate.
        -- destruct (qlt_half_cases f) as [E|E].
           ++ destruct (play_tone_protocol pin tbl st f q0) as [Hp _]. destruct (Hp E) as [Hd _].
              exists ops, f, []. split; [reflexivity|]. split; [apply qlt_true; apply qhalf_pos; exact E|].
              split; [reflexivity|]. rewrite run_snoc. cbn [fst]. fold st. rewrite Hd. split; reflexivity.
           ++ destruct (play_tone_protocol pin tbl st f q0) as [_ Hp]. destruct (Hp E) as [Hd _].
              rewrite Hd in H1. cbn in H1. discriminate.
Qed.

(* ------------------------------------------------------------------ sweep: the delays, one by one *)
Lemma delays_sound pin f st : delays (snd (sound pin f st)) = [].
Proof. unfold sound. destruct (qlt q0 f); reflexivity. Qed.

Lemma delays_dl ms : delays (dl ms) = if 0 <? ms then [ms] else [].
Proof. unfold dl. destruct (0 <? ms); reflexivity. Qed.

Lemma sweep_loop_delay_list pin s e steps sd k : forall i st,
  delays (snd (sweep_loop pin s e steps sd k i st)) = if 0 <? sd then repeat sd k else [].
Proof.
  induction k as [|k IH]; intros i st; [destruct (0 <? sd); reflexivity|].
  cbn [sweep_loop].
  pose proof (delays_sound pin (sweep_freq s e steps i) st) as Hs.
  destruct (sound pin (sweep_freq s e steps i) st) as [st1 e1]. cbn [snd] in Hs.
  specialize (IH (i + 1) st1).
  destruct (sweep_loop pin s e steps sd k (i + 1) st1) as [st2 e3]. cbn [fst snd] in *.
  rewrite !delays_app, Hs, IH, delays_dl. destruct (0 <? sd); reflexivity.
Qed.

(* C16_sweep_delays: every step waits max(0, floor(duration)) / steps ms (integer division), no delay call at
   all when that quotient is 0 *)
Lemma sweep_delays : forall pin tbl st s e d steps,
  let n := Z.max 0 (c_int steps) in
  let q := Z.max 0 (Qfloor d) / n in
  delays (snd (dstep pin tbl st (Sweep s e d steps))) =
  if 0 <? q then repeat q (Z.to_nat n) else [].
Proof.
  intros pin tbl st s e d steps n q. subst q. rewrite <- c_ulong_max.
  cbn [dstep]. unfold sweep. rewrite step_delay_of_max. fold n.
  pose proof (sweep_loop_delay_list pin (clamp0 s) (clamp0 e) n (c_ulong d / n) (Z.to_nat n) 0 st) as Hl.
  destruct (sweep_loop pin (clamp0 s) (clamp0 e) n (c_ulong d / n) (Z.to_nat n) 0 st) as [st1 e1].
  cbn [fst snd] in *. rewrite delays_app, Hl. cbn [delays flat_map]. rewrite app_nil_r. reflexivity.
Qed.

(* ------------------------------------------------------------------ tone(pin, 0): whole sequences *)
(* C16_no_zero_tone_sequences *)
Lemma no_zero_tone_sequences : forall pin tbl st ops,
  forallb (half_guard tbl) ops = true ->
  Forall (fun t => 1 <= t) (tones (snd (run pin tbl st ops))).
Proof.
  intros pin tbl st ops. revert st. induction ops as [|o r IH]; intros st Ho; [constructor|].
  cbn [forallb] in Ho. apply andb_true_iff in Ho as [Ho Hr].
  pose proof (no_zero_tone pin tbl st o Ho) as H1.
  cbn [run]. destruct (dstep pin tbl st o) as [st1 e1]. cbn [fst snd] in *.
  specialize (IH st1 Hr). destruct (run pin tbl st1 r) as [st2 e2]. cbn [fst snd] in *.
  rewrite tones_app. apply Forall_app; split; assumption.
Qed.

(* on the generated table: unconditionally *)
Lemma no_zero_tone_generated : forall pin st ops,
  Forall (fun t => 1 <= t) (tones (snd (run pin emitter_melodies st ops))).
Proof.
  intros pin st ops. apply no_zero_tone_sequences. apply forallb_forall. intros o _.
  apply table_audible_guard. exact generated_melodies_audible.
Qed.
