(* C05 - proofs about the model Lang/Split.v + Lang/Emit.v. *)
From Coq Require Import ZArith List Bool Lia.
From RV Require Import Lang.Split Lang.Emit.
Import ListNotations.
Open Scope Z_scope.

(* ------------------------------------------------------------------ induction over nested statements *)
Section StmtInd.
  Variable P : stmt -> Prop.
  Hypothesis Hmark : forall id dev, P (SMark id dev).
  Hypothesis Hdecl : forall d, P (SDecl d).
  Hypothesis Hset : forall x e, P (SSet x e).
  Hypothesis Hshow : forall d x, P (SShow d x).
  Hypothesis Hanim : forall l, P (SAnim l).
  Hypothesis Hbreak : P SBreak.
  Hypothesis Hif : forall x b e, Forall P b -> Forall P e -> P (SIf x b e).
  Hypothesis Hfor : forall c b, Forall P b -> P (SFor c b).
  Hypothesis Hwhile : forall x b, Forall P b -> P (SWhile x b).
  Hypothesis Htry : forall b h, Forall P b -> Forall P h -> P (STry b h).

  Fixpoint stmt_ind' (s : stmt) : P s :=
    let all := fix go (l : list stmt) : Forall P l :=
                 match l with
                 | [] => Forall_nil P
                 | a :: r => Forall_cons a (stmt_ind' a) (go r)
                 end in
    match s with
    | SMark id dev => Hmark id dev
    | SDecl d => Hdecl d
    | SSet x e => Hset x e
    | SShow d x => Hshow d x
    | SAnim l => Hanim l
    | SBreak => Hbreak
    | SIf x b e => Hif x b e (all b) (all e)
    | SFor c b => Hfor c b (all b)
    | SWhile x b => Hwhile x b (all b)
    | STry b h => Htry b h (all b) (all h)
    end.
End StmtInd.

(* ------------------------------------------------------------------ the anonymous inner loops of run_stmt, named *)
Definition res3 := (vstate * list ev * bool)%type.
Definition tr (r : res3) : list ev := snd (fst r).

Lemma blk_eq : forall m tab ins l d v,
  (fix go (d : list name) (l : list stmt) (v : vstate) : res3 :=
     match l with
     | [] => (v, [], false)
     | s1 :: r =>
         match run_stmt m tab false ins d s1 v with
         | (v1, t1, true) => (v1, t1, true)
         | (v1, t1, false) =>
             match go (d ++ assigned_stmt s1) r v1 with (v2, t2, b2) => (v2, t1 ++ t2, b2) end
         end
     end) d l v = run_list m tab false ins d l v.
Proof.
  intros m tab ins l; induction l as [|s1 r IH]; intros d v; [reflexivity|].
  cbn [run_list]. destruct (run_stmt m tab false ins d s1 v) as [[v1 t1] [|]]; [reflexivity|].
  rewrite IH. reflexivity.
Qed.

Fixpoint for_iter (m : mode) (tab : list decl) (ins : bool) (d : list name) (body : list stmt)
         (k : nat) (v : vstate) : res3 :=
  match k with
  | O => (v, [], false)
  | S k' =>
      match run_list m tab false ins d body v with
      | (v1, t1, true) => (v1, t1, false)
      | (v1, t1, false) => match for_iter m tab ins d body k' v1 with (v2, t2, b2) => (v2, t1 ++ t2, b2) end
      end
  end.

Fixpoint while_iter (m : mode) (tab : list decl) (ins : bool) (d : list name) (x : name) (body : list stmt)
         (k : nat) (v : vstate) : res3 :=
  match k with
  | O => (out_of_fuel v, [], false)
  | S k' =>
      let (c, v0) := vread x v in
      if c =? 0 then (v0, [], false)
      else match run_list m tab false ins d body v0 with
           | (v1, t1, true) => (v1, t1, false)
           | (v1, t1, false) => match while_iter m tab ins d x body k' v1 with (v2, t2, b2) => (v2, t1 ++ t2, b2) end
           end
  end.

Lemma run_if : forall m tab top ins d x body els vs,
  run_stmt m tab top ins d (SIf x body els) vs =
  (let (c, vs1) := vread x (pre_reset m top ins d (assigned_stmt (SIf x body els)) vs) in
   if c =? 0 then run_list m tab false ins d els vs1 else run_list m tab false ins d body vs1).
Proof.
  intros. cbn [run_stmt].
  destruct (vread x _) as [c vs1]. destruct (c =? 0); apply blk_eq.
Qed.

Lemma run_for : forall m tab top ins d cnt body vs,
  run_stmt m tab top ins d (SFor cnt body) vs =
  for_iter m tab ins d body cnt (pre_reset m top ins d (assigned_stmt (SFor cnt body)) vs).
Proof.
  intros. cbn [run_stmt].
  generalize (pre_reset m top ins d (assigned_stmt (SFor cnt body)) vs).
  induction cnt as [|k IH]; intro v; [reflexivity|].
  cbn [for_iter]. rewrite blk_eq.
  destruct (run_list m tab false ins d body v) as [[v1 t1] [|]]; [reflexivity|].
  rewrite IH. reflexivity.
Qed.

Lemma run_while : forall m tab top ins d x body vs,
  run_stmt m tab top ins d (SWhile x body) vs =
  while_iter m tab ins d x body while_fuel (pre_reset m top ins d (assigned_stmt (SWhile x body)) vs).
Proof.
  intros. cbn [run_stmt].
  generalize (pre_reset m top ins d (assigned_stmt (SWhile x body)) vs).
  generalize while_fuel.
  induction n as [|k IH]; intro v; [reflexivity|].
  cbn [while_iter]. destruct (vread x v) as [c v0]. destruct (c =? 0); [reflexivity|]. rewrite blk_eq.
  destruct (run_list m tab false ins d body v0) as [[v1 t1] [|]]; [reflexivity|].
  rewrite IH. reflexivity.
Qed.

Lemma run_try : forall m tab top ins d body h vs,
  run_stmt m tab top ins d (STry body h) vs =
  run_list m tab false ins d body (pre_reset m top ins d (assigned_stmt (STry body h)) vs).
Proof. intros. cbn [run_stmt]. apply blk_eq. Qed.

(* ------------------------------------------------------------------ the break guard *)
Definition base (main : bool) (ld : nat) : Prop := ld = O \/ (main = true /\ ld = 1%nat).

Lemma for_iter_nobreak : forall m tab ins d body k v, snd (for_iter m tab ins d body k v) = false.
Proof.
  intros m tab ins d body k; induction k as [|k IH]; intro v; [reflexivity|].
  cbn [for_iter]. destruct (run_list m tab false ins d body v) as [[v1 t1] [|]]; [reflexivity|].
  specialize (IH v1). destruct (for_iter m tab ins d body k v1) as [[v2 t2] b2]. exact IH.
Qed.

Lemma bg_list_nobreak : forall main ld l,
  Forall (fun s => forall m tab top ins d vs, bg main ld s = true -> base main ld ->
                   snd (run_stmt m tab top ins d s vs) = false) l ->
  forall m tab top ins d vs, forallb (bg main ld) l = true -> base main ld ->
  snd (run_list m tab top ins d l vs) = false.
Proof.
  intros main ld l HF. induction HF as [|s r Hs _ IH]; intros m tab top ins d vs Hb Hbase; [reflexivity|].
  cbn [forallb] in Hb. apply andb_true_iff in Hb as [Hb1 Hb2].
  cbn [run_list]. specialize (Hs m tab top ins d vs Hb1 Hbase).
  destruct (run_stmt m tab top ins d s vs) as [[v1 t1] b]. cbn [snd] in Hs. subst b.
  specialize (IH m tab top ins (d ++ assigned_stmt s) v1 Hb2 Hbase).
  destruct (run_list m tab top ins (d ++ assigned_stmt s) r v1) as [[v2 t2] b2]. exact IH.
Qed.

Lemma while_iter_nobreak : forall m tab ins d x body k v, snd (while_iter m tab ins d x body k v) = false.
Proof.
  intros m tab ins d x body k; induction k as [|k IH]; intro v; [reflexivity|].
  cbn [while_iter]. destruct (vread x v) as [c v0]. destruct (c =? 0); [reflexivity|].
  destruct (run_list m tab false ins d body v0) as [[v1 t1] [|]]; [reflexivity|].
  specialize (IH v1). destruct (while_iter m tab ins d x body k v1) as [[v2 t2] b2]. exact IH.
Qed.

(* a statement accepted by the guard at the base depth never lets a break escape *)
Lemma bg_stmt_nobreak : forall s main ld m tab top ins d vs,
  bg main ld s = true -> base main ld -> snd (run_stmt m tab top ins d s vs) = false.
Proof.
  intro s. induction s as [id dev|dd|x e|dv x|l| |x b el IHb IHe|c b IHb|x b IHb|b h IHb IHh] using stmt_ind';
    intros main ld m tab top ins d vs Hb Hbase.
  - reflexivity.
  - reflexivity.
  - cbn [run_stmt]. destruct (eval e vs). reflexivity.
  - cbn [run_stmt]. destruct (vread x vs). reflexivity.
  - reflexivity.
  - exfalso. cbn [bg] in Hb. destruct Hbase as [H0|[Hm H1]]; subst; cbn in Hb; discriminate.
  - rewrite run_if. destruct (vread x _) as [c vs1].
    cbn [bg] in Hb. apply andb_true_iff in Hb as [Hb1 Hb2].
    destruct (c =? 0).
    + apply (bg_list_nobreak main ld el); auto.
      eapply Forall_impl; [|exact IHe]. intros a Ha m0 tab0 top0 ins0 d0 vs0 H1 H2. eapply Ha; eauto.
    + apply (bg_list_nobreak main ld b); auto.
      eapply Forall_impl; [|exact IHb]. intros a Ha m0 tab0 top0 ins0 d0 vs0 H1 H2. eapply Ha; eauto.
  - rewrite run_for. apply for_iter_nobreak.
  - rewrite run_while. apply while_iter_nobreak.
  - rewrite run_try. cbn [bg] in Hb. apply andb_true_iff in Hb as [Hb1 Hb2].
    apply (bg_list_nobreak main ld b); auto.
    eapply Forall_impl; [|exact IHb]. intros a Ha m0 tab0 top0 ins0 d0 vs0 H1 H2. eapply Ha; eauto.
Qed.

Lemma bg_list_nobreak' : forall main ld l m tab top ins d vs,
  forallb (bg main ld) l = true -> base main ld -> snd (run_list m tab top ins d l vs) = false.
Proof.
  intros. apply (bg_list_nobreak main ld l); auto.
  apply Forall_forall. intros s _ m0 tab0 top0 ins0 d0 vs0 H1 H2. eapply bg_stmt_nobreak; eauto.
Qed.

(* ------------------------------------------------------------------ annotated top-level lists *)
Fixpoint ann (d : list name) (l : list stmt) : list (list name * stmt) :=
  match l with
  | [] => []
  | s :: l' => (d, s) :: ann (d ++ assigned_stmt s) l'
  end.

Lemma split_d_main : forall d body r,
  split_d d (IMainLoop body :: r) =
  (let (a, b) := split_d (d ++ flat_map assigned_stmt body) r in (a, ann d body ++ b)).
Proof.
  intros. cbn [split_d]. destruct (split_d (d ++ flat_map assigned_stmt body) r) as [a b].
  reflexivity.
Qed.

Lemma run_ann_ann : forall m tab ins l d v, run_ann m tab ins (ann d l) v = run_list m tab true ins d l v.
Proof.
  intros m tab ins l; induction l as [|s r IH]; intros d v; [reflexivity|].
  cbn [ann run_ann run_list]. destruct (run_stmt m tab true ins d s v) as [[v1 t1] [|]]; [reflexivity|].
  rewrite IH. reflexivity.
Qed.

Definition ann_ok (main : bool) (ld : nat) (l : list (list name * stmt)) : bool :=
  forallb (fun ds => bg main ld (snd ds)) l.

Lemma run_ann_nobreak : forall main ld l m tab ins v,
  ann_ok main ld l = true -> base main ld -> snd (run_ann m tab ins l v) = false.
Proof.
  intros main ld l; induction l as [|[d s] r IH]; intros m tab ins v Hok Hbase; [reflexivity|].
  cbn [ann_ok forallb snd] in Hok. apply andb_true_iff in Hok as [H1 H2].
  cbn [run_ann]. pose proof (bg_stmt_nobreak s main ld m tab true ins d v H1 Hbase) as Hs.
  destruct (run_stmt m tab true ins d s v) as [[v1 t1] b]. cbn [snd] in Hs. subst b.
  specialize (IH m tab ins v1 H2 Hbase). destruct (run_ann m tab ins r v1) as [[v2 t2] b2]. exact IH.
Qed.

Lemma ann_ok_ann : forall main ld l d, ann_ok main ld (ann d l) = forallb (bg main ld) l.
Proof.
  intros main ld l; induction l as [|s r IH]; intro d; [reflexivity|].
  cbn [ann ann_ok forallb snd]. f_equal. apply IH.
Qed.

Lemma ann_ok_app : forall main ld a b, ann_ok main ld (a ++ b) = ann_ok main ld a && ann_ok main ld b.
Proof. intros. unfold ann_ok. apply forallb_app. Qed.

Lemma transl_ok_breaks : forall its, transl_ok its = true -> breaks_ok its = true.
Proof. intros its H. unfold transl_ok in H. apply andb_true_iff in H as [H _]. exact H. Qed.

Lemma transl_ok_main_last : forall its, transl_ok its = true -> main_last its = true.
Proof. intros its H. unfold transl_ok in H. apply andb_true_iff in H as [_ H]. exact H. Qed.

Lemma breaks_ok_split : forall its d,
  breaks_ok its = true ->
  ann_ok false 0 (fst (split_d d its)) = true /\ ann_ok true 1 (snd (split_d d its)) = true.
Proof.
  induction its as [|it r IH]; intros d Hok; [split; reflexivity|].
  unfold breaks_ok in Hok. cbn [forallb] in Hok. apply andb_true_iff in Hok as [H1 H2]. fold (breaks_ok r) in H2.
  destruct it as [s|body|f body].
  - cbn [split_d]. specialize (IH (d ++ assigned_stmt s) H2).
    destruct (split_d (d ++ assigned_stmt s) r) as [a b]. cbn [fst snd] in *. destruct IH as [Ha Hb].
    split; [|exact Hb]. cbn [ann_ok forallb snd]. cbn [item_ok] in H1. rewrite H1. exact Ha.
  - rewrite split_d_main. specialize (IH (d ++ flat_map assigned_stmt body) H2).
    destruct (split_d (d ++ flat_map assigned_stmt body) r) as [a b]. cbn [fst snd] in *. destruct IH as [Ha Hb].
    split; [exact Ha|]. rewrite ann_ok_app, ann_ok_ann. cbn [item_ok] in H1. rewrite H1. exact Hb.
  - cbn [split_d]. apply IH. exact H2.
Qed.

Lemma transl_ok_split : forall its d,
  transl_ok its = true ->
  ann_ok false 0 (fst (split_d d its)) = true /\ ann_ok true 1 (snd (split_d d its)) = true.
Proof. intros its d H. apply breaks_ok_split, transl_ok_breaks, H. Qed.

Lemma base_setup : base false 0. Proof. left; reflexivity. Qed.
Lemma base_main : base true 1. Proof. right; split; reflexivity. Qed.

(* a [break] that only [if] / [else] / [try] / [except] lines separate from the main loop (or from the top level) *)
Inductive brk_at (l : list stmt) : Prop :=
| brk_here : In SBreak l -> brk_at l
| brk_if : forall x b e, In (SIf x b e) l -> brk_at b -> brk_at l
| brk_else : forall x b e, In (SIf x b e) l -> brk_at e -> brk_at l
| brk_try : forall b h, In (STry b h) l -> brk_at b -> brk_at l
| brk_except : forall b h, In (STry b h) l -> brk_at h -> brk_at l.

Lemma brk_at_rejected : forall main ld, base main ld -> forall l, brk_at l -> forallb (bg main ld) l = false.
Proof.
  intros main ld Hbase l H.
  induction H as [l Hin|l x b e Hin _ IH|l x b e Hin _ IH|l b h Hin _ IH|l b h Hin _ IH];
    (destruct (forallb (bg main ld) l) eqn:E; [|reflexivity]);
    rewrite forallb_forall in E; specialize (E _ Hin); cbn [bg] in E.
  - destruct Hbase as [H0|[Hm H1]]; subst; cbn in E; discriminate.
  - apply andb_true_iff in E as [E1 E2]. congruence.
  - apply andb_true_iff in E as [E1 E2]. congruence.
  - apply andb_true_iff in E as [E1 E2]. congruence.
  - apply andb_true_iff in E as [E1 E2]. congruence.
Qed.

Lemma break_guard_rejects_main : forall its body,
  In (IMainLoop body) its -> brk_at body -> transl_ok its = false.
Proof.
  intros its body Hin Hb. destruct (transl_ok its) eqn:E; [|reflexivity].
  apply transl_ok_breaks in E. unfold breaks_ok in E. rewrite forallb_forall in E. specialize (E _ Hin). cbn [item_ok] in E.
  rewrite (brk_at_rejected true 1 base_main body Hb) in E. discriminate.
Qed.

Lemma break_guard_rejects_top : forall its s,
  In (IStmt s) its -> brk_at [s] -> transl_ok its = false.
Proof.
  intros its s Hin Hb. destruct (transl_ok its) eqn:E; [|reflexivity].
  apply transl_ok_breaks in E. unfold breaks_ok in E. rewrite forallb_forall in E. specialize (E _ Hin). cbn [item_ok] in E.
  pose proof (brk_at_rejected false 0 base_setup [s] Hb) as H. cbn [forallb] in H. rewrite E in H. discriminate.
Qed.

(* ------------------------------------------------------------------ the emitted C++ runs the statements Python runs *)
Lemma reset_nil : forall vs, reset [] vs = vs.
Proof. reflexivity. Qed.

(* nothing is re-initialised in front of a block *)
Lemma pre_reset_id : forall m top ins d nn vs, pre_reset m top ins d nn vs = vs.
Proof. reflexivity. Qed.

Lemma mode_indep_list : forall l,
  Forall (fun s => forall tab top ins d vs,
                   run_stmt MC tab top ins d s vs = run_stmt MPy tab top ins d s vs) l ->
  forall tab ins d vs,
  run_list MC tab false ins d l vs = run_list MPy tab false ins d l vs.
Proof.
  intros l HF. induction HF as [|s r Hs _ IH]; intros tab ins d vs; [reflexivity|].
  cbn [run_list]. rewrite (Hs tab false ins d vs).
  destruct (run_stmt MPy tab false ins d s vs) as [[v1 t1] [|]]; [reflexivity|].
  rewrite (IH tab ins _ v1). reflexivity.
Qed.

Lemma mode_indep_stmt : forall s tab top ins d vs,
  run_stmt MC tab top ins d s vs = run_stmt MPy tab top ins d s vs.
Proof.
  intro s. induction s as [id dev|dd|x e|dv x|l| |x b el IHb IHe|c b IHb|x b IHb|b h IHb IHh] using stmt_ind';
    intros tab top ins d vs.
  1-6: reflexivity.
  - rewrite !run_if, !pre_reset_id.
    destruct (vread x vs) as [c vs1]. destruct (c =? 0); apply mode_indep_list; assumption.
  - rewrite !run_for, !pre_reset_id.
    generalize vs. induction c as [|k IHk]; intro v; [reflexivity|].
    cbn [for_iter]. rewrite (mode_indep_list b IHb tab ins d v).
    destruct (run_list MPy tab false ins d b v) as [[v1 t1] [|]]; [reflexivity|].
    rewrite IHk. reflexivity.
  - rewrite !run_while, !pre_reset_id.
    generalize vs. generalize while_fuel. induction n as [|k IHk]; intro v; [reflexivity|].
    cbn [while_iter]. destruct (vread x v) as [c v0]. destruct (c =? 0); [reflexivity|].
    rewrite (mode_indep_list b IHb tab ins d v0).
    destruct (run_list MPy tab false ins d b v0) as [[v1 t1] [|]]; [reflexivity|].
    rewrite IHk. reflexivity.
  - rewrite !run_try, !pre_reset_id. apply mode_indep_list; assumption.
Qed.

Lemma mode_indep_ann : forall l tab ins v,
  run_ann MC tab ins l v = run_ann MPy tab ins l v.
Proof.
  induction l as [|[d s] r IH]; intros tab ins v; [reflexivity|].
  cbn [run_ann]. rewrite (mode_indep_stmt s tab true ins d v).
  destruct (run_stmt MPy tab true ins d s v) as [[v1 t1] [|]]; [reflexivity|].
  rewrite (IH tab ins v1). reflexivity.
Qed.

Lemma drop_nil : forall vs, drop [] vs = vs.
Proof.
  intros [vars u]. unfold drop. cbn [v_vars v_undef mem_name existsb negb]. f_equal.
  induction vars as [|kv r IH]; [reflexivity|]. cbn [filter]. rewrite IH. reflexivity.
Qed.

(* ------------------------------------------------------------------ what is not observable *)
Definition nobs (t : list ev) : Prop := Forall (fun e => is_obs e = false) t.

Lemma obs_app : forall a b, obs (a ++ b) = obs a ++ obs b.
Proof. intros. unfold obs. apply filter_app. Qed.

Lemma obs_nobs : forall t, nobs t -> obs t = [].
Proof.
  intros t H. induction H as [|e r He _ IH]; [reflexivity|]. unfold obs in *. cbn [filter]. rewrite He. exact IH.
Qed.

Lemma nobs_app : forall a b, nobs a -> nobs b -> nobs (a ++ b).
Proof. intros. apply Forall_app. split; assumption. Qed.

Lemma nobs_flat_map : forall (A : Type) (f : A -> list ev) l, (forall x, nobs (f x)) -> nobs (flat_map f l).
Proof.
  intros A f l H. induction l as [|x r IH]; [constructor|]. cbn [flat_map]. apply nobs_app; [apply H|exact IH].
Qed.

Definition is_use_ev (e : ev) : bool := match e with EUse _ _ => true | _ => false end.
Definition is_cfg_or_use (e : ev) : bool := match e with EUse _ _ | ECfg _ _ => true | _ => false end.

Lemma cu_nobs : forall t, forallb is_cfg_or_use t = true -> nobs t.
Proof.
  intros t H. apply Forall_forall. intros e He. rewrite forallb_forall in H. specialize (H e He).
  destruct e; cbn in *; congruence.
Qed.

Lemma cu_pm : forall m l, forallb is_cfg_or_use (pm m l) = true.
Proof. intros m l. induction l as [|p r IH]; [reflexivity|]. cbn. exact IH. Qed.

Lemma cu_wr : forall l, forallb is_cfg_or_use (wr l) = true.
Proof. intros l. induction l as [|p r IH]; [reflexivity|]. cbn. exact IH. Qed.

Lemma cu_app : forall a b, forallb is_cfg_or_use a = true -> forallb is_cfg_or_use b = true ->
  forallb is_cfg_or_use (a ++ b) = true.
Proof. intros. rewrite forallb_app, H, H0. reflexivity. Qed.

Lemma use_wr : forall l, forallb is_use_ev (wr l) = true.
Proof. intros l. induction l as [|p r IH]; [reflexivity|]. cbn. exact IH. Qed.

Lemma use_dev_use : forall d, forallb is_use_ev (dev_use d) = true.
Proof.
  intros [k nm pins h]. unfold dev_use. cbn [d_kind d_pins d_name].
  destruct k; try apply use_wr; try reflexivity.
  - destruct pins; reflexivity.
  - induction pins as [|p r IH]; [reflexivity|]. cbn. exact IH.
  - destruct pins as [|t [|e r]]; reflexivity.
Qed.

Lemma use_uses : forall tab dev, forallb is_use_ev (uses tab dev) = true.
Proof.
  intros tab [nm|]; [|reflexivity]. unfold uses. destruct (find_decl nm tab); [apply use_dev_use|reflexivity].
Qed.

Lemma use_cu : forall t, forallb is_use_ev t = true -> forallb is_cfg_or_use t = true.
Proof.
  intros t H. rewrite forallb_forall in *. intros e He. specialize (H e He). destruct e; cbn in *; congruence.
Qed.

Lemma cu_servo_cfg : forall pins, forallb is_cfg_or_use (servo_cfg pins) = true.
Proof. intros [|p r]; reflexivity. Qed.

Lemma cu_ultra_cfg : forall pins, forallb is_cfg_or_use (ultra_cfg pins) = true.
Proof. intros [|t [|e r]]; reflexivity. Qed.

Lemma cu_hoist_setup : forall d, forallb is_cfg_or_use (hoist_setup d) = true.
Proof.
  intros [k nm pins h]. unfold hoist_setup. cbn [d_kind d_pins d_name].
  destruct k; try reflexivity; try apply cu_pm; try apply cu_servo_cfg.
  - apply cu_app; [apply cu_pm|apply cu_wr].
  - destruct pins; reflexivity.
  - destruct pins; reflexivity.
Qed.

Lemma cu_hoist_loop : forall d, forallb is_cfg_or_use (hoist_loop d) = true.
Proof.
  intros [k nm pins h]. unfold hoist_loop. cbn [d_kind d_pins d_name].
  destruct k; try reflexivity; try apply cu_pm; try apply cu_servo_cfg; try apply cu_ultra_cfg.
  - apply cu_app; [apply cu_pm|apply cu_wr].
  - destruct pins; reflexivity.
Qed.

(* ------------------------------------------------------------------ the dedup-filtered configuration *)
Lemma cu_pm_dedup : forall pins nm mode tag step seen,
  forallb is_cfg_or_use (fst (pm_dedup nm mode tag step pins seen)) = true.
Proof.
  induction pins as [|p r IH]; intros nm mode tag step seen; [reflexivity|]. cbn [pm_dedup].
  destruct (kmem (nm, p, tag) seen); [apply IH|].
  specialize (IH nm mode (tag + step) step ((nm, p, tag) :: seen)).
  destruct (pm_dedup nm mode (tag + step) step r ((nm, p, tag) :: seen)) as [t s']. cbn [fst] in *. cbn. exact IH.
Qed.

Lemma pm_dedup_incl : forall pins nm mode tag step seen e,
  In e (fst (pm_dedup nm mode tag step pins seen)) -> In e (pm mode pins).
Proof.
  induction pins as [|p r IH]; intros nm mode tag step seen e H; [destruct H|]. cbn [pm_dedup] in H.
  destruct (kmem (nm, p, tag) seen).
  - right. exact (IH _ _ _ _ _ _ H).
  - specialize (IH nm mode (tag + step) step ((nm, p, tag) :: seen) e).
    destruct (pm_dedup nm mode (tag + step) step r ((nm, p, tag) :: seen)) as [t s']. cbn [fst] in *.
    destruct H as [H|H]; [left; exact H|right; exact (IH H)].
Qed.

Lemma hoist_setupD_incl : forall d seen e, In e (fst (hoist_setupD d seen)) -> In e (hoist_setup d).
Proof.
  intros [k nm pins h] seen e H. unfold hoist_setupD in H. unfold hoist_setup. cbn [d_kind d_pins d_name] in *.
  destruct k; try (destruct H; fail).
  - destruct (kmem (nm, 0, 71) seen); [destruct H|exact H].
  - pose proof (pm_dedup_incl pins nm 1 20 1 seen e) as HI.
    destruct (pm_dedup nm 1 20 1 pins seen) as [t s']. cbn [fst] in *. apply in_app_or in H as [H|H]; apply in_or_app;
      [left; exact (HI H)|right; exact H].
  - destruct pins as [|p r]; [destruct H|]. destruct (kmem (nm, 0, 70) seen); [destruct H|].
    pose proof (pm_dedup_incl [p] nm 2 30 0 seen e) as HI.
    destruct (pm_dedup nm 2 30 0 [p] seen) as [t s']. cbn [fst] in *. apply in_app_or in H as [H|H].
    + destruct (HI H) as [<-|[]]. left. reflexivity.
    + destruct H as [<-|[]]. right. left. reflexivity.
  - exact (pm_dedup_incl _ _ _ _ _ _ _ H).
  - exact (pm_dedup_incl _ _ _ _ _ _ _ H).
  - destruct (kmem (nm, 0, 72) seen); [destruct H|exact H].
Qed.

Lemma hoist_loopD_incl : forall d seen e, In e (fst (hoist_loopD d seen)) -> In e (hoist_loop d).
Proof.
  intros [k nm pins h] seen e H. unfold hoist_loopD in H. unfold hoist_loop. cbn [d_kind d_pins d_name] in *.
  destruct k; try (destruct H; fail).
  - exact H.
  - exact (pm_dedup_incl _ _ _ _ _ _ _ H).
  - destruct (kmem (nm, 0, 71) seen); [destruct H|exact H].
  - pose proof (pm_dedup_incl pins nm 1 20 1 seen e) as HI.
    destruct (pm_dedup nm 1 20 1 pins seen) as [t s']. cbn [fst] in *. apply in_app_or in H as [H|H]; apply in_or_app;
      [left; exact (HI H)|right; exact H].
  - destruct pins as [|p r]; [destruct H|].
    pose proof (pm_dedup_incl [p] nm 2 30 0 seen e) as HI.
    destruct (pm_dedup nm 2 30 0 [p] seen) as [t s']. destruct (kmem (nm, 0, 70) s'); cbn [fst] in *.
    + destruct (HI H) as [<-|[]]. left. reflexivity.
    + apply in_app_or in H as [H|H].
      * destruct (HI H) as [<-|[]]. left. reflexivity.
      * destruct H as [<-|[]]. right. left. reflexivity.
  - exact (pm_dedup_incl _ _ _ _ _ _ _ H).
  - destruct pins as [|t0 [|e0 r]]; try (destruct H; fail).
    pose proof (pm_dedup_incl [t0] nm 1 60 0 seen e) as HA.
    destruct (pm_dedup nm 1 60 0 [t0] seen) as [a s1].
    pose proof (pm_dedup_incl [e0] nm 0 61 0 s1 e) as HB.
    destruct (pm_dedup nm 0 61 0 [e0] s1) as [b s2]. cbn [fst] in *. unfold ultra_cfg.
    apply in_app_or in H as [H|H].
    + destruct (HA H) as [<-|[]]. left. reflexivity.
    + destruct (HB H) as [<-|[]]. right. left. reflexivity.
Qed.

(* a top-level declaration emits a subset of what a nested one (no dedup, nothing claimed by pass 1) would *)
Lemma inplaceD_incl : forall ins d seen e, In e (fst (inplaceD ins d seen)) -> In e (inplace_cfg false ins d).
Proof.
  intros ins [k nm pins h] seen e H. unfold inplaceD in H. unfold inplace_cfg. cbn [d_kind d_pins d_name] in *.
  destruct k; try (destruct H; fail); try exact H; destruct ins; try (destruct H; fail); cbn [andb negb].
  - exact (pm_dedup_incl _ _ _ _ _ _ _ H).
  - exact (pm_dedup_incl _ _ _ _ _ _ _ H).
  - pose proof (pm_dedup_incl pins nm 1 20 1 seen e) as HI.
    destruct (pm_dedup nm 1 20 1 pins seen) as [t s']. cbn [fst] in *. apply in_app_or in H as [H|H]; apply in_or_app;
      [left; exact (HI H)|right; exact H].
  - destruct pins as [|t0 [|e0 r]]; try (destruct H; fail).
    pose proof (pm_dedup_incl [t0] nm 1 50 0 seen e) as HA.
    destruct (pm_dedup nm 1 50 0 [t0] seen) as [a s1].
    pose proof (pm_dedup_incl [e0] nm 0 51 0 s1 e) as HB.
    destruct (pm_dedup nm 0 51 0 [e0] s1) as [b s2]. cbn [fst] in *. unfold ultra_cfg.
    apply in_app_or in H as [H|H].
    + destruct (HA H) as [<-|[]]. left. reflexivity.
    + destruct (HB H) as [<-|[]]. right. left. reflexivity.
  - exact (pm_dedup_incl _ _ _ _ _ _ _ H).
Qed.

Lemma cu_incl : forall t t', forallb is_cfg_or_use t' = true -> (forall e, In e t -> In e t') -> forallb is_cfg_or_use t = true.
Proof. intros t t' H Hi. rewrite forallb_forall in *. intros e He. apply H, Hi, He. Qed.

Lemma cu_hoist_fold : forall f g l seen, (forall d s e, In e (fst (f d s)) -> In e (g d)) ->
  (forall d, forallb is_cfg_or_use (g d) = true) ->
  forallb is_cfg_or_use (fst (hoist_fold f l seen)) = true.
Proof.
  intros f g l seen Hi Hg. revert seen. induction l as [|d r IH]; intro seen; [reflexivity|]. cbn [hoist_fold].
  pose proof (cu_incl (fst (f d seen)) (g d) (Hg d) (Hi d seen)) as H1.
  destruct (f d seen) as [t1 s1]. specialize (IH s1). destruct (hoist_fold f r s1) as [t2 s2]. cbn [fst] in *.
  rewrite forallb_app, H1, IH. reflexivity.
Qed.

Lemma in_hoist_fold : forall f l seen e, In e (fst (hoist_fold f l seen)) -> exists d s, In d l /\ In e (fst (f d s)).
Proof.
  intros f l. induction l as [|d r IH]; intros seen e H; [destruct H|]. cbn [hoist_fold] in H.
  destruct (f d seen) as [t1 s1] eqn:E1. specialize (IH s1 e). destruct (hoist_fold f r s1) as [t2 s2]. cbn [fst] in *.
  apply in_app_or in H as [H|H].
  - exists d, seen. split; [left; reflexivity|rewrite E1; exact H].
  - destruct (IH H) as (d' & s' & Hd & He). exists d', s'. split; [right; exact Hd|exact He].
Qed.

Lemma in_hoists : forall p e, In e (hoists p) ->
  (exists d, In d (p_top_setup p) /\ In e (hoist_setup d)) \/ (exists d, In d (p_top_loop p) /\ In e (hoist_loop d)).
Proof.
  intros p e H. unfold hoists, hoistsD in H.
  pose proof (in_hoist_fold hoist_setupD (p_top_setup p) [] e) as H1.
  destruct (hoist_fold hoist_setupD (p_top_setup p) []) as [t1 s1].
  pose proof (in_hoist_fold hoist_loopD (p_top_loop p) s1 e) as H2.
  destruct (hoist_fold hoist_loopD (p_top_loop p) s1) as [t2 s2]. cbn [fst] in *.
  apply in_app_or in H as [H|H].
  - left. destruct (H1 H) as (d & s & Hd & He). exists d. split; [exact Hd|exact (hoist_setupD_incl _ _ _ He)].
  - right. destruct (H2 H) as (d & s & Hd & He). exists d. split; [exact Hd|exact (hoist_loopD_incl _ _ _ He)].
Qed.

Lemma cu_hoists : forall p, forallb is_cfg_or_use (hoists p) = true.
Proof.
  intro p. apply forallb_forall. intros e He. destruct (in_hoists p e He) as [(d & _ & H)|(d & _ & H)].
  - pose proof (cu_hoist_setup d) as Hc. rewrite forallb_forall in Hc. exact (Hc e H).
  - pose proof (cu_hoist_loop d) as Hc. rewrite forallb_forall in Hc. exact (Hc e H).
Qed.

Lemma nobs_hoists : forall p, nobs (hoists p).
Proof. intro p. apply cu_nobs, cu_hoists. Qed.

Lemma cu_inplace : forall top ins d, forallb is_cfg_or_use (inplace_cfg top ins d) = true.
Proof.
  intros top ins [k nm pins h]. unfold inplace_cfg. cbn [d_kind d_pins].
  destruct k; try reflexivity; destruct ins; try reflexivity; try apply cu_pm; try apply cu_ultra_cfg.
  - destruct top; [apply cu_wr|apply cu_app; [apply cu_pm|apply cu_wr]].
  - destruct top; [reflexivity|apply cu_pm].
Qed.

Lemma cu_inplaceD : forall ins d seen, forallb is_cfg_or_use (fst (inplaceD ins d seen)) = true.
Proof. intros ins d seen. exact (cu_incl _ _ (cu_inplace false ins d) (inplaceD_incl ins d seen)). Qed.

(* ------------------------------------------------------------------ commands do not influence store, control or markers *)
Definition strip (t : list ev) : list ev := filter (fun e => negb (is_cfg_or_use e)) t.

Lemma strip_app : forall a b, strip (a ++ b) = strip a ++ strip b.
Proof. intros. unfold strip. apply filter_app. Qed.

Lemma strip_cu : forall t, forallb is_cfg_or_use t = true -> strip t = [].
Proof.
  induction t as [|e r IH]; intro H; [reflexivity|]. cbn [forallb] in H. apply andb_true_iff in H as [H1 H2].
  unfold strip in *. cbn [filter]. rewrite H1. cbn [negb]. exact (IH H2).
Qed.

Lemma obs_strip : forall t, obs (strip t) = obs t.
Proof.
  induction t as [|e r IH]; [reflexivity|]. unfold obs, strip in *. cbn [filter].
  destruct e; cbn [is_cfg_or_use negb is_obs filter]; rewrite ?IH; reflexivity.
Qed.

Definition eqv (r1 r2 : res3) : Prop :=
  fst (fst r1) = fst (fst r2) /\ snd r1 = snd r2 /\ strip (tr r1) = strip (tr r2).

Lemma eqv_refl : forall r, eqv r r.
Proof. intro r. repeat split; reflexivity. Qed.

Lemma strip_uses : forall tab dev, strip (uses tab dev) = [].
Proof. intros. apply strip_cu, use_cu, use_uses. Qed.

Lemma tab_indep_list : forall l,
  Forall (fun s => forall m tab1 tab2 top ins d vs, eqv (run_stmt m tab1 top ins d s vs) (run_stmt m tab2 top ins d s vs)) l ->
  forall m tab1 tab2 top ins d vs, eqv (run_list m tab1 top ins d l vs) (run_list m tab2 top ins d l vs).
Proof.
  intros l HF. induction HF as [|s r Hs _ IH]; intros m tab1 tab2 top ins d vs; [apply eqv_refl|].
  cbn [run_list]. destruct (Hs m tab1 tab2 top ins d vs) as (E1 & E2 & E3).
  destruct (run_stmt m tab1 top ins d s vs) as [[v1 t1] b1]. destruct (run_stmt m tab2 top ins d s vs) as [[v1' t1'] b1'].
  unfold tr in *. cbn [fst snd] in *. subst v1' b1'. destruct b1; [repeat split; assumption|].
  destruct (IH m tab1 tab2 top ins (d ++ assigned_stmt s) v1) as (F1 & F2 & F3).
  destruct (run_list m tab1 top ins (d ++ assigned_stmt s) r v1) as [[v2 t2] b2].
  destruct (run_list m tab2 top ins (d ++ assigned_stmt s) r v1) as [[v2' t2'] b2'].
  unfold eqv, tr in *. cbn [fst snd] in *. subst v2' b2'. repeat split. rewrite !strip_app, E3, F3. reflexivity.
Qed.

Lemma tab_indep_stmt : forall s m tab1 tab2 top ins d vs,
  eqv (run_stmt m tab1 top ins d s vs) (run_stmt m tab2 top ins d s vs).
Proof.
  intro s. induction s as [id dev|dd|x e|dv x|l| |x b el IHb IHe|c b IHb|x b IHb|b h IHb IHh] using stmt_ind';
    intros m tab1 tab2 top ins d vs.
  - cbn [run_stmt]. unfold eqv, tr. cbn [fst snd]. repeat split. rewrite !strip_app, !strip_uses. reflexivity.
  - apply eqv_refl.
  - apply eqv_refl.
  - cbn [run_stmt]. destruct (vread x vs). unfold eqv, tr. cbn [fst snd]. repeat split.
    rewrite !strip_app, !strip_uses. reflexivity.
  - cbn [run_stmt]. unfold eqv, tr. cbn [fst snd]. repeat split. rewrite !strip_uses. reflexivity.
  - apply eqv_refl.
  - rewrite !run_if. destruct (vread x _) as [c0 vs1]. destruct (c0 =? 0).
    + apply (tab_indep_list el IHe).
    + apply (tab_indep_list b IHb).
  - rewrite !run_for. generalize (pre_reset m top ins d (assigned_stmt (SFor c b)) vs).
    induction c as [|k IHk]; intro v; [apply eqv_refl|].
    cbn [for_iter]. destruct (tab_indep_list b IHb m tab1 tab2 false ins d v) as (E1 & E2 & E3).
    destruct (run_list m tab1 false ins d b v) as [[v1 t1] b1]. destruct (run_list m tab2 false ins d b v) as [[v1' t1'] b1'].
    unfold tr in *. cbn [fst snd] in *. subst v1' b1'. destruct b1; [repeat split; assumption|].
    destruct (IHk v1) as (F1 & F2 & F3).
    destruct (for_iter m tab1 ins d b k v1) as [[v2 t2] b2]. destruct (for_iter m tab2 ins d b k v1) as [[v2' t2'] b2'].
    unfold eqv, tr in *. cbn [fst snd] in *. subst v2' b2'. repeat split. rewrite !strip_app, E3, F3. reflexivity.
  - rewrite !run_while. generalize (pre_reset m top ins d (assigned_stmt (SWhile x b)) vs). generalize while_fuel.
    induction n as [|k IHk]; intro v; [apply eqv_refl|].
    cbn [while_iter]. destruct (vread x v) as [c0 v0]. destruct (c0 =? 0); [apply eqv_refl|].
    destruct (tab_indep_list b IHb m tab1 tab2 false ins d v0) as (E1 & E2 & E3).
    destruct (run_list m tab1 false ins d b v0) as [[v1 t1] b1]. destruct (run_list m tab2 false ins d b v0) as [[v1' t1'] b1'].
    unfold tr in *. cbn [fst snd] in *. subst v1' b1'. destruct b1; [repeat split; assumption|].
    destruct (IHk v1) as (F1 & F2 & F3).
    destruct (while_iter m tab1 ins d x b k v1) as [[v2 t2] b2]. destruct (while_iter m tab2 ins d x b k v1) as [[v2' t2'] b2'].
    unfold eqv, tr in *. cbn [fst snd] in *. subst v2' b2'. repeat split. rewrite !strip_app, E3, F3. reflexivity.
  - rewrite !run_try. apply (tab_indep_list b IHb).
Qed.

(* the statements of setup() / loop() as emitted (re-bindings, dedup) and the same list run with one fixed table *)
Lemma run_annT_eqv : forall G m ins tab l st v, eqv (run_annT G m ins st l v) (run_ann m tab ins l v).
Proof.
  intros G m ins tab l. induction l as [|[d s] r IH]; intros st v; [apply eqv_refl|].
  cbn [run_annT run_ann].
  assert (E : eqv (top_ev m ins st d s v) (run_stmt m tab true ins d s v)).
  { destruct s; try apply tab_indep_stmt. cbn [top_ev run_stmt]. unfold eqv, tr. cbn [fst snd]. repeat split.
    rewrite (strip_cu _ (cu_inplaceD ins d0 (ts_seen st))), (strip_cu _ (cu_inplace true ins d0)). reflexivity. }
  destruct E as (E1 & E2 & E3).
  destruct (top_ev m ins st d s v) as [[v1 t1] b1]. destruct (run_stmt m tab true ins d s v) as [[v1' t1'] b1'].
  unfold tr in *. cbn [fst snd] in *. subst v1' b1'. destruct b1; [repeat split; assumption|].
  destruct (IH (adv G ins st s) v1) as (F1 & F2 & F3).
  destruct (run_annT G m ins (adv G ins st s) r v1) as [[v2 t2] b2]. destruct (run_ann m tab ins r v1) as [[v2' t2'] b2'].
  unfold eqv, tr in *. cbn [fst snd] in *. subst v2' b2'. repeat split. rewrite !strip_app, E3, F3. reflexivity.
Qed.

Lemma obs_eqv : forall a b, strip a = strip b -> obs a = obs b.
Proof. intros a b H. rewrite <- (obs_strip a), <- (obs_strip b), H. reflexivity. Qed.

(* no pass of loop() is ever cut short, and setup() runs to its last statement *)
Lemma break_guard_sound : forall its, transl_ok its = true ->
  (forall m, snd (run_annT (p_G (transl its)) m true (st0 (transl its)) (p_setup (transl its)) v0) = false) /\
  (forall m inp v h, snd (run_pass m inp (transl its) v h) = false).
Proof.
  intros its Hok. destruct (transl_ok_split its [] Hok) as [Hs Hl]. set (p := transl its). split.
  - intros m. destruct (run_annT_eqv (p_G p) m true (p_tab p) (p_setup p) (st0 p) v0) as (_ & E & _).
    rewrite E. apply (run_ann_nobreak false 0); [exact Hs|exact base_setup].
  - intros m inp v h. unfold run_pass.
    destruct (poll_all inp p (p_polls p) h) as [h1 tp].
    destruct (run_annT_eqv (p_G p) m false (p_tab p) (p_loop p) (stS p) v) as (_ & E & _).
    pose proof (run_ann_nobreak true 1 (p_loop p) m (p_tab p) false v Hl base_main) as Hn.
    destruct (run_annT (p_G p) m false (stS p) (p_loop p) v) as [[v1 tb] brk]. cbn [snd] in *. congruence.
Qed.

Definition is_hand_ev (e : ev) : bool := match e with EHand _ | EHUse _ _ => true | _ => false end.

Lemma hand_handler_events : forall tab body, forallb is_hand_ev (handler_events tab body) = true.
Proof.
  intros tab body. unfold handler_events. induction body as [|s r IH]; [reflexivity|].
  cbn [flat_map]. rewrite forallb_app, IH, andb_true_r.
  destruct s; try reflexivity. rewrite forallb_app. cbn [forallb is_hand_ev andb]. rewrite andb_true_r.
  pose proof (use_uses tab dev) as H. induction (uses tab dev) as [|e t IHt]; [reflexivity|].
  cbn [forallb map] in *. apply andb_true_iff in H as [H1 H2]. rewrite (IHt H2), andb_true_r.
  destruct e; cbn in *; congruence.
Qed.

Definition is_hk_ev := is_hk.

Lemma hk_nobs : forall t, forallb is_hk t = true -> nobs t.
Proof.
  intros t H. apply Forall_forall. intros e He. rewrite forallb_forall in H. specialize (H e He).
  destruct e; cbn in *; congruence.
Qed.

Lemma hand_hk : forall t, forallb is_hand_ev t = true -> forallb is_hk t = true.
Proof.
  intros t H. rewrite forallb_forall in *. intros e He. specialize (H e He). destruct e; cbn in *; congruence.
Qed.

Lemma hk_poll_one : forall inp p b h, forallb is_hk (snd (poll_one inp p b h)) = true.
Proof.
  intros. unfold poll_one. destruct (button_decl p b) as [d|]; [|reflexivity].
  destruct (d_pins d) as [|pin r]; [reflexivity|].
  destruct (sample inp pin h) as [lvl h1]. cbn [snd forallb is_hk andb].
  destruct (lvl && negb (blookup b (h_prev h1))); [|reflexivity].
  destruct (d_handler d); [|reflexivity]. apply hand_hk, hand_handler_events.
Qed.

Lemma hk_poll_all : forall inp p bs h, forallb is_hk (snd (poll_all inp p bs h)) = true.
Proof.
  intros inp p bs. induction bs as [|b r IH]; intro h; [reflexivity|].
  cbn [poll_all]. pose proof (hk_poll_one inp p b h) as H1.
  destruct (poll_one inp p b h) as [h1 t1]. specialize (IH h1).
  destruct (poll_all inp p r h1) as [h2 t2]. cbn [snd] in *. rewrite forallb_app, H1, IH. reflexivity.
Qed.

Lemma hk_ticks : forall p, forallb is_hk (tick_events p) = true.
Proof.
  intro p. unfold tick_events. induction (p_ticks p) as [|l r IH]; [reflexivity|].
  cbn [flat_map]. rewrite forallb_app, IH, andb_true_r.
  induction (anim_count p l) as [|k IHk]; [reflexivity|]. cbn. exact IHk.
Qed.

(* ------------------------------------------------------------------ passes *)
Fixpoint ann_passes (tab : list decl) (l : list (list name * stmt)) (n : nat) (v : vstate)
  : vstate * list (list ev) :=
  match n with
  | O => (v, [])
  | S n' =>
      match run_ann MPy tab false l v with
      | (v1, t, _) => let (v2, ts) := ann_passes tab l n' v1 in (v2, t :: ts)
      end
  end.

Lemma passes_refine : forall inp p,
  p_locals p = [] ->
  forall n v h,
  fst (run_passes MC inp p n v h) = fst (ann_passes (p_tab p) (p_loop p) n v) /\
  map obs (snd (run_passes MC inp p n v h)) = map obs (snd (ann_passes (p_tab p) (p_loop p) n v)).
Proof.
  intros inp p Hloc. induction n as [|n IH]; intros v h; [split; reflexivity|].
  cbn [run_passes ann_passes]. unfold run_pass.
  pose proof (hk_poll_all inp p (p_polls p) h) as Hp.
  destruct (poll_all inp p (p_polls p) h) as [h1 tp]. cbn [snd] in Hp.
  destruct (run_annT_eqv (p_G p) MC false (p_tab p) (p_loop p) (stS p) v) as (E1 & E2 & E3).
  rewrite (mode_indep_ann (p_loop p) (p_tab p) false v) in E1, E2, E3.
  destruct (run_annT (p_G p) MC false (stS p) (p_loop p) v) as [[v1' tb'] brk'].
  destruct (run_ann MPy (p_tab p) false (p_loop p) v) as [[v1 tb] brk].
  unfold tr in E3. cbn [fst snd] in E1, E2, E3. subst v1' brk'.
  rewrite Hloc, drop_nil. specialize (IH v1 h1).
  destruct (run_passes MC inp p n v1 h1) as [v2 ts]. destruct (ann_passes (p_tab p) (p_loop p) n v1) as [v2' ts'].
  cbn [fst snd map] in *. destruct IH as [IH1 IH2]. split; [exact IH1|]. f_equal; [|exact IH2].
  rewrite !obs_app, (obs_nobs tp (hk_nobs tp Hp)), (obs_nobs _ (hk_nobs _ (hk_ticks p))). exact (obs_eqv _ _ E3).
Qed.

Lemma ann_passes_loop : forall tab d body n v, ann_passes tab (ann d body) n v = py_loop tab d body n v.
Proof.
  intros tab d body n; induction n as [|n IH]; intro v; [reflexivity|].
  cbn [ann_passes py_loop]. rewrite run_ann_ann.
  destruct (run_list MPy tab true false d body v) as [[v1 t] brk]. rewrite IH. reflexivity.
Qed.

Lemma ann_passes_nil : forall tab n v,
  fst (ann_passes tab [] n v) = v /\ concat (map obs (snd (ann_passes tab [] n v))) = [].
Proof.
  intros tab n; induction n as [|n IH]; intro v; [split; reflexivity|].
  cbn [ann_passes run_ann]. specialize (IH v). destruct (ann_passes tab [] n v) as [v2 ts].
  cbn [fst snd map concat obs filter app] in *. exact IH.
Qed.

(* ------------------------------------------------------------------ the reference run, program shape *)
Lemma main_last_cons_stmt : forall s r, main_last (IStmt s :: r) = main_last r.
Proof. reflexivity. Qed.
Lemma main_last_cons_func : forall f b r, main_last (IFunc f b :: r) = main_last r.
Proof. reflexivity. Qed.
Lemma main_last_cons_main : forall b r, main_last (IMainLoop b :: r) = true -> r = [].
Proof. intros b [|x r] H; [reflexivity|]. cbn in H. discriminate. Qed.

Lemma py_shape : forall its tab d n v,
  main_last its = true -> breaks_ok its = true ->
  exists v1 t1, run_ann MPy tab true (fst (split_d d its)) v = (v1, t1, false) /\
   ((no_main its = true /\ snd (split_d d its) = [] /\ py_items tab d its n v = (v1, t1, [])) \/
    (no_main its = false /\ exists d' body, snd (split_d d its) = ann d' body /\
        py_items tab d its n v = (let (v2, tl) := py_loop tab d' body n v1 in (v2, t1, tl)))).
Proof.
  induction its as [|it r IH]; intros tab d n v Hml Hok.
  - exists v, []. split; [reflexivity|]. left. repeat split; reflexivity.
  - unfold breaks_ok in Hok. cbn [forallb] in Hok. apply andb_true_iff in Hok as [H1 H2]. fold (breaks_ok r) in H2.
    destruct it as [s|body|f body].
    + rewrite main_last_cons_stmt in Hml. cbn [item_ok] in H1.
      pose proof (IH tab (d ++ assigned_stmt s) n) as IHr. clear IH.
      cbn [split_d py_items no_main forallb is_main negb andb]. fold (no_main r).
      revert IHr. destruct (split_d (d ++ assigned_stmt s) r) as [a b]. intro IHr. cbn [fst snd run_ann] in *.
      pose proof (bg_stmt_nobreak s false 0 MPy tab true true d v H1 base_setup) as Hnb.
      destruct (run_stmt MPy tab true true d s v) as [[va ta] ba]. cbn [snd] in Hnb. subst ba.
      destruct (IHr va Hml H2) as (v1 & t1 & Hr & Hcase). rewrite Hr.
      exists v1, (ta ++ t1). split; [reflexivity|].
      destruct Hcase as [(Hnm & Hb & Hpy)|(Hnm & d' & body & Hb & Hpy)].
      * left. rewrite Hpy. repeat split; assumption.
      * right. split; [exact Hnm|]. exists d', body. split; [exact Hb|]. rewrite Hpy.
        destruct (py_loop tab d' body n v1) as [v2 tl]. reflexivity.
    + apply main_last_cons_main in Hml. subst r. rewrite split_d_main. cbn [split_d fst snd run_ann py_items].
      exists v, []. split; [reflexivity|]. right. split; [reflexivity|].
      exists d, body. split; [apply app_nil_r|]. destruct (py_loop tab d body n v) as [v2 tl]. reflexivity.
    + rewrite main_last_cons_func in Hml. cbn [split_d py_items no_main forallb is_main negb andb]. fold (no_main r).
      apply IH; assumption.
Qed.

(* ------------------------------------------------------------------ C05: once, then repeat *)
(* no name is a local of loop() *)
Lemma classify_no_locals : forall its d, snd (classify d its) = [].
Proof.
  induction its as [|it r IH]; intro d; [reflexivity|]. destruct it as [s|b|f b]; cbn [classify].
  - specialize (IH (d ++ fresh d (assigned_stmt s))). destruct (classify (d ++ fresh d (assigned_stmt s)) r) as [g l]. exact IH.
  - specialize (IH (d ++ fresh d (flat_map assigned_stmt b))).
    destruct (classify (d ++ fresh d (flat_map assigned_stmt b)) r) as [g l]. exact IH.
  - apply IH.
Qed.

Lemma no_locals : forall its, locals_of its = [].
Proof. intro its. apply classify_no_locals. Qed.

(* for every accepted program the firmware's observable trace is CPython's, phase by phase *)
Lemma once_then_repeat_accepted : forall inp n its,
  transl_ok its = true ->
  forall ts tl cu ps pl pu,
  exec_phases inp n its = (ts, tl, cu) -> py_phases n its = (ps, pl, pu) ->
  obs ts = obs ps /\ concat (map obs tl) = concat (map obs pl) /\ cu = pu /\
  (no_main its = false -> map obs tl = map obs pl).
Proof.
  intros inp n its Hok ts tl cu ps pl pu Hc Hp.
  pose proof (transl_ok_main_last its Hok) as Hml. pose proof (transl_ok_breaks its Hok) as Hbr.
  assert (Hloc : p_locals (transl its) = []) by apply no_locals.
  unfold exec_phases, run_setup in Hc. unfold py_phases in Hp.
  set (p := transl its) in *. set (tab := flat_map decls_stmt (all_stmts its)) in *.
  assert (Htab : p_tab p = tab) by reflexivity.
  assert (Hset : p_setup p = fst (split_d [] its)) by reflexivity.
  assert (Hloop : p_loop p = snd (split_d [] its)) by reflexivity.
  destruct (py_shape its tab [] n v0 Hml Hbr) as (v1 & t1 & Hr & Hcase).
  destruct (run_annT_eqv (p_G p) MC true tab (p_setup p) (st0 p) v0) as (E1 & E2 & E3).
  rewrite (mode_indep_ann (p_setup p) tab true v0), Hset, Hr in E1, E2, E3. rewrite <- Hset in E1, E2, E3.
  destruct (run_annT (p_G p) MC true (st0 p) (p_setup p) v0) as [[vS tS] bS].
  unfold tr in E3. cbn [fst snd] in E1, E2, E3. subst vS bS.
  destruct (passes_refine inp p Hloc n v1 (setup_h inp p)) as [Hv Ht].
  destruct (run_passes MC inp p n v1 _) as [v' tl'] eqn:Erp. inversion Hc; subst ts tl cu. clear Hc.
  cbn [fst snd] in Hv, Ht. rewrite Htab, Hloop in Hv, Ht.
  rewrite obs_app, (obs_nobs _ (nobs_hoists p)). cbn [app]. rewrite (obs_eqv _ _ E3).
  destruct Hcase as [(Hnm & Hb & Hpy)|(Hnm & d' & body & Hb & Hpy)].
  - rewrite Hpy in Hp. inversion Hp; subst ps pl pu. clear Hp. rewrite Hb in Hv, Ht.
    destruct (ann_passes_nil tab n v1) as [Hv1 Hc1]. rewrite Ht, Hc1, Hv, Hv1.
    repeat split; try reflexivity. rewrite Hnm. discriminate.
  - rewrite Hpy in Hp. rewrite Hb, ann_passes_loop in Hv, Ht.
    destruct (py_loop tab d' body n v1) as [v2 tl2]. inversion Hp; subst ps pl pu. clear Hp.
    cbn [fst snd] in Hv, Ht. rewrite Ht, Hv. repeat split; reflexivity.
Qed.

Lemma obs_concat : forall l, obs (concat l) = concat (map obs l).
Proof.
  induction l as [|t r IH]; [reflexivity|]. cbn [concat map]. rewrite obs_app, IH. reflexivity.
Qed.

Lemma obs_obs : forall t, obs (obs t) = obs t.
Proof.
  intro t. unfold obs. induction t as [|e r IH]; [reflexivity|]. cbn [filter].
  destruct (is_obs e) eqn:E; [cbn [filter]; rewrite E, IH; reflexivity|exact IH].
Qed.

Lemma once_then_repeat_trace : forall inp n its,
  transl_ok its = true ->
  obs (exec inp n its) = py_exec n its.
Proof.
  intros inp n its Hok. unfold exec, py_exec.
  destruct (exec_phases inp n its) as [[ts tl] cu] eqn:Ec. destruct (py_phases n its) as [[ps pl] pu] eqn:Ep.
  destruct (once_then_repeat_accepted inp n its Hok _ _ _ _ _ _ Ec Ep) as (H1 & H2 & _ & _).
  rewrite obs_app, obs_concat, H1, H2. reflexivity.
Qed.

(* structure: setup() once and independent of N; exactly N passes; N passes are a prefix of N+1 *)
Lemma run_passes_length : forall m inp p n v h, length (snd (run_passes m inp p n v h)) = n.
Proof.
  intros m inp p n; induction n as [|n IH]; intros v h; [reflexivity|].
  cbn [run_passes]. destruct (run_pass m inp p v h) as [[[v1 h1] t] brk]. specialize (IH v1 h1).
  destruct (run_passes m inp p n v1 h1) as [v2 ts]. cbn [snd length] in *. rewrite IH. reflexivity.
Qed.

Lemma run_passes_prefix : forall m inp p n k v h,
  snd (run_passes m inp p n v h) = firstn n (snd (run_passes m inp p (n + k) v h)).
Proof.
  intros m inp p n; induction n as [|n IH]; intros k v h; [reflexivity|].
  cbn [run_passes Nat.add]. destruct (run_pass m inp p v h) as [[[v1 h1] t] brk]. specialize (IH k v1 h1).
  destruct (run_passes m inp p n v1 h1) as [v2 ts]. destruct (run_passes m inp p (n + k) v1 h1) as [v3 ts3].
  cbn [snd firstn] in *. rewrite IH. reflexivity.
Qed.

Definition setup_of (inp : Z -> nat -> bool) (its : list item) : list ev :=
  match run_setup MC inp (transl its) with (_, _, ts) => ts end.

Lemma once_then_repeat_structure : forall inp its n k,
  fst (fst (exec_phases inp n its)) = setup_of inp its /\
  length (snd (fst (exec_phases inp n its))) = n /\
  snd (fst (exec_phases inp n its)) = firstn n (snd (fst (exec_phases inp (n + k) its))).
Proof.
  intros inp its n k. unfold exec_phases, setup_of.
  destruct (run_setup MC inp (transl its)) as [[v h] ts].
  pose proof (run_passes_length MC inp (transl its) n v h) as HL.
  pose proof (run_passes_prefix MC inp (transl its) n k v h) as HP.
  destruct (run_passes MC inp (transl its) n v h) as [v' tl].
  destruct (run_passes MC inp (transl its) (n + k) v h) as [v'' tl'']. cbn [fst snd] in *.
  repeat split; assumption.
Qed.


(* ------------------------------------------------------------------ witnesses *)
Definition n_mon : name := [109; 111; 110].
Definition n_flag : name := [102; 108; 97; 103].
Definition n_c0 : name := [99; 48].
Definition n_g : name := [103].
Definition n_led : name := [108; 101; 100].
Definition n_btn : name := [98; 116; 110].
Definition n_f : name := [102].
Definition d_mon : decl := mkDecl KSerial n_mon [] None.
Definition no_input : Z -> nat -> bool := fun _ _ => false.

(* mon = SerialMonitor(9600); flag = 1
   while True:
       if flag:
           c0 = 0; flag = 0
       c0 = c0 + 1; mon.write(c0)            CPython 1 2 3; firmware 1 2 3 (was 1 1 1 while c0 was a local of loop()) *)
Definition w_looplocal : list item :=
  [IStmt (SDecl d_mon); IStmt (SSet n_flag (RConst 1));
   IMainLoop [SIf n_flag [SSet n_c0 (RConst 0); SSet n_flag (RConst 0)] [];
              SSet n_c0 (RAdd n_c0 1); SShow n_mon n_c0]].

(* mon.write("m1"); while True: mon.write("m2");  mon.write("m3")      rejected by parse() *)
Definition w_postloop : list item :=
  [IStmt (SDecl d_mon); IStmt (SMark 1 (Some n_mon)); IMainLoop [SMark 2 (Some n_mon)];
   IStmt (SMark 3 (Some n_mon))].

(* mon.write("m1"); while True: mon.write("m2");  while True: mon.write("m3")      rejected by parse() *)
Definition w_twoloops : list item :=
  [IStmt (SDecl d_mon); IStmt (SMark 1 (Some n_mon)); IMainLoop [SMark 2 (Some n_mon)];
   IMainLoop [SMark 3 (Some n_mon)]].

(* a program inside every guard: a global counter, a Led declared at the top of the loop body,
   a Button with a handler declared before the loop *)
Definition w_good : list item :=
  [IStmt (SDecl d_mon); IFunc n_f [SMark 9 (Some n_mon)];
   IStmt (SDecl (mkDecl KButton n_btn [4] (Some n_f)));
   IStmt (SSet n_g (RConst 0)); IStmt (SMark 1 (Some n_mon));
   IMainLoop [SDecl (mkDecl KLed n_led [5] None); SMark 2 (Some n_led);
              SSet n_g (RAdd n_g 2); SShow n_mon n_g;
              SFor 2 [SIf n_g [SBreak] []; SMark 3 None]]].

(* a name first assigned inside [while True:] (here: promoted out of an [if] in its body) is a sketch global: loop_body
   only assigns, no [VarDecl] node, and the firmware prints what CPython prints *)
Lemma looplocal_persists :
  transl_ok w_looplocal = true /\ globals_of w_looplocal = [n_flag; n_c0] /\ locals_of w_looplocal = [] /\
  ir_loop w_looplocal = [NIf n_flag [NVarAssign n_c0; NVarAssign n_flag] []; NVarAssign n_c0; NShow n_c0] /\
  obs (exec no_input 3 w_looplocal) = [EVal n_c0 1; EVal n_c0 2; EVal n_c0 3] /\
  py_exec 3 w_looplocal = [EVal n_c0 1; EVal n_c0 2; EVal n_c0 3].
Proof. vm_compute. repeat split; reflexivity. Qed.

(* anything after the main loop: rejected (the break guard alone would accept both programs) *)
Lemma postloop_rejected_examples :
  transl_ok w_postloop = false /\ breaks_ok w_postloop = true /\
  transl_ok w_twoloops = false /\ breaks_ok w_twoloops = true.
Proof. vm_compute. repeat split; reflexivity. Qed.

Lemma main_last_cons_ne : forall x y r, main_last (x :: y :: r) = negb (is_main x) && main_last (y :: r).
Proof. intros [s|b|f b] y r; reflexivity. Qed.

Lemma main_last_after : forall a body it r, main_last (a ++ IMainLoop body :: it :: r) = false.
Proof.
  induction a as [|x a IH]; intros body it r; [reflexivity|].
  cbn [app]. destruct (a ++ IMainLoop body :: it :: r) as [|y t] eqn:E.
  - destruct a; discriminate.
  - rewrite main_last_cons_ne, <- E, IH. apply andb_false_r.
Qed.

(* whatever is written after a column-0 [while True:] block - a statement, a def, another [while True:] - and whatever
   stands before it: parse() rejects the program *)
Lemma after_main_rejected : forall a body it r, transl_ok (a ++ IMainLoop body :: it :: r) = false.
Proof. intros. unfold transl_ok, one_main_last. rewrite main_last_after. apply andb_false_r. Qed.

(* and that is the only thing the new clause rejects: a program with no main loop, or with one as its last item,
   is accepted iff its breaks are legal *)
Lemma main_last_shape : forall its, main_last its = true ->
  no_main its = true \/ exists a body, its = a ++ [IMainLoop body] /\ no_main a = true.
Proof.
  induction its as [|x r IH]; intro H; [left; reflexivity|].
  destruct r as [|y t].
  - destruct x as [s|b|f b]; [left; reflexivity| |left; reflexivity].
    right. exists [], b. split; reflexivity.
  - rewrite main_last_cons_ne in H. apply andb_true_iff in H as [H1 H2].
    destruct (IH H2) as [Hn|(a & body & E & Hn)].
    + left. unfold no_main in *. cbn [forallb]. rewrite H1. exact Hn.
    + right. exists (x :: a), body. split; [cbn [app]; rewrite E; reflexivity|].
      unfold no_main in *. cbn [forallb]. rewrite H1. exact Hn.
Qed.

Lemma accepted_shape : forall its, transl_ok its = true ->
  breaks_ok its = true /\
  (no_main its = true \/ exists a body, its = a ++ [IMainLoop body] /\ no_main a = true).
Proof.
  intros its H. split; [exact (transl_ok_breaks its H)|exact (main_last_shape its (transl_ok_main_last its H))].
Qed.

Lemma good_nonvacuous :
  transl_ok w_good = true /\ one_main_last w_good = true /\
  no_main w_good = false /\
  py_exec 2 w_good = [EMark 1; EMark 2; EVal n_g 2; EMark 2; EVal n_g 4].
Proof. vm_compute. repeat split; reflexivity. Qed.

Lemma break_guard_rejects : forall its,
  (forall body, In (IMainLoop body) its -> brk_at body -> transl_ok its = false) /\
  (forall s, In (IStmt s) its -> brk_at [s] -> transl_ok its = false).
Proof.
  intro its. split; [apply break_guard_rejects_main|apply break_guard_rejects_top].
Qed.

Lemma break_guard_examples :
  transl_ok [IMainLoop [SIf n_flag [SBreak] []]] = false /\
  transl_ok [IMainLoop [SFor 2 [SIf n_flag [SBreak] []]]] = true /\
  transl_ok [IStmt SBreak] = false.
Proof. repeat split; reflexivity. Qed.

(* ------------------------------------------------------------------ C05: housekeeping exactly once, first *)
Definition is_user (e : ev) : bool := negb (is_hk e).

Lemma user_cu : forall t, forallb is_cfg_or_use t = true -> forallb is_user t = true.
Proof.
  intros t H. rewrite forallb_forall in *. intros e He. specialize (H e He). destruct e; cbn in *; congruence.
Qed.

Lemma user_list : forall l,
  Forall (fun s => forall m tab top ins d vs, forallb is_user (tr (run_stmt m tab top ins d s vs)) = true) l ->
  forall m tab top ins d vs, forallb is_user (tr (run_list m tab top ins d l vs)) = true.
Proof.
  intros l HF. induction HF as [|s r Hs _ IH]; intros m tab top ins d vs; [reflexivity|].
  cbn [run_list]. specialize (Hs m tab top ins d vs).
  destruct (run_stmt m tab top ins d s vs) as [[v1 t1] [|]]; [exact Hs|].
  specialize (IH m tab top ins (d ++ assigned_stmt s) v1).
  destruct (run_list m tab top ins (d ++ assigned_stmt s) r v1) as [[v2 t2] b2].
  unfold tr in *. cbn [fst snd] in *. rewrite forallb_app, Hs, IH. reflexivity.
Qed.

Lemma user_stmt : forall s m tab top ins d vs, forallb is_user (tr (run_stmt m tab top ins d s vs)) = true.
Proof.
  intro s. induction s as [id dev|dd|x e|dv x|l| |x b el IHb IHe|c b IHb|x b IHb|b h IHb IHh] using stmt_ind';
    intros m tab top ins d vs; unfold tr.
  - cbn [run_stmt fst snd]. rewrite forallb_app.
    rewrite (user_cu _ (use_cu _ (use_uses tab dev))). reflexivity.
  - cbn [run_stmt fst snd]. apply user_cu, cu_inplace.
  - cbn [run_stmt]. destruct (eval e vs). reflexivity.
  - cbn [run_stmt]. destruct (vread x vs). cbn [fst snd]. rewrite forallb_app.
    rewrite (user_cu _ (use_cu _ (use_uses tab (Some dv)))). reflexivity.
  - cbn [run_stmt fst snd]. exact (user_cu _ (use_cu _ (use_uses tab (Some l)))).
  - reflexivity.
  - rewrite run_if. destruct (vread x _) as [c0 vs1]. destruct (c0 =? 0).
    + apply (user_list el IHe).
    + apply (user_list b IHb).
  - rewrite run_for. generalize (pre_reset m top ins d (assigned_stmt (SFor c b)) vs).
    induction c as [|k IHk]; intro v; [reflexivity|].
    cbn [for_iter]. pose proof (user_list b IHb m tab false ins d v) as H1.
    destruct (run_list m tab false ins d b v) as [[v1 t1] [|]]; [exact H1|].
    specialize (IHk v1). destruct (for_iter m tab ins d b k v1) as [[v2 t2] b2].
    unfold tr in *. cbn [fst snd] in *. rewrite forallb_app, H1, IHk. reflexivity.
  - rewrite run_while. generalize (pre_reset m top ins d (assigned_stmt (SWhile x b)) vs). generalize while_fuel.
    induction n as [|k IHk]; intro v; [reflexivity|].
    cbn [while_iter]. destruct (vread x v) as [c0 v0]. destruct (c0 =? 0); [reflexivity|].
    pose proof (user_list b IHb m tab false ins d v0) as H1.
    destruct (run_list m tab false ins d b v0) as [[v1 t1] [|]]; [exact H1|].
    specialize (IHk v1). destruct (while_iter m tab ins d x b k v1) as [[v2 t2] b2].
    unfold tr in *. cbn [fst snd] in *. rewrite forallb_app, H1, IHk. reflexivity.
  - rewrite run_try. apply (user_list b IHb).
Qed.

Lemma user_ann : forall l m tab ins v, forallb is_user (tr (run_ann m tab ins l v)) = true.
Proof.
  induction l as [|[d s] r IH]; intros m tab ins v; [reflexivity|].
  cbn [run_ann]. pose proof (user_stmt s m tab true ins d v) as Hs.
  destruct (run_stmt m tab true ins d s v) as [[v1 t1] [|]]; [exact Hs|].
  specialize (IH m tab ins v1). destruct (run_ann m tab ins r v1) as [[v2 t2] b2].
  unfold tr in *. cbn [fst snd] in *. rewrite forallb_app, Hs, IH. reflexivity.
Qed.

Lemma user_annT : forall G l m ins st v, forallb is_user (tr (run_annT G m ins st l v)) = true.
Proof.
  intros G l. induction l as [|[d s] r IH]; intros m ins st v; [reflexivity|].
  cbn [run_annT].
  assert (Hs : forallb is_user (tr (top_ev m ins st d s v)) = true).
  { destruct s; try apply user_stmt. unfold tr. cbn [top_ev fst snd]. apply user_cu, cu_inplaceD. }
  destruct (top_ev m ins st d s v) as [[v1 t1] [|]]; [exact Hs|].
  specialize (IH m ins (adv G ins st s) v1). destruct (run_annT G m ins (adv G ins st s) r v1) as [[v2 t2] b2].
  unfold tr in *. cbn [fst snd] in *. rewrite forallb_app, Hs, IH. reflexivity.
Qed.

Definition nohand_head (t : list ev) : bool :=
  match t with EHand _ :: _ => false | EHUse _ _ :: _ => false | _ => true end.

Lemma skip_hand_id : forall t, nohand_head t = true -> skip_hand t = t.
Proof. intros [|e r] H; [reflexivity|]. destruct e; try reflexivity; discriminate. Qed.

Lemma skip_hand_app : forall hs t, forallb is_hand_ev hs = true -> skip_hand (hs ++ t) = skip_hand t.
Proof.
  induction hs as [|e r IH]; intros t H; [reflexivity|]. cbn [forallb] in H. apply andb_true_iff in H as [H1 H2].
  destruct e; try discriminate; cbn [app skip_hand]; apply IH; exact H2.
Qed.

Definition pin_of (p : program) (b : name) : list Z :=
  match button_decl p b with
  | Some d => match d_pins d with pin :: _ => [pin] | [] => [] end
  | None => []
  end.

Lemma nohand_user : forall t, forallb is_user t = true -> nohand_head t = true.
Proof. intros [|e r] H; [reflexivity|]. cbn [forallb] in H. destruct e; try reflexivity; discriminate. Qed.

Lemma eat_polls_poll_all : forall inp p bs h rest,
  nohand_head rest = true ->
  eat_polls (flat_map (pin_of p) bs) (snd (poll_all inp p bs h) ++ rest) = Some rest /\
  nohand_head (snd (poll_all inp p bs h) ++ rest) = true.
Proof.
  intros inp p bs. induction bs as [|b r IH]; intros h rest Hr; [split; [reflexivity|exact Hr]|].
  cbn [poll_all flat_map]. unfold poll_one, pin_of at 1.
  destruct (button_decl p b) as [d|].
  - destruct (d_pins d) as [|pin pr].
    + destruct (IH h rest Hr) as [I1 I2]. destruct (poll_all inp p r h) as [h2 t2]. cbn [snd app] in *. split; assumption.
    + destruct (sample inp pin h) as [lvl h1].
      destruct (IH (set_prev b lvl h1) rest Hr) as [I1 I2].
      destruct (poll_all inp p r (set_prev b lvl h1)) as [h2 t2]. cbn [snd app] in *.
      split; [|reflexivity]. cbn [eat_polls]. rewrite Z.eqb_refl.
      set (hs := if lvl && negb (blookup b (h_prev h1))
                 then match d_handler d with
                      | Some f => handler_events (p_tabF p) (find_func f (p_funcs p))
                      | None => [] end else []).
      assert (Hhs : forallb is_hand_ev hs = true).
      { subst hs. destruct (lvl && negb (blookup b (h_prev h1))); [|reflexivity].
        destruct (d_handler d); [apply hand_handler_events|reflexivity]. }
      rewrite <- app_assoc, (skip_hand_app hs _ Hhs), (skip_hand_id _ I2). exact I1.
  - destruct (IH h rest Hr) as [I1 I2]. destruct (poll_all inp p r h) as [h2 t2]. cbn [snd app] in *. split; assumption.
Qed.

Lemma name_eqb_refl : forall a, name_eqb a a = true.
Proof. induction a as [|x r IH]; [reflexivity|]. cbn [name_eqb]. rewrite Z.eqb_refl, IH. reflexivity. Qed.

Lemma eat_ticks_map : forall ls t, eat_ticks ls (map ETick ls ++ t) = Some t.
Proof.
  induction ls as [|l r IH]; intro t; [reflexivity|]. cbn [map app eat_ticks]. rewrite name_eqb_refl. apply IH.
Qed.

Lemma tick_events_map : forall p, tick_events p = map ETick (tick_list p).
Proof.
  intro p. unfold tick_events, tick_list. induction (p_ticks p) as [|l r IH]; [reflexivity|].
  cbn [flat_map]. rewrite map_app, IH. f_equal.
  induction (anim_count p l) as [|k IHk]; [reflexivity|]. cbn [repeat map]. rewrite IHk. reflexivity.
Qed.

Lemma nohand_ticks : forall ls t, nohand_head t = true -> nohand_head (map ETick ls ++ t) = true.
Proof. intros [|l r] t H; [exact H|reflexivity]. Qed.

Lemma pass_hk_ok : forall m inp p v h,
  hk_ok (poll_pins p) (tick_list p) (snd (fst (run_pass m inp p v h))) = true.
Proof.
  intros m inp p v h. unfold run_pass.
  pose proof (eat_polls_poll_all inp p (p_polls p) h) as HP.
  destruct (poll_all inp p (p_polls p) h) as [h1 tp]. cbn [snd] in HP.
  pose proof (user_annT (p_G p) (p_loop p) m false (stS p) v) as HU.
  destruct (run_annT (p_G p) m false (stS p) (p_loop p) v) as [[v1 tb] brk]. unfold tr in HU. cbn [fst snd] in *.
  rewrite tick_events_map. unfold hk_ok.
  destruct (HP (map ETick (tick_list p) ++ tb) (nohand_ticks _ _ (nohand_user _ HU))) as [H1 _].
  unfold poll_pins. fold (pin_of p). change (fun b => pin_of p b) with (pin_of p).
  rewrite H1, eat_ticks_map. exact HU.
Qed.

Lemma passes_hk_ok : forall m inp p n v h,
  Forall (fun t => hk_ok (poll_pins p) (tick_list p) t = true) (snd (run_passes m inp p n v h)).
Proof.
  intros m inp p n; induction n as [|n IH]; intros v h; [constructor|].
  cbn [run_passes]. pose proof (pass_hk_ok m inp p v h) as H1.
  destruct (run_pass m inp p v h) as [[[v1 h1] t] brk]. specialize (IH v1 h1).
  destruct (run_passes m inp p n v1 h1) as [v2 ts]. cbn [fst snd] in *. constructor; assumption.
Qed.

Lemma housekeeping_once : forall inp n its,
  forallb is_user (fst (fst (exec_phases inp n its))) = true /\
  Forall (fun t => hk_ok (poll_pins (transl its)) (tick_list (transl its)) t = true)
         (snd (fst (exec_phases inp n its))).
Proof.
  intros inp n its. unfold exec_phases, run_setup. set (p := transl its).
  pose proof (user_annT (p_G p) (p_setup p) MC true (st0 p) v0) as HU.
  destruct (run_annT (p_G p) MC true (st0 p) (p_setup p) v0) as [[v t] brk].
  pose proof (passes_hk_ok MC inp p n v (setup_h inp p)) as HP.
  destruct (run_passes MC inp p n v _) as [v' tl]. unfold tr in HU. cbn [fst snd] in *.
  split; [|exact HP]. rewrite forallb_app, HU, andb_true_r. apply user_cu, cu_hoists.
Qed.

(* the head of each pass, spelled out: polls (each followed by its handler's output), ticks, user events *)
Lemma pass_shape : forall m inp p v h,
  exists tp tb, snd (fst (run_pass m inp p v h)) = tp ++ map ETick (tick_list p) ++ tb /\
    forallb is_hk tp = true /\ forallb is_user tb = true /\
    flat_map (fun e => match e with EPoll q => [q] | _ => [] end) tp = poll_pins p.
Proof.
  intros m inp p v h. unfold run_pass.
  assert (HPP : forall bs h, flat_map (fun e => match e with EPoll q => [q] | _ => [] end) (snd (poll_all inp p bs h))
                             = flat_map (pin_of p) bs).
  { induction bs as [|b r IH]; intro hh; [reflexivity|]. cbn [poll_all flat_map]. unfold poll_one, pin_of at 1.
    destruct (button_decl p b) as [d|].
    - destruct (d_pins d) as [|pin pr].
      + specialize (IH hh). destruct (poll_all inp p r hh) as [h2 t2]. cbn [snd app] in *. exact IH.
      + destruct (sample inp pin hh) as [lvl h1]. specialize (IH (set_prev b lvl h1)).
        destruct (poll_all inp p r (set_prev b lvl h1)) as [h2 t2]. cbn [snd app flat_map] in *.
        rewrite flat_map_app, IH.
        assert (Hh : forall hs, forallb is_hand_ev hs = true ->
                     flat_map (fun e => match e with EPoll q => [q] | _ => [] end) hs = []).
        { induction hs as [|e hs' IHh]; [reflexivity|]. cbn [forallb flat_map]. intro H.
          apply andb_true_iff in H as [H1 H2]. rewrite (IHh H2). destruct e; cbn in *; congruence. }
        rewrite Hh; [reflexivity|]. destruct (lvl && negb (blookup b (h_prev h1))); [|reflexivity].
        destruct (d_handler d); [apply hand_handler_events|reflexivity].
    - specialize (IH hh). destruct (poll_all inp p r hh) as [h2 t2]. cbn [snd app] in *. exact IH. }
  pose proof (hk_poll_all inp p (p_polls p) h) as Hk. specialize (HPP (p_polls p) h).
  destruct (poll_all inp p (p_polls p) h) as [h1 tp]. cbn [snd] in *.
  pose proof (user_annT (p_G p) (p_loop p) m false (stS p) v) as HU.
  destruct (run_annT (p_G p) m false (stS p) (p_loop p) v) as [[v1 tb] brk]. unfold tr in HU. cbn [fst snd] in *.
  exists tp, tb. rewrite tick_events_map. repeat split; try assumption.
Qed.

(* ------------------------------------------------------------------ C05: configured before use *)
Lemma cfgs_app : forall a b c, cfgs (a ++ b) c = cfgs b (cfgs a c).
Proof. intros. unfold cfgs. apply fold_left_app. Qed.

Lemma cbu_go_app : forall a c b, cbu_go c (a ++ b) = cbu_go c a && cbu_go (cfgs a c) b.
Proof.
  induction a as [|e a IH]; intros c b; [reflexivity|].
  destruct e; cbn [app cbu_go cfgs fold_left cstep]; fold (cfgs a c); try (rewrite IH; reflexivity);
    try (fold (cfgs a ((r, mode) :: c)); rewrite IH; reflexivity);
    rewrite IH, andb_assoc; reflexivity.
Qed.

Definition sub (c c' : list (res * Z)) : Prop := forall x, In x c -> In x c'.

Lemma has_cfg_sub : forall c c' r w, sub c c' -> has_cfg c r w = true -> has_cfg c' r w = true.
Proof.
  intros c c' r w Hs H. unfold has_cfg in *. apply existsb_exists in H as (x & Hx & Hc).
  apply existsb_exists. exists x. split; [apply Hs; exact Hx|exact Hc].
Qed.

Lemma safe_sub : forall c c' e, sub c c' -> safe c e = true -> safe c' e = true.
Proof. intros c c' e Hs H. destruct e; cbn [safe] in *; try reflexivity; eapply has_cfg_sub; eauto. Qed.

Lemma safe_all_sub : forall c c' t, sub c c' -> forallb (safe c) t = true -> forallb (safe c') t = true.
Proof.
  intros c c' t Hs H. rewrite forallb_forall in *. intros e He. eapply safe_sub; eauto.
Qed.

Lemma sub_cons : forall c x, sub c (x :: c).
Proof. intros c x y H. right. exact H. Qed.

Lemma sub_refl : forall c, sub c c.
Proof. intros c x H. exact H. Qed.

Lemma sub_trans : forall a b c, sub a b -> sub b c -> sub a c.
Proof. intros a b c H1 H2 x H. apply H2, H1, H. Qed.

Lemma cbu_go_safe : forall t c, forallb (safe c) t = true -> cbu_go c t = true.
Proof.
  induction t as [|e t IH]; intros c H; [reflexivity|]. cbn [forallb] in H. apply andb_true_iff in H as [H1 H2].
  destruct e; cbn [cbu_go safe] in *; try (apply IH; exact H2); try (rewrite H1; apply IH; exact H2).
  apply IH. eapply safe_all_sub; [apply sub_cons|exact H2].
Qed.

Lemma sub_cfgs : forall t c, sub c (cfgs t c).
Proof.
  induction t as [|e t IH]; intro c; [apply sub_refl|]. cbn [cfgs fold_left]. fold (cfgs t (cstep c e)).
  eapply sub_trans; [|apply IH]. destruct e; cbn [cstep]; try apply sub_refl. apply sub_cons.
Qed.

Lemma in_cfgs : forall t c r m, In (ECfg r m) t -> In (r, m) (cfgs t c).
Proof.
  induction t as [|e t IH]; intros c r m H; [destruct H|]. cbn [cfgs fold_left]. fold (cfgs t (cstep c e)).
  destruct H as [H|H]; [|apply IH; exact H]. subst e. apply sub_cfgs. left. reflexivity.
Qed.

Lemma res_eqb_refl : forall r, res_eqb r r = true.
Proof. intros [p| |p|l]; cbn; try apply Z.eqb_refl; try reflexivity. apply name_eqb_refl. Qed.

Lemma has_cfg_in : forall c r m w, In (r, m) c -> compat r m w = true -> has_cfg c r w = true.
Proof.
  intros c r m w Hin Hc. unfold has_cfg. apply existsb_exists. exists (r, m). split; [exact Hin|].
  cbn [fst snd]. rewrite res_eqb_refl, Hc. reflexivity.
Qed.

(* what a device's commands need is produced by the configuration code [t] *)
Definition cover (d : decl) (t : list ev) : Prop :=
  forall e, In e (dev_use d) -> exists r w m, e = EUse r w /\ In (ECfg r m) t /\ compat r m w = true.

Lemma cover_safe : forall d t c, cover d t -> (forall r m, In (ECfg r m) t -> In (r, m) c) ->
  forallb (safe c) (dev_use d) = true.
Proof.
  intros d t c Hc Hin. apply forallb_forall. intros e He. destruct (Hc e He) as (r & w & m & -> & H1 & H2).
  cbn [safe]. eapply has_cfg_in; [apply Hin; exact H1|exact H2].
Qed.

Lemma in_pm : forall m pins p, In p pins -> In (ECfg (RPin p) m) (pm m pins).
Proof. intros m pins p H. unfold pm. apply in_map_iff. exists p. split; [reflexivity|exact H]. Qed.

Lemma in_wr : forall pins e, In e (wr pins) -> exists p, e = EUse (RPin p) true /\ In p pins.
Proof. intros pins e H. unfold wr in H. apply in_map_iff in H as (p & <- & Hp). exists p. split; [reflexivity|exact Hp]. Qed.

Lemma cover_wr_pm : forall d t, dev_use d = wr (d_pins d) ->
  (forall e, In e (pm 1 (d_pins d)) -> In e t) -> cover d t.
Proof.
  intros d t Hu Hin e He. rewrite Hu in He. apply in_wr in He as (p & -> & Hp).
  exists (RPin p), true, 1. repeat split. apply Hin, in_pm, Hp.
Qed.

(* a device declared by a top-level statement of setup_body: hoisted or in-place configuration covers it *)
Lemma cover_setup : forall d, cover d (hoist_setup d ++ inplace_cfg true true d).
Proof.
  intros [k nm pins h]. destruct k.
  - apply cover_wr_pm; [reflexivity|]. intros e He. apply in_or_app. right. exact He.
  - apply cover_wr_pm; [reflexivity|]. intros e He. apply in_or_app. right. exact He.
  - intros e He. unfold dev_use in He. cbn [d_kind d_pins] in He. destruct pins as [|p r]; [destruct He|].
    destruct He as [<-|[]]. exists (RServo p), true, 0. repeat split. left. reflexivity.
  - apply cover_wr_pm; [reflexivity|]. intros e He. apply in_or_app. left.
    unfold hoist_setup. cbn [d_kind d_pins]. apply in_or_app. left. exact He.
  - intros e He. destruct He.
  - intros e He. unfold dev_use in He. cbn [d_kind d_pins] in He. apply in_map_iff in He as (p & <- & Hp).
    exists (RPin p), false, 0. repeat split. apply in_or_app. left. apply (in_pm 0 pins p Hp).
  - intros e He. unfold dev_use in He. cbn [d_kind d_pins] in He. destruct pins as [|t [|ec r]]; try destruct He.
    + subst e. exists (RPin t), true, 1. repeat split. left. reflexivity.
    + destruct H as [<-|[]]. exists (RPin ec), false, 0. repeat split. right. left. reflexivity.
  - apply cover_wr_pm; [reflexivity|]. intros e He. apply in_or_app. left. exact He.
  - intros e He. destruct He as [<-|[]]. exists (RLcd nm), true, 0. repeat split. left. reflexivity.
  - intros e He. destruct He as [<-|[]]. exists RSer, true, 0. repeat split. left. reflexivity.
Qed.

(* a device of a hoisted kind declared by a top-level statement of loop_body *)
Lemma cover_loop : forall d, hoisted_kind (d_kind d) = true -> cover d (hoist_loop d).
Proof.
  intros [k nm pins h] Hk. destruct k; try discriminate.
  - apply cover_wr_pm; [reflexivity|]. intros e He. exact He.
  - apply cover_wr_pm; [reflexivity|]. intros e He. exact He.
  - intros e He. unfold dev_use in He. cbn [d_kind d_pins] in He. destruct pins as [|p r]; [destruct He|].
    destruct He as [<-|[]]. exists (RServo p), true, 0. repeat split. left. reflexivity.
  - apply cover_wr_pm; [reflexivity|]. intros e He.
    unfold hoist_loop. cbn [d_kind d_pins]. apply in_or_app. left. exact He.
  - intros e He. destruct He.
  - intros e He. unfold dev_use in He. cbn [d_kind d_pins] in He. apply in_map_iff in He as (p & <- & Hp).
    exists (RPin p), false, 0. repeat split. apply (in_pm 0 pins p Hp).
  - intros e He. unfold dev_use in He. cbn [d_kind d_pins] in He. destruct pins as [|t [|ec r]]; try destruct He.
    + subst e. exists (RPin t), true, 1. repeat split. left. reflexivity.
    + destruct H as [<-|[]]. exists (RPin ec), false, 0. repeat split. right. left. reflexivity.
Qed.

(* the hoisted blocks are self-contained *)
Lemma cbu_cfg_only : forall t c, forallb (fun e => match e with ECfg _ _ => true | _ => false end) t = true ->
  cbu_go c t = true.
Proof.
  intros t c H. apply cbu_go_safe. rewrite forallb_forall in *. intros e He. specialize (H e He).
  destruct e; try discriminate. reflexivity.
Qed.

Lemma pm_cfg_only : forall m pins, forallb (fun e => match e with ECfg _ _ => true | _ => false end) (pm m pins) = true.
Proof. intros m pins. induction pins as [|p r IH]; [reflexivity|]. cbn. exact IH. Qed.

Lemma wr_after_pm : forall pins c, cbu_go c (pm 1 pins ++ wr pins) = true.
Proof.
  intros pins c. rewrite cbu_go_app, (cbu_cfg_only _ c (pm_cfg_only 1 pins)). cbn [andb].
  apply cbu_go_safe, forallb_forall. intros e He. apply in_wr in He as (p & -> & Hp). cbn [safe].
  eapply has_cfg_in; [apply in_cfgs, in_pm, Hp|reflexivity].
Qed.

Lemma hoist_setup_ok : forall d c, cbu_go c (hoist_setup d) = true.
Proof.
  intros [k nm pins h] c. unfold hoist_setup. cbn [d_kind d_pins d_name].
  destruct k; try reflexivity; try (apply cbu_cfg_only, pm_cfg_only); try apply wr_after_pm.
  - destruct pins as [|p r]; [reflexivity|]. cbn. unfold has_cfg. cbn. rewrite Z.eqb_refl. reflexivity.
  - destruct pins as [|p r]; [reflexivity|]. cbn. unfold has_cfg. cbn. rewrite Z.eqb_refl. reflexivity.
  - destruct pins as [|bl r]; cbn; unfold has_cfg; cbn; rewrite ?Z.eqb_refl, ?name_eqb_refl; reflexivity.
Qed.

Lemma hoist_loop_ok : forall d c, cbu_go c (hoist_loop d) = true.
Proof.
  intros [k nm pins h] c. unfold hoist_loop. cbn [d_kind d_pins d_name].
  destruct k; try reflexivity; try (apply cbu_cfg_only, pm_cfg_only); try apply wr_after_pm.
  - destruct pins as [|p r]; [reflexivity|]. cbn. unfold has_cfg. cbn. rewrite Z.eqb_refl. reflexivity.
  - destruct pins as [|p r]; [reflexivity|]. cbn. unfold has_cfg. cbn. rewrite Z.eqb_refl. reflexivity.
  - destruct pins as [|t [|e r]]; reflexivity.
Qed.

Lemma cbu_flat_map : forall (f : decl -> list ev) l, (forall d c, cbu_go c (f d) = true) ->
  forall c, cbu_go c (flat_map f l) = true.
Proof.
  intros f l H. induction l as [|d r IH]; intro c; [reflexivity|]. cbn [flat_map].
  rewrite cbu_go_app, H, IH. reflexivity.
Qed.

Lemma name_eqb_eq : forall a b, name_eqb a b = true -> a = b.
Proof.
  induction a as [|x a IH]; intros [|y b] H; try discriminate; [reflexivity|].
  cbn [name_eqb] in H. apply andb_true_iff in H as [H1 H2]. apply Z.eqb_eq in H1. subst y.
  rewrite (IH b H2). reflexivity.
Qed.

Lemma flat_map_nil_inv : forall (A B : Type) (f : A -> list B) l, flat_map f l = [] -> forall x, In x l -> f x = [].
Proof.
  intros A B f l. induction l as [|a r IH]; intros H x Hx; [destruct Hx|]. cbn [flat_map] in H.
  apply app_eq_nil in H as [H1 H2]. destruct Hx as [<-|Hx]; [exact H1|apply IH; assumption].
Qed.

Section CBU.
  Variable tab : list decl.

  Definition Inv (c : list (res * Z)) (P : name -> Prop) : Prop :=
    forall nm d, P nm -> find_decl nm tab = Some d -> forallb (safe c) (dev_use d) = true.

  Lemma Inv_sub : forall c c' P, sub c c' -> Inv c P -> Inv c' P.
  Proof. intros c c' P Hs H nm d Hp Hf. eapply safe_all_sub; [exact Hs|eapply H; eauto]. Qed.

  Lemma Inv_weaken : forall c (P P' : name -> Prop), (forall nm, P nm -> P' nm) -> Inv c P' -> Inv c P.
  Proof. intros c P P' Hi H nm d Hp Hf. eapply H; eauto. Qed.

  Lemma uses_safe : forall c P nm, Inv c P -> P nm -> forallb (safe c) (uses tab (Some nm)) = true.
  Proof.
    intros c P nm Hi Hp. unfold uses. destruct (find_decl nm tab) as [d|] eqn:E; [|reflexivity]. eapply Hi; eauto.
  Qed.

  Definition free_ok (c : list (res * Z)) (P : name -> Prop) (s : stmt) : Prop :=
    decls_stmt s = [] -> (forall nm, In nm (devs_stmt s) -> P nm) ->
    forall m top ins d vs, forallb (safe c) (tr (run_stmt m tab top ins d s vs)) = true.

  Lemma free_list_safe : forall c P l, Forall (free_ok c P) l ->
    (forall s, In s l -> decls_stmt s = []) -> (forall s nm, In s l -> In nm (devs_stmt s) -> P nm) ->
    forall m top ins d vs, forallb (safe c) (tr (run_list m tab top ins d l vs)) = true.
  Proof.
    intros c P l HF. induction HF as [|s r Hs _ IH]; intros Hd Hn m top ins d vs; [reflexivity|].
    cbn [run_list].
    pose proof (Hs (Hd s (or_introl eq_refl)) (fun nm H => Hn s nm (or_introl eq_refl) H) m top ins d vs) as H1.
    destruct (run_stmt m tab top ins d s vs) as [[v1 t1] [|]]; [exact H1|].
    assert (IH' := IH (fun s' H => Hd s' (or_intror H)) (fun s' nm H => Hn s' nm (or_intror H)) m top ins
                      (d ++ assigned_stmt s) v1).
    destruct (run_list m tab top ins (d ++ assigned_stmt s) r v1) as [[v2 t2] b2].
    unfold tr in *. cbn [fst snd] in *. rewrite forallb_app, H1, IH'. reflexivity.
  Qed.

  Lemma free_stmt_safe : forall c P, Inv c P -> forall s, free_ok c P s.
  Proof.
    intros c P Hi s. induction s as [id dev|dd|x e|dv x|l| |x b el IHb IHe|cn b IHb|x b IHb|b h IHb IHh] using stmt_ind';
      intros Hd Hn m top ins d vs; unfold tr.
    - cbn [run_stmt fst snd]. rewrite forallb_app. cbn [forallb safe]. rewrite andb_true_r.
      destruct dev as [nm|]; [|reflexivity]. apply (uses_safe c P nm Hi). apply Hn. left. reflexivity.
    - discriminate.
    - cbn [run_stmt]. destruct (eval e vs). reflexivity.
    - cbn [run_stmt]. destruct (vread x vs). cbn [fst snd]. rewrite forallb_app. cbn [forallb safe]. rewrite andb_true_r.
      apply (uses_safe c P dv Hi). apply Hn. left. reflexivity.
    - cbn [run_stmt fst snd]. apply (uses_safe c P l Hi). apply Hn. left. reflexivity.
    - reflexivity.
    - rewrite run_if. destruct (vread x _) as [c0 vs1]. cbn [decls_stmt] in Hd. apply app_eq_nil in Hd as [Hd1 Hd2].
      destruct (c0 =? 0).
      + apply (free_list_safe c P el IHe).
        * intros s Hs. exact (flat_map_nil_inv _ _ decls_stmt el Hd2 s Hs).
        * intros s nm Hs Hin. apply Hn. cbn [devs_stmt]. apply in_or_app. right. apply in_flat_map. exists s. split; assumption.
      + apply (free_list_safe c P b IHb).
        * intros s Hs. exact (flat_map_nil_inv _ _ decls_stmt b Hd1 s Hs).
        * intros s nm Hs Hin. apply Hn. cbn [devs_stmt]. apply in_or_app. left. apply in_flat_map. exists s. split; assumption.
    - rewrite run_for. generalize (pre_reset m top ins d (assigned_stmt (SFor cn b)) vs).
      assert (HL : forall v, forallb (safe c) (tr (run_list m tab false ins d b v)) = true).
      { intro v. apply (free_list_safe c P b IHb).
        - intros s Hs. exact (flat_map_nil_inv _ _ decls_stmt b Hd s Hs).
        - intros s nm Hs Hin. apply Hn. cbn [devs_stmt]. apply in_flat_map. exists s. split; assumption. }
      clear Hd Hn. induction cn as [|k IHk]; intro v; [reflexivity|].
      cbn [for_iter]. pose proof (HL v) as HLv.
      destruct (run_list m tab false ins d b v) as [[v1 t1] [|]]; [exact HLv|].
      specialize (IHk v1). destruct (for_iter m tab ins d b k v1) as [[v2 t2] b2].
      unfold tr in *. cbn [fst snd] in *. rewrite forallb_app, HLv, IHk. reflexivity.
    - rewrite run_while. generalize (pre_reset m top ins d (assigned_stmt (SWhile x b)) vs).
      assert (HL : forall v, forallb (safe c) (tr (run_list m tab false ins d b v)) = true).
      { intro v. apply (free_list_safe c P b IHb).
        - intros s Hs. exact (flat_map_nil_inv _ _ decls_stmt b Hd s Hs).
        - intros s nm Hs Hin. apply Hn. cbn [devs_stmt]. apply in_flat_map. exists s. split; assumption. }
      clear Hd Hn. generalize while_fuel. induction n as [|k IHk]; intro v; [reflexivity|].
      cbn [while_iter]. destruct (vread x v) as [c0 v0]. destruct (c0 =? 0); [reflexivity|]. pose proof (HL v0) as HLv.
      destruct (run_list m tab false ins d b v0) as [[v1 t1] [|]]; [exact HLv|].
      specialize (IHk v1). destruct (while_iter m tab ins d x b k v1) as [[v2 t2] b2].
      unfold tr in *. cbn [fst snd] in *. rewrite forallb_app, HLv, IHk. reflexivity.
    - rewrite run_try. cbn [decls_stmt] in Hd. apply app_eq_nil in Hd as [Hd1 Hd2].
      apply (free_list_safe c P b IHb).
      + intros s Hs. exact (flat_map_nil_inv _ _ decls_stmt b Hd1 s Hs).
      + intros s nm Hs Hin. apply Hn. cbn [devs_stmt]. apply in_or_app. left. apply in_flat_map. exists s. split; assumption.
  Qed.

  Lemma ndf_cases : forall s, nested_decl_free s = true ->
    (exists d, s = SDecl d) \/ (decls_stmt s = [] /\ top_decl s = []).
  Proof.
    intros s H. destruct s; try (right; split; reflexivity).
    - left. eexists. reflexivity.
    - right. unfold nested_decl_free in H. destruct (decls_stmt (SIf x body els)); [split; reflexivity|discriminate].
    - right. unfold nested_decl_free in H. destruct (decls_stmt (SFor cnt body)); [split; reflexivity|discriminate].
    - right. unfold nested_decl_free in H. destruct (decls_stmt (SWhile x body)); [split; reflexivity|discriminate].
    - right. unfold nested_decl_free in H. destruct (decls_stmt (STry body handler)); [split; reflexivity|discriminate].
  Qed.

  Lemma Inv_uses_ok : forall c, Inv c (fun nm => forallb (safe c) (uses tab (Some nm)) = true).
  Proof. intros c nm d Hp Hf. unfold uses in Hp. rewrite Hf in Hp. exact Hp. Qed.
End CBU.

(* ------------------------------------------------------------------ program-level facts *)
Lemma split_d_snd : forall its d,
  map snd (fst (split_d d its)) = fst (split its) /\ map snd (snd (split_d d its)) = snd (split its).
Proof.
  induction its as [|it r IH]; intro d; [split; reflexivity|]. destruct it as [s|body|f body].
  - cbn [split_d split]. specialize (IH (d ++ assigned_stmt s)).
    destruct (split_d (d ++ assigned_stmt s) r) as [a b]. destruct (split r) as [a' b']. cbn [fst snd] in *.
    destruct IH as [IH1 IH2]. split; [cbn [map snd]; rewrite IH1; reflexivity|exact IH2].
  - rewrite split_d_main. cbn [split]. specialize (IH (d ++ flat_map assigned_stmt body)).
    destruct (split_d (d ++ flat_map assigned_stmt body) r) as [a b]. destruct (split r) as [a' b']. cbn [fst snd] in *.
    destruct IH as [IH1 IH2]. split; [exact IH1|]. rewrite map_app, IH2. f_equal.
    clear. revert d. induction body as [|s l IH]; intro d; [reflexivity|]. cbn [ann map snd]. rewrite IH. reflexivity.
  - cbn [split_d split]. apply IH.
Qed.

Lemma split_incl : forall its s, In s (fst (split its)) \/ In s (snd (split its)) -> In s (all_stmts its).
Proof.
  induction its as [|it r IH]; intros s H; [destruct H as [[]|[]]|].
  unfold all_stmts. cbn [flat_map]. fold (all_stmts r). apply in_or_app.
  destruct it as [s0|body|f body]; cbn [split item_stmts] in *; destruct (split r) as [a b]; cbn [fst snd] in *.
  - destruct H as [[<-|H]|H]; [left; left; reflexivity|right; apply IH; left; exact H|right; apply IH; right; exact H].
  - destruct H as [H|H]; [right; apply IH; left; exact H|].
    apply in_app_or in H as [H|H]; [left; exact H|right; apply IH; right; exact H].
  - right. apply IH. exact H.
Qed.

Lemma top_decl_in : forall l d, In d (flat_map top_decl l) -> In (SDecl d) l.
Proof.
  intros l d H. apply in_flat_map in H as (s & Hs & Hd). destruct s; try destruct Hd.
  - subst d0. exact Hs.
  - destruct H.
Qed.

Lemma find_decl_unique : forall tab d, nodup_names (map d_name tab) = true -> In d tab ->
  find_decl (d_name d) tab = Some d.
Proof.
  induction tab as [|d0 r IH]; intros d Hn Hin; [destruct Hin|].
  cbn [map nodup_names] in Hn. apply andb_true_iff in Hn as [Hn1 Hn2]. cbn [find_decl].
  destruct Hin as [<-|Hin]; [rewrite name_eqb_refl; reflexivity|].
  destruct (name_eqb (d_name d) (d_name d0)) eqn:E; [|apply IH; assumption].
  exfalso. apply name_eqb_eq in E. apply negb_true_iff in Hn1.
  assert (mem_name (d_name d0) (map d_name r) = true); [|congruence].
  unfold mem_name. apply existsb_exists. exists (d_name d). split; [apply in_map; exact Hin|].
  rewrite E. apply name_eqb_refl.
Qed.

Lemma find_decl_some : forall nm l d, find_decl nm l = Some d -> In d l /\ name_eqb nm (d_name d) = true.
Proof.
  induction l as [|d0 r IH]; intros d H; [discriminate|]. cbn [find_decl] in H.
  destruct (name_eqb nm (d_name d0)) eqn:E.
  - inversion H; subst d0. split; [left; reflexivity|exact E].
  - destruct (IH d H) as [H1 H2]. split; [right; exact H1|exact H2].
Qed.

Lemma find_func_in : forall f fs s, In s (find_func f fs) -> In s (flat_map snd fs).
Proof.
  induction fs as [|[g b] r IH]; intros s H; [destruct H|]. cbn [find_func] in H. cbn [flat_map snd].
  apply in_or_app. destruct (name_eqb f g); [left; exact H|right; apply IH; exact H].
Qed.

Lemma funcs_incl : forall its s, In s (flat_map snd (funcs its)) -> In s (all_stmts its).
Proof.
  induction its as [|it r IH]; intros s H; [destruct H|].
  unfold all_stmts. cbn [flat_map]. fold (all_stmts r). apply in_or_app.
  destruct it as [s0|body|f body]; cbn [funcs item_stmts] in *.
  - right. apply IH. exact H.
  - right. apply IH. exact H.
  - cbn [flat_map snd] in H. apply in_app_or in H as [H|H]; [left; exact H|right; apply IH; exact H].
Qed.

Lemma mem_name_app : forall x a b, mem_name x (a ++ b) = mem_name x a || mem_name x b.
Proof. intros. unfold mem_name. apply existsb_app. Qed.

Lemma safe_handler_events : forall tab c P body, Inv tab c P ->
  (forall s nm, In s body -> In nm (devs_stmt s) -> P nm) ->
  forallb (safe c) (handler_events tab body) = true.
Proof.
  intros tab c P body Hi Hb. unfold handler_events. induction body as [|s r IH]; [reflexivity|].
  cbn [flat_map]. rewrite forallb_app, IH, andb_true_r by (intros s' nm H; apply Hb; right; exact H).
  destruct s; try reflexivity. rewrite forallb_app. cbn [forallb safe]. rewrite andb_true_r.
  destruct dev as [nm|]; [|reflexivity].
  pose proof (uses_safe tab c P nm Hi (Hb _ nm (or_introl eq_refl) (or_introl eq_refl))) as Hs.
  pose proof (use_uses tab (Some nm)) as Hu.
  induction (uses tab (Some nm)) as [|e t IHt]; [reflexivity|].
  cbn [forallb map] in *. apply andb_true_iff in Hs as [Hs1 Hs2]. apply andb_true_iff in Hu as [Hu1 Hu2].
  rewrite (IHt Hs2 Hu2), andb_true_r. destruct e; try discriminate. exact Hs1.
Qed.

Lemma safe_poll_all : forall inp p c bs h,
  (forall b d pin r, In b bs -> button_decl p b = Some d -> d_pins d = pin :: r -> has_cfg c (RPin pin) false = true) ->
  (forall f, forallb (safe c) (handler_events (p_tabF p) (find_func f (p_funcs p))) = true) ->
  forallb (safe c) (snd (poll_all inp p bs h)) = true.
Proof.
  intros inp p c bs h Hb Hf. revert h. induction bs as [|b r IH]; intro h; [reflexivity|].
  assert (IH' : forall h, forallb (safe c) (snd (poll_all inp p r h)) = true).
  { apply IH. intros b0 d pin r0 Hin. apply Hb. right. exact Hin. }
  clear IH. cbn [poll_all]. unfold poll_one.
  destruct (button_decl p b) as [d|] eqn:Eb.
  - destruct (d_pins d) as [|pin pr] eqn:Ep.
    + specialize (IH' h). destruct (poll_all inp p r h) as [h2 t2]. exact IH'.
    + destruct (sample inp pin h) as [lvl h1]. specialize (IH' (set_prev b lvl h1)).
      destruct (poll_all inp p r (set_prev b lvl h1)) as [h2 t2]. cbn [snd app forallb safe] in *.
      rewrite (Hb b d pin pr (or_introl eq_refl) Eb Ep). cbn [andb]. rewrite forallb_app, IH', andb_true_r.
      destruct (lvl && negb (blookup b (h_prev h1))); [|reflexivity].
      destruct (d_handler d); [apply Hf|reflexivity].
  - specialize (IH' h). destruct (poll_all inp p r h) as [h2 t2]. exact IH'.
Qed.

Lemma passes_safe : forall inp p c n v h,
  (forall v h, forallb (safe c) (snd (fst (run_pass MC inp p v h))) = true) ->
  forallb (safe c) (concat (snd (run_passes MC inp p n v h))) = true.
Proof.
  intros inp p c n. induction n as [|n IH]; intros v h Hp; [reflexivity|].
  cbn [run_passes]. pose proof (Hp v h) as H1. destruct (run_pass MC inp p v h) as [[[v1 h1] t] brk].
  specialize (IH v1 h1 Hp). destruct (run_passes MC inp p n v1 h1) as [v2 ts].
  cbn [fst snd concat] in *. rewrite forallb_app, H1, IH. reflexivity.
Qed.

Lemma is_button_kind : forall d, is_button d = true -> d_kind d = KButton.
Proof. intros [k nm pins h] H. destruct k; try discriminate. reflexivity. Qed.

Lemma is_lcd_kind : forall d, is_lcd d = true -> d_kind d = KLcd.
Proof. intros [k nm pins h] H. destruct k; try discriminate. reflexivity. Qed.

Lemma cbu_go_sub : forall t c c', sub c c' -> cbu_go c t = true -> cbu_go c' t = true.
Proof.
  induction t as [|e t IH]; intros c c' Hs H; [reflexivity|].
  destruct e; cbn [cbu_go] in *.
  - eapply IH; eauto.
  - eapply IH; eauto.
  - eapply IH; [|exact H]. intros x [<-|Hx]; [left; reflexivity|right; apply Hs, Hx].
  - apply andb_true_iff in H as [H1 H2]. rewrite (has_cfg_sub _ _ _ _ Hs H1). eapply IH; eauto.
  - apply andb_true_iff in H as [H1 H2]. rewrite (has_cfg_sub _ _ _ _ Hs H1). eapply IH; eauto.
  - apply andb_true_iff in H as [H1 H2]. rewrite (has_cfg_sub _ _ _ _ Hs H1). eapply IH; eauto.
  - eapply IH; eauto.
  - apply andb_true_iff in H as [H1 H2]. rewrite (has_cfg_sub _ _ _ _ Hs H1). eapply IH; eauto.
Qed.

Lemma cfgs_mono : forall t a b, sub a b -> sub (cfgs t a) (cfgs t b).
Proof.
  induction t as [|e t IH]; intros a b Hs; [exact Hs|]. cbn [cfgs fold_left]. fold (cfgs t (cstep a e)) (cfgs t (cstep b e)).
  apply IH. destruct e; cbn [cstep]; try exact Hs. intros x [<-|Hx]; [left; reflexivity|right; apply Hs, Hx].
Qed.

Lemma top_ev_nondecl : forall m ins st d s v, decls_stmt s = [] ->
  top_ev m ins st d s v = run_stmt m (ts_tab st) true ins d s v.
Proof. intros m ins st d s v H. destruct s; try reflexivity. discriminate. Qed.

Lemma adv_nondecl : forall G ins st s, top_decl s = [] -> adv G ins st s = st.
Proof. intros G ins st s H. destruct s; try reflexivity. discriminate. Qed.

Lemma setup_chk_nondecl : forall G st cfg d s r, top_decl s = [] ->
  setup_chk G st cfg ((d, s) :: r) = forallb (uses_ok cfg (ts_tab st)) (devs_stmt s) && setup_chk G st cfg r.
Proof. intros G st cfg d s r H. destruct s; try reflexivity. discriminate. Qed.

Lemma setup_cfgs_nondecl : forall G st d s r, top_decl s = [] ->
  setup_cfgs G st ((d, s) :: r) = setup_cfgs G st r.
Proof. intros G st d s r H. destruct s; try reflexivity. discriminate. Qed.

Lemma loop_chk_nondecl : forall G st cfg d s r, top_decl s = [] ->
  loop_chk G st cfg ((d, s) :: r) = forallb (uses_ok cfg (ts_tab st)) (devs_stmt s) && loop_chk G st cfg r.
Proof. intros G st cfg d s r H. destruct s; try reflexivity. discriminate. Qed.

Lemma uses_ok_sub : forall cfg c tab nm, sub cfg c -> uses_ok cfg tab nm = true ->
  forallb (safe c) (uses tab (Some nm)) = true.
Proof. intros cfg c tab nm Hs H. exact (safe_all_sub _ _ _ Hs H). Qed.

Lemma devs_ok : forall cfg c tab l, sub cfg c -> forallb (uses_ok cfg tab) l = true ->
  forall nm, In nm l -> forallb (safe c) (uses tab (Some nm)) = true.
Proof. intros cfg c tab l Hs H nm Hin. rewrite forallb_forall in H. exact (uses_ok_sub _ _ _ _ Hs (H nm Hin)). Qed.

(* setup(), statement by statement: what the static check accepted is safe in every execution *)
Lemma setup_annT_cbu : forall G l st cfg c m v,
  sub cfg c ->
  setup_chk G st cfg l = true ->
  forallb nested_decl_free (map snd l) = true ->
  ann_ok false 0 l = true ->
  cbu_go c (tr (run_annT G m true st l v)) = true /\
  sub (cfgs (setup_cfgs G st l) cfg) (cfgs (tr (run_annT G m true st l v)) c).
Proof.
  intros G l. induction l as [|[d0 s] r IH]; intros st cfg c m v Hsub Hchk Hndf Hok.
  - split; [reflexivity|exact Hsub].
  - cbn [map snd forallb] in Hndf. apply andb_true_iff in Hndf as [Hn1 Hn2].
    cbn [ann_ok forallb snd] in Hok. apply andb_true_iff in Hok as [Hb1 Hb2]. fold (ann_ok false 0 r) in Hb2.
    destruct (ndf_cases s Hn1) as [[dd ->]|[Hf Htd]].
    + cbn [setup_chk] in Hchk. apply andb_true_iff in Hchk as [H1 H2].
      cbn [run_annT top_ev setup_cfgs]. set (t := fst (inplaceD true dd (ts_seen st))) in *.
      destruct (IH (adv G true st (SDecl dd)) (cfgs t cfg) (cfgs t c) m v (cfgs_mono t _ _ Hsub) H2 Hn2 Hb2) as [I1 I2].
      destruct (run_annT G m true (adv G true st (SDecl dd)) r v) as [[v2 t2] b2]. unfold tr in *. cbn [fst snd] in *.
      split.
      * rewrite cbu_go_app, (cbu_go_sub t cfg c Hsub H1), I1. reflexivity.
      * rewrite !cfgs_app. exact I2.
    + rewrite (setup_chk_nondecl G st cfg d0 s r Htd) in Hchk. apply andb_true_iff in Hchk as [H1 H2].
      cbn [run_annT]. rewrite (top_ev_nondecl m true st d0 s v Hf), (adv_nondecl G true st s Htd),
        (setup_cfgs_nondecl G st d0 s r Htd).
      pose proof (free_stmt_safe (ts_tab st) c _ (Inv_uses_ok (ts_tab st) c) s Hf
                    (devs_ok cfg c (ts_tab st) (devs_stmt s) Hsub H1) m true true d0 v) as Hs1.
      pose proof (bg_stmt_nobreak s false 0 m (ts_tab st) true true d0 v Hb1 base_setup) as Hnb.
      destruct (run_stmt m (ts_tab st) true true d0 s v) as [[v1 t1] b]. cbn [snd] in Hnb. subst b.
      unfold tr in Hs1. cbn [fst snd] in Hs1.
      destruct (IH st cfg (cfgs t1 c) m v1 (sub_trans _ _ _ Hsub (sub_cfgs t1 c)) H2 Hn2 Hb2) as [I1 I2].
      destruct (run_annT G m true st r v1) as [[v2 t2] b2]. unfold tr in *. cbn [fst snd] in *.
      split.
      * rewrite cbu_go_app, (cbu_go_safe _ _ Hs1), I1. reflexivity.
      * rewrite cfgs_app. exact I2.
Qed.

Lemma inplaceD_loop_nil : forall d seen, hoisted_kind (d_kind d) = true -> fst (inplaceD false d seen) = [].
Proof. intros [k nm pins h] seen H. destruct k; try discriminate; reflexivity. Qed.

(* loop(): every statement only touches what is configured when setup() has finished *)
Lemma loop_annT_safe : forall G l st cfg c m v,
  sub cfg c ->
  loop_chk G st cfg l = true ->
  forallb nested_decl_free (map snd l) = true ->
  (forall dd, In (SDecl dd) (map snd l) -> hoisted_kind (d_kind dd) = true) ->
  forallb (safe c) (tr (run_annT G m false st l v)) = true.
Proof.
  intros G l. induction l as [|[d0 s] r IH]; intros st cfg c m v Hsub Hchk Hndf Hh; [reflexivity|].
  cbn [map snd forallb] in Hndf. apply andb_true_iff in Hndf as [Hn1 Hn2].
  assert (Hh2 : forall dd, In (SDecl dd) (map snd r) -> hoisted_kind (d_kind dd) = true)
    by (intros dd Hin; apply Hh; right; exact Hin).
  destruct (ndf_cases s Hn1) as [[dd ->]|[Hf Htd]].
  - cbn [loop_chk] in Hchk. cbn [run_annT top_ev].
    rewrite (inplaceD_loop_nil dd (ts_seen st) (Hh dd (or_introl eq_refl))).
    specialize (IH (adv G false st (SDecl dd)) cfg c m v Hsub Hchk Hn2 Hh2).
    destruct (run_annT G m false (adv G false st (SDecl dd)) r v) as [[v2 t2] b2]. exact IH.
  - rewrite (loop_chk_nondecl G st cfg d0 s r Htd) in Hchk. apply andb_true_iff in Hchk as [H1 H2].
    cbn [run_annT]. rewrite (top_ev_nondecl m false st d0 s v Hf), (adv_nondecl G false st s Htd).
    pose proof (free_stmt_safe (ts_tab st) c _ (Inv_uses_ok (ts_tab st) c) s Hf
                  (devs_ok cfg c (ts_tab st) (devs_stmt s) Hsub H1) m true false d0 v) as Hs1.
    destruct (run_stmt m (ts_tab st) true false d0 s v) as [[v1 t1] [|]]; [exact Hs1|].
    specialize (IH st cfg c m v1 Hsub H2 Hn2 Hh2).
    destruct (run_annT G m false st r v1) as [[v2 t2] b2]. unfold tr in *. cbn [fst snd] in *.
    rewrite forallb_app, Hs1, IH. reflexivity.
Qed.

Lemma configured_before_use_cbu : forall inp n its,
  transl_ok its = true -> well_placed its = true -> cbu (exec inp n its) = true.
Proof.
  intros inp n its Hok Hwp. unfold well_placed in Hwp.
  set (p := transl its) in *. set (G := p_G p) in *.
  repeat (apply andb_true_iff in Hwp as [Hwp ?]).
  rename H into Hfun, H0 into Hfn, H1 into Htk, H2 into Hpl, H3 into Hlc, H4 into Hsc, H5 into Hhc,
         H6 into Hnd, H7 into Huq, H8 into Hhk, Hwp into Hndf.
  assert (Hndf' : forall s, In s (all_stmts its) -> nested_decl_free s = true)
    by (rewrite forallb_forall in Hndf; exact Hndf).
  destruct (split_d_snd its []) as [Hs1 Hs2].
  assert (Hps : map snd (p_setup p) = fst (split its)) by exact Hs1.
  assert (Hpl' : map snd (p_loop p) = snd (split its)) by exact Hs2.
  set (cH := cfgs (hoists p) []) in *.
  destruct (transl_ok_split its [] Hok) as [Hoks Hokl].
  destruct (setup_annT_cbu G (p_setup p) (st0 p) cH cH MC v0 (sub_refl cH) Hsc) as [Hcs Hsub].
  { rewrite Hps. apply forallb_forall. intros s Hs. apply Hndf', split_incl. left. exact Hs. }
  { exact Hoks. }
  set (S := tr (run_annT G MC true (st0 p) (p_setup p) v0)) in *. set (cS := cfgs S cH) in *.
  fold (cfg_setup p) in Hsub.
  (* passes *)
  assert (Hpass : forall v h, forallb (safe cS) (snd (fst (run_pass MC inp p v h))) = true).
  { intros v h. unfold run_pass.
    assert (Hpoll : forallb (safe cS) (snd (poll_all inp p (p_polls p) h)) = true).
    { apply safe_poll_all.
      - intros b d pin r Hin Hb Hpins. apply (has_cfg_sub (cfg_setup p) cS _ _ Hsub).
        rewrite forallb_forall in Hpl. apply Hpl. unfold poll_pins. apply in_flat_map. exists b.
        split; [exact Hin|]. rewrite Hb, Hpins. left. reflexivity.
      - intro f. apply (safe_handler_events (p_tabF p) cS _ _ (Inv_uses_ok (p_tabF p) cS)). intros s nm Hs Hnm.
        apply find_func_in in Hs. apply (devs_ok (cfg_setup p) cS (p_tabF p) _ Hsub Hfn).
        apply in_flat_map. exists s. split; assumption. }
    destruct (poll_all inp p (p_polls p) h) as [h1 tp]. cbn [snd] in Hpoll.
    assert (Hu : forallb (safe cS) (tr (run_annT G MC false (stS p) (p_loop p) v)) = true).
    { apply (loop_annT_safe G (p_loop p) (stS p) (cfg_setup p) cS MC v Hsub Hlc).
      - rewrite Hpl'. apply forallb_forall. intros s Hs. apply Hndf', split_incl. right. exact Hs.
      - rewrite Hpl'. intros dd Hin. rewrite forallb_forall in Hhk. apply Hhk.
        change (p_top_loop p) with (flat_map top_decl (snd (split its))). apply in_flat_map.
        exists (SDecl dd). split; [exact Hin|left; reflexivity]. }
    fold G. destruct (run_annT G MC false (stS p) (p_loop p) v) as [[v1 tb] brk]. unfold tr in Hu. cbn [fst snd] in *.
    rewrite !forallb_app, Hpoll, Hu, andb_true_r. cbn [andb].
    rewrite tick_events_map. apply forallb_forall. intros e He. apply in_map_iff in He as (l & <- & Hl).
    cbn [safe]. apply (has_cfg_sub (cfg_setup p) cS _ _ Hsub). rewrite forallb_forall in Htk. exact (Htk l Hl). }
  (* assembly *)
  unfold cbu, exec, exec_phases, run_setup. fold p. fold G.
  pose proof (passes_safe inp p cS n) as HP.
  unfold S, tr in *.
  destruct (run_annT G MC true (st0 p) (p_setup p) v0) as [[v t] brk]. cbn [fst snd] in *.
  specialize (HP v (setup_h inp p) Hpass).
  destruct (run_passes MC inp p n v _) as [v' tl]. cbn [fst snd] in *.
  rewrite cbu_go_app, cbu_go_app, cfgs_app, Hhc. fold cH. rewrite Hcs. cbn [andb].
  apply cbu_go_safe. exact HP.
Qed.

(* ------------------------------------------------------------------ C05: one mode per pin *)
Definition is_cfg_ev (e : ev) : bool := match e with ECfg _ _ => true | _ => false end.

Lemma functional_incl : forall l l', functional l = true -> (forall x, In x l' -> In x l) -> functional l' = true.
Proof.
  intros l l' H Hi. unfold functional in *. apply forallb_forall. intros a Ha. apply forallb_forall. intros b Hb.
  rewrite forallb_forall in H. specialize (H a (Hi a Ha)). rewrite forallb_forall in H. exact (H b (Hi b Hb)).
Qed.

Lemma pin_cfgs_in : forall t p m, In (p, m) (pin_cfgs t) -> In (ECfg (RPin p) m) t.
Proof.
  intros t p m H. unfold pin_cfgs in H. apply in_flat_map in H as (e & He & Hx).
  destruct e; try destruct Hx. destruct r; try destruct Hx. inversion H; subst. exact He.
  destruct H.
Qed.

Lemma in_pm_inv : forall m pins e, In e (pm m pins) -> exists p, e = ECfg (RPin p) m /\ In p pins.
Proof. intros m pins e H. unfold pm in H. apply in_map_iff in H as (p & <- & Hp). exists p. split; [reflexivity|exact Hp]. Qed.

Lemma wr_not_cfg : forall pins r m, ~ In (ECfg r m) (wr pins).
Proof. intros pins r m H. apply in_wr in H as (p & H & _). discriminate. Qed.

Lemma modes_pm : forall d m p mo, In (ECfg (RPin p) mo) (pm m (d_pins d)) ->
  decl_pin_modes d = map (fun q => (q, m)) (d_pins d) -> In (p, mo) (decl_pin_modes d).
Proof.
  intros d m p mo H Hd. apply in_pm_inv in H as (q & Hq & Hin). inversion Hq; subst. rewrite Hd.
  apply in_map_iff. exists q. split; [reflexivity|exact Hin].
Qed.

Lemma modes_ultra : forall nm pins h p mo, In (ECfg (RPin p) mo) (ultra_cfg pins) ->
  In (p, mo) (decl_pin_modes (mkDecl KUltra nm pins h)).
Proof.
  intros nm pins h p mo H. unfold decl_pin_modes. cbn [d_kind d_pins]. destruct pins as [|t [|e r]]; try destruct H.
  - inversion H; subst. left. reflexivity.
  - destruct H as [H|[]]. inversion H; subst. right. left. reflexivity.
Qed.

Lemma modes_inplace : forall top ins d p mo, In (ECfg (RPin p) mo) (inplace_cfg top ins d) -> In (p, mo) (decl_pin_modes d).
Proof.
  intros top ins [k nm pins h] p mo H. unfold inplace_cfg in H. cbn [d_kind d_pins] in H.
  destruct k.
  - destruct ins; [|destruct H]. apply (modes_pm (mkDecl KLed nm pins h) 1); [exact H|reflexivity].
  - destruct ins; [|destruct H]. apply (modes_pm (mkDecl KRGB nm pins h) 1); [exact H|reflexivity].
  - destruct H.
  - destruct ins; [|destruct H]. apply in_app_or in H as [H|H]; [|exfalso; exact (wr_not_cfg _ _ _ H)].
    destruct top; [destruct H|]. apply (modes_pm (mkDecl KMotor nm pins h) 1); [exact H|reflexivity].
  - destruct H.
  - destruct H.
  - destruct ins; [|destruct H]. apply modes_ultra. exact H.
  - destruct ins; destruct top; cbn [andb negb] in H; try destruct H.
    apply (modes_pm (mkDecl KBuzzer nm pins h) 1); [exact H|reflexivity].
  - destruct H.
  - destruct H as [H|[]]. discriminate.
Qed.

Ltac in_list H :=
  repeat (destruct H as [H|H]; [try discriminate; try (inversion H; subst; left; reflexivity)|]); try destruct H.

Lemma modes_hoist_setup : forall d p mo, In (ECfg (RPin p) mo) (hoist_setup d) -> In (p, mo) (decl_pin_modes d).
Proof.
  intros [k nm pins h] p mo H. unfold hoist_setup in H. cbn [d_kind d_pins d_name] in H.
  destruct k.
  - destruct H.
  - destruct H.
  - destruct pins as [|q r]; cbn in H; in_list H.
  - apply in_app_or in H as [H|H]; [|exfalso; exact (wr_not_cfg _ _ _ H)].
    apply (modes_pm (mkDecl KMotor nm pins h) 1); [exact H|reflexivity].
  - destruct pins as [|q r]; cbn in H; in_list H.
  - apply (modes_pm (mkDecl KPot nm pins h) 0); [exact H|reflexivity].
  - destruct H.
  - apply (modes_pm (mkDecl KBuzzer nm pins h) 1); [exact H|reflexivity].
  - destruct pins as [|bl r]; cbn in H; in_list H.
  - destruct H.
Qed.

Lemma modes_hoist_loop : forall d p mo, In (ECfg (RPin p) mo) (hoist_loop d) -> In (p, mo) (decl_pin_modes d).
Proof.
  intros [k nm pins h] p mo H. unfold hoist_loop in H. cbn [d_kind d_pins d_name] in H.
  destruct k.
  - apply (modes_pm (mkDecl KLed nm pins h) 1); [exact H|reflexivity].
  - apply (modes_pm (mkDecl KRGB nm pins h) 1); [exact H|reflexivity].
  - destruct pins as [|q r]; cbn in H; in_list H.
  - apply in_app_or in H as [H|H]; [|exfalso; exact (wr_not_cfg _ _ _ H)].
    apply (modes_pm (mkDecl KMotor nm pins h) 1); [exact H|reflexivity].
  - destruct pins as [|q r]; cbn in H; in_list H.
  - apply (modes_pm (mkDecl KPot nm pins h) 0); [exact H|reflexivity].
  - apply modes_ultra. exact H.
  - destruct H.
  - destruct H.
  - destruct H.
Qed.

Definition origin (s : stmt) (e : ev) : Prop :=
  exists d0 top0 ins0, In d0 (decls_stmt s) /\ In e (inplace_cfg top0 ins0 d0).

Lemma uses_not_cfg : forall tab dev r m, ~ In (ECfg r m) (uses tab dev).
Proof.
  intros tab dev r m H. pose proof (use_uses tab dev) as Hu. rewrite forallb_forall in Hu.
  specialize (Hu _ H). discriminate.
Qed.

Lemma cfg_origin_list : forall l,
  Forall (fun s => forall m tab top ins d vs r mo, In (ECfg r mo) (tr (run_stmt m tab top ins d s vs)) -> origin s (ECfg r mo)) l ->
  forall m tab top ins d vs r mo, In (ECfg r mo) (tr (run_list m tab top ins d l vs)) ->
  exists s, In s l /\ origin s (ECfg r mo).
Proof.
  intros l HF. induction HF as [|s rest Hs _ IH]; intros m tab top ins d vs r mo H; [destruct H|].
  cbn [run_list] in H. specialize (Hs m tab top ins d vs r mo).
  destruct (run_stmt m tab top ins d s vs) as [[v1 t1] [|]].
  - exists s. split; [left; reflexivity|apply Hs; exact H].
  - specialize (IH m tab top ins (d ++ assigned_stmt s) v1 r mo).
    destruct (run_list m tab top ins (d ++ assigned_stmt s) rest v1) as [[v2 t2] b2].
    unfold tr in *. cbn [fst snd] in *. apply in_app_or in H as [H|H].
    + exists s. split; [left; reflexivity|apply Hs; exact H].
    + destruct (IH H) as (s' & Hs' & Ho). exists s'. split; [right; exact Hs'|exact Ho].
Qed.

Lemma origin_block : forall b s e, In s b -> origin s e ->
  exists d0 top0 ins0, In d0 (flat_map decls_stmt b) /\ In e (inplace_cfg top0 ins0 d0).
Proof.
  intros b s e Hs (d0 & t0 & i0 & Hd & He). exists d0, t0, i0. split; [|exact He].
  apply in_flat_map. exists s. split; assumption.
Qed.

Lemma cfg_origin_stmt : forall s m tab top ins d vs r mo,
  In (ECfg r mo) (tr (run_stmt m tab top ins d s vs)) -> origin s (ECfg r mo).
Proof.
  intro s. induction s as [id dev|dd|x e|dv x|l| |x b el IHb IHe|cn b IHb|x b IHb|b h IHb IHh] using stmt_ind';
    intros m tab top ins d vs r mo H; unfold tr in H.
  - cbn [run_stmt fst snd] in H. apply in_app_or in H as [H|[H|[]]]; [|discriminate].
    exfalso. exact (uses_not_cfg _ _ _ _ H).
  - cbn [run_stmt fst snd] in H. exists dd, top, ins. split; [left; reflexivity|exact H].
  - cbn [run_stmt] in H. destruct (eval e vs). destruct H.
  - cbn [run_stmt] in H. destruct (vread x vs). cbn [fst snd] in H. apply in_app_or in H as [H|[H|[]]]; [|discriminate].
    exfalso. exact (uses_not_cfg _ _ _ _ H).
  - cbn [run_stmt fst snd] in H. exfalso. exact (uses_not_cfg _ _ _ _ H).
  - destruct H.
  - rewrite run_if in H. destruct (vread x _) as [c0 vs1]. destruct (c0 =? 0).
    + destruct (cfg_origin_list el IHe m tab false ins d vs1 r mo H) as (s' & Hs' & Ho).
      destruct (origin_block el s' _ Hs' Ho) as (d0 & t0 & i0 & Hd & He).
      exists d0, t0, i0. split; [cbn [decls_stmt]; apply in_or_app; right; exact Hd|exact He].
    + destruct (cfg_origin_list b IHb m tab false ins d vs1 r mo H) as (s' & Hs' & Ho).
      destruct (origin_block b s' _ Hs' Ho) as (d0 & t0 & i0 & Hd & He).
      exists d0, t0, i0. split; [cbn [decls_stmt]; apply in_or_app; left; exact Hd|exact He].
  - rewrite run_for in H. revert H. generalize (pre_reset m top ins d (assigned_stmt (SFor cn b)) vs).
    induction cn as [|k IHk]; intros v H; [destruct H|].
    cbn [for_iter] in H. pose proof (cfg_origin_list b IHb m tab false ins d v r mo) as HL.
    destruct (run_list m tab false ins d b v) as [[v1 t1] [|]].
    + destruct (HL H) as (s' & Hs' & Ho). exact (origin_block b s' _ Hs' Ho).
    + specialize (IHk v1). destruct (for_iter m tab ins d b k v1) as [[v2 t2] b2].
      unfold tr in *. cbn [fst snd] in *. apply in_app_or in H as [H|H].
      * destruct (HL H) as (s' & Hs' & Ho). exact (origin_block b s' _ Hs' Ho).
      * exact (IHk H).
  - rewrite run_while in H. revert H. generalize (pre_reset m top ins d (assigned_stmt (SWhile x b)) vs).
    generalize while_fuel. induction n as [|k IHk]; intros v H; [destruct H|].
    cbn [while_iter] in H. destruct (vread x v) as [c0 v0]. destruct (c0 =? 0); [destruct H|].
    pose proof (cfg_origin_list b IHb m tab false ins d v0 r mo) as HL.
    destruct (run_list m tab false ins d b v0) as [[v1 t1] [|]].
    + destruct (HL H) as (s' & Hs' & Ho). exact (origin_block b s' _ Hs' Ho).
    + specialize (IHk v1). destruct (while_iter m tab ins d x b k v1) as [[v2 t2] b2].
      unfold tr in *. cbn [fst snd] in *. apply in_app_or in H as [H|H].
      * destruct (HL H) as (s' & Hs' & Ho). exact (origin_block b s' _ Hs' Ho).
      * exact (IHk H).
  - rewrite run_try in H.
    destruct (cfg_origin_list b IHb m tab false ins d _ r mo H) as (s' & Hs' & Ho).
    destruct (origin_block b s' _ Hs' Ho) as (d0 & t0 & i0 & Hd & He).
    exists d0, t0, i0. split; [cbn [decls_stmt]; apply in_or_app; left; exact Hd|exact He].
Qed.

Lemma cfg_origin_ann : forall l m tab ins v r mo, In (ECfg r mo) (tr (run_ann m tab ins l v)) ->
  exists s, In s (map snd l) /\ origin s (ECfg r mo).
Proof.
  induction l as [|[d s] rest IH]; intros m tab ins v r mo H; [destruct H|].
  cbn [run_ann] in H. pose proof (cfg_origin_stmt s m tab true ins d v r mo) as Hs.
  destruct (run_stmt m tab true ins d s v) as [[v1 t1] [|]].
  - exists s. split; [left; reflexivity|apply Hs; exact H].
  - specialize (IH m tab ins v1 r mo). destruct (run_ann m tab ins rest v1) as [[v2 t2] b2].
    unfold tr in *. cbn [fst snd] in *. apply in_app_or in H as [H|H].
    + exists s. split; [left; reflexivity|apply Hs; exact H].
    + destruct (IH H) as (s' & Hs' & Ho). exists s'. split; [right; exact Hs'|exact Ho].
Qed.

Lemma cfg_origin_annT : forall G l m ins st v r mo, In (ECfg r mo) (tr (run_annT G m ins st l v)) ->
  exists s, In s (map snd l) /\ origin s (ECfg r mo).
Proof.
  intros G l. induction l as [|[d s] rest IH]; intros m ins st v r mo H; [destruct H|].
  cbn [run_annT] in H.
  assert (Hs : In (ECfg r mo) (tr (top_ev m ins st d s v)) -> origin s (ECfg r mo)).
  { destruct s; try apply cfg_origin_stmt. unfold tr. cbn [top_ev fst snd]. intro Hin.
    exists d0, false, ins. split; [left; reflexivity|exact (inplaceD_incl _ _ _ _ Hin)]. }
  destruct (top_ev m ins st d s v) as [[v1 t1] [|]].
  - exists s. split; [left; reflexivity|apply Hs; exact H].
  - specialize (IH m ins (adv G ins st s) v1 r mo). destruct (run_annT G m ins (adv G ins st s) rest v1) as [[v2 t2] b2].
    unfold tr in *. cbn [fst snd] in *. apply in_app_or in H as [H|H].
    + exists s. split; [left; reflexivity|apply Hs; exact H].
    + destruct (IH H) as (s' & Hs' & Ho). exists s'. split; [right; exact Hs'|exact Ho].
Qed.

Lemma hk_not_cfg : forall t r mo, forallb is_hk t = true -> ~ In (ECfg r mo) t.
Proof. intros t r mo H Hin. rewrite forallb_forall in H. specialize (H _ Hin). discriminate. Qed.

Lemma one_mode_exec : forall inp n its,
  functional (flat_map decl_pin_modes (p_tab (transl its))) = true -> one_mode (exec inp n its) = true.
Proof.
  intros inp n its Hf. unfold one_mode. apply (functional_incl _ _ Hf). intros [p mo] Hx.
  apply pin_cfgs_in in Hx. set (pr := transl its) in *. set (tab := p_tab pr) in *.
  assert (Hdecl : forall d0, In d0 tab -> In (p, mo) (decl_pin_modes d0) -> In (p, mo) (flat_map decl_pin_modes tab)).
  { intros d0 H1 H2. apply in_flat_map. exists d0. split; assumption. }
  assert (Horig : forall s, In s (all_stmts its) -> origin s (ECfg (RPin p) mo) -> In (p, mo) (flat_map decl_pin_modes tab)).
  { intros s Hs (d0 & t0 & i0 & Hd & He). apply (Hdecl d0); [|exact (modes_inplace _ _ _ _ _ He)].
    subst tab. change (p_tab pr) with (flat_map decls_stmt (all_stmts its)). apply in_flat_map. exists s. split; assumption. }
  assert (Htop : forall d0, In d0 (p_top_setup pr) \/ In d0 (p_top_loop pr) -> In d0 tab).
  { intros d0 Hd. subst tab. change (p_tab pr) with (flat_map decls_stmt (all_stmts its)).
    apply in_flat_map. exists (SDecl d0). split; [|left; reflexivity].
    apply split_incl. destruct Hd as [Hd|Hd]; [left|right]; apply top_decl_in; exact Hd. }
  destruct (split_d_snd its []) as [Hs1 Hs2].
  unfold exec, exec_phases, run_setup in Hx. fold pr in Hx.
  pose proof (cfg_origin_annT (p_G pr) (p_setup pr) MC true (st0 pr) v0 (RPin p) mo) as HS.
  destruct (run_annT (p_G pr) MC true (st0 pr) (p_setup pr) v0) as [[v t] brk]. unfold tr in HS. cbn [fst snd] in HS.
  assert (HP : forall n v h, In (ECfg (RPin p) mo) (concat (snd (run_passes MC inp pr n v h))) ->
               In (p, mo) (flat_map decl_pin_modes tab)).
  { clear Hx. induction n0 as [|k IHk]; intros v1 h1 H; [destruct H|].
    cbn [run_passes] in H. unfold run_pass in H.
    pose proof (hk_poll_all inp pr (p_polls pr) h1) as Hk.
    destruct (poll_all inp pr (p_polls pr) h1) as [h2 tp]. cbn [snd] in Hk.
    pose proof (cfg_origin_annT (p_G pr) (p_loop pr) MC false (stS pr) v1 (RPin p) mo) as HL.
    destruct (run_annT (p_G pr) MC false (stS pr) (p_loop pr) v1) as [[v2 tb] brk2]. unfold tr in HL. cbn [fst snd] in HL.
    specialize (IHk (drop (p_locals pr) v2) h2).
    destruct (run_passes MC inp pr k (drop (p_locals pr) v2) h2) as [v3 ts]. cbn [snd concat] in *.
    apply in_app_or in H as [H|H]; [|exact (IHk H)].
    apply in_app_or in H as [H|H]; [exfalso; exact (hk_not_cfg _ _ _ Hk H)|].
    apply in_app_or in H as [H|H]; [exfalso; exact (hk_not_cfg _ _ _ (hk_ticks pr) H)|].
    destruct (HL H) as (s & Hs & Ho). apply (Horig s); [|exact Ho].
    apply split_incl. right. change (p_loop pr) with (snd (split_d [] its)) in Hs. rewrite Hs2 in Hs. exact Hs. }
  specialize (HP n v (setup_h inp pr)).
  destruct (run_passes MC inp pr n v _) as [v' tl]. cbn [fst snd] in *.
  apply in_app_or in Hx as [Hx|Hx]; [|exact (HP Hx)].
  apply in_app_or in Hx as [Hx|Hx].
  - destruct (in_hoists pr _ Hx) as [(d0 & Hd0 & He)|(d0 & Hd0 & He)].
    + apply (Hdecl d0); [apply Htop; left; exact Hd0|exact (modes_hoist_setup _ _ _ He)].
    + apply (Hdecl d0); [apply Htop; right; exact Hd0|exact (modes_hoist_loop _ _ _ He)].
  - destruct (HS Hx) as (s & Hs & Ho). apply (Horig s); [|exact Ho].
    apply split_incl. left. change (p_setup pr) with (fst (split_d [] its)) in Hs. rewrite Hs1 in Hs. exact Hs.
Qed.

Lemma configured_before_use : forall inp n its,
  transl_ok its = true -> well_placed its = true ->
  cbu (exec inp n its) = true /\ one_mode (exec inp n its) = true.
Proof.
  intros inp n its Hok Hwp. split; [apply configured_before_use_cbu; assumption|].
  apply one_mode_exec. unfold well_placed in Hwp. apply andb_true_iff in Hwp as [_ H]. exact H.
Qed.

Lemma good_well_placed : well_placed w_good = true /\ transl_ok w_good = true /\
  cbu (exec no_input 2 w_good) = true /\ length (exec no_input 2 w_good) = 16%nat.
Proof. vm_compute. repeat split; reflexivity. Qed.

Definition odd_input : Z -> nat -> bool := fun _ k => Nat.odd k.

Lemma good_housekeeping :
  poll_pins (transl w_good) = [4] /\
  map (firstn 3) (snd (fst (exec_phases odd_input 2 w_good))) =
    [[EPoll 4; EHUse RSer true; EHand 9]; [EPoll 4; EUse (RPin 5) true; EMark 2]].
Proof. vm_compute. split; reflexivity. Qed.

(* ------------------------------------------------------------------ C05: source order, read off the trace *)
Definition marks_of (t : list ev) : list Z := flat_map (fun e => match e with EMark i => [i] | _ => [] end) t.

Lemma marks_app : forall a b, marks_of (a ++ b) = marks_of a ++ marks_of b.
Proof. intros. unfold marks_of. apply flat_map_app. Qed.

Lemma marks_nomark : forall t, (forall i, ~ In (EMark i) t) -> marks_of t = [].
Proof.
  induction t as [|e t IH]; intro H; [reflexivity|]. unfold marks_of in *. cbn [flat_map].
  rewrite IH by (intros i Hi; apply (H i); right; exact Hi).
  destruct e; try reflexivity. exfalso. apply (H id). left. reflexivity.
Qed.

Lemma marks_cu : forall t, forallb is_cfg_or_use t = true -> marks_of t = [].
Proof.
  intros t H. apply marks_nomark. intros i Hi. rewrite forallb_forall in H. specialize (H _ Hi). discriminate.
Qed.

Lemma marks_hk : forall t, forallb is_hk t = true -> marks_of t = [].
Proof.
  intros t H. apply marks_nomark. intros i Hi. rewrite forallb_forall in H. specialize (H _ Hi). discriminate.
Qed.

Lemma marks_flat_stmt : forall s m tab top ins d vs, flat_stmt s = true ->
  marks_of (tr (run_stmt m tab top ins d s vs)) = marks_stmt s.
Proof.
  intros s m tab top ins d vs Hf. destruct s; try discriminate; unfold tr; cbn [run_stmt marks_stmt].
  - cbn [fst snd]. rewrite marks_app, (marks_cu _ (use_cu _ (use_uses tab dev))). reflexivity.
  - cbn [fst snd]. apply marks_cu, cu_inplace.
  - destruct (eval e vs). reflexivity.
  - destruct (vread x vs). cbn [fst snd]. rewrite marks_app, (marks_cu _ (use_cu _ (use_uses tab (Some dev)))). reflexivity.
  - cbn [fst snd]. exact (marks_cu _ (use_cu _ (use_uses tab (Some lcd)))).
  - reflexivity.
Qed.

Lemma marks_flat_ann : forall main ld, base main ld -> forall l m tab ins v,
  forallb flat_stmt (map snd l) = true -> ann_ok main ld l = true ->
  marks_of (tr (run_ann m tab ins l v)) = flat_map marks_stmt (map snd l).
Proof.
  intros main ld Hbase. induction l as [|[d s] r IH]; intros m tab ins v Hf Hok; [reflexivity|].
  cbn [map snd forallb] in Hf. apply andb_true_iff in Hf as [Hf1 Hf2].
  cbn [ann_ok forallb snd] in Hok. apply andb_true_iff in Hok as [Hb1 Hb2]. fold (ann_ok main ld r) in Hb2.
  cbn [run_ann map snd flat_map].
  pose proof (bg_stmt_nobreak s main ld m tab true ins d v Hb1 Hbase) as Hnb.
  pose proof (marks_flat_stmt s m tab true ins d v Hf1) as Hm.
  destruct (run_stmt m tab true ins d s v) as [[v1 t1] b]. cbn [snd] in Hnb. subst b.
  specialize (IH m tab ins v1 Hf2 Hb2). destruct (run_ann m tab ins r v1) as [[v2 t2] b2].
  unfold tr in *. cbn [fst snd] in *. rewrite marks_app, Hm, IH. reflexivity.
Qed.

Lemma marks_flat_annT : forall main ld, base main ld -> forall G l m ins st v,
  forallb flat_stmt (map snd l) = true -> ann_ok main ld l = true ->
  marks_of (tr (run_annT G m ins st l v)) = flat_map marks_stmt (map snd l).
Proof.
  intros main ld Hbase G. induction l as [|[d s] r IH]; intros m ins st v Hf Hok; [reflexivity|].
  cbn [map snd forallb] in Hf. apply andb_true_iff in Hf as [Hf1 Hf2].
  cbn [ann_ok forallb snd] in Hok. apply andb_true_iff in Hok as [Hb1 Hb2]. fold (ann_ok main ld r) in Hb2.
  cbn [run_annT map snd flat_map].
  assert (Hnb : snd (top_ev m ins st d s v) = false).
  { destruct s; first [reflexivity | exact (bg_stmt_nobreak _ main ld m (ts_tab st) true ins d v Hb1 Hbase)]. }
  assert (Hm : marks_of (tr (top_ev m ins st d s v)) = marks_stmt s).
  { destruct s; try exact (marks_flat_stmt _ m (ts_tab st) true ins d v Hf1).
    unfold tr. cbn [top_ev fst snd marks_stmt]. apply marks_cu, cu_inplaceD. }
  destruct (top_ev m ins st d s v) as [[v1 t1] b]. cbn [snd] in Hnb. subst b.
  specialize (IH m ins (adv G ins st s) v1 Hf2 Hb2). destruct (run_annT G m ins (adv G ins st s) r v1) as [[v2 t2] b2].
  unfold tr in *. cbn [fst snd] in *. rewrite marks_app, Hm, IH. reflexivity.
Qed.

(* straight-line prologue / body: the numbered statements appear exactly once per execution, in source order *)
Lemma source_order : forall inp n its, transl_ok its = true ->
  (forallb flat_stmt (fst (split its)) = true ->
     marks_of (fst (fst (exec_phases inp n its))) = flat_map marks_stmt (fst (split its))) /\
  (forallb flat_stmt (snd (split its)) = true ->
     Forall (fun t => marks_of t = flat_map marks_stmt (snd (split its))) (snd (fst (exec_phases inp n its)))).
Proof.
  intros inp n its Hok. destruct (transl_ok_split its [] Hok) as [Hoks Hokl].
  destruct (split_d_snd its []) as [Hs1 Hs2]. set (p := transl its).
  assert (Hps : map snd (p_setup p) = fst (split its)) by exact Hs1.
  assert (Hpl : map snd (p_loop p) = snd (split its)) by exact Hs2.
  unfold exec_phases, run_setup. fold p. split; intro Hf.
  - pose proof (marks_flat_annT false 0 base_setup (p_G p) (p_setup p) MC true (st0 p) v0) as HM.
    rewrite Hps in HM. specialize (HM Hf Hoks).
    destruct (run_annT (p_G p) MC true (st0 p) (p_setup p) v0) as [[v t] brk].
    destruct (run_passes MC inp p n v _) as [v' tl]. unfold tr in HM. cbn [fst snd] in *.
    rewrite marks_app, HM, (marks_cu (hoists p) (cu_hoists p)). reflexivity.
  - destruct (run_annT (p_G p) MC true (st0 p) (p_setup p) v0) as [[v t] brk].
    generalize (setup_h inp p). revert v.
    induction n as [|k IHk]; intros v h; [constructor|].
    cbn [run_passes]. unfold run_pass.
    pose proof (hk_poll_all inp p (p_polls p) h) as Hk.
    destruct (poll_all inp p (p_polls p) h) as [h1 tp]. cbn [snd] in Hk.
    pose proof (marks_flat_annT true 1 base_main (p_G p) (p_loop p) MC false (stS p) v) as HM.
    rewrite Hpl in HM. specialize (HM Hf Hokl).
    destruct (run_annT (p_G p) MC false (stS p) (p_loop p) v) as [[v1 tb] brk1]. unfold tr in HM. cbn [fst snd] in HM.
    specialize (IHk (drop (p_locals p) v1) h1).
    destruct (run_passes MC inp p k (drop (p_locals p) v1) h1) as [v2 ts]. cbn [fst snd] in *.
    constructor; [|exact IHk].
    rewrite !marks_app, (marks_hk _ Hk), (marks_hk _ (hk_ticks p)), HM. reflexivity.
Qed.

Definition w_straight : list item :=
  [IStmt (SDecl d_mon); IStmt (SMark 1 (Some n_mon)); IStmt (SMark 3 None);
   IMainLoop [SMark 2 (Some n_mon); SMark 4 None]].

Lemma source_order_example :
  transl_ok w_straight = true /\
  marks_of (fst (fst (exec_phases no_input 2 w_straight))) = [1; 3] /\
  map marks_of (snd (fst (exec_phases no_input 2 w_straight))) = [[2; 4]; [2; 4]].
Proof. vm_compute. repeat split; reflexivity. Qed.

(* ------------------------------------------------------------------ C05: names first assigned inside the main loop *)
Lemma name_eqb_sym : forall a b, name_eqb a b = name_eqb b a.
Proof.
  induction a as [|x a IH]; intros [|y b]; try reflexivity. cbn [name_eqb]. rewrite (Z.eqb_sym x y), IH. reflexivity.
Qed.

(* mon = SerialMonitor(9600); g = 0
   while True:
       t0 = g + 1; g = t0 + 1; mon.write(t0)         t0 is first assigned at the body level of the main loop: a global *)
Definition n_t0 : name := [116; 48].
Definition w_local_ok : list item :=
  [IStmt (SDecl d_mon); IStmt (SSet n_g (RConst 0));
   IMainLoop [SSet n_t0 (RAdd n_g 1); SSet n_g (RAdd n_t0 1); SShow n_mon n_t0]].

Lemma local_ok_example :
  transl_ok w_local_ok = true /\ globals_of w_local_ok = [n_g; n_t0] /\ locals_of w_local_ok = [] /\
  ir_loop w_local_ok = [NVarAssign n_t0; NVarAssign n_g; NShow n_t0] /\
  py_exec 3 w_local_ok = [EVal n_t0 1; EVal n_t0 3; EVal n_t0 5] /\
  obs (exec no_input 3 w_local_ok) = py_exec 3 w_local_ok.
Proof. vm_compute. repeat split; reflexivity. Qed.

(* ------------------------------------------------------------------ the IR placement keeps every statement, once, in order *)
Definition setup_part (it : item) : list stmt := match it with IStmt s => [s] | _ => [] end.
Definition loop_part (it : item) : list stmt := match it with IMainLoop b => b | _ => [] end.

Lemma split_partition : forall its,
  fst (split its) = flat_map setup_part its /\ snd (split its) = flat_map loop_part its.
Proof.
  induction its as [|it r [IH1 IH2]]; [split; reflexivity|].
  destruct it as [s|b|f b]; cbn [split flat_map setup_part loop_part]; destruct (split r) as [a c]; cbn [fst snd app] in *;
    subst; split; reflexivity.
Qed.

Lemma marks_prom : forall top ins nn, flat_map marks_irn (prom top ins nn) = [].
Proof.
  reflexivity.
Qed.

Lemma marks_ir_list : forall l,
  Forall (fun s => forall top ins d, flat_map marks_irn (ir_stmt top ins d s) = marks_stmt s) l ->
  forall top ins d, flat_map marks_irn (ir_list top ins d l) = flat_map marks_stmt l.
Proof.
  intros l HF. induction HF as [|s r Hs _ IH]; intros top ins d; [reflexivity|].
  cbn [ir_list flat_map]. rewrite flat_map_app, Hs, IH. reflexivity.
Qed.

Lemma ir_block_eq : forall ins l d,
  (fix go (d : list name) (l : list stmt) : list irn :=
     match l with
     | [] => []
     | s1 :: r => ir_stmt false ins d s1 ++ go (d ++ assigned_stmt s1) r
     end) d l = ir_list false ins d l.
Proof. intros ins l. induction l as [|s r IH]; intro d; [reflexivity|]. cbn [ir_list]. rewrite IH. reflexivity. Qed.

Lemma marks_ir_stmt : forall s top ins d, flat_map marks_irn (ir_stmt top ins d s) = marks_stmt s.
Proof.
  intro s. induction s as [id dev|dd|x e|dv x|l| |x b el IHb IHe|c b IHb|x b IHb|b h IHb IHh] using stmt_ind';
    intros top ins d; try reflexivity.
  - cbn [ir_stmt marks_stmt]. destruct (mem_name x d); [reflexivity|]. destruct (top && ins).
    + destruct e; reflexivity.
    + reflexivity.
  - cbn [ir_stmt marks_stmt]. rewrite flat_map_app, marks_prom, !ir_block_eq. cbn [app flat_map marks_irn].
    rewrite app_nil_r. f_equal; apply marks_ir_list; assumption.
  - cbn [ir_stmt marks_stmt]. rewrite flat_map_app, marks_prom, ir_block_eq. cbn [app flat_map marks_irn].
    rewrite app_nil_r. apply marks_ir_list. exact IHb.
  - cbn [ir_stmt marks_stmt]. rewrite flat_map_app, marks_prom, ir_block_eq. cbn [app flat_map marks_irn].
    rewrite app_nil_r. apply marks_ir_list. exact IHb.
  - cbn [ir_stmt marks_stmt]. rewrite flat_map_app, marks_prom, !ir_block_eq. cbn [app flat_map marks_irn].
    rewrite app_nil_r. f_equal; apply marks_ir_list; assumption.
Qed.

Lemma marks_ir_items : forall its d,
  flat_map marks_irn (fst (ir_items d its)) = flat_map marks_stmt (fst (split its)) /\
  flat_map marks_irn (snd (ir_items d its)) = flat_map marks_stmt (snd (split its)).
Proof.
  induction its as [|it r IH]; intro d; [split; reflexivity|]. destruct it as [s|b|f b].
  - cbn [ir_items split]. specialize (IH (d ++ assigned_stmt s)).
    destruct (ir_items (d ++ assigned_stmt s) r) as [a c]. destruct (split r) as [a' c']. cbn [fst snd] in *.
    destruct IH as [IH1 IH2]. split; [|exact IH2]. cbn [flat_map]. rewrite flat_map_app, marks_ir_stmt, IH1. reflexivity.
  - cbn [ir_items split]. specialize (IH (d ++ flat_map assigned_stmt b)).
    destruct (ir_items (d ++ flat_map assigned_stmt b) r) as [a c]. destruct (split r) as [a' c']. cbn [fst snd] in *.
    destruct IH as [IH1 IH2]. split; [exact IH1|]. rewrite !flat_map_app, IH2. f_equal.
    apply marks_ir_list. apply Forall_forall. intros s _. apply marks_ir_stmt.
  - cbn [ir_items split]. apply IH.
Qed.

Lemma ir_placement : forall its,
  flat_map marks_irn (ir_setup its) = flat_map marks_stmt (flat_map setup_part its) /\
  flat_map marks_irn (ir_loop its) = flat_map marks_stmt (flat_map loop_part its) /\
  exists user, ir_loop its = map NPoll (poll_names its) ++ map NTick (tick_names its) ++ user /\
               Forall (fun n => match n with NPoll _ | NTick _ => False | _ => True end) user.
Proof.
  intro its. destruct (marks_ir_items its []) as [H1 H2]. destruct (split_partition its) as [P1 P2].
  unfold ir_setup, ir_loop. rewrite <- P1, <- P2. split; [exact H1|]. split.
  - rewrite !flat_map_app, H2.
    assert (Hp : forall l, flat_map marks_irn (map NPoll l) = []) by (induction l as [|x r IH]; [reflexivity|exact IH]).
    assert (Ht : forall l, flat_map marks_irn (map NTick l) = []) by (induction l as [|x r IH]; [reflexivity|exact IH]).
    rewrite Hp, Ht. reflexivity.
  - exists (snd (ir_items [] its)). split; [reflexivity|].
    assert (HS : forall s top ins d, Forall (fun n => match n with NPoll _ | NTick _ => False | _ => True end) (ir_stmt top ins d s)).
    { intros s top ins d. destruct s; cbn [ir_stmt]; repeat constructor.
      1: { destruct (mem_name x d); [repeat constructor|]. destruct (top && ins); [destruct e; repeat constructor|].
           repeat constructor. }
      all: apply Forall_app; (split; [|repeat constructor]); unfold prom; constructor. }
    assert (HL : forall l top ins d, Forall (fun n => match n with NPoll _ | NTick _ => False | _ => True end) (ir_list top ins d l)).
    { induction l as [|s r IH]; intros top ins d; [constructor|]. cbn [ir_list]. apply Forall_app. split; [apply HS|apply IH]. }
    clear H1 H2 P1 P2. generalize (@nil name). induction its as [|it r IH]; intro d; [constructor|]. destruct it as [s|b|f b]; cbn [ir_items].
    + specialize (IH (d ++ assigned_stmt s)). destruct (ir_items (d ++ assigned_stmt s) r) as [a c]. exact IH.
    + specialize (IH (d ++ flat_map assigned_stmt b)). destruct (ir_items (d ++ flat_map assigned_stmt b) r) as [a c].
      cbn [snd] in *. apply Forall_app. split; [apply HL|exact IH].
    + apply IH.
Qed.

(* ------------------------------------------------------------------ every top-level button is polled, once *)
Lemma mem_cons : forall x a l, mem_name x (a :: l) = name_eqb x a || mem_name x l.
Proof. reflexivity. Qed.

Lemma mem_insert : forall x y l, mem_name x (insert_name y l) = name_eqb x y || mem_name x l.
Proof.
  intros x y l. induction l as [|a r IH]; [reflexivity|]. cbn [insert_name].
  destruct (name_leb y a); [reflexivity|]. rewrite mem_cons, IH, !mem_cons.
  destruct (name_eqb x a), (name_eqb x y); reflexivity.
Qed.

Lemma mem_sort : forall x l, mem_name x (sort_names l) = mem_name x l.
Proof.
  intros x l. induction l as [|a r IH]; [reflexivity|]. unfold sort_names in *. cbn [fold_right].
  rewrite mem_insert, IH. reflexivity.
Qed.

Lemma mem_dedup : forall x l, mem_name x (dedup l) = mem_name x l.
Proof.
  intros x l. induction l as [|a r IH]; [reflexivity|]. cbn [dedup]. destruct (mem_name a r) eqn:E.
  - rewrite IH, mem_cons. destruct (name_eqb x a) eqn:E1; [|reflexivity].
    apply name_eqb_eq in E1. subst x. rewrite E. reflexivity.
  - rewrite !mem_cons, IH. reflexivity.
Qed.

Lemma nodup_insert : forall y l, nodup_names l = true -> mem_name y l = false -> nodup_names (insert_name y l) = true.
Proof.
  intros y l. induction l as [|a r IH]; intros Hn Hm; [reflexivity|]. cbn [insert_name].
  destruct (name_leb y a).
  - cbn [nodup_names]. rewrite Hm. exact Hn.
  - cbn [nodup_names] in *. apply andb_true_iff in Hn as [H1 H2]. rewrite mem_cons in Hm.
    apply orb_false_iff in Hm as [Hm1 Hm2]. rewrite mem_insert, (IH H2 Hm2), andb_true_r.
    rewrite name_eqb_sym, Hm1. exact H1.
Qed.

Lemma nodup_sort : forall l, nodup_names l = true -> nodup_names (sort_names l) = true.
Proof.
  induction l as [|a r IH]; intro Hn; [reflexivity|]. cbn [nodup_names] in Hn. apply andb_true_iff in Hn as [H1 H2].
  unfold sort_names in *. cbn [fold_right]. apply nodup_insert; [apply IH; exact H2|].
  fold (sort_names r). rewrite mem_sort. apply negb_true_iff. exact H1.
Qed.

Lemma nodup_dedup : forall l, nodup_names (dedup l) = true.
Proof.
  induction l as [|a r IH]; [reflexivity|]. cbn [dedup]. destruct (mem_name a r) eqn:E; [exact IH|].
  cbn [nodup_names]. rewrite mem_dedup, E, IH. reflexivity.
Qed.

Lemma nodup_sorted_set : forall l, nodup_names (sorted_set l) = true.
Proof. intro l. unfold sorted_set. apply nodup_sort, nodup_dedup. Qed.

Lemma mem_sorted_set : forall x l, mem_name x (sorted_set l) = mem_name x l.
Proof. intros. unfold sorted_set. rewrite mem_sort, mem_dedup. reflexivity. Qed.

Lemma mem_name_of_in : forall x l, In x l -> mem_name x l = true.
Proof.
  intros x l H. unfold mem_name. apply existsb_exists. exists x. split; [exact H|apply name_eqb_refl].
Qed.

Lemma every_button_polled : forall its,
  nodup_names (p_polls (transl its)) = true /\ nodup_names (p_ticks (transl its)) = true /\
  (nodup_names (map d_name (p_tab (transl its))) = true ->
   forall d pin r, In d (p_top_setup (transl its) ++ p_top_loop (transl its)) -> is_button d = true ->
     d_pins d = pin :: r ->
     mem_name (d_name d) (p_polls (transl its)) = true /\ pin_of (transl its) (d_name d) = [pin]).
Proof.
  intro its. set (p := transl its). split; [apply nodup_sorted_set|]. split; [apply nodup_sorted_set|].
  intros Hnd d pin r Hd Hb Hpins.
  assert (Hintab : forall d0, In d0 (p_top_setup p ++ p_top_loop p) -> In d0 (p_tab p)).
  { intros d0 H0. change (p_tab p) with (flat_map decls_stmt (all_stmts its)).
    apply in_flat_map. exists (SDecl d0). split; [|left; reflexivity].
    apply split_incl. apply in_app_or in H0 as [H0|H0]; [left|right]; apply top_decl_in; exact H0. }
  split.
  - change (p_polls p) with (poll_names its). unfold poll_names. rewrite mem_sorted_set.
    apply mem_name_of_in. apply in_map. apply filter_In. split; [|exact Hb]. exact (Hintab d Hd).
  - unfold pin_of, button_decl.
    destruct (find_decl (d_name d) (filter is_button (rev (p_top_setup p ++ p_top_loop p)))) as [d'|] eqn:E.
    + apply find_decl_some in E as [E1 E2]. apply filter_In in E1 as [E1 _]. apply in_rev in E1. apply name_eqb_eq in E2.
      pose proof (find_decl_unique (p_tab p) d Hnd (Hintab d Hd)) as U1.
      pose proof (find_decl_unique (p_tab p) d' Hnd (Hintab d' E1)) as U2.
      rewrite <- E2, U1 in U2. inversion U2; subst d'. rewrite Hpins. reflexivity.
    + exfalso. assert (Hin : In d (filter is_button (rev (p_top_setup p ++ p_top_loop p))))
        by (apply filter_In; split; [apply -> in_rev; exact Hd|exact Hb]).
      clear -E Hin. induction (filter is_button (rev (p_top_setup p ++ p_top_loop p))) as [|d0 l IH]; [destruct Hin|].
      cbn [find_decl] in E. destruct (name_eqb (d_name d) (d_name d0)) eqn:E0; [discriminate|].
      destruct Hin as [->|Hin]; [rewrite name_eqb_refl in E0; discriminate|exact (IH E Hin)].
Qed.

(* ------------------------------------------------------------------ re-bound device names *)
Definition n_us : name := [117; 115].
Definition n_sv : name := [115; 118].

(* led = Led(5); led.on()                     inside the guard: the loop-top declaration's pinMode(6) is hoisted
   while True: led = Led(6); led.toggle()                                                           *)
Definition w_rebound_led : list item :=
  [IStmt (SDecl d_mon); IStmt (SDecl (mkDecl KLed n_led [5] None)); IStmt (SMark 1 (Some n_led));
   IMainLoop [SDecl (mkDecl KLed n_led [6] None); SMark 2 (Some n_led)]].

(* sv = Servo(9); while True: sv = Servo(10); sv.write(..): one Servo object per name, attached to pin 9 *)
Definition w_rebound_servo : list item :=
  [IStmt (SDecl d_mon); IStmt (SDecl (mkDecl KServo n_sv [9] None));
   IMainLoop [SDecl (mkDecl KServo n_sv [10] None); SMark 2 (Some n_sv)]].

(* btn = Button(5); btn = Button(8); while True: ...      digitalRead(8) every pass, pinMode(8) never *)
Definition w_rebound_button : list item :=
  [IStmt (SDecl d_mon); IStmt (SDecl (mkDecl KButton n_btn [5] None)); IStmt (SDecl (mkDecl KButton n_btn [8] None));
   IMainLoop [SMark 1 (Some n_mon)]].

(* us = Ultrasonic(5, 6); mon.write(us.measure_distance()); us = Ultrasonic(8, 9); while True: ...
   the helper is generated once per name from the last declaration: the first measurement drives pin 8
   before pinMode(8, OUTPUT) *)
Definition w_rebound_ultra : list item :=
  [IStmt (SDecl d_mon); IStmt (SDecl (mkDecl KUltra n_us [5; 6] None)); IStmt (SMark 1 (Some n_us));
   IStmt (SDecl (mkDecl KUltra n_us [8; 9] None)); IMainLoop [SMark 2 (Some n_us)]].

Lemma rebound_examples :
  (well_placed w_rebound_led = true /\ transl_ok w_rebound_led = true /\ well_placed_unique w_rebound_led = false /\
   exec no_input 1 w_rebound_led =
     [ECfg (RPin 6) 1; ECfg RSer 0; ECfg (RPin 5) 1; EUse (RPin 5) true; EMark 1; EUse (RPin 6) true; EMark 2]) /\
  (well_placed w_rebound_servo = true /\
   exec no_input 1 w_rebound_servo =
     [ECfg (RServo 9) 0; EUse (RServo 9) true; ECfg RSer 0; EUse (RServo 9) true; EMark 2]).
Proof. vm_compute. repeat split; reflexivity. Qed.

Lemma button_rebound_refuted_ex : exists its inp n,
  transl_ok its = true /\ one_main_last its = true /\ forallb nested_decl_free (all_stmts its) = true /\
  well_placed its = false /\ cbu (exec inp n its) = false.
Proof. exists w_rebound_button, no_input, 1%nat. vm_compute. repeat split; reflexivity. Qed.

Lemma ultra_rebound_refuted_ex : exists its inp n,
  transl_ok its = true /\ one_main_last its = true /\ forallb nested_decl_free (all_stmts its) = true /\
  well_placed its = false /\ cbu (exec inp n its) = false.
Proof. exists w_rebound_ultra, no_input, 0%nat. vm_compute. repeat split; reflexivity. Qed.

(* ------------------------------------------------------------------ loop-top Buttons (emitter.py since 97f26e6) *)
(* a Button declared at the top of the main-loop body is configured and sampled in setup() exactly like one declared
   before the loop: same hoisted block; and with the dedup sets, whenever the name has not had its start-up sample
   yet the sample is emitted, after the pinMode line if that is new, and the name is entered in button_init_emitted *)
Lemma looptop_button_hoist : forall d, d_kind d = KButton -> hoist_loop d = hoist_setup d.
Proof. intros [k nm pins h] Hk. cbn [d_kind] in Hk. subst k. reflexivity. Qed.

Lemma looptop_button_sampled : forall nm pin r h seen,
  kmem (nm, 0, 70) seen = false -> pin <> 0 ->
  let d := mkDecl KButton nm (pin :: r) h in
  exists t, fst (hoist_loopD d seen) = t ++ [EUse (RPin pin) false] /\
            (t = [] \/ t = [ECfg (RPin pin) 2]) /\
            (kmem (nm, pin, 30) seen = false -> t = [ECfg (RPin pin) 2]) /\
            kmem (nm, 0, 70) (snd (hoist_loopD d seen)) = true /\
            fst (hoist_loopD d (snd (hoist_loopD d seen))) = [].
Proof.
  intros nm pin r h seen H70 Hpin d. unfold d, hoist_loopD. cbn [d_kind d_pins d_name pm_dedup].
  assert (Hne : forall s, kmem (nm, 0, 70) ((nm, pin, 30) :: s) = kmem (nm, 0, 70) s).
  { intro s. unfold kmem. cbn [existsb]. unfold key_eqb at 1. cbn [fst snd].
    replace (0 =? pin) with false by (symmetry; apply Z.eqb_neq; intro E; apply Hpin; symmetry; exact E).
    rewrite andb_false_r. reflexivity. }
  assert (Hself : forall s, kmem (nm, 0, 70) ((nm, 0, 70) :: s) = true).
  { intro s. unfold kmem. cbn [existsb]. unfold key_eqb at 1. cbn [fst snd]. rewrite name_eqb_refl. reflexivity. }
  assert (H30 : forall s, kmem (nm, pin, 30) ((nm, 0, 70) :: s) = kmem (nm, pin, 30) s).
  { intro s. unfold kmem. cbn [existsb]. unfold key_eqb at 1. cbn [fst snd]. rewrite andb_false_r. reflexivity. }
  assert (H30self : forall s, kmem (nm, pin, 30) ((nm, pin, 30) :: s) = true).
  { intro s. unfold kmem. cbn [existsb]. unfold key_eqb at 1. cbn [fst snd]. rewrite name_eqb_refl, Z.eqb_refl. reflexivity. }
  destruct (kmem (nm, pin, 30) seen) eqn:E30.
  - rewrite H70. cbn [fst snd]. exists []. repeat split.
    + left. reflexivity.
    + intro Hc. discriminate Hc.
    + apply Hself.
    + rewrite H30, E30, Hself. reflexivity.
  - rewrite Hne, H70. cbn [fst snd]. exists [ECfg (RPin pin) 2]. repeat split.
    + right. reflexivity.
    + apply Hself.
    + rewrite H30, H30self, Hself. reflexivity.
Qed.

(* def f(): mon.write("m9")
   while True: btn = Button(4, on_click=f); mon.write("m2")        the pin is HIGH from power-up on *)
Definition w_looptop_button : list item :=
  [IStmt (SDecl d_mon); IFunc n_f [SMark 9 (Some n_mon)];
   IMainLoop [SDecl (mkDecl KButton n_btn [4] (Some n_f)); SMark 2 (Some n_mon)]].

Definition high_input : Z -> nat -> bool := fun _ _ => true.
Definition rising_input : Z -> nat -> bool := fun _ k => negb (Nat.eqb k 0).

(* setup() configures and samples the pin; a level that is HIGH from the start is no click, a level that rises after the
   start-up sample is one click, in the first pass *)
Lemma looptop_button_example :
  well_placed w_looptop_button = true /\ transl_ok w_looptop_button = true /\
  exec_phases high_input 2 w_looptop_button =
    ([ECfg (RPin 4) 2; EUse (RPin 4) false; ECfg RSer 0],
     [[EPoll 4; EUse RSer true; EMark 2]; [EPoll 4; EUse RSer true; EMark 2]], false) /\
  snd (fst (exec_phases rising_input 2 w_looptop_button)) =
     [[EPoll 4; EHUse RSer true; EHand 9; EUse RSer true; EMark 2]; [EPoll 4; EUse RSer true; EMark 2]].
Proof. vm_compute. repeat split; reflexivity. Qed.

(* ------------------------------------------------------------------ names bound inside a prologue block; breaks in handlers *)
Definition n_step : name := [115; 116; 101; 112].
Definition n_total : name := [116; 111; 116; 97; 108].
Definition n_q : name := [113].
Definition n_w : name := [119].
Definition n_n : name := [110].

(* mon = SerialMonitor(9600); flag = 0; n = 2
   if flag: step = 10 / else: step = 20
   for _ in range(4): total = 2
   while n: n = n - 1; w = 7
   try: q = 5 / except: q = 6
   while True: total = total + 1; step = step + 1; w = w + 1; q = q + 1; mon.write(total/step/w/q) *)
Definition w_promoted : list item :=
  [IStmt (SDecl d_mon); IStmt (SSet n_flag (RConst 0)); IStmt (SSet n_n (RConst 2));
   IStmt (SIf n_flag [SSet n_step (RConst 10)] [SSet n_step (RConst 20)]);
   IStmt (SFor 4 [SSet n_total (RConst 2)]);
   IStmt (SWhile n_n [SSet n_n (RAdd n_n (-1)); SSet n_w (RConst 7)]);
   IStmt (STry [SSet n_q (RConst 5)] [SSet n_q (RConst 6)]);
   IMainLoop [SSet n_total (RAdd n_total 1); SSet n_step (RAdd n_step 1); SSet n_w (RAdd n_w 1); SSet n_q (RAdd n_q 1);
              SShow n_mon n_total; SShow n_mon n_step; SShow n_mon n_w; SShow n_mon n_q]].

Lemma promoted_example :
  transl_ok w_promoted = true /\
  one_main_last w_promoted = true /\
  globals_of w_promoted = [n_flag; n_n; n_step; n_total; n_w; n_q] /\ locals_of w_promoted = [] /\
  ir_loop w_promoted = [NVarAssign n_total; NVarAssign n_step; NVarAssign n_w; NVarAssign n_q;
                        NShow n_total; NShow n_step; NShow n_w; NShow n_q] /\
  py_exec 2 w_promoted = [EVal n_total 3; EVal n_step 21; EVal n_w 8; EVal n_q 6;
                          EVal n_total 4; EVal n_step 22; EVal n_w 9; EVal n_q 7] /\
  obs (exec no_input 2 w_promoted) = py_exec 2 w_promoted.
Proof. vm_compute. repeat split; reflexivity. Qed.

Lemma break_handler_examples :
  transl_ok [IMainLoop [STry [SMark 1 None] [SBreak]]] = false /\
  transl_ok [IMainLoop [STry [SMark 1 None] [SIf n_flag [SMark 2 None] [SBreak]]]] = false /\
  transl_ok [IMainLoop [STry [SBreak] [SMark 1 None]]] = false /\
  transl_ok [IMainLoop [SIf n_flag [SMark 1 None] [SBreak]]] = false /\
  transl_ok [IMainLoop [SFor 2 [STry [SMark 1 None] [SBreak]]]] = true /\
  transl_ok [IMainLoop [SWhile n_flag [STry [SMark 1 None] [SIf n_flag [] [SBreak]]]]] = true /\
  transl_ok [IStmt (STry [SMark 1 None] [SBreak])] = false /\
  transl_ok [IStmt (SWhile n_flag [STry [SMark 1 None] [SBreak]])] = true.
Proof. repeat split; reflexivity. Qed.

(* ------------------------------------------------------------------ a name bound anywhere in the prologue is never
   re-declared in loop() *)
Lemma fresh_not_mem : forall l d x, mem_name x d = true -> mem_name x (fresh d l) = false.
Proof.
  induction l as [|a r IH]; intros d x H; cbn [fresh]; [reflexivity|].
  destruct (mem_name a d) eqn:E; [apply IH; exact H|].
  rewrite mem_cons. destruct (name_eqb x a) eqn:F.
  - apply name_eqb_eq in F. subst a. congruence.
  - cbn [orb]. apply IH. rewrite mem_cons, H. apply orb_true_r.
Qed.

Lemma mem_fresh : forall l d x, mem_name x (d ++ fresh d l) = mem_name x (d ++ l).
Proof.
  induction l as [|a r IH]; intros d x; cbn [fresh]; [reflexivity|].
  destruct (mem_name a d) eqn:E.
  - rewrite IH, !mem_name_app, mem_cons. destruct (name_eqb x a) eqn:F; [|reflexivity].
    apply name_eqb_eq in F. subst a. rewrite E. reflexivity.
  - pose proof (IH (a :: d) x) as H. cbn [app] in H. rewrite !mem_cons, !mem_name_app in H.
    rewrite !mem_name_app, !mem_cons.
    destruct (mem_name x d), (name_eqb x a), (mem_name x (fresh (a :: d) r)), (mem_name x r); cbn in *; congruence.
Qed.

(* ------------------------------------------------------------------ no name is declared inside setup() / loop() *)
Lemma vardecls_ir_list : forall l,
  Forall (fun s => forall top ins d, flat_map vardecls_irn (ir_stmt top ins d s) = []) l ->
  forall top ins d, flat_map vardecls_irn (ir_list top ins d l) = [].
Proof.
  intros l HF. induction HF as [|s r Hs _ IH]; intros top ins d; [reflexivity|].
  cbn [ir_list]. rewrite flat_map_app, Hs, IH. reflexivity.
Qed.

Lemma vardecls_ir_stmt : forall s top ins d, flat_map vardecls_irn (ir_stmt top ins d s) = [].
Proof.
  intro s. induction s as [id dev|dd|y e|dv y|l| |y b el IHb IHe|c b IHb|y b IHb|b h IHb IHh] using stmt_ind';
    intros top ins d; try reflexivity.
  - cbn [ir_stmt]. destruct (mem_name y d); [reflexivity|]. destruct (top && ins); [destruct e; reflexivity|reflexivity].
  - cbn [ir_stmt prom app flat_map vardecls_irn]. rewrite app_nil_r, !ir_block_eq.
    rewrite (vardecls_ir_list b IHb), (vardecls_ir_list el IHe). reflexivity.
  - cbn [ir_stmt prom app flat_map vardecls_irn]. rewrite app_nil_r, !ir_block_eq. exact (vardecls_ir_list b IHb false ins d).
  - cbn [ir_stmt prom app flat_map vardecls_irn]. rewrite app_nil_r, !ir_block_eq. exact (vardecls_ir_list b IHb false ins d).
  - cbn [ir_stmt prom app flat_map vardecls_irn]. rewrite app_nil_r, !ir_block_eq.
    rewrite (vardecls_ir_list b IHb), (vardecls_ir_list h IHh). reflexivity.
Qed.

Lemma vardecls_ir_items : forall its d,
  flat_map vardecls_irn (fst (ir_items d its)) = [] /\ flat_map vardecls_irn (snd (ir_items d its)) = [].
Proof.
  induction its as [|it r IH]; intro d; [split; reflexivity|]. destruct it as [s|b|f b]; cbn [ir_items].
  - specialize (IH (d ++ assigned_stmt s)). destruct (ir_items (d ++ assigned_stmt s) r) as [a c]. cbn [fst snd] in *.
    destruct IH as [IH1 IH2]. split; [|exact IH2]. rewrite flat_map_app, vardecls_ir_stmt, IH1. reflexivity.
  - specialize (IH (d ++ flat_map assigned_stmt b)). destruct (ir_items (d ++ flat_map assigned_stmt b) r) as [a c].
    cbn [fst snd] in *. destruct IH as [IH1 IH2]. split; [exact IH1|]. rewrite flat_map_app, IH2, app_nil_r.
    apply vardecls_ir_list. apply Forall_forall. intros s _. apply vardecls_ir_stmt.
  - apply IH.
Qed.

Lemma no_vardecl_nodes : forall its,
  flat_map vardecls_irn (ir_setup its) = [] /\ flat_map vardecls_irn (ir_loop its) = [] /\ locals_of its = [].
Proof.
  intro its. destruct (vardecls_ir_items its []) as [H1 H2]. split; [exact H1|]. split; [|apply no_locals].
  unfold ir_loop. rewrite !flat_map_app, H2.
  assert (Hp : forall l, flat_map vardecls_irn (map NPoll l) = []) by (induction l as [|y r IH]; [reflexivity|exact IH]).
  assert (Ht : forall l, flat_map vardecls_irn (map NTick l) = []) by (induction l as [|y r IH]; [reflexivity|exact IH]).
  rewrite Hp, Ht. reflexivity.
Qed.

Lemma prologue_names_global : forall its x,
  mem_name x (flat_map vardecls_irn (ir_loop its)) = false /\ mem_name x (locals_of its) = false.
Proof.
  intros its x. destruct (no_vardecl_nodes its) as (_ & H2 & H3). rewrite H2, H3. split; reflexivity.
Qed.

(* every assigned name - in the prologue or inside [while True:], at any depth - is a sketch global *)
Lemma globals_all : forall its d x,
  mem_name x (d ++ fst (classify d its)) =
  mem_name x (d ++ flat_map assigned_stmt (fst (split its)) ++ flat_map assigned_stmt (snd (split its))).
Proof.
  induction its as [|it r IH]; intros d x; [reflexivity|]. destruct it as [s|b|f b]; cbn [classify split].
  - specialize (IH (d ++ fresh d (assigned_stmt s)) x).
    destruct (classify (d ++ fresh d (assigned_stmt s)) r) as [g l]. destruct (split r) as [a c]. cbn [fst snd flat_map] in *.
    rewrite app_assoc, IH. rewrite !mem_name_app. rewrite <- (mem_name_app x d (fresh d (assigned_stmt s))), mem_fresh, !mem_name_app.
    rewrite !orb_assoc. reflexivity.
  - specialize (IH (d ++ fresh d (flat_map assigned_stmt b)) x).
    destruct (classify (d ++ fresh d (flat_map assigned_stmt b)) r) as [g l]. destruct (split r) as [a c]. cbn [fst snd] in *.
    rewrite app_assoc, IH. rewrite !flat_map_app, !mem_name_app.
    rewrite <- (mem_name_app x d (fresh d (flat_map assigned_stmt b))), mem_fresh, !mem_name_app.
    destruct (mem_name x d), (mem_name x (flat_map assigned_stmt b)), (mem_name x (flat_map assigned_stmt a)),
      (mem_name x (flat_map assigned_stmt c)); reflexivity.
  - apply IH.
Qed.

Lemma assigned_names_global : forall its x,
  mem_name x (globals_of its) = mem_name x (flat_map assigned_stmt (fst (split its) ++ snd (split its))).
Proof. intros its x. unfold globals_of. rewrite flat_map_app. exact (globals_all its [] x). Qed.
