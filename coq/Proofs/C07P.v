(* C07: concrete witnesses (the _refuted half, and the former witnesses of the repaired comment
   defects, which now parse like their comment-free versions) and the finite dispatch-table facts. *)
From Coq Require Import ZArith List Bool Lia Arith.
From RV Require Import Base.Wire Base.Text Lang.Lex Lang.PyLayout Lang.Layout Lang.DispatchSpec Lang.TopFlow Gen.Dispatch.
From RV Require Import Proofs.LexP Proofs.RoundTripP.
Import ListNotations.
Open Scope Z_scope.

(* ================================================================ witnesses *)

Definition w_col0 : list text :=
  [[119;104;105;108;101;32;120;32;60;32;51;58]  (* 'while x < 3:' *);
   [32;32;32;32;97;32;61;32;49]  (* '    a = 1' *);
   [35;32;110;111;116;101]  (* '# note' *);
   [32;32;32;32;98;32;61;32;50]  (* '    b = 2' *);
   [99;32;61;32;51]  (* 'c = 3' *)].
Definition w_hdr_comment : list text :=
  [[119;104;105;108;101;32;84;114;117;101;58;32;32;35;32;109;97;105;110;32;108;111;111;112]  (* 'while True:  # main loop' *);
   [32;32;32;32;108;101;100;46;116;111;103;103;108;101;40;41]  (* '    led.toggle()' *)].
Definition w_hdr_plain : list text :=
  [[119;104;105;108;101;32;84;114;117;101;58]  (* 'while True:' *);
   [32;32;32;32;108;101;100;46;116;111;103;103;108;101;40;41]  (* '    led.toggle()' *)].
Definition w_tab : list text :=
  [[105;102;32;120;32;62;32;48;58]  (* 'if x > 0:' *);
   [32;32;32;32;105;102;32;121;32;62;32;48;58]  (* '    if y > 0:' *);
   [9;122;32;61;32;49]  (* '\tz = 1' *)].
Definition w_triple : text :=
  [115;32;61;32;34;34;34;97;34;35;98;34;34;34]  (* s = QQQaQ#bQQQ where Q is the double-quote character *).
Definition w_else_comment : list text :=
  [[105;102;32;120;32;62;32;48;58]  (* 'if x > 0:' *);
   [32;32;32;32;97;32;61;32;49]  (* '    a = 1' *);
   [101;108;115;101;58;32;32;35;32;111;116;104;101;114;119;105;115;101]  (* 'else:  # otherwise' *);
   [32;32;32;32;97;32;61;32;50]  (* '    a = 2' *)].
Definition w_else_plain : list text :=
  [[105;102;32;120;32;62;32;48;58]  (* 'if x > 0:' *);
   [32;32;32;32;97;32;61;32;49]  (* '    a = 1' *);
   [101;108;115;101;58]  (* 'else:' *);
   [32;32;32;32;97;32;61;32;50]  (* '    a = 2' *)].

Definition w_col0_plain : list text :=
  [[119;104;105;108;101;32;120;32;60;32;51;58]  (* 'while x < 3:' *);
   [32;32;32;32;97;32;61;32;49]  (* '    a = 1' *);
   [32;32;32;32;98;32;61;32;50]  (* '    b = 2' *);
   [99;32;61;32;51]  (* 'c = 3' *)].

(* the guard of the _collect_block theorem without its uniform-indentation clause *)
Definition block_guard_nu (lines : list text) (start : nat) : bool :=
  (start <? length lines)%nat && forallb plain_ws lines
  && py_logical (nth start lines []).

(* REPAIRED (was comment_col0_refuted): a comment-only line at any column - column 0 included -
   inside a block leaves the logical lines of the block what Python says they are *)
Lemma comment_any_column : forall lines start,
  block_guard lines start = true ->
  filter py_logical (fst (collect_block lines start)) = py_block_logical lines start.
Proof. exact collect_block_logical. Qed.

(* the former witness: inside the guard, the block keeps `b = 2`, and the script parses like the
   script without the comment line *)
Lemma comment_col0_witness :
  block_guard w_col0 0 = true
  /\ filter py_logical (fst (collect_block w_col0 0)) = [[32;32;32;32;97;32;61;32;49]; [32;32;32;32;98;32;61;32;50]]
  /\ map erase_item (parse_top w_col0) = map erase_item (parse_top w_col0_plain).
Proof. repeat split; vm_compute; reflexivity. Qed.

(* a tab is 4 columns for Reduino and up to 8 for Python: in a script that mixes the two, a
   statement Python puts inside the inner block is put outside by _collect_block *)
Lemma mixed_tabs_refuted :
  exists lines start,
    block_guard_nu lines start = true /\
    filter py_logical (fst (collect_block lines start)) <> py_block_logical lines start.
Proof. exists w_tab, 1%nat. split; [vm_compute; reflexivity|vm_compute; discriminate]. Qed.

(* REPAIRED (was header_trailing_comment_refuted): a trailing comment on the first line of a
   script - whatever that line is: the column-0 `while True:`, a while / for / def / if / try
   header, an import, a simple statement - changes nothing of what parse() builds *)
Lemma header_trailing_comment_invisible : forall h tr body,
  trail_ok true tr = true -> stmt_ok h = true ->
  map erase_item (parse_top ((h ++ tr) :: body)) = map erase_item (parse_top (h :: body)).
Proof. intros h tr body Ht Hs. exact (top_trailing_comment h tr Hs Ht body). Qed.

(* the former witness, spelled out: with and without the comment the body is the main loop *)
Lemma header_trailing_comment_shape :
  map erase_item (parse_top w_hdr_comment) = [SLoop [SLeaf [108;101;100;46;116;111;103;103;108;101;40;41]]]
  /\ map erase_item (parse_top w_hdr_plain) = [SLoop [SLeaf [108;101;100;46;116;111;103;103;108;101;40;41]]].
Proof. split; vm_compute; reflexivity. Qed.

(* REPAIRED (was else_trailing_comment_refuted; the general statement is the round trip, whose
   guard now allows a trailing comment on elif / else / except): the former witness parses like
   its comment-free version, the else branch is a branch *)
Lemma else_trailing_comment_witness :
  map erase (parse_lines w_else_comment) = map erase (parse_lines w_else_plain)
  /\ map erase (parse_lines w_else_comment)
     = [SBlock KIf [105;102;32;120;32;62;32;48;58] [SLeaf [97;32;61;32;49]];
        SBlock KElse [101;108;115;101;58] [SLeaf [97;32;61;32;50]]].
Proof. split; vm_compute; reflexivity. Qed.

(* '#' inside a triple-quoted literal that also contains a quote character *)
Lemma strip_comment_triple_quote_refuted :
  exists line, no_code_backslash PCode line = true /\ py_has_comment line = false /\
               strip_inline_comment line <> line.
Proof. exists w_triple. repeat split; vm_compute; try reflexivity; discriminate. Qed.

(* ================================================================ dispatch table (generated from /repo) *)

Lemma dispatch_complete : complete table = true.
Proof. vm_compute. reflexivity. Qed.

Lemma dispatch_accounted : forall r, In r table -> row_ok r = true.
Proof.
  assert (H : forallb row_ok table = true) by (vm_compute; reflexivity).
  rewrite forallb_forall in H. exact H.
Qed.

Lemma dispatch_pinned : forall r, In r table -> row_pinned_ok r = true.
Proof.
  assert (H : forallb row_pinned_ok table = true) by (vm_compute; reflexivity).
  rewrite forallb_forall in H. exact H.
Qed.

(* every listed gap is real: the current parser drops that kind silently in that context, and
   the kind is not one of the lines the property allows to disappear *)
Definition gap_real (p : stmt_kind * context) : bool :=
  negb (allowed (fst p)) &&
  match lookup (fst p) (snd p) table with Some o => outcome_eqb o Ignored | None => false end.

Lemma dispatch_gaps_real : forall p, In p known_gaps -> gap_real p = true.
Proof.
  assert (H : forallb gap_real known_gaps = true) by (vm_compute; reflexivity).
  rewrite forallb_forall in H. exact H.
Qed.

Lemma dispatch_total_refuted :
  exists k c, allowed k = false /\ lookup k c table = Some Ignored.
Proof. exists K_serial_host_call, MainLoop. split; vm_compute; reflexivity. Qed.

(* REPAIRED (the refutation above used to be witnessed by `del x`, one of 123 listed gaps): a statement that is
   neither in the fixed set of the property nor the one listed gap is never dropped - it is translated or rejected *)
Lemma dispatch_total : forall k c o,
  lookup k c table = Some o -> allowed k = false -> known_gap k c = false -> o <> Ignored.
Proof.
  intros k c o H A G E. subst o. revert H A G.
  destruct k, c; vm_compute; intros; congruence.
Qed.

(* every (kind, context) that was a listed gap until the repair is now rejected with an error, is outside the
   fixed set and is no longer tolerated as a gap *)
Definition former_gap_rejected (p : stmt_kind * context) : bool :=
  negb (allowed (fst p)) && negb (known_gap (fst p) (snd p)) &&
  match lookup (fst p) (snd p) table with Some o => outcome_eqb o Rejected | None => false end.

Lemma former_gaps_rejected : forall p, In p former_gaps ->
  lookup (fst p) (snd p) table = Some Rejected /\ allowed (fst p) = false /\ known_gap (fst p) (snd p) = false.
Proof.
  assert (H : forallb former_gap_rejected former_gaps = true) by (vm_compute; reflexivity).
  rewrite forallb_forall in H. intros p Hp. specialize (H p Hp).
  unfold former_gap_rejected in H.
  apply andb_prop in H. destruct H as [H H3]. apply andb_prop in H. destruct H as [H1 H2].
  apply negb_true_iff in H1. apply negb_true_iff in H2.
  destruct (lookup (fst p) (snd p) table) as [o|]; [|discriminate].
  destruct o; try discriminate. auto.
Qed.

Lemma former_gaps_count : (length former_gaps = 158)%nat /\ (length known_gaps = 4)%nat.
Proof. split; vm_compute; reflexivity. Qed.

(* `continue` (repaired): in a for/while loop it is translated in every context; directly in the body
   of the main loop it is translated (it ends the pass); outside any loop it is rejected *)
Lemma continue_accounted : forall c,
  lookup K_continue_in_while c table = Some (match c with AfterLoop => Rejected | _ => Translated end) /\
  lookup K_continue_in_for c table = Some (match c with AfterLoop => Rejected | _ => Translated end) /\
  lookup K_continue_outside_loop c table = Some (match c with MainLoop => Translated | _ => Rejected end) /\
  known_gap K_continue_in_while c = false /\ known_gap K_continue_in_for c = false /\
  known_gap K_continue_outside_loop c = false.
Proof. intros []; vm_compute; repeat split; reflexivity. Qed.

Lemma known_gaps_nonempty : (length known_gaps = 4)%nat.
Proof. vm_compute. reflexivity. Qed.

(* AFTER THE MAIN LOOP (context AfterLoop of the regenerated table): no statement kind is translated there, every
   kind outside the fixed set of the property is rejected with an error, a comment line changes nothing *)
Lemma after_loop_never_translated : forall k o, lookup k AfterLoop table = Some o -> o <> Translated.
Proof. intros k o H E. subst o. revert H. destruct k; vm_compute; intros; congruence. Qed.

Lemma after_loop_rejected : forall k, allowed k = false -> lookup k AfterLoop table = Some Rejected.
Proof. intros k; destruct k; vm_compute; intros; congruence. Qed.

Lemma after_loop_comment_ignored : lookup K_comment_line AfterLoop table = Some Ignored.
Proof. vm_compute. reflexivity. Qed.

(* ================================================================ after the main loop / function variants *)
Definition w_second_loop : list text :=
  [[108;101;100;32;61;32;76;101;100;40;49;51;41]  (* 'led = Led(13)' *);
   [119;104;105;108;101;32;84;114;117;101;58]  (* 'while True:' *);
   [32;32;32;32;108;101;100;46;116;111;103;103;108;101;40;41]  (* '    led.toggle()' *);
   [35;32;97;108;97;114;109;32;109;111;100;101]  (* '# alarm mode' *);
   [119;104;105;108;101;32;84;114;117;101;58]  (* 'while True:' *);
   [32;32;32;32;98;122;46;112;108;97;121;95;116;111;110;101;40;52;52;48;41]  (* '    bz.play_tone(440)' *)].
Definition w_late_def : list text :=
  [[119;104;105;108;101;32;84;114;117;101;58]  (* 'while True:' *);
   [32;32;32;32;108;101;100;46;116;111;103;103;108;101;40;41]  (* '    led.toggle()' *);
   []  (* '' *);
   [100;101;102;32;97;108;97;114;109;40;41;58]  (* 'def alarm():' *);
   [32;32;32;32;98;122;46;112;108;97;121;95;116;111;110;101;40;52;52;48;41]  (* '    bz.play_tone(440)' *)].
Definition w_loop_last : list text :=
  [[100;101;102;32;97;108;97;114;109;40;41;58]  (* 'def alarm():' *);
   [32;32;32;32;98;122;46;112;108;97;121;95;116;111;110;101;40;52;52;48;41]  (* '    bz.play_tone(440)' *);
   [108;101;100;32;61;32;76;101;100;40;49;51;41]  (* 'led = Led(13)' *);
   [119;104;105;108;101;32;84;114;117;101;58]  (* 'while True:' *);
   [32;32;32;32;108;101;100;46;116;111;103;103;108;101;40;41]  (* '    led.toggle()' *);
   []  (* '' *);
   [32;32;32;35;32;116;104;101;32;101;110;100]  (* '   # the end' *)].
Definition w_level : list text :=
  [[100;101;102;32;108;101;118;101;108;40;118;41;58]  (* 'def level(v):' *);
   [32;32;32;32;105;102;32;118;32;62;32;50;53;53;58]  (* '    if v > 255:' *);
   [32;32;32;32;32;32;32;32;114;101;116;117;114;110;32;50;53;53]  (* '        return 255' *);
   [32;32;32;32;101;108;105;102;32;118;32;60;32;48;58]  (* '    elif v < 0:' *);
   [32;32;32;32;32;32;32;32;114;101;116;117;114;110;32;48]  (* '        return 0' *);
   [32;32;32;32;102;111;114;32;105;32;105;110;32;114;97;110;103;101;40;50;41;58]  (* '    for i in range(2):' *);
   [32;32;32;32;32;32;32;32;108;101;100;46;116;111;103;103;108;101;40;41]  (* '        led.toggle()' *);
   [32;32;32;32;114;101;116;117;114;110;32;118]  (* '    return v' *);
   [97;32;61;32;108;101;118;101;108;40;51;48;48;46;53;41]  (* 'a = level(300.5)' *)].

Lemma after_loop_witnesses :
  parse_flow w_second_loop = None /\ parse_flow w_late_def = None /\
  (exists its, parse_flow w_loop_last = Some its /\ map is_loop its = [false; false; true]) /\
  length (filter is_loop (parse_top w_second_loop)) = 2%nat.
Proof. repeat split; try (vm_compute; reflexivity). eexists. split; vm_compute; reflexivity. Qed.

Lemma variant_witness :
  exists h raw ns, In (TDef h raw ns) (parse_top w_level) /\
    map (fun n => match n with SBlock k _ b => (Some k, length b) | SLeaf _ => (None, 0%nat) end) (map erase (variant_nodes raw))
    = [(Some KIf, 1%nat); (Some KElif, 1%nat); (Some KFor, 1%nat); (None, 0%nat)].
Proof. eexists; eexists; eexists. split; [left; reflexivity|vm_compute; reflexivity]. Qed.
