(* C09 - the statements exported by Props/C09.v *)
From Coq Require Import ZArith List Bool Arith Lia.
From RV Require Import Device.DList Device.DListProg Proofs.DListP Proofs.DListProgP.
Import ListNotations.

(* ------------------------------------------------------------------ helpers: safe iff in range *)
Definition in_range (l : lval) (i : Z) : Prop := (- Z.of_nat (size l) <= i < Z.of_nat (size l))%Z.

Lemma py_index_some_iff : forall n i, (exists k, py_index n i = Some k) <-> (- Z.of_nat n <= i < Z.of_nat n)%Z.
Proof.
  intros n i. split.
  - intros (k & H). destruct (py_index_spec _ _ _ H) as (R & _). exact R.
  - intros H. destruct (py_index n i) as [k|] eqn:E; eauto. apply py_index_none in E. contradiction.
Qed.

Lemma get_safe_iff : forall h l cs i, rep h l cs ->
  ((exists v, list_get h l i = Safe v) <-> in_range l i) /\
  (~ in_range l i -> list_get h l i = Unsafe OutOfBounds).
Proof.
  intros h l cs i H. unfold in_range. rewrite (rep_size h l cs H), (get_spec h l cs i H).
  pose proof (py_index_some_iff (length cs) i) as P.
  destruct (py_index (length cs) i) as [k|] eqn:E.
  - assert (R : (- Z.of_nat (length cs) <= i < Z.of_nat (length cs))%Z) by (apply P; eauto).
    split; [split|]; [intros _; exact R | intros _; eauto | intros N; contradiction].
  - split; [split|]; auto.
    + intros (v & Hv). discriminate.
    + intros R. apply P in R. destruct R as (k & Hk). discriminate.
Qed.

Lemma set_safe_iff : forall h l cs i v, rep h l cs ->
  ((exists h', list_set h l i v = Safe h') <-> in_range l i) /\
  (~ in_range l i -> list_set h l i v = Unsafe OutOfBounds).
Proof.
  intros h l cs i v H. unfold in_range. rewrite (rep_size h l cs H).
  pose proof (py_index_some_iff (length cs) i) as P.
  destruct (py_index (length cs) i) as [k|] eqn:E.
  - destruct (set_ok h l cs i v k H E) as (h' & Hs & _).
    assert (R : (- Z.of_nat (length cs) <= i < Z.of_nat (length cs))%Z) by (apply P; eauto).
    split; [split|]; [intros _; exact R | intros _; eauto | intros N; contradiction].
  - rewrite (set_spec h l cs i v H), E. split; [split|]; auto.
    + intros (h' & Hv). discriminate.
    + intros R. apply P in R. destruct R as (k & Hk). discriminate.
Qed.

Lemma assign_ok : forall h d s cd cs, rep h d cd -> rep h s cs -> (data d = None \/ data d <> data s) ->
  exists h' l', list_assign h d s false = Safe (h', l') /\ rep h' l' cs /\
                live_cells h' + size d = live_cells h + size l'.
Proof.
  intros h d s cd cs Hd Hs Hne. rewrite (assign_spec h d s cd cs Hd Hs Hne).
  destruct (kill_counts h d cd Hd) as [_ KC].
  destruct cs as [|c r]; do 2 eexists; (split; [reflexivity|]); split.
  - unfold rep. simpl. auto.
  - simpl. lia.
  - unfold rep. simpl. rewrite <- (kill_length h (data d)). rewrite nth_error_app_new.
    repeat split; auto. discriminate.
  - rewrite live_cells_app. simpl. lia.
Qed.

Lemma helpers_safe : forall h l cs, rep h l cs ->
  (forall i, ((exists v, list_get h l i = Safe v) <-> in_range l i) /\
             (~ in_range l i -> list_get h l i = Unsafe OutOfBounds)) /\
  (forall i v, ((exists h', list_set h l i v = Safe h') <-> in_range l i) /\
               (~ in_range l i -> list_set h l i v = Unsafe OutOfBounds)) /\
  (forall v, exists h' l', list_append h l v = Safe (h', l') /\ rep h' l' (cs ++ [v]) /\
                           live_cells h' = live_cells h + 1) /\
  (forall v, exists h' l', list_remove h l v = Safe (h', l') /\
                           rep h' l' (match remove_first v cs with Some cs' => cs' | None => cs end) /\
                           live_cells h' + size l = live_cells h + size l') /\
  (forall s cs2, rep h s cs2 -> (data l = None \/ data l <> data s) ->
                 exists h' l', list_assign h l s false = Safe (h', l') /\ rep h' l' cs2 /\
                               live_cells h' + size l = live_cells h + size l') /\
  list_assign h l l true = Safe (h, l).
Proof.
  intros h l cs H. split; [|split; [|split; [|split; [|split]]]].
  - intros i. apply (get_safe_iff h l cs i H).
  - intros i v. apply (set_safe_iff h l cs i v H).
  - intros v. destruct (append_ok h l cs v H) as (h' & l' & E & U). exists h', l'.
    repeat split; auto. { apply (uo_rep _ _ _ _ _ U). }
    pose proof (uo_cells _ _ _ _ _ U) as C. pose proof (rep_size _ _ _ (uo_rep _ _ _ _ _ U)) as S1.
    pose proof (rep_size _ _ _ H) as S0. rewrite app_length in S1. simpl in S1. lia.
  - intros v. destruct (remove_ok h l cs v H) as (h' & l' & E & U). exists h', l'.
    repeat split; auto. { apply (uo_rep _ _ _ _ _ U). } apply (uo_cells _ _ _ _ _ U).
  - intros s cs2 Hs Hne. eapply assign_ok; eauto.
  - reflexivity.
Qed.

(* a list value whose buffer has been freed (a stale struct copy): every helper that
   touches the buffer is a memory error *)
Lemma helpers_dead : forall h l b cs, data l = Some b -> nth_error h b = Some (mkblock cs false) ->
  (forall i, list_get h l i = Unsafe UseAfterFree \/ list_get h l i = Unsafe OutOfBounds) /\
  (forall v, exists k, list_append h l v = Unsafe k) /\
  (forall s cs2, rep h s cs2 -> list_assign h l s false = Unsafe DoubleFree).
Proof.
  intros h l b cs D N. repeat split.
  - intros i. unfold list_get. destruct (list_index l i <? 0)%Z; auto.
    unfold hread. rewrite D, N. simpl. destruct (_ <? length cs); auto.
  - intros v. unfold list_append, alloc.
    assert (Hb : b < length h) by (apply nth_error_Some; congruence).
    destruct (size l) as [|n] eqn:S.
    + simpl copy_loop. cbn [rbind].
      rewrite hwrite_new by (simpl; lia). cbn [rbind].
      unfold hfree. rewrite D.
      rewrite nth_error_app_old by auto. rewrite N. simpl. eauto.
    + simpl copy_loop. unfold hread at 1. rewrite D. rewrite nth_error_app_old by auto. rewrite N. simpl.
      destruct (0 <? length cs); simpl; eauto.
  - intros s cs2 Hs. unfold list_assign.
    assert (Hsz : size s = length cs2) by (eapply rep_size; eauto).
    assert (Hb : b < length h) by (apply nth_error_Some; congruence).
    rewrite Hsz. destruct cs2 as [|c r].
    + simpl. rewrite D. unfold hfree. rewrite N. reflexivity.
    + simpl Nat.eqb. cbv iota. unfold alloc.
      pose proof (copy_all_fresh h s (c :: r) [] Hs) as C. rewrite !app_nil_r in C. rewrite Hsz in C. rewrite C. cbn [rbind].
      rewrite D. unfold hfree. rewrite nth_error_app_old by auto. rewrite N. reflexivity.
Qed.

(* ------------------------------------------------------------------ the witnesses of the repaired ownership findings *)
(* [repaired setup body]: the program is inside the guard of the value-semantics theorem (hence memory-safe with a tight
   heap for EVERY history), CPython and the firmware both run 1 and 4 passes, and the firmware's heap usage after pass 4
   equals that after pass 1 *)
Definition repaired (setup body : list stmt) : Prop :=
  value_ok setup [body; body; body; body] = true /\
  exists p1 p4 s1 s4,
    run_py setup body 1 = POk p1 /\ run_py setup body 4 = POk p4 /\
    run_fw setup body 1 = Safe s1 /\ run_fw setup body 4 = Safe s4 /\
    f_live_cells s1 = f_live_cells s4 /\ f_live_blocks s1 = f_live_blocks s4.

Ltac repaired_witness := split; [vm_compute; reflexivity|]; do 4 eexists; repeat (split; [vm_compute; reflexivity|]); vm_compute; reflexivity.

Definition uaf_setup : list stmt := [LDeclLit 0 [1; 2; 3]; LAssignVar 1 0; LAppend 0 4; LGet 1 0]%Z.
Lemma alias_repaired : repaired uaf_setup [LGet 0 0; LGet 1 0]%Z.
Proof. repaired_witness. Qed.

Definition byval_setup : list stmt := [LDeclLit 0 [1]; LCallAppend 0 2; LGet 0 0]%Z.
Lemma byvalue_repaired : repaired byval_setup [LCallAppend 0 2; LGet 0 0]%Z.
Proof. repaired_witness. Qed.

Definition dfree_setup : list stmt := [LDeclLit 0 [1]; LAssignVar 1 0; LAppend 0 2; LAssignLit 1 [5]]%Z.
Lemma alias_double_free_repaired : repaired dfree_setup [LGet 0 0; LGet 1 0]%Z.
Proof. repaired_witness. Qed.

Definition leak_comp_body : list stmt := [LLocalDeclComp 0 (mkcomp 0 3 1 2 0)]%Z.
Definition leak_lit_body : list stmt := [LLocalDeclLit 0 [1; 2; 3]]%Z.
Definition leak_reassign_setup : list stmt := [LDeclLit 0 [1; 2; 3]]%Z.
Definition leak_reassign_body : list stmt := [LAssignLit 0 [1; 2; 3]]%Z.

Lemma leak_comp_local_repaired : repaired [] leak_comp_body.
Proof. repaired_witness. Qed.
Lemma leak_lit_local_repaired : repaired [] leak_lit_body.
Proof. repaired_witness. Qed.
Lemma leak_reassign_repaired : repaired leak_reassign_setup leak_reassign_body.
Proof. repaired_witness. Qed.

(* ------------------------------------------------------------------ non-vacuity witnesses *)
(* a single-owner program that declares, appends, removes, indexes (negative too), self-assigns
   and calls a by-value reader; Python runs it without exception for 3 passes *)
Definition ok_setup : list stmt :=
  [LDeclLit 0 [1; 2; 3]; LDeclComp 1 (mkcomp 0 4 1 1 1); LAppend 0 9; LGet 0 (-1)]%Z.
Definition ok_body : list stmt :=
  [LAppend 0 4; LGet 0 (-5); LRemove 0 4; LCallGet 1 3; LAssignVar 0 0; LSet 1 (-4) 7]%Z.

Lemma ok_guard : single_owner ok_setup ok_body = true.
Proof. vm_compute. reflexivity. Qed.

Lemma ok_python : exists pst, run_py ok_setup ok_body 3 = POk pst /\ p_live pst = 8.
Proof. eexists. split; vm_compute; reflexivity. Qed.

Lemma rep_witness : rep [mkblock [5; 6]%Z true] (mklist (Some 0) 2) [5; 6]%Z.
Proof. unfold rep. simpl. repeat split; auto. discriminate. Qed.

Lemma dead_witness : exists h l b cs, data l = Some b /\ nth_error h b = Some (mkblock cs false).
Proof. exists [mkblock [5]%Z false], (mklist (Some 0) 1), 0, [5]%Z. split; reflexivity. Qed.

Lemma constructors_safe : forall h,
  (forall items, exists h' l', list_make h items = Safe (h', l') /\ rep h' l' items) /\
  (forall c, exists h' l', comp_list h c = Safe (h', l') /\ rep h' l' (comp_vals c)).
Proof.
  intros h. split.
  - intros items. destruct (make_ok h items) as (h' & l' & E & F). exists h', l'. split; auto. eapply fresh_rep; eauto.
  - intros c. destruct (comp_ok h c) as (h' & l' & E & F). exists h', l'. split; auto. eapply fresh_rep; eauto.
Qed.

(* ------------------------------------------------------------------ the loop-local leak, for every number of passes *)
Definition clone_setup : list stmt := [LDeclLit 0 [1]; LDeclLit 1 [2]; LAssignVar 1 0]%Z.
Definition clone_body : list stmt := [LAppend 1 5; LRemove 0 5; LGet 0 (-1)]%Z.

Definition grows (setup body : list stmt) : Prop :=
  exists k p1 p2 s1 s2,
    run_py setup body k = POk p1 /\ run_py setup body (S k) = POk p2 /\ p_live p1 = p_live p2 /\
    run_fw setup body k = Safe s1 /\ run_fw setup body (S k) = Safe s2 /\
    f_live_cells s1 < f_live_cells s2.

Lemma clone_grows : grows clone_setup clone_body.
Proof. exists 1; do 4 eexists; repeat (split; [vm_compute; reflexivity|]); vm_compute; lia. Qed.

(* the same divergence reads out of bounds: a = [1]; c = [2]; c = a   while True: c.append(5); a[1]; a.remove(5)
   Python: a is c, a[1] = 5.  Firmware: a still has one cell. *)
Definition clone_oob_body : list stmt := [LAppend 1 5; LGet 0 1; LRemove 0 5]%Z.

Lemma clone_out_of_bounds :
  exists n pst, run_py clone_setup clone_oob_body n = POk pst /\ run_fw clone_setup clone_oob_body n = Unsafe OutOfBounds.
Proof. exists 2. eexists. split; vm_compute; reflexivity. Qed.

Definition clone_setup_decls : list stmt := [LDeclLit 0 [1]; LDeclLit 1 [2]]%Z.
Definition clone_loop : list stmt := [LAssignVar 1 0; LAppend 1 5; LGet 1 (-1); LRemove 0 1; LAppend 0 1]%Z.

Lemma clone_guard_witness :
  owner_or_clone_seq clone_setup_decls [clone_loop; clone_loop] = true /\
  single_owner_seq clone_setup_decls [clone_loop; clone_loop] = false.
Proof. split; vm_compute; reflexivity. Qed.

(* ------------------------------------------------------------------ the re-assignment leak, for every number of passes *)
(* ================================================================== reference arguments, tuple assignment *)
(* x.append(y[i]) / x.remove(y[i]): `value` is a reference into y's buffer (y may be x itself);
   safe exactly when Python's index condition holds, with Python's result *)
Lemma argument_alias_safe : forall h l cs s cs2 i, rep h l cs -> rep h s cs2 ->
  (in_range s i -> exists h' l' v, list_get h s i = Safe v /\
       list_append_a h l (ARef s i) = Safe (h', l') /\ rep h' l' (cs ++ [v]) /\
       live_cells h' = live_cells h + 1) /\
  (~ in_range s i -> list_append_a h l (ARef s i) = Unsafe OutOfBounds) /\
  (in_range s i -> exists h' l' v, list_get h s i = Safe v /\
       list_remove_a h l (ARef s i) = Safe (h', l') /\
       rep h' l' (match remove_first v cs with Some c => c | None => cs end) /\
       live_cells h' + size l = live_cells h + size l').
Proof.
  intros h l cs s cs2 i H Hs. unfold in_range. rewrite (rep_size h s cs2 Hs).
  pose proof (py_index_some_iff (length cs2) i) as P.
  pose proof (append_ref_ok h l cs s cs2 i H Hs) as A.
  pose proof (remove_ref_ok h l cs s cs2 i H Hs) as R.
  rewrite (get_spec h s cs2 i Hs).
  destruct (py_index (length cs2) i) as [k|] eqn:E.
  - split; [|split].
    + intros _. destruct A as (h' & l' & EA & U). exists h', l', (nth k cs2 0%Z).
      split; [reflexivity|]. split; [exact EA|]. split; [apply (uo_rep _ _ _ _ _ U)|].
      pose proof (uo_cells _ _ _ _ _ U) as C. pose proof (rep_size _ _ _ (uo_rep _ _ _ _ _ U)) as S1.
      pose proof (rep_size _ _ _ H) as S0. rewrite app_length in S1. simpl in S1. lia.
    + intros N. exfalso. apply N, P. eauto.
    + intros _. destruct R as [(h' & l' & cs' & ER & U & Hcs)|(_ & Hn)]; [|discriminate].
      exists h', l', (nth k cs2 0%Z). split; [reflexivity|]. split; [exact ER|].
      rewrite <- (Hcs k eq_refl). split; [apply (uo_rep _ _ _ _ _ U) | apply (uo_cells _ _ _ _ _ U)].
  - split; [|split].
    + intros Rg. apply P in Rg. destruct Rg as (k & Hk). discriminate.
    + intros _. exact A.
    + intros Rg. apply P in Rg. destruct Rg as (k & Hk). discriminate.
Qed.

(* ring.append(ring[0]); ring.remove(ring[0]); front, back = back, front; a, b, c = b, c, a *)
Definition ok2_setup : list stmt :=
  [LDeclLit 0 [5; 6; 7; 8]; LDeclLit 1 [4; 5; 6]; LDeclLit 2 [9]; LTuple [1; 0] [RVar 0; RVar 1]]%Z.
Definition ok2_body : list stmt :=
  [LAppendRef 0 0 0; LRemoveRef 0 0 0; LAppendRef 1 0 (-1); LRemoveRef 1 1 0;
   LTuple [0; 1] [RVar 1; RVar 0]; LTuple [0; 1; 2] [RVar 1; RVar 2; RVar 0]; LGet 2 (-1)]%Z.

Lemma ok2_guard : value_ok ok2_setup [ok2_body; ok2_body; ok2_body; ok2_body; ok2_body] = true.
Proof. vm_compute. reflexivity. Qed.

Lemma ok2_python : exists pst, run_py ok2_setup ok2_body 5 = POk pst /\ p_live pst = 8.
Proof. eexists. split; vm_compute; reflexivity. Qed.

(* def ident(xs): return xs    a = [1, 2, 3]; a = ident(a)
   __redu_list_assign(a, ident(a)): the source is a temporary struct copy of a, so &dest != &source,
   dest.data is deleted and the copy loop then reads it through source.data *)
Definition ret_setup : list stmt := [LDeclLit 0 [1; 2; 3]; LAssignRet 0 0]%Z.

Lemma assign_self_alias_repaired : repaired ret_setup [LAssignRet 0 0; LGet 0 0]%Z.
Proof. repaired_witness. Qed.

(* a = [1, 2, 3]; b = [4, 5, 6]   while True: a, b = [7, 8, 9], a *)
Definition tuple_leak_setup : list stmt := [LDeclLit 0 [1; 2; 3]; LDeclLit 1 [4; 5; 6]]%Z.
Definition tuple_leak_body : list stmt := [LTuple [0; 1] [RLit [7; 8; 9]; RVar 0]]%Z.

Lemma tuple_literal_repaired : repaired tuple_leak_setup tuple_leak_body.
Proof. repaired_witness. Qed.

Lemma self_argument_safe : forall h l cs i, rep h l cs -> in_range l i ->
  exists h' l' v, list_get h l i = Safe v /\ list_append_a h l (ARef l i) = Safe (h', l') /\ rep h' l' (cs ++ [v]).
Proof.
  intros h l cs i H R. destruct (argument_alias_safe h l cs l cs i H H) as (A & _).
  destruct (A R) as (h' & l' & v & G & E & Rp & _). exists h', l', v. auto.
Qed.
