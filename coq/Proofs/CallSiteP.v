(* Proofs for C02: which call sites of a user function reach the user-function step of
   _infer_expr_type (the step that records the call signature and instantiates the variant
   for it), whatever state that step threads. *)
From Coq Require Import ZArith QArith List Bool.
From RV Require Import Base.Wire Base.Text Lang.PyAst Lang.PySem Lang.Infer.
Import ListNotations.
Open Scope Z_scope.

Section Sites.
  Variable S : Type.
  Variable call : S -> tenv -> ident -> list ty -> S * option ty.
  Variable C : option ictx.

  (* a call of a user function h: its arguments are typed first, then the step is taken *)
  Lemma user_call_takes_the_step :
    forall s G h args kws ats G1 s1,
      tlookup h builtin_rets = None ->
      thread (infer S call C) s G args = Some (ats, G1, s1) ->
      infer S call C s G (ECall h args kws) =
        Some (match snd (call s1 G1 h ats) with Some t => t | None => TInt end, G1, fst (call s1 G1 h ats)).
  Proof.
    intros s G h args kws ats G1 s1 Hh Hth. cbn [infer]. rewrite Hth, Hh.
    destruct (call s1 G1 h ats) as [s2 r]. reflexivity.
  Qed.

  (* ... also when the call is the only argument of a builtin call: the builtin's fixed result label is
     returned AFTER its argument has been typed *)
  Lemma builtin_around_user_call_takes_the_step :
    forall s G b t kwb h args kws ats G1 s1,
      tlookup b builtin_rets = Some t ->
      tlookup h builtin_rets = None ->
      thread (infer S call C) s G args = Some (ats, G1, s1) ->
      infer S call C s G (ECall b [ECall h args kws] kwb) = Some (t, G1, fst (call s1 G1 h ats)).
  Proof.
    intros s G b t kwb h args kws ats G1 s1 Hb Hh Hth.
    pose proof (user_call_takes_the_step s G h args kws ats G1 s1 Hh Hth) as Hin.
    cbn [infer thread]. cbn [infer] in Hin. rewrite Hin, Hb. reflexivity.
  Qed.

  (* ... and when further arguments follow it (min / max) *)
  Lemma builtin_around_user_call_first_of_two :
    forall s G b t kwb h args kws ats G1 s1 e2 t2 G2 s2,
      tlookup b builtin_rets = Some t ->
      tlookup h builtin_rets = None ->
      thread (infer S call C) s G args = Some (ats, G1, s1) ->
      infer S call C (fst (call s1 G1 h ats)) G1 e2 = Some (t2, G2, s2) ->
      infer S call C s G (ECall b [ECall h args kws; e2] kwb) = Some (t, G2, s2).
  Proof.
    intros s G b t kwb h args kws ats G1 s1 e2 t2 G2 s2 Hb Hh Hth H2.
    pose proof (user_call_takes_the_step s G h args kws ats G1 s1 Hh Hth) as Hin.
    cbn [infer thread]. cbn [infer] in Hin. rewrite Hin. cbn [infer] in H2. rewrite H2, Hb. reflexivity.
  Qed.

  (* the operands of a comparison, of `not` and of and / or are never typed: whatever calls they contain,
     the state of the user-function step is returned untouched *)
  Lemma compare_never_types_its_operands :
    forall s G l ops rs, infer S call C s G (ECompare l ops rs) = Some (TBool, G, s).
  Proof. reflexivity. Qed.
  Lemma not_never_types_its_operand :
    forall s G a, infer S call C s G (EUn Not a) = Some (TBool, G, s).
  Proof. reflexivity. Qed.
  Lemma boolop_never_types_its_operands :
    forall s G op vs, infer S call C s G (EBoolOp op vs) = Some (TBool, G, s).
  Proof. reflexivity. Qed.
  Lemma not_boolop_never_typed :
    forall s G,
      (forall a, infer S call C s G (EUn Not a) = Some (TBool, G, s)) /\
      (forall op vs, infer S call C s G (EBoolOp op vs) = Some (TBool, G, s)).
  Proof. intros s G. split; reflexivity. Qed.
End Sites.

(* the recording instance: the state is the list of recorded (function, signature) pairs *)
Definition rec_call (s : list (ident * list ty)) (_ : tenv) (f : ident) (sg : list ty)
  : list (ident * list ty) * option ty := ((f, sg) :: s, None).

Definition n_dbl : ident := [100;98;108].
Definition n_x : ident := [120].
Definition site_builtin : pexpr := ECall n_str [ECall n_dbl [EName n_x] []] [].
Definition site_compare : pexpr := ECompare (ECall n_dbl [EName n_x] []) [Gt] [EInt 4].
Definition G_x_float : tenv := [(n_x, TFloat)].

(* str(dbl(x)) with x a float records the signature (float) of dbl ... *)
Lemma builtin_site_records :
  infer _ rec_call None [] G_x_float site_builtin = Some (TString, G_x_float, [(n_dbl, [TFloat])]).
Proof. vm_compute. reflexivity. Qed.

(* ... dbl(x) > 4 records nothing: no variant of dbl for a float argument is ever requested, the C++ call
   converts 2.5 to the int parameter of the only variant *)
Lemma compare_site_records_nothing :
  infer _ rec_call None [] G_x_float (ECall n_dbl [EName n_x] []) = Some (TInt, G_x_float, [(n_dbl, [TFloat])]) /\
  infer _ rec_call None [] G_x_float site_compare = Some (TBool, G_x_float, []).
Proof. split; vm_compute; reflexivity. Qed.
