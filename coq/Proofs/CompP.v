(* C02: list comprehensions (the var_types bracket around the target) and signature aliases. *)
From Coq Require Import ZArith QArith List Bool Lia.
From RV Require Import Base.Wire Base.Text Lang.PyAst Lang.PySem Lang.Infer Lang.InferGuard Lang.InferSpec
  Lang.InferComp Lang.Decl Lang.DeclSpec Lang.FnSpec Lang.AliasSpec Proofs.InferP Proofs.JoinP Proofs.FnP.
Import ListNotations.
Open Scope Z_scope.

(* ------------------------------------------------------------------ the bracket gives var_types back *)
Lemma tset_restore_some G t old : tlookup t G = Some old -> tset (tset G t TInt) t old = G.
Proof.
  induction G as [|[k v] r IH]; cbn; intro H; [discriminate|].
  destruct (text_eqb t k) eqn:E; cbn; rewrite E.
  - inversion H; subst. reflexivity.
  - rewrite (IH H). reflexivity.
Qed.

Lemma tremove_tset_none G t : tlookup t G = None -> tremove (tset G t TInt) t = G.
Proof.
  induction G as [|[k v] r IH]; cbn; intro H.
  - rewrite text_eqb_refl. reflexivity.
  - destruct (text_eqb t k) eqn:E; [discriminate|]. cbn. rewrite E, (IH H). reflexivity.
Qed.

Lemma restore_tset G t : restore (tset G t TInt) t (tlookup t G) = G.
Proof.
  unfold restore. destruct (tlookup t G) as [old|] eqn:E.
  - apply tset_restore_some; exact E.
  - apply tremove_tset_none; exact E.
Qed.

(* whatever the bracketed work is: if it leaves the var_types it is given alone, the bracket leaves var_types alone *)
Theorem with_target_frame :
  forall (X : Type) G t (body : tenv -> option (X * tenv)) x G1,
    (forall G0 y G2, body G0 = Some (y, G2) -> G2 = G0) ->
    with_target G t body = Some (x, G1) -> G1 = G.
Proof.
  intros X G t body x G1 Hb H. unfold with_target in H.
  destruct (body (tset G t TInt)) as [[y G2]|] eqn:E; [|discriminate].
  inversion H; subst. rewrite (Hb _ _ _ E). apply restore_tset.
Qed.

Section Rhs.
  Variable F : ftable.
  Variable A : aliases.
  Variable C : option ictx.

  Lemma infer_rhs_plain G e : infer_rhs_s F A C G (RPlain e) = infer_s F A C G e.
  Proof. reflexivity. Qed.

  Lemma infer_rhs_comp G t n elt :
    infer_rhs_s F A C G (RComp t n elt) =
    match infer_rhs_s F A C (tset G t TInt) elt with
    | Some (et, G1) => Some (TList et, restore G1 t (tlookup t G))
    | None => None
    end.
  Proof.
    unfold infer_rhs_s. cbn [infer_rhs].
    destruct (infer_rhs unit (call_static F A) C tt (tset G t TInt) elt) as [[[et G1] s1]|]; reflexivity.
  Qed.

  Lemma rhs_guard_pure r : forall G, rhs_guard F A C G r = true -> rhs_pure F A C G r = true.
  Proof.
    induction r as [e|t n elt IH]; intros G H; cbn in *.
    - apply guard_pure; exact H.
    - apply IH; exact H.
  Qed.

  Lemma rhs_frame r : forall G t0 G1,
    rhs_pure F A C G r = true -> infer_rhs_s F A C G r = Some (t0, G1) -> G1 = G.
  Proof.
    induction r as [e|t n elt IH]; intros G t0 G1 Hp Hi.
    - rewrite infer_rhs_plain in Hi. unfold infer_s in Hi. cbn [rhs_pure] in Hp.
      destruct (infer unit (call_static F A) C tt G e) as [[[t1 G2] s2]|] eqn:E; [|discriminate].
      inversion Hi; subst. eapply pure_infer; eassumption.
    - rewrite infer_rhs_comp in Hi. cbn [rhs_pure] in Hp.
      destruct (infer_rhs_s F A C (tset G t TInt) elt) as [[et G2]|] eqn:E; [|discriminate].
      inversion Hi; subst. rewrite (IH _ _ _ Hp E). apply restore_tset.
  Qed.

  Lemma env_sound_target G rho t i : env_sound G rho -> env_sound (tset G t TInt) ((t, VInt i) :: rho).
  Proof.
    intros Hs x v Hl. unfold lookup in Hl. cbn [tlookup] in Hl. rewrite tget_tset.
    destruct (text_eqb x t).
    - inversion Hl; subst. exact I.
    - apply Hs. exact Hl.
  Qed.

  Definition evals_over (f : Z -> res pval) :=
    fix go (l : list Z) : res (list pval) :=
      match l with
      | [] => Ok []
      | i :: l' => match f i with
                   | Err er => Err er
                   | Ok v => match go l' with Err er => Err er | Ok vs => Ok (v :: vs) end
                   end
      end.

  Lemma eval_rhs_comp rho t n elt :
    eval_rhs rho (RComp t n elt) =
    match peval rho n with
    | Err er => Err er
    | Ok (VInt k) => match evals_over (fun i => eval_rhs ((t, VInt i) :: rho) elt) (zrange k) with
                     | Err er => Err er
                     | Ok vs => Ok (VList vs)
                     end
    | Ok _ => Err OutOfModel
    end.
  Proof. reflexivity. Qed.

  Lemma evals_over_forall f : forall l vs, evals_over f l = Ok vs -> Forall (fun v => exists i, f i = Ok v) vs.
  Proof.
    induction l as [|i l IH]; intros vs H; cbn in H.
    - inversion H; constructor.
    - destruct (f i) as [v|] eqn:Ef; [|discriminate].
      destruct (evals_over f l) as [vs'|] eqn:El; [|discriminate].
      inversion H; subst. constructor; [exists i; exact Ef | apply IH; reflexivity].
  Qed.

  (* inside the guard: the label of a comprehension holds the list Python builds, and var_types is back *)
  Theorem rhs_sound r : forall G rho t0 G1 v,
    env_sound G rho -> rhs_guard F A C G r = true ->
    infer_rhs_s F A C G r = Some (t0, G1) -> eval_rhs rho r = Ok v ->
    repr t0 v /\ G1 = G.
  Proof.
    induction r as [e|t n elt IH]; intros G rho t0 G1 v Hs Hg Hi Hev.
    - rewrite infer_rhs_plain in Hi. cbn in Hg, Hev. eapply infer_s_sound; eassumption.
    - split; [|eapply rhs_frame; [apply rhs_guard_pure; exact Hg | exact Hi]].
      rewrite infer_rhs_comp in Hi. cbn [rhs_guard] in Hg.
      destruct (infer_rhs_s F A C (tset G t TInt) elt) as [[et G2]|] eqn:E; [|discriminate].
      inversion Hi; subst t0 G1. rewrite eval_rhs_comp in Hev.
      destruct (peval rho n) as [nv|]; [|discriminate].
      destruct nv; try discriminate.
      destruct (evals_over (fun i => eval_rhs ((t, VInt i) :: rho) elt) (zrange z)) as [vs|] eqn:Ev; [|discriminate].
      inversion Hev; subst v. cbn [repr].
      apply evals_over_forall in Ev. rewrite Forall_forall in *. intros w Hw.
      destruct (Ev _ Hw) as [i Hi2].
      eapply (IH _ _ _ _ _ (env_sound_target _ _ t i Hs) Hg E Hi2).
  Qed.

  (* _to_c_expr's bracket around the element: inside the guard it leaves var_types as it found it *)
  Theorem toc_rhs_frame r G G1 :
    rhs_pure F A C G r = true -> toc_rhs_types F A C G r = Some G1 -> G1 = G.
  Proof.
    destruct r as [e|t n elt]; cbn [toc_rhs_types rhs_pure]; intros Hp H.
    - inversion H; reflexivity.
    - destruct (with_target G t (fun G0 => infer_rhs_s F A C G0 elt)) as [[x G2]|] eqn:E; [|discriminate].
      inversion H; subst. unfold with_target in E.
      destruct (infer_rhs_s F A C (tset G t TInt) elt) as [[et G3]|] eqn:E2; [|discriminate].
      inversion E; subst. rewrite (rhs_frame _ _ _ _ Hp E2). apply restore_tset.
  Qed.
End Rhs.

(* x = 0.5, [t * 0.5 + x for t in range(3)] : list[float], [0.5; 1.0; 1.5], var_types untouched *)
Definition comp_G : tenv := [(z_x, TFloat); (z_t, TString)].
Definition comp_rho : env := [(z_x, VFloat (1 # 2)); (z_t, VStr [97])].
Example comp_nonvacuous :
  env_sound comp_G comp_rho /\ rhs_guard [] [] None comp_G demo_comp = true /\
  infer_rhs_s [] [] None comp_G demo_comp = Some (TList TFloat, comp_G) /\
  exists vs, eval_rhs comp_rho demo_comp = Ok (VList vs) /\ length vs = 3%nat.
Proof.
  split; [|split; [vm_compute; reflexivity | split; [vm_compute; reflexivity |]]].
  - intros x v H. unfold comp_rho, lookup in H. cbn [tlookup] in H.
    destruct (text_eqb x z_x) eqn:E1.
    + apply text_eqb_eq in E1. subst. inversion H; subst. exact I.
    + destruct (text_eqb x z_t) eqn:E2; [|discriminate].
      apply text_eqb_eq in E2. subst. inversion H; subst. exact I.
  - eexists. split; [vm_compute; reflexivity | reflexivity].
Qed.

(* the statement level: after  t = 0.0 ; L = [t * 2 for t in range(4)] ; y = t * 2  the label of t is still float
   and y is declared float *)
Example shadow_keeps_label :
  exists ps, run_items None shadow_prog = Some ps /\
             tget (d_types (p_ctx ps)) z_t = TFloat /\
             p_globals ps = [(z_t, CFloat); (z_L, CList CInt); (z_y, CFloat)].
Proof. eexists. split; [vm_compute; reflexivity | split; reflexivity]. Qed.

(* ------------------------------------------------------------------ signature aliases *)
Lemma sig_eqb_eq a : forall b, sig_eqb a b = true -> a = b.
Proof.
  induction a as [|x a IH]; intros [|y b] H; cbn in H; try discriminate; [reflexivity|].
  apply andb_true_iff in H as [H1 H2]. apply ty_eqb_eq in H1. subst. f_equal. apply IH; exact H2.
Qed.

Lemma sig_lookup_sset_keep {X} (l : list (list ty * X)) k k' m :
  sig_lookup k l = Some m -> sig_lookup k (sset l k' m) = Some m.
Proof.
  induction l as [|[k0 v0] r IH]; cbn; intro H; [discriminate|].
  destruct (sig_eqb k' k0) eqn:E'; cbn.
  - destruct (sig_eqb k k0); [reflexivity | exact H].
  - destruct (sig_eqb k k0); [exact H | apply IH; exact H].
Qed.

Lemma resolve_call_hit F A name sg final vs t :
  tlookup name F = Some (FVariants vs) -> resolve_alias A name sg = final -> sig_lookup final vs = Some t ->
  resolve_call F A name sg = Some t.
Proof. intros H1 H2 H3. unfold resolve_call. rewrite H1, H2, H3. reflexivity. Qed.

(* Whatever the tables contain before (whatever call sites were met, in whatever order): once the variant for a
   requested signature has been parsed, a call with that signature resolves - through the alias when the body
   widened a parameter - to the definition stored for it, and is labelled with that definition's return type. *)
Theorem call_site_typed_from_its_variant :
  forall C fe cur name src sg fe1 p1 final,
    sig_lookup sg (get_or [] (tlookup name (fe_alias fe))) = None ->
    parse_function_static C fe cur name src (Some sg) = Some (fe1, p1, final) ->
    resolve_alias (fe_alias fe1) name sg = final /\
    exists d t, sig_lookup final (get_or [] (tlookup name (fe_defs fe1))) = Some d /\
                resolve_call (fe_F fe1) (fe_alias fe1) name sg = Some t /\
                fd_ret d = cpp_type t.
Proof.
  intros C fe cur name src sg fe1 p1 final Hfresh H.
  unfold parse_function_static in H.
  destruct (negb (Nat.eqb (length sg) (length (fs_params src)))); [discriminate|].
  match type of H with match ?X with _ => _ end = _ => destruct X as [st1|]; [|discriminate] end.
  destruct (merge_return_types (a_rets (st_acc st1)) false) as [merged0|]; [|discriminate].
  inversion H; subst fe1 p1 final; clear H.
  cbn [fe_alias fe_F fe_defs].
  set (final := map (fun pa => tget (d_types (st_ctx st1)) (fst pa)) (fs_params src)) in *.
  set (merged := override_return merged0 _ _) in *.
  set (F0 := match tlookup name (fe_F fe) with Some _ => fe_F fe | None => aset (fe_F fe) name (FVariants []) end) in *.
  assert (Ha : resolve_alias
                 (if negb (sig_eqb sg final)
                  then aset (fe_alias fe) name (sset (get_or [] (tlookup name (fe_alias fe))) sg final)
                  else match tlookup name (fe_alias fe) with Some _ => fe_alias fe | None => aset (fe_alias fe) name [] end)
                 name sg = final).
  { unfold resolve_alias. destruct (sig_eqb sg final) eqn:Es; cbn [negb].
    - apply sig_eqb_eq in Es.
      destruct (tlookup name (fe_alias fe)) as [m|] eqn:Em.
      + rewrite Em. cbn [get_or] in Hfresh. rewrite Hfresh. exact Es.
      + rewrite tlookup_aset_same. cbn. exact Es.
    - rewrite tlookup_aset_same, sig_lookup_sset_same. reflexivity. }
  split; [exact Ha|].
  eexists. exists merged. split; [|split].
  - rewrite tlookup_aset_same. cbn [get_or]. apply sig_lookup_sset_same.
  - assert (Hv : sig_lookup final
                   (if negb (sig_eqb sg final) then sset (sset (variants_of F0 name) final merged) sg merged
                    else sset (variants_of F0 name) final merged) = Some merged).
    { destruct (negb (sig_eqb sg final)).
      - apply sig_lookup_sset_keep. apply sig_lookup_sset_same.
      - apply sig_lookup_sset_same. }
    eapply resolve_call_hit; [apply tlookup_aset_same | exact Ha | exact Hv].
  - reflexivity.
Qed.

(* the situation of a second call site: the (float, float) variant of blend exists, then blend(1, y) is parsed *)
Example call_site_nonvacuous :
  exists ps fe1 p1,
    blend_after_final_first = Some ps /\
    sig_lookup [TFloat; TFloat] (get_or [] (tlookup z_blend (fe_defs (p_fe ps)))) <> None /\
    sig_lookup [TInt; TFloat] (get_or [] (tlookup z_blend (fe_alias (p_fe ps)))) = None /\
    parse_function_static None (p_fe ps) (p_ctx ps) z_blend blend_src (Some [TInt; TFloat]) = Some (fe1, p1, [TFloat; TFloat]) /\
    resolve_call (fe_F fe1) (fe_alias fe1) z_blend [TInt; TFloat] = Some TFloat.
Proof.
  eexists. eexists. eexists. split; [vm_compute; reflexivity|].
  split; [vm_compute; discriminate|]. split; [vm_compute; reflexivity|].
  split; vm_compute; reflexivity.
Qed.

(* refuted: two requested signatures that end on the same final signature share ONE stored definition, the one
   parsed last: its local w is typed under the labels of blend(1, y) although blend(0.75, 0.25) runs the same body *)
Theorem widened_variant_overwritten :
  exists ps d,
    run_items None overwritten_prog = Some ps /\
    selected_functions (p_fe ps) = [(z_blend, d)] /\
    fd_params d = [(z_a, CFloat); (z_b, CFloat)] /\ fd_ret d = CFloat /\
    tlookup z_w (fd_locals d) = Some CInt /\
    peval [(z_a, VFloat (3 # 4))] (EBin Mult (EName z_a) (EInt 2)) = Ok (VFloat (3 # 2)) /\
    ~ crepr CInt (VFloat (3 # 2)) /\ c_store CInt (VFloat (3 # 2)) = Some (VInt 1).
Proof.
  eexists. eexists. split; [vm_compute; reflexivity|].
  split; [vm_compute; reflexivity|].
  repeat split; try (vm_compute; reflexivity). intro H; exact H.
Qed.

Example single_call_variant :
  exists ps d,
    run_items None single_call_prog = Some ps /\
    selected_functions (p_fe ps) = [(z_blend, d)] /\ tlookup z_w (fd_locals d) = Some CFloat.
Proof. eexists. eexists. split; [vm_compute; reflexivity|]. split; vm_compute; reflexivity. Qed.
