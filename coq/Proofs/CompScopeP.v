(* C06: a list comprehension declares its variable in a C++ scope of its own and leaves the declarations - and the recorded
   types - of every outer variable untouched, whatever names it shares with them (Lang/CompScope.v). *)
From Coq Require Import ZArith QArith List Bool Lia.
From RV Require Import Base.Wire Base.Text Lang.PyAst Lang.Infer Lang.InferGuard Lang.InferComp Lang.EmitScope Lang.CompScope
  Proofs.InferP Proofs.CompP Proofs.EmitScopeP.
From RV Require Lang.Decl.
Import ListNotations.
Open Scope Z_scope.

(* ------------------------------------------------------------------ 1. C++ scoping *)
Lemma comp_toks_closed r : forall top u, scan (top :: u) (comp_toks r) = Some (top :: u).
Proof.
  induction r as [e|t n elt IH]; intros top u; cbn [comp_toks].
  - reflexivity.
  - cbn [scan cnodup cmem negb andb]. rewrite scan_app, IH. reflexivity.
Qed.

(* inside the lambda the innermost scope holds exactly the comprehension variable *)
Lemma comp_target_own_scope t n elt stk rest :
  scan stk (comp_toks (RComp t n elt) ++ rest) = scan ([CUser t] :: stk) (comp_toks elt ++ [TClose] ++ rest).
Proof. cbn [comp_toks app scan cnodup cmem negb andb]. rewrite <- app_assoc. reflexivity. Qed.

Lemma tmem_snoc y x l : tmem y (l ++ [x]) = tmem y l || text_eqb y x.
Proof.
  induction l as [|a l IH]; cbn.
  - rewrite orb_false_r. reflexivity.
  - rewrite IH, orb_assoc. reflexivity.
Qed.

Theorem prog_scoped l : forall declared top u,
  (forall x, cmem (CUser x) top = true -> tmem x declared = true) ->
  exists top', scan (top :: u) (prog_toks declared l) = Some (top' :: u).
Proof.
  induction l as [|[x r] l IH]; intros declared top u Hinv; cbn [prog_toks].
  - exists top. reflexivity.
  - cbv zeta. destruct (tmem x declared) eqn:Ed; cbn [grow app].
    + rewrite scan_app, comp_toks_closed. apply IH. exact Hinv.
    + cbn [scan]. destruct (cmem (CUser x) top) eqn:Ec.
      * rewrite (Hinv _ Ec) in Ed. discriminate.
      * rewrite scan_app, comp_toks_closed. apply IH. intros y Hy.
        cbn [cmem cname_eqb] in Hy. rewrite tmem_snoc.
        apply orb_true_iff in Hy as [Hy|Hy]; [rewrite Hy; apply orb_true_r | rewrite (Hinv _ Hy); reflexivity].
Qed.

(* ------------------------------------------------------------------ 2. the recorded types *)
Section Static.
  Variable F : ftable.
  Variable A : aliases.
  Variable C : option ictx.

  Lemma infer_lexical r : forall G t G1,
    rhs_pure F A C G r = true -> infer_rhs_s F A C G r = Some (t, G1) -> G1 = G /\ ref_type F A C G r = Some t.
  Proof.
    induction r as [e|tg n elt IH]; intros G t G1 Hp Hi.
    - split; [eapply rhs_frame; eauto|]. rewrite infer_rhs_plain in Hi. cbn [ref_type]. rewrite Hi. reflexivity.
    - split; [eapply rhs_frame; eauto|]. rewrite infer_rhs_comp in Hi. cbn [rhs_pure] in Hp. cbn [ref_type].
      destruct (infer_rhs_s F A C (tset G tg TInt) elt) as [[et G2]|] eqn:E; [|discriminate].
      destruct (IH _ _ _ Hp E) as [_ Hr]. rewrite Hr. inversion Hi; subst. reflexivity.
  Qed.

  Lemma assign_lexical st x r st' :
    rhs_pure F A C (ds_types st) r = true -> assign_decl F A C st x r = Some st' ->
    exists t, ref_type F A C (ds_types st) r = Some t /\
      list_clash (tlookup x (ds_types st)) (tmem x (ds_declared st)) t = false /\
      ds_types st' = tset (ds_types st) x t /\
      ds_declared st' = grow (tmem x (ds_declared st)) (ds_declared st) x /\
      ds_decls st' = ds_decls st ++ (if tmem x (ds_declared st) then [] else [(x, cpp_type t)]).
  Proof.
    intros Hp Ha. unfold assign_decl, assign_with in Ha.
    destruct (infer_rhs_s F A C (ds_types st) r) as [[t G1]|] eqn:E; [|discriminate].
    destruct (infer_lexical _ _ _ _ Hp E) as [HG Hr]. subst G1.
    destruct (list_clash (tlookup x (ds_types st)) (tmem x (ds_declared st)) t) eqn:Ec; [discriminate|].
    inversion Ha; subst; cbn [ds_types ds_declared ds_decls].
    exists t. repeat split; auto.
    destruct (tmem x (ds_declared st)); [rewrite app_nil_r|]; reflexivity.
  Qed.

  (* an assignment - comprehension or not, whatever its targets are called - changes the recorded type of the assigned name only *)
  Theorem assign_keeps_other_types st x r st' y :
    rhs_pure F A C (ds_types st) r = true -> assign_decl F A C st x r = Some st' -> text_eqb y x = false ->
    tlookup y (ds_types st') = tlookup y (ds_types st).
  Proof.
    intros Hp Ha Hy. destruct (assign_lexical _ _ _ _ Hp Ha) as [t [_ [_ [Ht _]]]].
    rewrite Ht, tlookup_tset, Hy. reflexivity.
  Qed.

  Theorem run_is_lexical l : forall st st',
    pure_run F A C (ds_types st) l = true -> run_decls F A C st l = Some st' ->
    exists ds, ref_decls F A C (ds_types st) (ds_declared st) l = Some ds /\ ds_decls st' = ds_decls st ++ ds.
  Proof.
    induction l as [|[x r] l IH]; intros st st' Hp Hr.
    - cbn in Hr. inversion Hr; subst. exists []. split; [reflexivity | rewrite app_nil_r; reflexivity].
    - unfold run_decls in Hr. cbn [run_with] in Hr.
      destruct (assign_with (infer_rhs_s F A C) st x r) as [st1|] eqn:Ea; [|discriminate].
      cbn [pure_run] in Hp. apply andb_true_iff in Hp as [Hp1 Hp2].
      destruct (assign_lexical st x r st1 Hp1 Ea) as [t [Hrt [Hc [Ht [Hd Hds]]]]].
      rewrite Hrt in Hp2. rewrite <- Ht in Hp2.
      destruct (IH st1 st' Hp2 Hr) as [ds [Hds1 Hds2]].
      cbn [ref_decls]. rewrite Hrt. cbv zeta. rewrite Hc. rewrite <- Ht, <- Hd, Hds1.
      eexists. split; [reflexivity|]. rewrite Hds2, Hds, app_assoc. reflexivity.
  Qed.
End Static.

(* ------------------------------------------------------------------ 3. one declaration per name, whatever the inference does *)
Lemma nodup_snoc {X} (l : list X) x : NoDup l -> ~ In x l -> NoDup (l ++ [x]).
Proof.
  induction 1 as [|a l Ha Hl IH]; intro Hx; cbn.
  - constructor; [intros []|constructor].
  - constructor.
    + rewrite in_app_iff. intros [H|[H|[]]]; [exact (Ha H) | subst; apply Hx; left; reflexivity].
    + apply IH. intro H; apply Hx; right; exact H.
Qed.

Definition decl_inv (st : dstate) : Prop :=
  NoDup (map fst (ds_decls st)) /\ incl (map fst (ds_decls st)) (ds_declared st).

Lemma assign_inv inf st x r st' : assign_with inf st x r = Some st' -> decl_inv st -> decl_inv st'.
Proof.
  unfold assign_with. intros Ha [Hn Hi].
  destruct (inf (ds_types st) r) as [[t G1]|]; [|discriminate].
  destruct (list_clash (tlookup x G1) (tmem x (ds_declared st)) t); [discriminate|].
  inversion Ha; subst; clear Ha. unfold decl_inv; cbn [ds_decls ds_declared].
  destruct (tmem x (ds_declared st)) eqn:Ed; cbn [grow]; [split; assumption|].
  rewrite map_app. cbn [map fst]. split.
  - apply nodup_snoc; [exact Hn|]. intro H. apply Hi in H. apply tmem_In in H. rewrite H in Ed. discriminate.
  - intros y Hy. apply in_app_iff in Hy as [Hy|Hy]; apply in_app_iff; [left; apply Hi; exact Hy | right; exact Hy].
Qed.

Theorem run_declares_once inf l : forall st st', run_with inf st l = Some st' -> decl_inv st -> decl_inv st'.
Proof.
  induction l as [|[x r] l IH]; intros st st' Hr Hv; cbn [run_with] in Hr.
  - inversion Hr; subst. exact Hv.
  - destruct (assign_with inf st x r) as [st1|] eqn:Ea; [|discriminate].
    eapply IH; [exact Hr|]. eapply assign_inv; eauto.
Qed.

Lemma decl_inv_empty : decl_inv st_empty.
Proof. split; [constructor | intros x []]. Qed.

(* ------------------------------------------------------------------ witnesses *)
(* v = 2.5 ; xs = [v * 2 for v in range(3)] ; w = v : w is a float - and an int when the `finally` pops *)
Lemma reuse_demo :
  pure_run [] [] None [] reuse_prog = true /\
  option_map ds_decls (run_decls [] [] None st_empty reuse_prog) = Some [(n_v, CFloat); (n_xs, CList CInt); (n_w, CFloat)] /\
  ref_decls [] [] None [] [] reuse_prog = Some [(n_v, CFloat); (n_xs, CList CInt); (n_w, CFloat)] /\
  option_map ds_decls (run_pop [] [] None st_empty reuse_prog) = Some [(n_v, CFloat); (n_xs, CList CInt); (n_w, CInt)].
Proof. repeat split; vm_compute; reflexivity. Qed.

Lemma pop_refuted :
  exists l st', pure_run [] [] None [] l = true /\ run_pop [] [] None st_empty l = Some st' /\
                ref_decls [] [] None [] [] l <> Some (ds_decls st').
Proof.
  exists reuse_prog. eexists. split; [vm_compute; reflexivity|]. split; [vm_compute; reflexivity|].
  vm_compute. intro H. discriminate H.
Qed.

Lemma nested_demo :
  pure_run [] [] None [] nested_prog = true /\
  option_map ds_decls (run_decls [] [] None st_empty nested_prog) = Some [(n_v, CString); (n_xs, CList (CList CInt)); (n_w, CString)] /\
  option_map (fun st => tlookup n_v (ds_types st)) (run_decls [] [] None st_empty nested_prog) = Some (Some TString) /\
  length (prog_toks [] nested_prog) = 7%nat /\
  scan [[]] (prog_toks [] nested_prog) = Some [[CUser n_w; CUser n_xs; CUser n_v]] /\
  scan [[CUser n_v]] (comp_toks (RComp n_v (EInt 3) (RComp n_v (EInt 2) (RPlain (EName n_v))))) = Some [[CUser n_v]].
Proof. repeat split; vm_compute; reflexivity. Qed.

(* ------------------------------------------------------------------ a function local of the name of a global *)
Lemma fn_local_shadows_global :
  exists ps d,
    Decl.run_items None shadow_items = Some ps /\ Decl.selected_functions (Decl.p_fe ps) = [(n_twice, d)] /\
    Decl.p_globals ps = [(n_label, CString)] /\ Decl.fd_locals d = [] /\ Decl.fd_params d = [] /\ Decl.fd_ret d = CInt /\
    infer_s [] [] None [] (EInt 4) = Some (TInt, []) /\
    fn_assign_consistent (Decl.p_globals ps) d n_label TInt = false.
Proof. eexists. eexists. split; [vm_compute; reflexivity|]. repeat split; vm_compute; reflexivity. Qed.

Lemma fn_assigns_global_same_type :
  exists ps d,
    Decl.run_items None same_type_items = Some ps /\ Decl.selected_functions (Decl.p_fe ps) = [(n_twice, d)] /\
    fn_assign_consistent (Decl.p_globals ps) d n_label TInt = true.
Proof. eexists. eexists. split; [vm_compute; reflexivity|]. split; vm_compute; reflexivity. Qed.
