(* Calls of a function that writes module-level names (Lang/ConstCall.v): whichever statement form re-binds a name the
   callee writes, the calling scope never knows it (vol_unknown is an invariant of tstep), hence every fold after a call
   reads the run-time value: the firmware outputs what Python outputs, for any number of calls, on every path. *)
From Coq Require Import ZArith QArith List Bool Lia Arith.
From RV Require Import Base.Wire Base.Text Lang.PyAst Lang.PySem Gen.SafeCasts Lang.ConstEval Lang.ConstEnv Lang.ConstFlow
  Lang.ConstCall Lang.ConstTuple Proofs.ConstEvalP Proofs.ConstEnvP Proofs.ConstEnvFreshP Proofs.ConstFlowP.
Import ListNotations.
Open Scope Z_scope.

Lemma known_mark_head x y te : known x te = false -> known x ((y, TMark) :: te) = false.
Proof.
  unfold known. intro H. destruct (teq_dec x y) as [->|N]; [rewrite tl_eq; reflexivity|]. rewrite tl_ne by exact N. exact H.
Qed.
Lemma known_cons_ne x y b te : x <> y -> known x ((y, b) :: te) = known x te.
Proof. unfold known. intro N. rewrite tl_ne by exact N. reflexivity. Qed.
Lemma known_forget ws te x : known x (forget ws te) = true -> known x te = true.
Proof.
  unfold known. destruct (forget_lookup ws te x) as [E|E]; rewrite E; [auto|discriminate].
Qed.
Lemma known_promote p c skip x : known x (promote p c skip) = true -> known x p = true.
Proof.
  unfold known. destruct (promote_lookup3 p c skip x) as [E|[E|E]]; rewrite E; [auto|discriminate|discriminate].
Qed.
Lemma not_known_forget ws te x : known x te = false -> known x (forget ws te) = false.
Proof. intro H. destruct (known x (forget ws te)) eqn:E; [|reflexivity]. apply known_forget in E. congruence. Qed.
Lemma known_forgotten ws te x : In x ws -> known x (forget ws te) = false.
Proof. unfold known. intro I. destruct (forget_in ws te x I) as [E|E]; rewrite E; reflexivity. Qed.

Ltac crush H :=
  repeat match type of H with
         | context [match ?x with _ => _ end] => destruct x; try discriminate H
         end.

(* the shape of the dict after a simple statement: unchanged, or one binding for the written name in front *)
Lemma tsimple_shape s : simple s -> forall te st te' st' res f,
  tsimple s te st = Some (te', st', res, f) ->
  te' = te \/ exists x b, writes s = [x] /\ te' = (x, b) :: te /\ (match s with SAssign _ _ => True | _ => b = TMark end).
Proof.
  intros S te st te' st' res f H. destruct s; try contradiction; cbn [tsimple] in H.
  - (* assign *) right. exists x.
    destruct (eval_const (view st te) e) as [v|k|].
    + destruct v; inversion H; subst; eexists; (split; [reflexivity|split; [reflexivity|exact I]]).
    + inversion H; subst; eexists; (split; [reflexivity|split; [reflexivity|exact I]]).
    + discriminate H.
  - (* append *)
    destruct (eval_const (view st te) e) as [v|k|]; [| |discriminate H];
      (destruct (tlookup x te) as [[v0|l|]|]; inversion H; subst; auto;
       right; exists x, TMark; (split; [reflexivity|split; reflexivity])).
  - (* remove *)
    destruct (eval_const (view st te) e) as [v|k|]; [| |discriminate H].
    + destruct (tlookup x te) as [[v0|l|]|].
      * inversion H; subst; auto.
      * destruct (remove_first v (nth l st [])); inversion H; subst; auto.
      * inversion H; subst. right; exists x, TMark; (split; [reflexivity|split; reflexivity]).
      * inversion H; subst. right; exists x, TMark; (split; [reflexivity|split; reflexivity]).
    + destruct (tlookup x te) as [[v0|l|]|]; inversion H; subst; auto;
        right; exists x, TMark; (split; [reflexivity|split; reflexivity]).
  - (* obs *) left. destruct o; cbn in H; crush H; inversion H; reflexivity.
  - (* emit *) left. inversion H; reflexivity.
  - (* aug *) right. exists x, TMark. inversion H; subst. split; [reflexivity|split; reflexivity].
Qed.

Section Vol.
Variable vol : list ident.

(* THE invariant: no statement form of the calling scope makes a name the callee writes known again *)
Lemma vol_unknown_step s te st te' st' res f :
  tstep vol s te st = Some (te', st', res, f) -> vol_unknown vol te -> vol_unknown vol te'.
Proof.
  intros H U x Ix. specialize (U x Ix).
  destruct s.
  1-5,9: (rewrite tstep_simple in H by exact I;
          destruct (tsimple _ te st) as [[[[te1 st1] r1] f1]|] eqn:T; [|discriminate H]; inversion H; subst; clear H;
          pose proof (fun S => tsimple_shape _ S _ _ _ _ _ _ T) as Sh;
          destruct (Sh I) as [->|(y & b & Wy & -> & Hb)]; clear Sh).
  all: try (cbn [after_assign]; first [exact U | idtac]).
  - (* assign, unchanged dict: impossible shape but harmless *)
    destruct (tmem x0 vol); [apply known_mark_head|]; exact U.
  - (* assign, bound *)
    cbn [writes] in Wy. inversion Wy; subst y.
    destruct (teq_dec x x0) as [->|N].
    + apply tmem_in in Ix. rewrite Ix. unfold known. rewrite tl_eq. reflexivity.
    + destruct (tmem x0 vol); rewrite !known_cons_ne by exact N; exact U.
  - subst b. apply known_mark_head. exact U.
  - subst b. apply known_mark_head. exact U.
  - subst b. apply known_mark_head. exact U.
  - subst b. apply known_mark_head. exact U.
  - subst b. apply known_mark_head. exact U.
  - (* if *) rewrite tstep_if in H.
    destruct (tblock vol body te st) as [[[[te1 s1] r1] f1]|]; [|discriminate H].
    destruct (tblock vol orelse te st) as [[[[te2 s2] r2] f2]|]; [|discriminate H]. inversion H; subst; clear H.
    destruct (known x (forget _ _)) eqn:E; [|reflexivity].
    apply known_forget, known_promote, known_promote in E. congruence.
  - (* while *) rewrite tstep_while in H.
    destruct (tblock vol body _ st) as [[[[te1 s1] r1] f1]|]; [|discriminate H]. inversion H; subst; clear H.
    destruct (known x (promote _ _ _)) eqn:E; [|reflexivity].
    apply known_promote, known_forget in E. congruence.
  - (* for *) rewrite tstep_for in H.
    destruct (tblock vol body _ st) as [[[[te1 s1] r1] f1]|]; [|discriminate H]. inversion H; subst; clear H.
    destruct (known x (promote _ _ _)) eqn:E; [|reflexivity].
    apply known_promote, known_forget in E. congruence.
Qed.

Lemma vol_unknown_block b : forall te st te' st' res f,
  tblock vol b te st = Some (te', st', res, f) -> vol_unknown vol te -> vol_unknown vol te'.
Proof.
  induction b as [|s r IH]; intros te st te' st' res f H U.
  - cbn in H. inversion H; subst. exact U.
  - rewrite tblock_cons in H.
    destruct (tstep vol s te st) as [[[[te1 st1] r1] f1]|] eqn:E1; [|discriminate H].
    destruct (tblock vol r te1 st1) as [[[[te2 st2] r2] f2]|] eqn:E2; [|discriminate H]. inversion H; subst.
    eapply IH; [exact E2|]. eapply vol_unknown_step; eassumption.
Qed.
End Vol.

Lemma ragrees_frame_known te st rho rho' :
  ragrees te st rho -> (forall x, known x te = true -> lookup x rho' = lookup x rho) -> ragrees te st rho'.
Proof.
  intros R F x. specialize (R x). specialize (F x). unfold known in F.
  destruct (tlookup x te) as [[v|l|]|]; try exact I; rewrite F by reflexivity; exact R.
Qed.

Lemma seg_writes_cons s r : seg_writes (s :: r) = writes_block s ++ seg_writes r.
Proof.
  unfold seg_writes. cbn [concat].
  induction s as [|a s IH]; [reflexivity|]. cbn [app]. rewrite !writes_block_cons, IH, app_assoc. reflexivity.
Qed.
Lemma writes_block_app a b : writes_block (a ++ b) = writes_block a ++ writes_block b.
Proof. induction a as [|x a IH]; [reflexivity|]. cbn [app]. rewrite !writes_block_cons, IH, app_assoc. reflexivity. Qed.

Section Calls.
Variables (vol : list ident) (body rb : list stmt) (teb teb' : tenv) (stb stb' : store).
Hypothesis Hvol : vol = writes_block body.
Hypothesis Eb : tblock [] body teb stb = Some (teb', stb', rb, true).
Hypothesis Wb : wf teb stb.

Lemma segs_sim : forall rest te st rs orc rho rho' out orc',
  tsegs vol rest te st = Some (rs, true) -> wf te st -> ragrees te st rho -> unshadowed rho -> vol_unknown vol te ->
  ragrees teb stb rho ->
  (forall x, known x teb = true -> ~ In x vol /\ ~ In x (seg_writes rest)) ->
  rblock (calls_inline body rest) orc rho = Some (rho', out, orc') ->
  rblock (calls_inline rb rs) orc rho = Some (rho', out, orc').
Proof.
  induction rest as [|s r IH]; intros te st rs orc rho rho' out orc' T W R U V Rb K P.
  - cbn in T. inversion T; subst. exact P.
  - cbn [tsegs] in T.
    destruct (tblock vol s te st) as [[[[te1 st1] r1] f1]|] eqn:E1; [|discriminate T].
    destruct (tsegs vol r te1 st1) as [[rs' f2]|] eqn:E2; [|discriminate T].
    inversion T; subst rs. apply andb_true_iff in H1. destruct H1 as [-> ->]. clear T.
    cbn [calls_inline] in *. rewrite rblock_app in P. rewrite rblock_app.
    destruct (rblock body orc rho) as [[[rho1 o1] orc1]|] eqn:P1; [|discriminate P].
    rewrite rblock_app in P.
    destruct (rblock s orc1 rho1) as [[[rho2 o2] orc2]|] eqn:P2; [|discriminate P].
    destruct (rblock (calls_inline body r) orc2 rho2) as [[[rho3 o3] orc3]|] eqn:P3; [|discriminate P].
    (* the call *)
    destruct (sim_blocks (vol := []) body _ _ _ _ _ _ _ _ _ _ Eb Wb Rb U P1) as (S1 & _ & U1).
    assert (F1 : forall x, ~ In x vol -> lookup x rho1 = lookup x rho).
    { intros x N. apply (rframe_blocks body _ _ _ _ _ P1). rewrite <- Hvol. exact N. }
    assert (R1 : ragrees te st rho1).
    { apply (ragrees_frame_known _ _ rho); [exact R|]. intros x Kx. apply F1. intro I. rewrite (V x I) in Kx. discriminate. }
    assert (Rb1 : ragrees teb stb rho1).
    { apply (ragrees_frame_known _ _ rho); [exact Rb|]. intros x Kx. apply F1. apply (K x Kx). }
    (* the statements after it *)
    destruct (sim_blocks (vol := vol) s _ _ _ _ _ _ _ _ _ _ E1 W R1 U1 P2) as (S2 & R2 & U2).
    assert (W1 : wf te1 st1) by (apply (tframe_blocks (vol := vol) s _ _ _ _ _ _ E1 W)).
    assert (V1 : vol_unknown vol te1) by (eapply vol_unknown_block; eassumption).
    assert (Rb2 : ragrees teb stb rho2).
    { apply (ragrees_frame_known _ _ rho1); [exact Rb1|]. intros x Kx. apply (rframe_blocks s _ _ _ _ _ P2).
      destruct (K x Kx) as [_ N]. rewrite seg_writes_cons in N. intro I. apply N, in_or_app. left. exact I. }
    assert (K1 : forall x, known x teb = true -> ~ In x vol /\ ~ In x (seg_writes r)).
    { intros x Kx. destruct (K x Kx) as [N1 N2]. split; [exact N1|]. rewrite seg_writes_cons in N2.
      intro I. apply N2, in_or_app. right. exact I. }
    rewrite S1, rblock_app, S2, (IH _ _ _ _ _ _ _ _ E2 W1 R2 U2 V1 Rb2 K1 P3). exact P.
Qed.
End Calls.

Lemma dups_in3 a b c x : In x a -> In x (b ++ c) -> In x (dups (a ++ b ++ c)).
Proof. intros Ia Ib. apply dups_app_in; assumption. Qed.

Theorem calls_sound : forall in_fn prefix body first rest orc out,
  calls_ok in_fn prefix body first rest = true ->
  python_calls_outputs prefix body first rest orc = Some out ->
  firmware_calls_outputs in_fn prefix body first rest orc = Some out.
Proof.
  intros in_fn prefix body first rest orc out F P. unfold calls_ok in F. unfold firmware_calls_outputs.
  unfold tcalls in *. cbv zeta in *.
  set (rb0 := rebound_all prefix body first rest) in *. set (vol := writes_block body) in *.
  destruct (tblock [] prefix [] []) as [[[[te st] rp] fp]|] eqn:E0; [|discriminate F].
  destruct (tblock [] body (forget rb0 te) st) as [[[[teb' stb'] rb] fb]|] eqn:Eb; [|discriminate F].
  (* the environment the calling sequence starts from: module level / the body of another function *)
  set (te0 := if in_fn then forget vol (forget rb0 (forget vol te)) else forget vol te) in *.
  destruct (tblock vol first te0 st) as [[[[te1 st1] rf] ff]|] eqn:E1; [|discriminate F].
  destruct (tsegs vol rest te1 st1) as [[rs fs]|] eqn:E2; [|discriminate F].
  apply flags4 in F. destruct F as (-> & -> & -> & ->).
  unfold python_calls_outputs, python_outputs in P. rewrite rblock_app in P. rewrite rblock_app.
  destruct (rblock prefix orc []) as [[[rho0 o0] orc0]|] eqn:R0; [|discriminate P].
  rewrite rblock_app in P.
  destruct (rblock first orc0 rho0) as [[[rho1 o1] orc1]|] eqn:R1; [|discriminate P].
  destruct (rblock (calls_inline body rest) orc1 rho1) as [[[rho2 o2] orc2]|] eqn:R2; [|discriminate P].
  destruct (sim_blocks (vol := []) prefix _ _ _ _ _ _ _ _ _ _ E0 wf_nil ragrees_nil unshadowed_nil R0) as (S0 & RA0 & U0).
  assert (W0 : wf te st) by (apply (tframe_blocks (vol := []) prefix _ _ _ _ _ _ E0 wf_nil)).
  assert (Wt0 : wf te0 st) by (unfold te0; destruct in_fn; repeat apply wf_forget; exact W0).
  assert (RAt0 : ragrees te0 st rho0) by (unfold te0; destruct in_fn; repeat apply ragrees_forget; exact RA0).
  assert (V0 : vol_unknown vol te0) by (unfold te0; intros x I; destruct in_fn; apply known_forgotten; exact I).
  destruct (sim_blocks (vol := vol) first _ _ _ _ _ _ _ _ _ _ E1 Wt0 RAt0 U0 R1) as (S1 & RA1 & U1).
  assert (W1 : wf te1 st1) by (apply (tframe_blocks (vol := vol) first _ _ _ _ _ _ E1 Wt0)).
  assert (V1 : vol_unknown vol te1) by (eapply vol_unknown_block; [exact E1|exact V0]).
  (* what the body folds from its def-time environment was written once, in the prefix: nothing later touches it *)
  assert (K : forall x, known x (forget rb0 te) = true ->
                        ~ In x vol /\ ~ In x (writes_block first) /\ ~ In x (seg_writes rest)).
  { intros x Kx. assert (Nr : ~ In x rb0) by (intro I; rewrite (known_forgotten rb0 te x I) in Kx; discriminate).
    apply known_forget in Kx. unfold known in Kx.
    assert (Ip : In x (writes_block prefix)).
    { destruct (tlookup x te) as [b|] eqn:L; [|discriminate Kx].
      destruct (tblock_names [] prefix [] [] te st rp true x E0 wf_nil (tl_in _ _ _ L)) as [[]|Q]. exact Q. }
    repeat split; intro I; apply Nr; unfold rb0, rebound_all; apply dups_app_in; try exact Ip.
    - apply in_or_app. left. exact I.
    - apply in_or_app. right. apply in_or_app. left. exact I.
    - apply in_or_app. right. apply in_or_app. right. exact I. }
  assert (Rb1 : ragrees (forget rb0 te) st rho1).
  { apply (ragrees_frame_known _ _ rho0); [apply ragrees_forget; exact RA0|].
    intros x Kx. apply (rframe_blocks first _ _ _ _ _ R1). apply (K x Kx). }
  assert (K' : forall x, known x (forget rb0 te) = true -> ~ In x vol /\ ~ In x (seg_writes rest)).
  { intros x Kx. destruct (K x Kx) as (A & _ & B). split; assumption. }
  rewrite S0, rblock_app, S1.
  rewrite (segs_sim vol body rb (forget rb0 te) teb' st stb' eq_refl Eb (wf_forget rb0 _ _ W0)
             rest te1 st1 rs orc1 rho1 rho2 o2 orc2 E2 W1 RA1 U1 V1 Rb1 K' R2).
  exact P.
Qed.

(* ---------------- witnesses ---------------- *)
Definition n_gap : ident := [103;97;112].
Definition w_grow : list stmt := [SAppend n_pat (EInt 1)].
Definition w_pat0 : list stmt := [SAssign n_pat (EList [EInt 1; EInt 0])].
Definition w_tuple_rebind : list stmt := tuple_assign 0 [n_pat; n_gap] [EList [EInt 1; EInt 0; EInt 1]; EInt 50].

(* pat = [1, 0]; def grow(): pat.append(1); grow(); pat, gap = [1, 0, 1], 50; grow(); mon.write(len(pat));
   led.flash_pattern(pat): the length is read at run time (4, as Python); the flash pattern cannot be baked: rejected *)
Lemma call_after_tuple_rebind :
  calls_ok false w_pat0 w_grow [] [w_tuple_rebind; [SObs (OLen n_pat)]] = true /\
  python_calls_outputs w_pat0 w_grow [] [w_tuple_rebind; [SObs (OLen n_pat)]] [] = Some [VInt 4] /\
  firmware_calls_outputs false w_pat0 w_grow [] [w_tuple_rebind; [SObs (OLen n_pat)]] [] = Some [VInt 4] /\
  option_map (fun r => match r with (_, _, _, rs, _) => rs end) (tcalls false w_pat0 w_grow [] [w_tuple_rebind; [SObs (OLen n_pat)]]) =
    Some [w_tuple_rebind; [SObs (OLen n_pat)]] /\
  tcalls false w_pat0 w_grow [] [w_tuple_rebind; [SObs (OFlash n_pat)]] = None /\
  python_calls_outputs w_pat0 w_grow [] [w_tuple_rebind; [SObs (OFlash n_pat)]] [] = Some [VList [VInt 1; VInt 0; VInt 1; VInt 1]].
Proof. vm_compute. repeat split; reflexivity. Qed.

(* every re-binding form, two calls, the fold after each: plain assignment, tuple assignment, assignment inside a taken
   or skipped branch, inside a loop body, append of a constant after the re-assignment *)
Definition w_forms : list (list stmt) :=
  [ [SAssign n_pat (EList [EInt 1; EInt 0; EInt 1]); SAppend n_pat (EInt 7)];
    [SObs (OLen n_pat); SIf [SAssign n_pat (EList [EInt 9])] []];
    [SObs (OLen n_pat); SFor n_v [SAssign n_pat (EList [EInt 5; EInt 5])]];
    [SObs (OLen n_pat)] ].
Lemma call_forms_nonvacuous :
  calls_ok false w_pat0 w_grow [] w_forms = true /\
  python_calls_outputs w_pat0 w_grow [] w_forms [1%nat; 2%nat] = Some [VInt 5; VInt 2; VInt 3] /\
  python_calls_outputs w_pat0 w_grow [] w_forms [0%nat; 0%nat] = Some [VInt 5; VInt 6; VInt 7] /\
  firmware_calls_outputs false w_pat0 w_grow [] w_forms [0%nat; 0%nat] = Some [VInt 5; VInt 6; VInt 7].
Proof. vm_compute. repeat split; reflexivity. Qed.

(* the same calling sequence inside another function's body (def use(): global pat; pat = [1, 0, 1]; grow();
   mon.write(len(pat))), the witness of the repaired finding F-C03-stale-after-call-in-function: the caller's plain
   assignment does not make pat known again - the residual still reads the length at run time, 4 as Python prints *)
Definition w_use_first : list stmt := [SAssign n_pat (EList [EInt 1; EInt 0; EInt 1])].
Lemma call_in_function_repaired :
  calls_ok true w_pat0 w_grow w_use_first [[SObs (OLen n_pat)]] = true /\
  python_calls_outputs w_pat0 w_grow w_use_first [[SObs (OLen n_pat)]] [] = Some [VInt 4] /\
  firmware_calls_outputs true w_pat0 w_grow w_use_first [[SObs (OLen n_pat)]] [] = Some [VInt 4] /\
  option_map (fun r => match r with (_, _, _, rs, _) => rs end) (tcalls true w_pat0 w_grow w_use_first [[SObs (OLen n_pat)]]) =
    Some [[SObs (OLen n_pat)]] /\
  tcalls true w_pat0 w_grow w_use_first [[SObs (OFlash n_pat)]] = None.
Proof. vm_compute. repeat split; reflexivity. Qed.

(* every re-binding form in the body of the calling function, two paths *)
Lemma call_in_function_forms :
  calls_ok true w_pat0 w_grow [] w_forms = true /\
  python_calls_outputs w_pat0 w_grow [] w_forms [1%nat; 2%nat] = Some [VInt 5; VInt 2; VInt 3] /\
  firmware_calls_outputs true w_pat0 w_grow [] w_forms [1%nat; 2%nat] = Some [VInt 5; VInt 2; VInt 3] /\
  firmware_calls_outputs true w_pat0 w_grow [] w_forms [0%nat; 0%nat] = Some [VInt 5; VInt 6; VInt 7].
Proof. vm_compute. repeat split; reflexivity. Qed.
