(* The constant environment is sound on fresh programs: if the ghost flag of Lang/ConstEnv.tblock stays true
   (no write to a name with a known transpile-time value inside a block that may be skipped or repeated, append /
   remove only with arguments known at transpile time, ...), the residual program - with its baked-in constants -
   produces, on every control-flow path, exactly the outputs of the source program. *)
From Coq Require Import ZArith QArith List Bool Lia Arith.
From RV Require Import Base.Wire Base.Text Lang.PyAst Lang.PySem Gen.SafeCasts Lang.ConstEval Lang.ConstEnv Proofs.ConstEvalP.
Import ListNotations.
Open Scope Z_scope.

(* ---------------- induction over statements with nested blocks ---------------- *)
Section StmtInd.
  Variable P : stmt -> Prop.
  Hypothesis Hassign : forall x e, P (SAssign x e).
  Hypothesis Happend : forall x e, P (SAppend x e).
  Hypothesis Hremove : forall x e, P (SRemove x e).
  Hypothesis Hobs : forall o, P (SObs o).
  Hypothesis Hemit : forall v, P (SEmit v).
  Hypothesis Hif : forall a b, Forall P a -> Forall P b -> P (SIf a b).
  Hypothesis Hwhile : forall a, Forall P a -> P (SWhile a).
  Hypothesis Hfor : forall x a, Forall P a -> P (SFor x a).
  Fixpoint stmt_ind' (s : stmt) : P s :=
    let fix go (l : list stmt) : Forall P l :=
      match l with [] => Forall_nil _ | x :: r => Forall_cons _ (stmt_ind' x) (go r) end in
    match s with
    | SAssign x e => Hassign x e | SAppend x e => Happend x e | SRemove x e => Hremove x e
    | SObs o => Hobs o | SEmit v => Hemit v
    | SIf a b => Hif a b (go a) (go b) | SWhile a => Hwhile a (go a) | SFor x a => Hfor x a (go a)
    end.
End StmtInd.

(* ---------------- association lists ---------------- *)
Lemma teq_dec (a b : text) : {a = b} + {a <> b}.
Proof.
  destruct (text_eqb a b) eqn:E.
  - left. apply text_eqb_eq. exact E.
  - right. intro H. apply text_eqb_eq in H. congruence.
Qed.
Lemma tl_eq {A} x (v : A) l : tlookup x ((x, v) :: l) = Some v.
Proof. cbn. rewrite text_eqb_refl. reflexivity. Qed.
Lemma tl_ne {A} x y (v : A) l : x <> y -> tlookup x ((y, v) :: l) = tlookup x l.
Proof. intro H. cbn. destruct (text_eqb x y) eqn:E; [apply text_eqb_eq in E; contradiction | reflexivity]. Qed.
Lemma tl_in {A} x (l : list (text * A)) b : tlookup x l = Some b -> In x (map fst l).
Proof.
  induction l as [|[k v] r IH]; cbn; [discriminate|].
  destruct (text_eqb x k) eqn:E; intro H.
  - left. symmetry. apply text_eqb_eq. exact E.
  - right. apply IH. exact H.
Qed.
Lemma tl_notin {A} x (l : list (text * A)) : ~ In x (map fst l) -> tlookup x l = None.
Proof. intro H. destruct (tlookup x l) eqn:E; [|reflexivity]. elim H. eapply tl_in. exact E. Qed.
Lemma tmem_in a l : tmem a l = true <-> In a l.
Proof.
  induction l as [|b r IH]; cbn; [split; [discriminate|tauto]|].
  rewrite orb_true_iff, text_eqb_eq, IH. split; intros [H|H]; auto.
Qed.

(* ---------------- unfolding the nested fixpoints ---------------- *)
Definition witer (body : list stmt) :=
  fix iter (k : nat) (orc : list nat) (rho : env) {struct k} : rres :=
    match k with
    | O => Some (rho, [], orc)
    | S k' => match rblock body orc rho with
              | Some (rho1, o1, orc1) =>
                  match iter k' orc1 rho1 with Some (rho2, o2, orc2) => Some (rho2, o1 ++ o2, orc2) | None => None end
              | None => None end
    end.
Definition fiter (x : ident) (body : list stmt) :=
  fix iter (k : nat) (i : Z) (orc : list nat) (rho : env) {struct k} : rres :=
    match k with
    | O => Some (rho, [], orc)
    | S k' => match rblock body orc ((x, VInt i) :: rho) with
              | Some (rho1, o1, orc1) =>
                  match iter k' (i + 1) orc1 rho1 with Some (rho2, o2, orc2) => Some (rho2, o1 ++ o2, orc2) | None => None end
              | None => None end
    end.
Lemma rstep_if a b orc rho : rstep (SIf a b) orc rho =
  match orc with O :: orc' => rblock b orc' rho | _ :: orc' => rblock a orc' rho | [] => None end.
Proof. reflexivity. Qed.
Lemma rstep_while a orc rho : rstep (SWhile a) orc rho =
  match orc with k :: orc' => witer a k orc' rho | [] => None end.
Proof. reflexivity. Qed.
Lemma rstep_for x a orc rho : rstep (SFor x a) orc rho =
  match orc with k :: orc' => fiter x a k 0 orc' rho | [] => None end.
Proof. reflexivity. Qed.
Definition simple (s : stmt) : Prop := match s with SIf _ _ | SWhile _ | SFor _ _ => False | _ => True end.
Lemma rstep_simple s orc rho : simple s ->
  rstep s orc rho = match rsimple s rho with Some (rho', o) => Some (rho', o, orc) | None => None end.
Proof. destruct s; cbn; intro H; try contradiction; reflexivity. Qed.
Lemma rblock_cons s r orc rho : rblock (s :: r) orc rho =
  match rstep s orc rho with
  | Some (rho1, o1, orc1) =>
      match rblock r orc1 rho1 with Some (rho2, o2, orc2) => Some (rho2, o1 ++ o2, orc2) | None => None end
  | None => None end.
Proof. reflexivity. Qed.
Lemma rblock_nil orc rho : rblock [] orc rho = Some (rho, [], orc).
Proof. reflexivity. Qed.
Lemma rblock_app a : forall b orc rho, rblock (a ++ b) orc rho =
  match rblock a orc rho with
  | Some (rho1, o1, orc1) =>
      match rblock b orc1 rho1 with Some (rho2, o2, orc2) => Some (rho2, o1 ++ o2, orc2) | None => None end
  | None => None end.
Proof.
  induction a as [|s r IH]; intros b orc rho.
  - rewrite rblock_nil. cbn [app]. destruct (rblock b orc rho) as [[[? ?] ?]|]; reflexivity.
  - cbn [app]. rewrite !rblock_cons. destruct (rstep s orc rho) as [[[rho1 o1] orc1]|]; [|reflexivity].
    rewrite IH. destruct (rblock r orc1 rho1) as [[[rho2 o2] orc2]|]; [|reflexivity].
    destruct (rblock b orc2 rho2) as [[[rho3 o3] orc3]|]; [|reflexivity].
    rewrite app_assoc. reflexivity.
Qed.
Lemma rblock_single s orc rho : rblock [s] orc rho = rstep s orc rho.
Proof.
  rewrite rblock_cons. destruct (rstep s orc rho) as [[[rho1 o1] orc1]|]; [|reflexivity].
  rewrite rblock_nil, app_nil_r. reflexivity.
Qed.

Lemma tstep_if a b te st : tstep (SIf a b) te st =
  match tblock a te st with
  | Some (te1, st1, r1, f1) =>
      match tblock b te st1 with
      | Some (te2, st2, r2, f2) =>
          Some (promote (promote te te1 []) te2 [], st2, [SIf r1 r2],
                f1 && f2 && disjoint_known (writes (SIf a b)) te && no_safe (writes (SIf a b)))
      | None => None end
  | None => None end.
Proof. reflexivity. Qed.
Lemma tstep_while a te st : tstep (SWhile a) te st =
  match tblock a te st with
  | Some (te1, st1, r1, f1) =>
      Some (promote te te1 [], st1, [SWhile r1], f1 && disjoint_known (writes (SWhile a)) te && no_safe (writes (SWhile a)))
  | None => None end.
Proof. reflexivity. Qed.
Lemma tstep_for x a te st : tstep (SFor x a) te st =
  match tblock a ((x, TMark) :: te) st with
  | Some (te1, st1, r1, f1) =>
      Some (promote te te1 [x], st1, [SFor x r1], f1 && disjoint_known (writes (SFor x a)) te && no_safe (writes (SFor x a)))
  | None => None end.
Proof. reflexivity. Qed.
Lemma tstep_simple s te st : simple s -> tstep s te st = tsimple s te st.
Proof. destruct s; cbn; intro H; try contradiction; reflexivity. Qed.
Lemma tblock_cons s r te st : tblock (s :: r) te st =
  match tstep s te st with
  | Some (te1, st1, r1, f1) =>
      match tblock r te1 st1 with Some (te2, st2, r2, f2) => Some (te2, st2, r1 ++ r2, f1 && f2) | None => None end
  | None => None end.
Proof. reflexivity. Qed.
Lemma writes_if a b : writes (SIf a b) = writes_block a ++ writes_block b. Proof. reflexivity. Qed.
Lemma writes_while a : writes (SWhile a) = writes_block a. Proof. reflexivity. Qed.
Lemma writes_for x a : writes (SFor x a) = x :: writes_block a. Proof. reflexivity. Qed.
Lemma writes_block_cons s r : writes_block (s :: r) = writes s ++ writes_block r. Proof. reflexivity. Qed.

(* ---------------- invariants ---------------- *)
Definition wf (te : tenv) (st : store) : Prop :=
  (forall x l, tlookup x te = Some (TRef l) -> (l < length st)%nat) /\
  (forall x y l, tlookup x te = Some (TRef l) -> tlookup y te = Some (TRef l) -> x = y) /\
  (forall x l, tlookup x te <> Some (TVal (VList l))).

Definition ragrees (te : tenv) (st : store) (rho : env) : Prop :=
  forall x, match tlookup x te with
            | Some (TVal v) => lookup x rho = Some v
            | Some (TRef l) => lookup x rho = Some (VList (nth l st []))
            | _ => True end.

Lemma tlookup_view st te x : tlookup x (view st te) = option_map (cbind_of st) (tlookup x te).
Proof.
  induction te as [|[k b] r IH]; [reflexivity|].
  cbn. destruct (text_eqb x k); [reflexivity|exact IH].
Qed.
Lemma ragrees_agrees te st rho : ragrees te st rho -> agrees (view st te) rho.
Proof.
  intros R x v H. rewrite tlookup_view in H. specialize (R x).
  destruct (tlookup x te) as [[v0|l|]|]; cbn in H; inversion H; subst; exact R.
Qed.

Lemma builtins_are_safe_names :
  forallb (fun f => tmem f safe_name_references) (safe_casts ++ [n_len; n_abs; n_max; n_min]) = true.
Proof. vm_compute. reflexivity. Qed.
Lemma builtin_is_safe_name f : In f safe_casts \/ In f [n_len; n_abs; n_max; n_min] -> tmem f safe_name_references = true.
Proof.
  intro H. pose proof builtins_are_safe_names as B. rewrite forallb_forall in B. apply B.
  apply in_or_app. exact H.
Qed.
Lemma unshadowed_cons x v rho : unshadowed rho -> tmem x safe_name_references = false -> unshadowed ((x, v) :: rho).
Proof.
  intros U H f Hf. unfold lookup. rewrite tl_ne; [apply U, Hf|].
  intro; subst. rewrite (builtin_is_safe_name _ Hf) in H. discriminate.
Qed.
Lemma unshadowed_rebind x v v' rho : unshadowed rho -> lookup x rho = Some v -> unshadowed ((x, v') :: rho).
Proof.
  intros U H f Hf. unfold lookup. destruct (teq_dec f x) as [->|N].
  - rewrite (U x Hf) in H. discriminate.
  - rewrite tl_ne by exact N. apply U, Hf.
Qed.

(* set_nth *)
Lemma set_nth_length {A} n (a : A) l : length (set_nth n a l) = length l.
Proof. revert n; induction l as [|x r IH]; intros [|n]; cbn; auto. Qed.
Lemma set_nth_same {A} n (a d : A) l : (n < length l)%nat -> nth n (set_nth n a l) d = a.
Proof. revert n; induction l as [|x r IH]; intros [|n] H; cbn in *; try lia; auto. apply IH. lia. Qed.
Lemma set_nth_other {A} n m (a d : A) l : n <> m -> nth m (set_nth n a l) d = nth m l d.
Proof.
  revert n m; induction l as [|x r IH]; intros [|n] [|m] H; cbn; try reflexivity; try congruence.
  apply IH. congruence.
Qed.

(* promote *)
Definition promote_names (parent : tenv) (ns skip : list ident) : tenv :=
  fold_right (fun x acc => if bound x parent || tmem x skip then acc else (x, TMark) :: acc) parent ns.
Lemma promote_is parent child skip : promote parent child skip = promote_names parent (map fst child) skip.
Proof. reflexivity. Qed.
Lemma promote_bound parent ns skip x b : tlookup x parent = Some b -> tlookup x (promote_names parent ns skip) = Some b.
Proof.
  intro H. induction ns as [|y r IH]; cbn; [exact H|].
  destruct (bound y parent || tmem y skip) eqn:E; [exact IH|].
  rewrite tl_ne; [exact IH|]. intro; subst y. apply orb_false_elim in E. destruct E as [E _].
  unfold bound in E. rewrite H in E. discriminate.
Qed.
Lemma promote_unbound parent ns skip x : tlookup x parent = None ->
  tlookup x (promote_names parent ns skip) = Some TMark \/ tlookup x (promote_names parent ns skip) = None.
Proof.
  intro H. induction ns as [|y r IH]; cbn; [right; exact H|].
  destruct (bound y parent || tmem y skip); [exact IH|].
  destruct (teq_dec x y) as [->|N]; [left; apply tl_eq|]. rewrite tl_ne by exact N. exact IH.
Qed.
Lemma promote_notin parent ns skip x : ~ In x ns -> tlookup x (promote_names parent ns skip) = tlookup x parent.
Proof.
  induction ns as [|y r IH]; cbn; intro H; [reflexivity|].
  destruct (bound y parent || tmem y skip); [apply IH; tauto|].
  rewrite tl_ne; [apply IH; tauto|]. intro; subst; tauto.
Qed.
Lemma promote_names_in parent ns skip y : In y (map fst (promote_names parent ns skip)) -> In y ns \/ In y (map fst parent).
Proof.
  induction ns as [|z r IH]; cbn; [tauto|].
  destruct (bound z parent || tmem z skip); cbn; intro H.
  - destruct (IH H); tauto.
  - destruct H as [H|H]; [tauto|]. destruct (IH H); tauto.
Qed.
Lemma promote_lookup parent ns skip x :
  tlookup x (promote_names parent ns skip) = tlookup x parent \/
  (tlookup x parent = None /\ tlookup x (promote_names parent ns skip) = Some TMark).
Proof.
  destruct (tlookup x parent) as [b|] eqn:E.
  - left. apply promote_bound. exact E.
  - destruct (promote_unbound parent ns skip x E) as [H|H]; [right; split; [reflexivity|exact H]|left; exact H].
Qed.
Lemma wf_promote te ns skip st st' : wf te st -> (length st <= length st')%nat -> wf (promote_names te ns skip) st'.
Proof.
  intros (W1 & W2 & W3) L. split; [|split].
  - intros x l H. destruct (promote_lookup te ns skip x) as [E|[_ E]]; rewrite E in H; [|discriminate].
    specialize (W1 _ _ H). lia.
  - intros x y l Hx Hy.
    destruct (promote_lookup te ns skip x) as [E|[_ E]]; rewrite E in Hx; [|discriminate].
    destruct (promote_lookup te ns skip y) as [E'|[_ E']]; rewrite E' in Hy; [|discriminate].
    eapply W2; eassumption.
  - intros x l H. destruct (promote_lookup te ns skip x) as [E|[_ E]]; rewrite E in H; [|discriminate].
    exact (W3 _ _ H).
Qed.

(* ---------------- run-time frame: a block only rebinds the names it writes ---------------- *)
Definition rframe_stmt (s : stmt) : Prop := forall orc rho rho' out orc',
  rstep s orc rho = Some (rho', out, orc') -> forall x, ~ In x (writes s) -> lookup x rho' = lookup x rho.
Definition rframe_blk (b : list stmt) : Prop := forall orc rho rho' out orc',
  rblock b orc rho = Some (rho', out, orc') -> forall x, ~ In x (writes_block b) -> lookup x rho' = lookup x rho.
Lemma rframe_block b : Forall rframe_stmt b -> rframe_blk b.
Proof.
  induction 1 as [|s r Hs _ IH]; intros orc rho rho' out orc' H x Hx.
  - rewrite rblock_nil in H. inversion H; subst. reflexivity.
  - rewrite rblock_cons in H. rewrite writes_block_cons in Hx.
    destruct (rstep s orc rho) as [[[rho1 o1] orc1]|] eqn:E1; [|discriminate].
    destruct (rblock r orc1 rho1) as [[[rho2 o2] orc2]|] eqn:E2; [|discriminate].
    inversion H; subst. rewrite (IH _ _ _ _ _ E2 x), (Hs _ _ _ _ _ E1 x); [reflexivity| |]; intro; apply Hx, in_or_app; tauto.
Qed.
Lemma rframe_witer a : rframe_blk a -> forall k orc rho rho' out orc',
  witer a k orc rho = Some (rho', out, orc') -> forall x, ~ In x (writes_block a) -> lookup x rho' = lookup x rho.
Proof.
  intros Ha. induction k as [|k IH]; intros orc rho rho' out orc' H x Hx; cbn in H.
  - inversion H; subst. reflexivity.
  - destruct (rblock a orc rho) as [[[rho1 o1] orc1]|] eqn:E1; [|discriminate].
    destruct (witer a k orc1 rho1) as [[[rho2 o2] orc2]|] eqn:E2; [|discriminate].
    inversion H; subst. rewrite (IH _ _ _ _ _ E2 x Hx). eapply Ha; eassumption.
Qed.
Lemma rframe_fiter y a : rframe_blk a -> forall k i orc rho rho' out orc',
  fiter y a k i orc rho = Some (rho', out, orc') -> forall x, x <> y -> ~ In x (writes_block a) -> lookup x rho' = lookup x rho.
Proof.
  intros Ha. induction k as [|k IH]; intros i orc rho rho' out orc' H x Ny Hx; cbn in H.
  - inversion H; subst. reflexivity.
  - destruct (rblock a orc ((y, VInt i) :: rho)) as [[[rho1 o1] orc1]|] eqn:E1; [|discriminate].
    destruct (fiter y a k (i + 1) orc1 rho1) as [[[rho2 o2] orc2]|] eqn:E2; [|discriminate].
    inversion H; subst. rewrite (IH _ _ _ _ _ _ E2 x Ny Hx). rewrite (Ha _ _ _ _ _ E1 x Hx).
    unfold lookup. apply tl_ne. exact Ny.
Qed.
Lemma rframe_all : forall s, rframe_stmt s.
Proof.
  apply stmt_ind'.
  - intros x e orc rho rho' out orc' H y Hy. rewrite rstep_simple in H by exact I. cbn in H.
    destruct (peval rho e); [|discriminate]. inversion H; subst. unfold lookup. apply tl_ne. cbn in Hy. intuition congruence.
  - intros x e orc rho rho' out orc' H y Hy. rewrite rstep_simple in H by exact I. cbn in H.
    destruct (peval rho e); [|discriminate]. destruct (lookup x rho) as [[]|]; try discriminate.
    inversion H; subst. unfold lookup. apply tl_ne. cbn in Hy. intuition congruence.
  - intros x e orc rho rho' out orc' H y Hy. rewrite rstep_simple in H by exact I. cbn in H.
    destruct (peval rho e); [|discriminate]. destruct (lookup x rho) as [[]|]; try discriminate.
    destruct (remove_first p l); [|discriminate].
    inversion H; subst. unfold lookup. apply tl_ne. cbn in Hy. intuition congruence.
  - intros o orc rho rho' out orc' H y Hy. rewrite rstep_simple in H by exact I. cbn in H.
    destruct (robs o rho); [|discriminate]. inversion H; subst. reflexivity.
  - intros v orc rho rho' out orc' H y Hy. rewrite rstep_simple in H by exact I. cbn in H.
    inversion H; subst. reflexivity.
  - intros a b Fa Fb orc rho rho' out orc' H y Hy. rewrite rstep_if in H. rewrite writes_if in Hy.
    destruct orc as [|[|k] orc1]; [discriminate| |].
    + eapply (rframe_block b Fb); [exact H|]. intro; apply Hy, in_or_app; tauto.
    + eapply (rframe_block a Fa); [exact H|]. intro; apply Hy, in_or_app; tauto.
  - intros a Fa orc rho rho' out orc' H y Hy. rewrite rstep_while in H. rewrite writes_while in Hy.
    destruct orc as [|k orc1]; [discriminate|]. eapply rframe_witer; [apply rframe_block, Fa|exact H|exact Hy].
  - intros x a Fa orc rho rho' out orc' H y Hy. rewrite rstep_for in H. rewrite writes_for in Hy.
    destruct orc as [|k orc1]; [discriminate|].
    eapply rframe_fiter; [apply rframe_block, Fa|exact H| |]; intro; apply Hy; cbn; [left; congruence|tauto].
Qed.
Lemma rframe_blocks b : rframe_blk b.
Proof. apply rframe_block. apply Forall_forall. intros s _. apply rframe_all. Qed.

(* ---------------- transpile-time frame ---------------- *)
Definition tframe_concl (ws : list ident) (te : tenv) (st : store) (te' : tenv) (st' : store) : Prop :=
  wf te' st' /\ (length st <= length st')%nat /\
  (forall x l, tlookup x te = Some (TRef l) -> ~ In x ws -> nth l st' [] = nth l st []) /\
  (forall x, ~ In x ws -> tlookup x te' = tlookup x te) /\
  (forall y, In y (map fst te') -> In y (map fst te) \/ In y ws).
Definition tframe_stmt (s : stmt) : Prop := forall te st te' st' res f,
  tstep s te st = Some (te', st', res, f) -> wf te st -> tframe_concl (writes s) te st te' st'.
Definition tframe_blk (b : list stmt) : Prop := forall te st te' st' res f,
  tblock b te st = Some (te', st', res, f) -> wf te st -> tframe_concl (writes_block b) te st te' st'.

Lemma tframe_refl ws te st : wf te st -> tframe_concl ws te st te st.
Proof. intro W. repeat split; try apply W; auto. Qed.

Lemma wf_cons_mark x te st : wf te st -> wf ((x, TMark) :: te) st.
Proof.
  intros (W1 & W2 & W3). split; [|split].
  - intros y l H. destruct (teq_dec y x) as [->|N]; [rewrite tl_eq in H; discriminate|]. rewrite tl_ne in H by exact N. eauto.
  - intros y z l Hy Hz.
    destruct (teq_dec y x) as [->|N]; [rewrite tl_eq in Hy; discriminate|]. rewrite tl_ne in Hy by exact N.
    destruct (teq_dec z x) as [->|N']; [rewrite tl_eq in Hz; discriminate|]. rewrite tl_ne in Hz by exact N'. eauto.
  - intros y l H. destruct (teq_dec y x) as [->|N]; [rewrite tl_eq in H; discriminate|]. rewrite tl_ne in H by exact N. exact (W3 _ _ H).
Qed.
Lemma wf_cons_val x v te st : (forall l, v <> VList l) -> wf te st -> wf ((x, TVal v) :: te) st.
Proof.
  intros NV (W1 & W2 & W3). split; [|split].
  - intros y l H. destruct (teq_dec y x) as [->|N]; [rewrite tl_eq in H; discriminate|]. rewrite tl_ne in H by exact N. eauto.
  - intros y z l Hy Hz.
    destruct (teq_dec y x) as [->|N]; [rewrite tl_eq in Hy; discriminate|]. rewrite tl_ne in Hy by exact N.
    destruct (teq_dec z x) as [->|N']; [rewrite tl_eq in Hz; discriminate|]. rewrite tl_ne in Hz by exact N'. eauto.
  - intros y l H. destruct (teq_dec y x) as [->|N]; [rewrite tl_eq in H; inversion H; subst; eapply NV; reflexivity|].
    rewrite tl_ne in H by exact N. exact (W3 _ _ H).
Qed.
Lemma wf_cons_ref x l0 te st : wf te st -> wf ((x, TRef (length st)) :: te) (st ++ [l0]).
Proof.
  intros (W1 & W2 & W3). split; [|split].
  - intros y l H. rewrite app_length. cbn. destruct (teq_dec y x) as [->|N].
    + rewrite tl_eq in H. inversion H. lia.
    + rewrite tl_ne in H by exact N. specialize (W1 _ _ H). lia.
  - intros y z l Hy Hz.
    destruct (teq_dec y x) as [->|N]; destruct (teq_dec z x) as [->|N']; try reflexivity.
    + rewrite tl_eq in Hy. rewrite tl_ne in Hz by exact N'. inversion Hy; subst. specialize (W1 _ _ Hz). lia.
    + rewrite tl_eq in Hz. rewrite tl_ne in Hy by exact N. inversion Hz; subst. specialize (W1 _ _ Hy). lia.
    + rewrite tl_ne in Hy by exact N. rewrite tl_ne in Hz by exact N'. eauto.
  - intros y l H. destruct (teq_dec y x) as [->|N]; [rewrite tl_eq in H; discriminate|]. rewrite tl_ne in H by exact N. exact (W3 _ _ H).
Qed.
Lemma wf_set_nth te st l v : wf te st -> wf te (set_nth l v st).
Proof. intros (W1 & W2 & W3). split; [|split]; auto. intros x l' H. rewrite set_nth_length. eauto. Qed.

Lemma tframe_cons_any x b te st : wf ((x, b) :: te) st -> wf te st -> tframe_concl [x] te st ((x, b) :: te) st.
Proof.
  intros W' W. split; [exact W'|]. split; [lia|]. split; [reflexivity|]. split.
  - intros y Hy. apply tl_ne. cbn in Hy. intuition congruence.
  - cbn. intros y [H|H]; [right; left; exact H|left; exact H].
Qed.

Lemma tframe_simple s : simple s -> tframe_stmt s.
Proof.
  intros Hs te st te' st' res f H W. rewrite tstep_simple in H by exact Hs.
  destruct s as [x e|x e|x e|o|v| | |]; try contradiction; cbn [tsimple] in H.
  - (* assign *)
    destruct (eval_const (view st te) e) as [v|k|] eqn:E; [| |discriminate].
    + destruct v; inversion H; subst; clear H;
        try (apply tframe_cons_any; [apply wf_cons_val; [intros l0; discriminate|exact W]|exact W]).
      split; [apply wf_cons_ref; exact W|]. split; [rewrite app_length; cbn; lia|]. split; [|split].
      * intros y l0 Hy _. destruct W as (W1 & _). specialize (W1 _ _ Hy). rewrite app_nth1 by exact W1. reflexivity.
      * intros y Hy. apply tl_ne. cbn in Hy. intuition congruence.
      * cbn. intros y [Hy|Hy]; [right; left; exact Hy|left; exact Hy].
    + inversion H; subst. apply tframe_cons_any; [apply wf_cons_mark; exact W|exact W].
  - (* append *)
    destruct (eval_const (view st te) e) as [v|k|] eqn:E; [| |discriminate];
      (destruct (tlookup x te) as [[v0|l|]|] eqn:Lx; inversion H; subst; clear H;
       [apply tframe_refl; exact W
       | split; [apply wf_set_nth; exact W|]; split; [rewrite set_nth_length; lia|]; split; [|split; [reflexivity|tauto]];
         intros y l0 Hy Ny; apply set_nth_other; intro; subst l0; apply Ny; left;
         destruct W as (_ & W2 & _); symmetry; eapply W2; eassumption
       | apply tframe_cons_any; [apply wf_cons_mark; exact W|exact W]
       | apply tframe_cons_any; [apply wf_cons_mark; exact W|exact W] ]).
  - (* remove *)
    assert (SET : forall l v, tlookup x te = Some (TRef l) -> tframe_concl [x] te st te (set_nth l v st)).
    { intros l v Lx. split; [apply wf_set_nth; exact W|]. split; [rewrite set_nth_length; lia|]. split; [|split; [reflexivity|tauto]].
      intros y l0 Hy Ny. apply set_nth_other. intro; subst l0. apply Ny. left.
      destruct W as (_ & W2 & _). symmetry. eapply W2; eassumption. }
    destruct (eval_const (view st te) e) as [v|k|] eqn:E; [| |discriminate];
      (destruct (tlookup x te) as [[v0|l|]|] eqn:Lx;
       [inversion H; subst; apply tframe_refl; exact W
       | try (destruct (remove_first v (nth l st [])) eqn:R); inversion H; subst; first [apply SET; reflexivity | apply tframe_refl; exact W]
       | inversion H; subst; apply tframe_cons_any; [apply wf_cons_mark; exact W|exact W]
       | inversion H; subst; apply tframe_cons_any; [apply wf_cons_mark; exact W|exact W] ]).
  - (* obs *)
    destruct o as [x|x].
    + destruct (literal_length (view st te) (EName x)); inversion H; subst; apply tframe_refl; exact W.
    + destruct (tlookup x te) as [[v0|l|]|]; try discriminate.
      * destruct v0; try discriminate. destruct (forallb is_num_entry l); inversion H; subst. apply tframe_refl; exact W.
      * destruct (forallb is_num_entry (nth l st [])); inversion H; subst. apply tframe_refl; exact W.
  - inversion H; subst. apply tframe_refl; exact W.
Qed.

Lemma tframe_weaken ws ws' te st te' st' : (forall x, In x ws -> In x ws') -> tframe_concl ws te st te' st' -> tframe_concl ws' te st te' st'.
Proof.
  intros S (A & B & C & D & E). repeat split; try apply A; auto.
  intros y Hy. destruct (E y Hy); auto.
Qed.

Lemma tframe_seq ws1 ws2 te st te1 st1 te2 st2 :
  tframe_concl ws1 te st te1 st1 -> tframe_concl ws2 te1 st1 te2 st2 -> tframe_concl (ws1 ++ ws2) te st te2 st2.
Proof.
  intros (A1 & B1 & C1 & D1 & E1) (A2 & B2 & C2 & D2 & E2). split; [exact A2|]. split; [lia|]. split; [|split].
  - intros x l Hx Nx. rewrite (C2 x l); [apply (C1 x l Hx)| |]; try (intro; apply Nx, in_or_app; tauto).
    rewrite D1; [exact Hx|]. intro; apply Nx, in_or_app; tauto.
  - intros x Nx. rewrite D2, D1; [reflexivity| |]; intro; apply Nx, in_or_app; tauto.
  - intros y Hy. destruct (E2 y Hy) as [H|H]; [destruct (E1 y H); [left; assumption|right; apply in_or_app; tauto]|right; apply in_or_app; tauto].
Qed.

Lemma tframe_block b : Forall tframe_stmt b -> tframe_blk b.
Proof.
  induction 1 as [|s r Hs _ IH]; intros te st te' st' res f H W.
  - cbn in H. inversion H; subst. apply tframe_refl. exact W.
  - rewrite tblock_cons in H. rewrite writes_block_cons.
    destruct (tstep s te st) as [[[[te1 st1] r1] f1]|] eqn:E1; [|discriminate].
    destruct (tblock r te1 st1) as [[[[te2 st2] r2] f2]|] eqn:E2; [|discriminate].
    inversion H; subst. pose proof (Hs _ _ _ _ _ _ E1 W) as F1.
    eapply tframe_seq; [exact F1|]. eapply IH; [exact E2|]. apply F1.
Qed.

(* the environment after a block: the parent's bindings, plus markers *)
Lemma tframe_promote ws te st te1 st1 skip :
  wf te st -> (length st <= length st1)%nat ->
  (forall x l, tlookup x te = Some (TRef l) -> ~ In x ws -> nth l st1 [] = nth l st []) ->
  (forall y, In y (map fst te1) -> In y (map fst te) \/ In y ws) ->
  tframe_concl ws te st (promote te te1 skip) st1.
Proof.
  intros W L C E. rewrite promote_is. split; [eapply wf_promote; eassumption|]. split; [exact L|]. split; [exact C|]. split.
  - intros x Nx. destruct (tlookup x te) as [b|] eqn:Lx; [apply promote_bound; exact Lx|].
    rewrite promote_notin; [exact Lx|]. intro H. destruct (E _ H) as [H'|H']; [|tauto].
    apply tl_notin in Lx; [|]. 2:{ intro. admit_placeholder. }
    tauto.
  - intros y Hy. destruct (promote_names_in _ _ _ _ Hy) as [H|H]; [apply E; exact H|left; exact H].
Qed.
