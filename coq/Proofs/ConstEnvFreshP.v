(* The constant environment is sound on fresh programs: if the ghost flag of Lang/ConstEnv.tblock stays true
   (no write to a name with a known transpile-time value inside a block that may be skipped or repeated, append /
   remove only with arguments known at transpile time, ...), the residual program - with its baked-in constants -
   produces, on every control-flow path, exactly the outputs of the source program. *)
From Coq Require Import ZArith QArith List Bool Lia Arith.
From RV Require Import Base.Wire Base.Text Lang.PyAst Lang.PySem Gen.SafeCasts Lang.ConstEval Lang.ConstEnv Proofs.ConstEvalP Proofs.ConstEnvP.
Import ListNotations.
Open Scope Z_scope.

(* ---------------- induction over statements with nested blocks ---------------- *)
Section StmtInd.
  Variable P : stmt -> Prop.
  Hypothesis Hassign : forall x e, P (SAssign x e).
  Hypothesis Happend : forall x e, P (SAppend x e).
  Hypothesis Hremove : forall x e, P (SRemove x e).
  Hypothesis Hobs : forall o, P (SObs o).
  Hypothesis Hemit : forall v, P (SEmit v).
  Hypothesis Hif : forall a b, Forall P a -> Forall P b -> P (SIf a b).
  Hypothesis Hwhile : forall a, Forall P a -> P (SWhile a).
  Hypothesis Hfor : forall x a, Forall P a -> P (SFor x a).
  Hypothesis Haug : forall x op e, P (SAug x op e).
  Fixpoint stmt_ind' (s : stmt) : P s :=
    let fix go (l : list stmt) : Forall P l :=
      match l with [] => Forall_nil _ | x :: r => Forall_cons _ (stmt_ind' x) (go r) end in
    match s with
    | SAssign x e => Hassign x e | SAppend x e => Happend x e | SRemove x e => Hremove x e
    | SObs o => Hobs o | SEmit v => Hemit v
    | SIf a b => Hif a b (go a) (go b) | SWhile a => Hwhile a (go a) | SFor x a => Hfor x a (go a)
    | SAug x op e => Haug x op e
    end.
End StmtInd.

(* ---------------- association lists ---------------- *)
Lemma teq_dec (a b : text) : {a = b} + {a <> b}.
Proof.
  destruct (text_eqb a b) eqn:E.
  - left. apply text_eqb_eq. exact E.
  - right. intro H. apply text_eqb_eq in H. congruence.
Qed.
Lemma tl_eq {A} x (v : A) l : tlookup x ((x, v) :: l) = Some v.
Proof. cbn. rewrite text_eqb_refl. reflexivity. Qed.
Lemma tl_ne {A} x y (v : A) l : x <> y -> tlookup x ((y, v) :: l) = tlookup x l.
Proof. intro H. cbn. destruct (text_eqb x y) eqn:E; [apply text_eqb_eq in E; contradiction | reflexivity]. Qed.
Lemma tl_in {A} x (l : list (text * A)) b : tlookup x l = Some b -> In x (map fst l).
Proof.
  induction l as [|[k v] r IH]; cbn; [discriminate|].
  destruct (text_eqb x k) eqn:E; intro H.
  - left. symmetry. apply text_eqb_eq. exact E.
  - right. apply IH. exact H.
Qed.
Lemma in_tl_some {A} x (l : list (text * A)) : In x (map fst l) -> tlookup x l <> None.
Proof.
  induction l as [|[k v] r IH]; cbn; [tauto|].
  intros [H|H]; [subst; rewrite text_eqb_refl; discriminate|].
  destruct (text_eqb x k); [discriminate|apply IH; exact H].
Qed.
Lemma tl_notin {A} x (l : list (text * A)) : ~ In x (map fst l) -> tlookup x l = None.
Proof. intro H. destruct (tlookup x l) eqn:E; [|reflexivity]. elim H. eapply tl_in. exact E. Qed.
Lemma tmem_in a l : tmem a l = true <-> In a l.
Proof.
  induction l as [|b r IH]; cbn; [split; [discriminate|tauto]|].
  rewrite orb_true_iff, text_eqb_eq, IH. split; intros [H|H]; auto.
Qed.

(* ---------------- unfolding the nested fixpoints ---------------- *)
Definition witer (body : list stmt) :=
  fix iter (k : nat) (orc : list nat) (rho : env) {struct k} : rres :=
    match k with
    | O => Some (rho, [], orc)
    | S k' => match rblock body orc rho with
              | Some (rho1, o1, orc1) =>
                  match iter k' orc1 rho1 with Some (rho2, o2, orc2) => Some (rho2, o1 ++ o2, orc2) | None => None end
              | None => None end
    end.
Definition fiter (x : ident) (body : list stmt) :=
  fix iter (k : nat) (i : Z) (orc : list nat) (rho : env) {struct k} : rres :=
    match k with
    | O => Some (rho, [], orc)
    | S k' => match rblock body orc ((x, VInt i) :: rho) with
              | Some (rho1, o1, orc1) =>
                  match iter k' (i + 1) orc1 rho1 with Some (rho2, o2, orc2) => Some (rho2, o1 ++ o2, orc2) | None => None end
              | None => None end
    end.
Lemma rstep_if a b orc rho : rstep (SIf a b) orc rho =
  match orc with O :: orc' => rblock b orc' rho | _ :: orc' => rblock a orc' rho | [] => None end.
Proof. reflexivity. Qed.
Lemma rstep_while a orc rho : rstep (SWhile a) orc rho =
  match orc with k :: orc' => witer a k orc' rho | [] => None end.
Proof. reflexivity. Qed.
Lemma rstep_for x a orc rho : rstep (SFor x a) orc rho =
  match orc with k :: orc' => fiter x a k 0 orc' rho | [] => None end.
Proof. reflexivity. Qed.
Definition simple (s : stmt) : Prop := match s with SIf _ _ | SWhile _ | SFor _ _ => False | _ => True end.
Lemma rstep_simple s orc rho : simple s ->
  rstep s orc rho = match rsimple s rho with Some (rho', o) => Some (rho', o, orc) | None => None end.
Proof. destruct s; cbn; intro H; try contradiction; reflexivity. Qed.
Lemma rblock_cons s r orc rho : rblock (s :: r) orc rho =
  match rstep s orc rho with
  | Some (rho1, o1, orc1) =>
      match rblock r orc1 rho1 with Some (rho2, o2, orc2) => Some (rho2, o1 ++ o2, orc2) | None => None end
  | None => None end.
Proof. reflexivity. Qed.
Lemma rblock_nil orc rho : rblock [] orc rho = Some (rho, [], orc).
Proof. reflexivity. Qed.
Lemma rblock_app a : forall b orc rho, rblock (a ++ b) orc rho =
  match rblock a orc rho with
  | Some (rho1, o1, orc1) =>
      match rblock b orc1 rho1 with Some (rho2, o2, orc2) => Some (rho2, o1 ++ o2, orc2) | None => None end
  | None => None end.
Proof.
  induction a as [|s r IH]; intros b orc rho.
  - rewrite rblock_nil. cbn [app]. destruct (rblock b orc rho) as [[[? ?] ?]|]; reflexivity.
  - cbn [app]. rewrite !rblock_cons. destruct (rstep s orc rho) as [[[rho1 o1] orc1]|]; [|reflexivity].
    rewrite IH. destruct (rblock r orc1 rho1) as [[[rho2 o2] orc2]|]; [|reflexivity].
    destruct (rblock b orc2 rho2) as [[[rho3 o3] orc3]|]; [|reflexivity].
    rewrite app_assoc. reflexivity.
Qed.
Lemma rblock_single s orc rho : rblock [s] orc rho = rstep s orc rho.
Proof.
  rewrite rblock_cons. destruct (rstep s orc rho) as [[[rho1 o1] orc1]|]; [|reflexivity].
  rewrite rblock_nil, app_nil_r. reflexivity.
Qed.

(* every lemma about the transpiler holds for every list [vol] of names written by function bodies *)
Section WithVol.
Context {vol : list ident}.
Notation tstep := (ConstEnv.tstep vol).
Notation tblock := (ConstEnv.tblock vol).

Lemma tstep_if a b te st : tstep (SIf a b) te st =
  match tblock a te st with
  | Some (te1, _, r1, f1) =>
      match tblock b te st with
      | Some (te2, _, r2, f2) =>
          Some (forget (writes (SIf a b)) (promote (promote te te1 []) te2 []), st, [SIf r1 r2],
                f1 && f2 && no_safe (writes (SIf a b)))
      | None => None end
  | None => None end.
Proof. reflexivity. Qed.
Lemma tstep_while a te st : tstep (SWhile a) te st =
  match tblock a (forget (writes (SWhile a)) te) st with
  | Some (te1, _, r1, f1) =>
      Some (promote (forget (writes (SWhile a)) te) te1 [], st, [SWhile r1], f1 && no_safe (writes (SWhile a)))
  | None => None end.
Proof. reflexivity. Qed.
Lemma tstep_for x a te st : tstep (SFor x a) te st =
  match tblock a ((x, TMark) :: forget (writes (SFor x a)) te) st with
  | Some (te1, _, r1, f1) =>
      Some (promote (forget (writes (SFor x a)) te) te1 [x], st, [SFor x r1], f1 && no_safe (writes (SFor x a)))
  | None => None end.
Proof. reflexivity. Qed.
Lemma tstep_simple s te st : simple s ->
  tstep s te st = match tsimple s te st with
                  | Some (te1, st1, r1, f1) => Some (after_assign vol s te1, st1, r1, f1)
                  | None => None end.
Proof. destruct s; cbn; intro H; try contradiction; reflexivity. Qed.
Lemma tblock_cons s r te st : tblock (s :: r) te st =
  match tstep s te st with
  | Some (te1, st1, r1, f1) =>
      match tblock r te1 st1 with Some (te2, st2, r2, f2) => Some (te2, st2, r1 ++ r2, f1 && f2) | None => None end
  | None => None end.
Proof. reflexivity. Qed.
End WithVol.
Lemma writes_if a b : writes (SIf a b) = writes_block a ++ writes_block b. Proof. reflexivity. Qed.
Lemma writes_while a : writes (SWhile a) = writes_block a. Proof. reflexivity. Qed.
Lemma writes_for x a : writes (SFor x a) = x :: writes_block a. Proof. reflexivity. Qed.
Lemma writes_block_cons s r : writes_block (s :: r) = writes s ++ writes_block r. Proof. reflexivity. Qed.

(* ---------------- invariants ---------------- *)
Definition wf (te : tenv) (st : store) : Prop :=
  (forall x l, tlookup x te = Some (TRef l) -> (l < length st)%nat) /\
  (forall x y l, tlookup x te = Some (TRef l) -> tlookup y te = Some (TRef l) -> x = y) /\
  (forall x l, tlookup x te <> Some (TVal (VList l))).

Definition ragrees (te : tenv) (st : store) (rho : env) : Prop :=
  forall x, match tlookup x te with
            | Some (TVal v) => lookup x rho = Some v
            | Some (TRef l) => lookup x rho = Some (VList (nth l st []))
            | _ => True end.

Lemma tlookup_view st te x : tlookup x (view st te) = option_map (cbind_of st) (tlookup x te).
Proof.
  induction te as [|[k b] r IH]; [reflexivity|].
  cbn. destruct (text_eqb x k); [reflexivity|exact IH].
Qed.
Lemma ragrees_agrees te st rho : ragrees te st rho -> agrees (view st te) rho.
Proof.
  intros R x v H. rewrite tlookup_view in H. specialize (R x).
  destruct (tlookup x te) as [[v0|l|]|]; cbn in H; inversion H; subst; exact R.
Qed.

Lemma builtins_are_safe_names :
  forallb (fun f => tmem f safe_name_references) (safe_casts ++ [n_len; n_abs; n_max; n_min]) = true.
Proof. vm_compute. reflexivity. Qed.
Lemma builtin_is_safe_name f : In f safe_casts \/ In f [n_len; n_abs; n_max; n_min] -> tmem f safe_name_references = true.
Proof.
  intro H. pose proof builtins_are_safe_names as B. rewrite forallb_forall in B. apply B.
  apply in_or_app. exact H.
Qed.
Lemma unshadowed_cons x v rho : unshadowed rho -> tmem x safe_name_references = false -> unshadowed ((x, v) :: rho).
Proof.
  intros U H f Hf. unfold lookup. rewrite tl_ne; [apply U, Hf|].
  intro; subst. rewrite (builtin_is_safe_name _ Hf) in H. discriminate.
Qed.
Lemma unshadowed_rebind x v v' rho : unshadowed rho -> lookup x rho = Some v -> unshadowed ((x, v') :: rho).
Proof.
  intros U H f Hf. unfold lookup. destruct (teq_dec f x) as [->|N].
  - rewrite (U x Hf) in H. discriminate.
  - rewrite tl_ne by exact N. apply U, Hf.
Qed.

(* set_nth *)
Lemma set_nth_length {A} n (a : A) l : length (set_nth n a l) = length l.
Proof. revert n; induction l as [|x r IH]; intros [|n]; cbn; auto. Qed.
Lemma set_nth_same {A} n (a d : A) l : (n < length l)%nat -> nth n (set_nth n a l) d = a.
Proof. revert n; induction l as [|x r IH]; intros [|n] H; cbn in *; try lia; auto. apply IH. lia. Qed.
Lemma set_nth_other {A} n m (a d : A) l : n <> m -> nth m (set_nth n a l) d = nth m l d.
Proof.
  revert n m; induction l as [|x r IH]; intros [|n] [|m] H; cbn; try reflexivity; try congruence.
  apply IH. congruence.
Qed.

(* promote *)
Definition promote_names (parent : tenv) (ns skip : list ident) : tenv :=
  fold_right (fun x acc => if bound x parent || tmem x skip then acc else (x, TMark) :: acc) parent ns.
Lemma promote_is parent child skip : promote parent child skip = promote_names parent (map fst child) skip.
Proof. reflexivity. Qed.
Lemma promote_bound parent ns skip x b : tlookup x parent = Some b -> tlookup x (promote_names parent ns skip) = Some b.
Proof.
  intro H. induction ns as [|y r IH]; cbn; [exact H|].
  destruct (bound y parent || tmem y skip) eqn:E; [exact IH|].
  rewrite tl_ne; [exact IH|]. intro; subst y. apply orb_false_elim in E. destruct E as [E _].
  unfold bound in E. rewrite H in E. discriminate.
Qed.
Lemma promote_unbound parent ns skip x : tlookup x parent = None ->
  tlookup x (promote_names parent ns skip) = Some TMark \/ tlookup x (promote_names parent ns skip) = None.
Proof.
  intro H. induction ns as [|y r IH]; cbn; [right; exact H|].
  destruct (bound y parent || tmem y skip); [exact IH|].
  destruct (teq_dec x y) as [->|N]; [left; apply tl_eq|]. rewrite tl_ne by exact N. exact IH.
Qed.
Lemma promote_notin parent ns skip x : ~ In x ns -> tlookup x (promote_names parent ns skip) = tlookup x parent.
Proof.
  induction ns as [|y r IH]; cbn; intro H; [reflexivity|].
  destruct (bound y parent || tmem y skip); [apply IH; tauto|].
  rewrite tl_ne; [apply IH; tauto|]. intro; subst; tauto.
Qed.
Lemma promote_names_in parent ns skip y : In y (map fst (promote_names parent ns skip)) -> In y ns \/ In y (map fst parent).
Proof.
  induction ns as [|z r IH]; cbn; [tauto|].
  destruct (bound z parent || tmem z skip); cbn; intro H.
  - destruct (IH H); tauto.
  - destruct H as [H|H]; [tauto|]. destruct (IH H); tauto.
Qed.
Lemma promote_lookup parent ns skip x :
  tlookup x (promote_names parent ns skip) = tlookup x parent \/
  (tlookup x parent = None /\ tlookup x (promote_names parent ns skip) = Some TMark).
Proof.
  destruct (tlookup x parent) as [b|] eqn:E.
  - left. apply promote_bound. exact E.
  - destruct (promote_unbound parent ns skip x E) as [H|H]; [right; split; [reflexivity|exact H]|left; exact H].
Qed.
Lemma wf_promote te ns skip st st' : wf te st -> (length st <= length st')%nat -> wf (promote_names te ns skip) st'.
Proof.
  intros (W1 & W2 & W3) L. split; [|split].
  - intros x l H. destruct (promote_lookup te ns skip x) as [E|[_ E]]; rewrite E in H; [|discriminate].
    specialize (W1 _ _ H). lia.
  - intros x y l Hx Hy.
    destruct (promote_lookup te ns skip x) as [E|[_ E]]; rewrite E in Hx; [|discriminate].
    destruct (promote_lookup te ns skip y) as [E'|[_ E']]; rewrite E' in Hy; [|discriminate].
    eapply W2; eassumption.
  - intros x l H. destruct (promote_lookup te ns skip x) as [E|[_ E]]; rewrite E in H; [|discriminate].
    exact (W3 _ _ H).
Qed.

(* ---------------- run-time frame: a block only rebinds the names it writes ---------------- *)
Definition rframe_stmt (s : stmt) : Prop := forall orc rho rho' out orc',
  rstep s orc rho = Some (rho', out, orc') -> forall x, ~ In x (writes s) -> lookup x rho' = lookup x rho.
Definition rframe_blk (b : list stmt) : Prop := forall orc rho rho' out orc',
  rblock b orc rho = Some (rho', out, orc') -> forall x, ~ In x (writes_block b) -> lookup x rho' = lookup x rho.
Lemma rframe_block b : Forall rframe_stmt b -> rframe_blk b.
Proof.
  induction 1 as [|s r Hs _ IH]; intros orc rho rho' out orc' H x Hx.
  - rewrite rblock_nil in H. inversion H; subst. reflexivity.
  - rewrite rblock_cons in H. rewrite writes_block_cons in Hx.
    destruct (rstep s orc rho) as [[[rho1 o1] orc1]|] eqn:E1; [|discriminate].
    destruct (rblock r orc1 rho1) as [[[rho2 o2] orc2]|] eqn:E2; [|discriminate].
    inversion H; subst. rewrite (IH _ _ _ _ _ E2 x), (Hs _ _ _ _ _ E1 x); [reflexivity| |]; intro; apply Hx, in_or_app; tauto.
Qed.
Lemma rframe_witer a : rframe_blk a -> forall k orc rho rho' out orc',
  witer a k orc rho = Some (rho', out, orc') -> forall x, ~ In x (writes_block a) -> lookup x rho' = lookup x rho.
Proof.
  intros Ha. induction k as [|k IH]; intros orc rho rho' out orc' H x Hx; cbn in H.
  - inversion H; subst. reflexivity.
  - destruct (rblock a orc rho) as [[[rho1 o1] orc1]|] eqn:E1; [|discriminate].
    destruct (witer a k orc1 rho1) as [[[rho2 o2] orc2]|] eqn:E2; [|discriminate].
    inversion H; subst. rewrite (IH _ _ _ _ _ E2 x Hx). eapply Ha; eassumption.
Qed.
Lemma rframe_fiter y a : rframe_blk a -> forall k i orc rho rho' out orc',
  fiter y a k i orc rho = Some (rho', out, orc') -> forall x, x <> y -> ~ In x (writes_block a) -> lookup x rho' = lookup x rho.
Proof.
  intros Ha. induction k as [|k IH]; intros i orc rho rho' out orc' H x Ny Hx; cbn in H.
  - inversion H; subst. reflexivity.
  - destruct (rblock a orc ((y, VInt i) :: rho)) as [[[rho1 o1] orc1]|] eqn:E1; [|discriminate].
    destruct (fiter y a k (i + 1) orc1 rho1) as [[[rho2 o2] orc2]|] eqn:E2; [|discriminate].
    inversion H; subst. rewrite (IH _ _ _ _ _ _ E2 x Ny Hx). rewrite (Ha _ _ _ _ _ E1 x Hx).
    unfold lookup. apply tl_ne. exact Ny.
Qed.
Lemma rframe_all : forall s, rframe_stmt s.
Proof.
  apply stmt_ind'.
  - intros x e orc rho rho' out orc' H y Hy. rewrite rstep_simple in H by exact I. cbn in H.
    destruct (peval rho e); [|discriminate]. inversion H; subst. unfold lookup. apply tl_ne. cbn in Hy. intuition congruence.
  - intros x e orc rho rho' out orc' H y Hy. rewrite rstep_simple in H by exact I. cbn in H.
    destruct (peval rho e); [|discriminate]. destruct (lookup x rho) as [[]|]; try discriminate.
    inversion H; subst. unfold lookup. apply tl_ne. cbn in Hy. intuition congruence.
  - intros x e orc rho rho' out orc' H y Hy. rewrite rstep_simple in H by exact I. cbn in H.
    destruct (peval rho e) as [pv|]; [|discriminate]. destruct (lookup x rho) as [[| | | |cur| |]|]; try discriminate.
    destruct (remove_first pv cur); [|discriminate].
    inversion H; subst. unfold lookup. apply tl_ne. cbn in Hy. intuition congruence.
  - intros o orc rho rho' out orc' H y Hy. rewrite rstep_simple in H by exact I. cbn in H.
    destruct (robs o rho); [|discriminate]. inversion H; subst. reflexivity.
  - intros v orc rho rho' out orc' H y Hy. rewrite rstep_simple in H by exact I. cbn in H.
    inversion H; subst. reflexivity.
  - intros a b Fa Fb orc rho rho' out orc' H y Hy. rewrite rstep_if in H. rewrite writes_if in Hy.
    destruct orc as [|[|k] orc1]; [discriminate| |].
    + eapply (rframe_block b Fb); [exact H|]. intro; apply Hy, in_or_app; tauto.
    + eapply (rframe_block a Fa); [exact H|]. intro; apply Hy, in_or_app; tauto.
  - intros a Fa orc rho rho' out orc' H y Hy. rewrite rstep_while in H. rewrite writes_while in Hy.
    destruct orc as [|k orc1]; [discriminate|]. eapply rframe_witer; [apply rframe_block, Fa|exact H|exact Hy].
  - intros x a Fa orc rho rho' out orc' H y Hy. rewrite rstep_for in H. rewrite writes_for in Hy.
    destruct orc as [|k orc1]; [discriminate|].
    eapply rframe_fiter; [apply rframe_block, Fa|exact H| |]; intro; apply Hy; cbn; [left; congruence|tauto].
  - intros x op e orc rho rho' out orc' H y Hy. rewrite rstep_simple in H by exact I. cbn [rsimple] in H.
    destruct (peval rho (EBin op (EName x) e)); [|discriminate]. inversion H; subst. unfold lookup. apply tl_ne. cbn in Hy. intuition congruence.
Qed.
Lemma rframe_blocks b : rframe_blk b.
Proof. apply rframe_block. apply Forall_forall. intros s _. apply rframe_all. Qed.

(* ---------------- transpile-time frame ---------------- *)
Definition tframe_concl (ws : list ident) (te : tenv) (st : store) (te' : tenv) (st' : store) : Prop :=
  wf te' st' /\ (length st <= length st')%nat /\
  (forall x l, tlookup x te = Some (TRef l) -> ~ In x ws -> nth l st' [] = nth l st []) /\
  (forall x, ~ In x ws -> tlookup x te' = tlookup x te) /\
  (forall y, In y (map fst te') -> In y (map fst te) \/ In y ws).
(* forgetting *)
Lemma mark_all_cons a ws te : mark_all (a :: ws) te = (a, TMark) :: mark_all ws te.
Proof. reflexivity. Qed.
Lemma mark_all_in ws te x : In x ws -> tlookup x (mark_all ws te) = Some TMark.
Proof.
  induction ws as [|a ws IH]; [intros []|]. intro H. rewrite mark_all_cons.
  destruct (teq_dec x a) as [->|N]; [apply tl_eq|]. rewrite tl_ne by exact N. apply IH. destruct H as [H|H]; [congruence|exact H].
Qed.
Lemma mark_all_notin ws te x : ~ In x ws -> tlookup x (mark_all ws te) = tlookup x te.
Proof.
  induction ws as [|a ws IH]; [reflexivity|]. intro H. rewrite mark_all_cons.
  rewrite tl_ne; [apply IH; intro; apply H; right; assumption|]. intro; subst; apply H; left; reflexivity.
Qed.
Lemma mark_all_names ws te y : In y (map fst (mark_all ws te)) -> In y ws \/ In y (map fst te).
Proof.
  induction ws as [|a ws IH]; [tauto|]. rewrite mark_all_cons. cbn. intros [H|H]; [tauto|]. destruct (IH H); tauto.
Qed.
Lemma bound_in x te : bound x te = true -> In x (map fst te).
Proof. unfold bound. destruct (tlookup x te) eqn:E; [intros _; eapply tl_in; exact E|discriminate]. Qed.
Lemma forget_in ws te x : In x ws -> tlookup x (forget ws te) = Some TMark \/ tlookup x (forget ws te) = None.
Proof.
  intro H. unfold forget. destruct (bound x te) eqn:B.
  - left. apply mark_all_in. apply filter_In. split; assumption.
  - right. rewrite mark_all_notin; [unfold bound in B; destruct (tlookup x te); [discriminate|reflexivity]|].
    intro I. apply filter_In in I. destruct I as [_ I]. congruence.
Qed.
Lemma forget_notin ws te x : ~ In x ws -> tlookup x (forget ws te) = tlookup x te.
Proof. intro H. unfold forget. apply mark_all_notin. intro I. apply filter_In in I. tauto. Qed.
Lemma forget_lookup ws te x : tlookup x (forget ws te) = tlookup x te \/ tlookup x (forget ws te) = Some TMark.
Proof.
  unfold forget. destruct (in_dec teq_dec x (filter (fun x => bound x te) ws)) as [I|N].
  - right. apply mark_all_in. exact I.
  - left. apply mark_all_notin. exact N.
Qed.
Lemma forget_names ws te y : In y (map fst (forget ws te)) -> In y (map fst te).
Proof.
  unfold forget. intro H. destruct (mark_all_names _ _ _ H) as [I|I]; [|exact I].
  apply filter_In in I. destruct I as [_ B]. apply bound_in. exact B.
Qed.

Lemma flags4 a b c d : a && b && c && d = true -> a = true /\ b = true /\ c = true /\ d = true.
Proof. destruct a, b, c, d; cbn; intuition congruence. Qed.
Ltac inj H := injection H; clear H; intros; subst.
Ltac wf_tval_contra R W Lx Lr x :=
  exfalso; specialize (R x); rewrite Lx in R; rewrite Lr in R; inversion R; subst;
  destruct W as (_ & _ & W3); exact (W3 _ _ Lx).

Section WithVol2.
Context {vol : list ident}.
Notation tstep := (ConstEnv.tstep vol).
Notation tblock := (ConstEnv.tblock vol).

Definition tframe_stmt (s : stmt) : Prop := forall te st te' st' res f,
  tstep s te st = Some (te', st', res, f) -> wf te st -> tframe_concl (writes s) te st te' st'.
Definition tframe_blk (b : list stmt) : Prop := forall te st te' st' res f,
  tblock b te st = Some (te', st', res, f) -> wf te st -> tframe_concl (writes_block b) te st te' st'.

Lemma tframe_refl ws te st : wf te st -> tframe_concl ws te st te st.
Proof. intro W. repeat split; try apply W; auto. Qed.

Lemma wf_cons_mark x te st : wf te st -> wf ((x, TMark) :: te) st.
Proof.
  intros (W1 & W2 & W3). split; [|split].
  - intros y l H. destruct (teq_dec y x) as [->|N]; [rewrite tl_eq in H; discriminate|]. rewrite tl_ne in H by exact N. eauto.
  - intros y z l Hy Hz.
    destruct (teq_dec y x) as [->|N]; [rewrite tl_eq in Hy; discriminate|]. rewrite tl_ne in Hy by exact N.
    destruct (teq_dec z x) as [->|N']; [rewrite tl_eq in Hz; discriminate|]. rewrite tl_ne in Hz by exact N'. eauto.
  - intros y l H. destruct (teq_dec y x) as [->|N]; [rewrite tl_eq in H; discriminate|]. rewrite tl_ne in H by exact N. exact (W3 _ _ H).
Qed.
Lemma wf_cons_val x v te st : (forall l, v <> VList l) -> wf te st -> wf ((x, TVal v) :: te) st.
Proof.
  intros NV (W1 & W2 & W3). split; [|split].
  - intros y l H. destruct (teq_dec y x) as [->|N]; [rewrite tl_eq in H; discriminate|]. rewrite tl_ne in H by exact N. eauto.
  - intros y z l Hy Hz.
    destruct (teq_dec y x) as [->|N]; [rewrite tl_eq in Hy; discriminate|]. rewrite tl_ne in Hy by exact N.
    destruct (teq_dec z x) as [->|N']; [rewrite tl_eq in Hz; discriminate|]. rewrite tl_ne in Hz by exact N'. eauto.
  - intros y l H. destruct (teq_dec y x) as [->|N]; [rewrite tl_eq in H; inversion H; subst; eapply NV; reflexivity|].
    rewrite tl_ne in H by exact N. exact (W3 _ _ H).
Qed.
Lemma wf_cons_ref x l0 te st : wf te st -> wf ((x, TRef (length st)) :: te) (st ++ [l0]).
Proof.
  intros (W1 & W2 & W3). split; [|split].
  - intros y l H. rewrite app_length. cbn. destruct (teq_dec y x) as [->|N].
    + rewrite tl_eq in H. inversion H. lia.
    + rewrite tl_ne in H by exact N. specialize (W1 _ _ H). lia.
  - intros y z l Hy Hz.
    destruct (teq_dec y x) as [->|N]; destruct (teq_dec z x) as [->|N']; try reflexivity.
    + rewrite tl_eq in Hy. rewrite tl_ne in Hz by exact N'. inversion Hy; subst. specialize (W1 _ _ Hz). lia.
    + rewrite tl_eq in Hz. rewrite tl_ne in Hy by exact N. inversion Hz; subst. specialize (W1 _ _ Hy). lia.
    + rewrite tl_ne in Hy by exact N. rewrite tl_ne in Hz by exact N'. eauto.
  - intros y l H. destruct (teq_dec y x) as [->|N]; [rewrite tl_eq in H; discriminate|]. rewrite tl_ne in H by exact N. exact (W3 _ _ H).
Qed.
Lemma wf_set_nth te st l v : wf te st -> wf te (set_nth l v st).
Proof. intros (W1 & W2 & W3). split; [|split]; auto. intros x l' H. rewrite set_nth_length. eauto. Qed.

Lemma tframe_cons_any x b te st : wf ((x, b) :: te) st -> wf te st -> tframe_concl [x] te st ((x, b) :: te) st.
Proof.
  intros W' W. split; [exact W'|]. split; [lia|]. split; [reflexivity|]. split.
  - intros y Hy. apply tl_ne. cbn in Hy. intuition congruence.
  - cbn. intros y [H|H]; [right; left; exact H|left; exact H].
Qed.

Lemma tframe_tsimple s : simple s -> forall te st te' st' res f,
  tsimple s te st = Some (te', st', res, f) -> wf te st -> tframe_concl (writes s) te st te' st'.
Proof.
  intros Hs te st te' st' res f H W.
  destruct s as [x e|x e|x e|o|v| | | |x op e]; try contradiction; cbn [tsimple] in H.
  - (* assign *)
    destruct (eval_const (view st te) e) as [v|k|] eqn:E; [| |discriminate].
    + destruct v; inversion H; subst; clear H;
        try (apply tframe_cons_any; [apply wf_cons_val; [intros l0; discriminate|exact W]|exact W]).
      split; [apply wf_cons_ref; exact W|]. split; [rewrite app_length; cbn; lia|]. split; [|split].
      * intros y l0 Hy _. destruct W as (W1 & _). specialize (W1 _ _ Hy). rewrite app_nth1 by exact W1. reflexivity.
      * intros y Hy. apply tl_ne. cbn in Hy. intuition congruence.
      * cbn. intros y [Hy|Hy]; [right; left; exact Hy|left; exact Hy].
    + inversion H; subst. apply tframe_cons_any; [apply wf_cons_mark; exact W|exact W].
  - (* append *)
    assert (SET : forall l v, tlookup x te = Some (TRef l) -> tframe_concl [x] te st te (set_nth l v st)).
    { intros l v Lx. split; [apply wf_set_nth; exact W|]. split; [rewrite set_nth_length; lia|]. split; [|split; [reflexivity|tauto]].
      intros y l0 Hy Ny. apply set_nth_other. intro; subst l0. apply Ny. left.
      destruct W as (_ & W2 & _). symmetry. eapply W2; eassumption. }
    destruct (eval_const (view st te) e) as [v|k|] eqn:E; [| |discriminate];
      (destruct (tlookup x te) as [[v0|l|]|] eqn:Lx; inversion H; subst; clear H;
       first [ apply tframe_refl; exact W | apply SET; reflexivity
             | apply tframe_cons_any; [apply wf_cons_mark; exact W|exact W] ]).
  - (* remove *)
    assert (SET : forall l v, tlookup x te = Some (TRef l) -> tframe_concl [x] te st te (set_nth l v st)).
    { intros l v Lx. split; [apply wf_set_nth; exact W|]. split; [rewrite set_nth_length; lia|]. split; [|split; [reflexivity|tauto]].
      intros y l0 Hy Ny. apply set_nth_other. intro; subst l0. apply Ny. left.
      destruct W as (_ & W2 & _). symmetry. eapply W2; eassumption. }
    destruct (eval_const (view st te) e) as [v|k|] eqn:E; [| |discriminate];
      (destruct (tlookup x te) as [[v0|l|]|] eqn:Lx;
       [inversion H; subst; apply tframe_refl; exact W
       | try (destruct (remove_first v (nth l st [])) eqn:R); inversion H; subst;
         first [apply SET; reflexivity | apply tframe_refl; exact W | apply tframe_cons_any; [apply wf_cons_mark; exact W|exact W]]
       | inversion H; subst; apply tframe_cons_any; [apply wf_cons_mark; exact W|exact W]
       | inversion H; subst; apply tframe_cons_any; [apply wf_cons_mark; exact W|exact W] ]).
  - (* obs *)
    destruct o as [x|x|ge|x].
    + destruct (literal_length (view st te) (EName x)); inversion H; subst; apply tframe_refl; exact W.
    + destruct (tlookup x te) as [[v0|l|]|]; try discriminate.
      * destruct v0; try discriminate. destruct (forallb is_num_entry l); inversion H; subst. apply tframe_refl; exact W.
      * destruct (forallb is_num_entry (nth l st [])); inversion H; subst. apply tframe_refl; exact W.
    + destruct (glyph_bitmap (view st te) ge); inversion H; subst. apply tframe_refl; exact W.
    + inversion H; subst. apply tframe_refl; exact W.
  - inversion H; subst. apply tframe_refl; exact W.
  - inversion H; subst. apply tframe_cons_any; [apply wf_cons_mark; exact W|exact W].
Qed.

Lemma tframe_weaken ws ws' te st te' st' : (forall x, In x ws -> In x ws') -> tframe_concl ws te st te' st' -> tframe_concl ws' te st te' st'.
Proof.
  intros S (A & B & C & D & E). split; [exact A|]. split; [exact B|]. split; [|split].
  - intros x l Hx Nx. apply (C x l Hx). intro; apply Nx, S; assumption.
  - intros x Nx. apply D. intro; apply Nx, S; assumption.
  - intros y Hy. destruct (E y Hy); auto.
Qed.

Lemma tframe_seq ws1 ws2 te st te1 st1 te2 st2 :
  tframe_concl ws1 te st te1 st1 -> tframe_concl ws2 te1 st1 te2 st2 -> tframe_concl (ws1 ++ ws2) te st te2 st2.
Proof.
  intros (A1 & B1 & C1 & D1 & E1) (A2 & B2 & C2 & D2 & E2). split; [exact A2|]. split; [lia|]. split; [|split].
  - intros x l Hx Nx. rewrite (C2 x l); [apply (C1 x l Hx)| |]; try (intro; apply Nx, in_or_app; tauto).
    rewrite D1; [exact Hx|]. intro; apply Nx, in_or_app; tauto.
  - intros x Nx. rewrite D2, D1; [reflexivity| |]; intro; apply Nx, in_or_app; tauto.
  - intros y Hy. destruct (E2 y Hy) as [H|H]; [destruct (E1 y H); [left; assumption|right; apply in_or_app; tauto]|right; apply in_or_app; tauto].
Qed.

Lemma tframe_block b : Forall tframe_stmt b -> tframe_blk b.
Proof.
  induction 1 as [|s r Hs _ IH]; intros te st te' st' res f H W.
  - cbn in H. inversion H; subst. apply tframe_refl. exact W.
  - rewrite tblock_cons in H. rewrite writes_block_cons.
    destruct (tstep s te st) as [[[[te1 st1] r1] f1]|] eqn:E1; [|discriminate].
    destruct (tblock r te1 st1) as [[[[te2 st2] r2] f2]|] eqn:E2; [|discriminate].
    inversion H; subst. pose proof (Hs _ _ _ _ _ _ E1 W) as F1.
    eapply tframe_seq; [exact F1|]. eapply IH; [exact E2|]. apply F1.
Qed.

(* the environment after a block: the parent's bindings, plus markers *)
Lemma tframe_promote ws te st te1 st1 skip :
  wf te st -> (length st <= length st1)%nat ->
  (forall x l, tlookup x te = Some (TRef l) -> ~ In x ws -> nth l st1 [] = nth l st []) ->
  (forall y, In y (map fst te1) -> In y (map fst te) \/ In y ws) ->
  tframe_concl ws te st (promote te te1 skip) st1.
Proof.
  intros W L C E. rewrite promote_is. split; [eapply wf_promote; eassumption|]. split; [exact L|]. split; [exact C|]. split.
  - intros x Nx. destruct (tlookup x te) as [b|] eqn:Lx; [apply promote_bound; exact Lx|].
    rewrite promote_notin; [exact Lx|]. intro H. destruct (E _ H) as [H'|H']; [|tauto].
    apply in_tl_some in H'. congruence.
  - intros y Hy. destruct (promote_names_in _ _ _ _ Hy) as [H|H]; [apply E; exact H|left; exact H].
Qed.

Lemma wf_mono te st st' : wf te st -> (length st <= length st')%nat -> wf te st'.
Proof. intros (W1 & W2 & W3) L. split; [|split]; auto. intros x l H. specialize (W1 _ _ H). lia. Qed.
Lemma promote_names_keeps parent ns skip y : In y (map fst parent) -> In y (map fst (promote_names parent ns skip)).
Proof.
  intro H. induction ns as [|z r IH]; cbn; [exact H|].
  destruct (bound z parent || tmem z skip); [exact IH|right; exact IH].
Qed.

Lemma tframe_forget ws' ws te st te1 st1 :
  tframe_concl ws te st te1 st1 -> (forall x, In x ws' -> In x ws) -> tframe_concl ws te st (forget ws' te1) st1.
Proof.
  intros (A & B & C & D & E) S. split; [|split; [exact B|split; [exact C|split]]].
  - destruct A as (W1 & W2 & W3). split; [|split].
    + intros x l H. destruct (forget_lookup ws' te1 x) as [Q|Q]; rewrite Q in H; [eauto|discriminate].
    + intros x y l Hx Hy.
      destruct (forget_lookup ws' te1 x) as [Q|Q]; rewrite Q in Hx; [|discriminate].
      destruct (forget_lookup ws' te1 y) as [Q'|Q']; rewrite Q' in Hy; [|discriminate]. eauto.
    + intros x l H. destruct (forget_lookup ws' te1 x) as [Q|Q]; rewrite Q in H; [exact (W3 _ _ H)|discriminate].
  - intros x Nx. rewrite forget_notin; [apply D; exact Nx|]. intro I. apply Nx, S, I.
  - intros y Hy. apply E. eapply forget_names. exact Hy.
Qed.
Lemma wf_forget ws te st : wf te st -> wf (forget ws te) st.
Proof. intro W. apply (tframe_forget ws ws te st te st (tframe_refl ws te st W) (fun x I => I)). Qed.

Lemma tframe_simple s : simple s -> tframe_stmt s.
Proof.
  intros Hs te st te' st' res f H W. rewrite tstep_simple in H by exact Hs.
  destruct (tsimple s te st) as [[[[te1 st1] r1] f1]|] eqn:T; [|discriminate]. injection H as <- <- <- <-.
  pose proof (tframe_tsimple s Hs _ _ _ _ _ _ T W) as F.
  destruct s as [x e|x e|x e|o|v| | | |x op e]; try contradiction; try exact F.
  cbn [after_assign]. destruct (tmem x vol); [|exact F].
  eapply tframe_weaken; [|eapply tframe_seq; [exact F|apply tframe_cons_any; [apply wf_cons_mark; apply F|apply F]]].
  cbn. intros y [Hy|[Hy|[]]]; left; exact Hy.
Qed.

Lemma tframe_all : forall s, tframe_stmt s.
Proof.
  apply stmt_ind'; try (intros; apply tframe_simple; exact I).
  - (* if *)
    intros a b Fa Fb te st te' st' res f H W. rewrite tstep_if in H.
    destruct (tblock a te st) as [[[[te1 st1] r1] f1]|] eqn:E1; [|discriminate].
    destruct (tblock b te st) as [[[[te2 st2] r2] f2]|] eqn:E2; [|discriminate].
    injection H as <- <- <- <-. rewrite writes_if.
    destruct (tframe_block a Fa _ _ _ _ _ _ E1 W) as (A1 & B1 & C1 & D1 & G1).
    destruct (tframe_block b Fb _ _ _ _ _ _ E2 W) as (A2 & B2 & C2 & D2 & G2).
    set (ws := writes_block a ++ writes_block b).
    assert (S1 : tframe_concl ws te st (promote te te1 []) st).
    { apply tframe_promote; [exact W|lia|reflexivity|].
      intros y Hy. destruct (G1 y Hy); [tauto|right; apply in_or_app; tauto]. }
    assert (S2 : tframe_concl ws (promote te te1 []) st (promote (promote te te1 []) te2 []) st).
    { apply tframe_promote; [apply S1|lia|reflexivity|].
      intros y Hy. destruct (G2 y Hy) as [G|G]; [left; rewrite promote_is; apply promote_names_keeps; exact G|right; apply in_or_app; tauto]. }
    apply tframe_forget; [|tauto].
    eapply tframe_weaken; [|eapply tframe_seq; [exact S1|exact S2]].
    intros x Hx. apply in_app_or in Hx. tauto.
  - (* while *)
    intros a Fa te st te' st' res f H W. rewrite tstep_while in H. rewrite writes_while in *.
    set (te0 := forget (writes_block a) te) in *.
    destruct (tblock a te0 st) as [[[[te1 st1] r1] f1]|] eqn:E1; [|discriminate].
    injection H as <- <- <- <-.
    assert (F0 : tframe_concl (writes_block a) te st te0 st) by (apply tframe_forget; [apply tframe_refl; exact W|tauto]).
    destruct (tframe_block a Fa _ _ _ _ _ _ E1 (proj1 F0)) as (A1 & B1 & C1 & D1 & G1).
    eapply tframe_weaken; [|eapply tframe_seq; [exact F0|apply (tframe_promote (writes_block a) te0 st te1 st []); [apply F0|lia|reflexivity|exact G1]]].
    intros x Hx. apply in_app_or in Hx. tauto.
  - (* for *)
    intros x a Fa te st te' st' res f H W. rewrite tstep_for in H. rewrite writes_for in *.
    set (te0 := forget (x :: writes_block a) te) in *.
    destruct (tblock a ((x, TMark) :: te0) st) as [[[[te1 st1] r1] f1]|] eqn:E1; [|discriminate].
    injection H as <- <- <- <-.
    assert (F0 : tframe_concl (x :: writes_block a) te st te0 st) by (apply tframe_forget; [apply tframe_refl; exact W|tauto]).
    destruct (tframe_block a Fa _ _ _ _ _ _ E1 (wf_cons_mark x _ _ (proj1 F0))) as (A1 & B1 & C1 & D1 & G1).
    eapply tframe_weaken; [|eapply tframe_seq; [exact F0|apply (tframe_promote (x :: writes_block a) te0 st te1 st [x]); [apply F0|lia|reflexivity|]]].
    + intros y Hy. apply in_app_or in Hy. tauto.
    + intros y Hy. destruct (G1 y Hy) as [G|G]; [cbn in G; destruct G as [G|G]; [right; left; exact G|left; exact G]|right; right; exact G].
Qed.
Lemma tframe_blocks b : tframe_blk b.
Proof. apply tframe_block. apply Forall_forall. intros s _. apply tframe_all. Qed.

(* ---------------- the simulation ---------------- *)
Lemma ragrees_bind te st rho x b v st' :
  ragrees te st rho ->
  (forall y l, y <> x -> tlookup y te = Some (TRef l) -> nth l st' [] = nth l st []) ->
  match b with TVal v0 => v = v0 | TRef l => v = VList (nth l st' []) | TMark => True end ->
  ragrees ((x, b) :: te) st' ((x, v) :: rho).
Proof.
  intros R S B y. unfold lookup. destruct (teq_dec y x) as [->|N].
  - rewrite !tl_eq. destruct b; subst; auto.
  - rewrite !tl_ne by exact N. specialize (R y). destruct (tlookup y te) as [[v0|l|]|] eqn:E; auto.
    rewrite (S y l N E). exact R.
Qed.
Lemma ragrees_update te st rho x l new :
  ragrees te st rho -> wf te st -> tlookup x te = Some (TRef l) ->
  ragrees te (set_nth l new st) ((x, VList new) :: rho).
Proof.
  intros R (W1 & W2 & _) Lx y. unfold lookup. destruct (teq_dec y x) as [->|N].
  - rewrite Lx, tl_eq. rewrite set_nth_same; [reflexivity|eapply W1; exact Lx].
  - rewrite tl_ne by exact N. specialize (R y). destruct (tlookup y te) as [[v0|l0|]|] eqn:E; auto.
    rewrite set_nth_other; [exact R|]. intro; subst l0. apply N. eapply W2; eassumption.
Qed.
Lemma ragrees_frame ws te st rho te' rho' :
  ragrees te st rho ->
  (forall x, ~ In x ws -> lookup x rho' = lookup x rho) ->
  (forall x, In x ws -> tlookup x te' = Some TMark \/ tlookup x te' = None) ->
  (forall x, ~ In x ws -> tlookup x te' = tlookup x te \/ tlookup x te' = Some TMark \/ tlookup x te' = None) ->
  ragrees te' st rho'.
Proof.
  intros R F M L y. destruct (in_dec teq_dec y ws) as [I|N].
  - destruct (M y I) as [E|E]; rewrite E; exact Logic.I.
  - destruct (L y N) as [E|[E|E]]; rewrite E; auto.
    specialize (R y). rewrite (F y N). exact R.
Qed.
Lemma ragrees_forget ws te st rho : ragrees te st rho -> ragrees (forget ws te) st rho.
Proof.
  intros R y. destruct (forget_lookup ws te y) as [E|E]; rewrite E; [apply R|exact I].
Qed.
Lemma ragrees_cons_mark x te st rho : ragrees te st rho -> ragrees ((x, TMark) :: te) st rho.
Proof.
  intros R y. destruct (teq_dec y x) as [->|N]; [rewrite tl_eq; exact I|]. rewrite tl_ne by exact N. apply R.
Qed.
Lemma promote_lookup3 parent child skip x :
  tlookup x (promote parent child skip) = tlookup x parent \/ tlookup x (promote parent child skip) = Some TMark \/
  tlookup x (promote parent child skip) = None.
Proof. rewrite promote_is. destruct (promote_lookup parent (map fst child) skip x) as [E|[_ E]]; auto. Qed.

Definition sim_concl (res : list stmt) orc rho (rho' : env) (out : list pval) (orc' : list nat) te' st' : Prop :=
  rblock res orc rho = Some (rho', out, orc') /\ ragrees te' st' rho' /\ unshadowed rho'.
Definition sim_stmt (s : stmt) : Prop := forall te st te' st' res orc rho rho' out orc',
  tstep s te st = Some (te', st', res, true) -> wf te st -> ragrees te st rho -> unshadowed rho ->
  rstep s orc rho = Some (rho', out, orc') -> sim_concl res orc rho rho' out orc' te' st'.
Definition sim_blk (b : list stmt) : Prop := forall te st te' st' res orc rho rho' out orc',
  tblock b te st = Some (te', st', res, true) -> wf te st -> ragrees te st rho -> unshadowed rho ->
  rblock b orc rho = Some (rho', out, orc') -> sim_concl res orc rho rho' out orc' te' st'.

Lemma sim_block b : Forall sim_stmt b -> sim_blk b.
Proof.
  induction 1 as [|s r Hs _ IH]; intros te st te' st' res orc rho rho' out orc' H W R U Hr.
  - cbn in H. inversion H; subst. split; [exact Hr|]. rewrite rblock_nil in Hr. inversion Hr; subst. split; assumption.
  - rewrite tblock_cons in H.
    destruct (tstep s te st) as [[[[te1 st1] r1] f1]|] eqn:E1; [|discriminate].
    destruct (tblock r te1 st1) as [[[[te2 st2] r2] f2]|] eqn:E2; [|discriminate].
    injection H as <- <- <- HF. apply andb_true_iff in HF. destruct HF as [-> ->].
    rewrite rblock_cons in Hr.
    destruct (rstep s orc rho) as [[[rho1 o1] orc1]|] eqn:R1; [|discriminate].
    destruct (rblock r orc1 rho1) as [[[rho2 o2] orc2]|] eqn:R2; [|discriminate].
    injection Hr as <- <- <-.
    destruct (Hs _ _ _ _ _ _ _ _ _ _ E1 W R U R1) as (S1 & RA1 & U1).
    assert (W1 : wf te1 st1) by (apply (tframe_all s _ _ _ _ _ _ E1 W)).
    destruct (IH _ _ _ _ _ _ _ _ _ _ E2 W1 RA1 U1 R2) as (S2 & RA2 & U2).
    split; [|split; assumption]. rewrite rblock_app, S1, S2. reflexivity.
Qed.

Lemma peval_name rho x : peval rho (EName x) = match lookup x rho with Some v => Ok v | None => Err NameErr end.
Proof. reflexivity. Qed.


Lemma sim_tsimple s : simple s -> forall te st te' st' res orc rho rho' out orc',
  tsimple s te st = Some (te', st', res, true) -> wf te st -> ragrees te st rho -> unshadowed rho ->
  rstep s orc rho = Some (rho', out, orc') -> sim_concl res orc rho rho' out orc' te' st'.
Proof.
  intros Hs te st te' st' res orc rho rho' out orc' H W R U Hr.
  rewrite rstep_simple in Hr by exact Hs.
  pose proof (ragrees_agrees _ _ _ R) as AG.
  destruct s as [x e|x e|x e|o|v| | | |x op e]; try contradiction; cbn [tsimple] in H; cbn [rsimple] in Hr.
  - (* assign *)
    remember (in_guard (view st te) e && negb (tmem x safe_name_references)) as g eqn:Hg.
    destruct (eval_const (view st te) e) as [v|k|] eqn:E; [| |discriminate].
    + assert (g = true) as -> by (destruct v; injection H; auto).
      symmetry in Hg. apply andb_true_iff in Hg. destruct Hg as [G1 G2]. apply negb_true_iff in G2.
      pose proof (eval_const_sound _ _ _ _ AG U G1 E) as PE.
      rewrite PE in Hr. inj Hr.
      assert (RB : rblock [SAssign x e] orc' rho = Some ((x, v) :: rho, [], orc')).
      { rewrite rblock_single, rstep_simple by exact I. cbn [rsimple]. rewrite PE. reflexivity. }
      destruct v; inj H.
      5: { split; [exact RB|split; [|apply unshadowed_cons; assumption]].
           eapply ragrees_bind; [exact R| |].
           - intros y l0 _ Hy. destruct W as (W1 & _). rewrite app_nth1; [reflexivity|eapply W1; exact Hy].
           - cbn. rewrite app_nth2 by lia. rewrite Nat.sub_diag. reflexivity. }
      all: (split; [exact RB|split; [eapply ragrees_bind; [exact R|intros; reflexivity|reflexivity]|apply unshadowed_cons; assumption]]).
    + assert (g = true) as -> by (injection H; auto).
      symmetry in Hg. apply andb_true_iff in Hg. destruct Hg as [_ G2]. apply negb_true_iff in G2.
      inj H.
      destruct (peval rho e) as [pv|] eqn:P; [|discriminate]. inj Hr.
      split; [|split; [eapply ragrees_bind; [exact R|intros; reflexivity|exact I]|apply unshadowed_cons; assumption]].
      rewrite rblock_single, rstep_simple by exact I. cbn [rsimple]. rewrite P. reflexivity.
  - (* append *)
    assert (RB : rblock [SAppend x e] orc rho = Some (rho', out, orc')).
    { rewrite rblock_single, rstep_simple by exact I. exact Hr. }
    destruct (peval rho e) as [pv|] eqn:P; [|discriminate].
    destruct (lookup x rho) as [[| | | |cur| |]|] eqn:Lr; try discriminate.
    inj Hr.
    remember (in_guard (view st te) e) as g eqn:Hg.
    destruct (eval_const (view st te) e) as [v|k|] eqn:E; [| |discriminate];
      destruct (tlookup x te) as [[v0|l|]|] eqn:Lx.
    + wf_tval_contra R W Lx Lr x.
    + assert (g = true) as -> by (injection H; intros HF _ _ _; exact HF).
      inj H. symmetry in Hg.
      rewrite (eval_const_sound _ _ _ _ AG U Hg E) in P. inj P.
      specialize (R x) as Rx. rewrite Lx, Lr in Rx. inj Rx.
      split; [exact RB|split; [apply ragrees_update; assumption|eapply unshadowed_rebind; eassumption]].
    + inj H. split; [exact RB|split; [eapply ragrees_bind; [exact R|intros; reflexivity|exact I]|eapply unshadowed_rebind; eassumption]].
    + inj H. split; [exact RB|split; [eapply ragrees_bind; [exact R|intros; reflexivity|exact I]|eapply unshadowed_rebind; eassumption]].
    + wf_tval_contra R W Lx Lr x.
    + inj H. split; [exact RB|split; [eapply ragrees_bind; [exact R|intros; reflexivity|exact I]|eapply unshadowed_rebind; eassumption]].
    + inj H. split; [exact RB|split; [eapply ragrees_bind; [exact R|intros; reflexivity|exact I]|eapply unshadowed_rebind; eassumption]].
    + inj H. split; [exact RB|split; [eapply ragrees_bind; [exact R|intros; reflexivity|exact I]|eapply unshadowed_rebind; eassumption]].
  - (* remove *)
    assert (RB : rblock [SRemove x e] orc rho = Some (rho', out, orc')).
    { rewrite rblock_single, rstep_simple by exact I. exact Hr. }
    destruct (peval rho e) as [pv|] eqn:P; [|discriminate].
    destruct (lookup x rho) as [[| | | |cur| |]|] eqn:Lr; try discriminate.
    destruct (remove_first pv cur) as [cur'|] eqn:RF; [|discriminate].
    inj Hr.
    remember (in_guard (view st te) e) as g eqn:Hg.
    destruct (eval_const (view st te) e) as [v|k|] eqn:E; [| |discriminate];
      destruct (tlookup x te) as [[v0|l|]|] eqn:Lx.
    + wf_tval_contra R W Lx Lr x.
    + specialize (R x) as Rx. rewrite Lx, Lr in Rx. inj Rx.
      destruct (remove_first v (nth l st [])) as [c2|] eqn:RF2; [|exfalso; injection H; intros; discriminate].
      assert (Hg' : in_guard (view st te) e = true) by (injection H; auto).
      inj H.
      rewrite (eval_const_sound _ _ _ _ AG U Hg' E) in P. inj P. rewrite RF in RF2. inj RF2.
      split; [exact RB|split; [apply ragrees_update; assumption|eapply unshadowed_rebind; eassumption]].
    + inj H. split; [exact RB|split; [eapply ragrees_bind; [exact R|intros; reflexivity|exact I]|eapply unshadowed_rebind; eassumption]].
    + inj H. split; [exact RB|split; [eapply ragrees_bind; [exact R|intros; reflexivity|exact I]|eapply unshadowed_rebind; eassumption]].
    + wf_tval_contra R W Lx Lr x.
    + inj H. split; [exact RB|split; [eapply ragrees_bind; [exact R|intros; reflexivity|exact I]|eapply unshadowed_rebind; eassumption]].
    + inj H. split; [exact RB|split; [eapply ragrees_bind; [exact R|intros; reflexivity|exact I]|eapply unshadowed_rebind; eassumption]].
    + inj H. split; [exact RB|split; [eapply ragrees_bind; [exact R|intros; reflexivity|exact I]|eapply unshadowed_rebind; eassumption]].
  - (* obs *)
    destruct (robs o rho) as [ov|] eqn:O; [|discriminate]. inj Hr.
    assert (RB : rblock [SObs o] orc' rho' = Some (rho', [ov], orc')).
    { rewrite rblock_single, rstep_simple by exact I. cbn [rsimple]. rewrite O. reflexivity. }
    destruct o as [x|x|ge|x].
    + destruct (literal_length (view st te) (EName x)) as [n|] eqn:LL; inj H.
      * split; [|split; assumption]. cbn [robs] in O. destruct (lookup x rho') as [xv|] eqn:Lr; [|discriminate].
        assert (PC : py_call n_len [xv] = Ok (VInt n)).
        { eapply literal_length_sound; [exact AG|exact LL|]. rewrite peval_name, Lr. reflexivity. }
        rewrite PC in O. inj O. reflexivity.
      * split; [exact RB|split; assumption].
    + specialize (R x) as Rx. cbn [robs] in O.
      destruct (tlookup x te) as [[v0|l|]|] eqn:Lx; try discriminate.
      * destruct v0; try discriminate. destruct (forallb is_num_entry l); [|discriminate]. inj H.
        rewrite Rx in O. inj O. split; [reflexivity|split; assumption].
      * destruct (forallb is_num_entry (nth l st [])); [|discriminate]. inj H.
        rewrite Rx in O. inj O. split; [reflexivity|split; assumption].
    + destruct (glyph_bitmap (view st te) ge) as [zs| | |] eqn:GB; try discriminate.
      assert (G : in_guard (view st te) ge = true) by (injection H; auto).
      unfold glyph_bitmap in GB.
      destruct (eval_const (view st te) ge) as [gv|k|] eqn:E; try discriminate.
      pose proof (eval_const_sound _ _ _ _ AG U G E) as PE.
      inj H. split; [|split; assumption]. cbn [robs] in O. rewrite PE in O.
      destruct gv; try discriminate;
        (destruct (glyph_rows l) as [zs'|]; [|discriminate]; destruct (Nat.eqb (length zs') 8); [|discriminate];
         inj GB; inj O; reflexivity).
    + inj H. split; [exact RB|split; assumption].
  - exfalso. injection H; intros; discriminate.
  - inj H. destruct (peval rho (EBin op (EName x) e)) as [pv|] eqn:P; [|discriminate]. inj Hr.
    assert (Lx : exists w, lookup x rho = Some w).
    { rewrite pe_bin, peval_name in P. destruct (lookup x rho) as [w|]; [eauto|discriminate]. }
    destruct Lx as [w Lx].
    split; [|split; [eapply ragrees_bind; [exact R|intros; reflexivity|exact I]|eapply unshadowed_rebind; eassumption]].
    rewrite rblock_single, rstep_simple by exact I. cbn [rsimple]. rewrite P. reflexivity.
Qed.

Lemma sim_simple s : simple s -> sim_stmt s.
Proof.
  intros Hs te st te' st' res orc rho rho' out orc' H W R U Hr.
  rewrite tstep_simple in H by exact Hs.
  destruct (tsimple s te st) as [[[[te1 st1] r1] f1]|] eqn:T; [|discriminate]. injection H as <- <- <- ->.
  destruct (sim_tsimple s Hs _ _ _ _ _ _ _ _ _ _ T W R U Hr) as (S1 & RA & U1).
  split; [exact S1|split; [|exact U1]].
  destruct s as [x e|x e|x e|o|v| | | |x op e]; try contradiction; try exact RA.
  cbn [after_assign]. destruct (tmem x vol); [apply ragrees_cons_mark|]; exact RA.
Qed.

Lemma flags3 a c d : a && c && d = true -> a = true /\ c = true /\ d = true.
Proof. destruct a, c, d; cbn; intuition congruence. Qed.

(* the loop invariant: the names the body writes are unknown in [te0], so whatever the passes do to them [te0] stays right *)
Lemma witer_sim a te0 st te1 st1 r1 ws :
  sim_blk a -> tblock a te0 st = Some (te1, st1, r1, true) -> wf te0 st ->
  (forall x, In x (writes_block a) -> In x ws) ->
  (forall x, In x ws -> tlookup x te0 = Some TMark \/ tlookup x te0 = None) ->
  forall k orc rho rho' out orc', ragrees te0 st rho -> unshadowed rho ->
    witer a k orc rho = Some (rho', out, orc') -> witer r1 k orc rho = Some (rho', out, orc') /\ unshadowed rho'.
Proof.
  intros Sa E W Sub M. induction k as [|k IH]; intros orc rho rho' out orc' R U H; cbn in H |- *.
  - inversion H; subst. split; [reflexivity|exact U].
  - destruct (rblock a orc rho) as [[[rho1 o1] orc1]|] eqn:R1; [|discriminate].
    destruct (witer a k orc1 rho1) as [[[rho2 o2] orc2]|] eqn:R2; [|discriminate].
    injection H as <- <- <-.
    destruct (Sa _ _ _ _ _ _ _ _ _ _ E W R U R1) as (S1 & _ & U1).
    assert (RA1 : ragrees te0 st rho1).
    { eapply ragrees_frame with (ws := ws); [exact R| |exact M|intros; left; reflexivity].
      intros x Nx. apply (rframe_blocks a _ _ _ _ _ R1 x). intro I. apply Nx, Sub, I. }
    destruct (IH _ _ _ _ _ RA1 U1 R2) as (S2 & U2).
    rewrite S1, S2. split; [reflexivity|exact U2].
Qed.
Lemma fiter_sim x a te0 st te1 st1 r1 ws :
  sim_blk a -> tblock a ((x, TMark) :: te0) st = Some (te1, st1, r1, true) -> wf te0 st ->
  In x ws -> (forall y, In y (writes_block a) -> In y ws) ->
  (forall y, In y ws -> tlookup y te0 = Some TMark \/ tlookup y te0 = None) -> tmem x safe_name_references = false ->
  forall k i orc rho rho' out orc', ragrees te0 st rho -> unshadowed rho ->
    fiter x a k i orc rho = Some (rho', out, orc') -> fiter x r1 k i orc rho = Some (rho', out, orc') /\ unshadowed rho'.
Proof.
  intros Sa E W Ix Sub M NS. induction k as [|k IH]; intros i orc rho rho' out orc' R U H; cbn in H |- *.
  - inversion H; subst. split; [reflexivity|exact U].
  - destruct (rblock a orc ((x, VInt i) :: rho)) as [[[rho1 o1] orc1]|] eqn:R1; [|discriminate].
    destruct (fiter x a k (i + 1) orc1 rho1) as [[[rho2 o2] orc2]|] eqn:R2; [|discriminate].
    injection H as <- <- <-.
    assert (Rx : ragrees ((x, TMark) :: te0) st ((x, VInt i) :: rho)) by (eapply ragrees_bind; [exact R|intros; reflexivity|exact I]).
    destruct (Sa _ _ _ _ _ _ _ _ _ _ E (wf_cons_mark x _ _ W) Rx (unshadowed_cons _ _ _ U NS) R1) as (S1 & _ & U1).
    assert (RA1 : ragrees te0 st rho1).
    { eapply ragrees_frame with (ws := ws); [exact R| |exact M|intros; left; reflexivity].
      intros y Ny. rewrite (rframe_blocks a _ _ _ _ _ R1 y); [|intro J; apply Ny, Sub, J].
      unfold lookup. apply tl_ne. intro; subst; apply Ny, Ix. }
    destruct (IH _ _ _ _ _ _ RA1 U1 R2) as (S2 & U2).
    rewrite S1, S2. split; [reflexivity|exact U2].
Qed.

Lemma no_safe_in ws x : no_safe ws = true -> In x ws -> tmem x safe_name_references = false.
Proof. unfold no_safe. rewrite forallb_forall. intros H I. apply negb_true_iff. apply H. exact I. Qed.

Lemma sim_all : forall s, sim_stmt s.
Proof.
  apply stmt_ind'; try (intros; apply sim_simple; exact I).
  - (* if: each branch is parsed from the snapshot with a private store; what either writes is unknown afterwards *)
    intros a b Fa Fb te st te' st' res orc rho rho' out orc' H W R U Hr.
    pose proof (rframe_all (SIf a b) _ _ _ _ _ Hr) as FR.
    rewrite tstep_if in H.
    destruct (tblock a te st) as [[[[te1 st1] r1] f1]|] eqn:E1; [|discriminate].
    destruct (tblock b te st) as [[[[te2 st2] r2] f2]|] eqn:E2; [|discriminate].
    injection H as <- <- <- HF. apply flags3 in HF. destruct HF as (-> & -> & NS).
    assert (RA' : ragrees (forget (writes (SIf a b)) (promote (promote te te1 []) te2 [])) st rho').
    { eapply ragrees_frame with (ws := writes (SIf a b)); [exact R|exact FR|intros x Ix; apply forget_in; exact Ix|].
      intros x Nx. rewrite forget_notin by exact Nx.
      destruct (promote_lookup3 (promote te te1 []) te2 [] x) as [E|E]; [|tauto].
      rewrite E. apply promote_lookup3. }
    rewrite rstep_if in Hr. destruct orc as [|[|k] orc1]; [discriminate| |].
    + destruct (sim_block b Fb _ _ _ _ _ _ _ _ _ _ E2 W R U Hr) as (S2 & _ & U2).
      split; [|split; assumption]. rewrite rblock_single, rstep_if. exact S2.
    + destruct (sim_block a Fa _ _ _ _ _ _ _ _ _ _ E1 W R U Hr) as (S1 & _ & U1).
      split; [|split; assumption]. rewrite rblock_single, rstep_if. exact S1.
  - (* while *)
    intros a Fa te st te' st' res orc rho rho' out orc' H W R U Hr.
    pose proof (rframe_all (SWhile a) _ _ _ _ _ Hr) as FR.
    rewrite tstep_while in H.
    set (te0 := forget (writes (SWhile a)) te) in *.
    destruct (tblock a te0 st) as [[[[te1 st1] r1] f1]|] eqn:E1; [|discriminate].
    injection H as <- <- <- HF. apply andb_true_iff in HF. destruct HF as (-> & NS).
    assert (W0 : wf te0 st) by (apply wf_forget; exact W).
    assert (R0 : ragrees te0 st rho) by (apply ragrees_forget; exact R).
    assert (M0 : forall x, In x (writes (SWhile a)) -> tlookup x te0 = Some TMark \/ tlookup x te0 = None)
      by (intros x Ix; apply forget_in; exact Ix).
    assert (RA' : ragrees (promote te0 te1 []) st rho').
    { eapply ragrees_frame with (ws := writes (SWhile a)); [exact R0|exact FR| |].
      - intros x Ix. destruct (promote_lookup3 te0 te1 [] x) as [E|E]; [rewrite E; apply M0; exact Ix|exact E].
      - intros x _. apply promote_lookup3. }
    rewrite rstep_while in Hr. destruct orc as [|k orc1]; [discriminate|].
    destruct (witer_sim a _ _ _ _ _ _ (sim_block a Fa) E1 W0 (fun x I => I) M0 _ _ _ _ _ _ R0 U Hr) as (S1 & U1).
    split; [|split; assumption]. rewrite rblock_single, rstep_while. exact S1.
  - (* for *)
    intros x a Fa te st te' st' res orc rho rho' out orc' H W R U Hr.
    pose proof (rframe_all (SFor x a) _ _ _ _ _ Hr) as FR.
    rewrite tstep_for in H.
    set (te0 := forget (writes (SFor x a)) te) in *.
    destruct (tblock a ((x, TMark) :: te0) st) as [[[[te1 st1] r1] f1]|] eqn:E1; [|discriminate].
    injection H as <- <- <- HF. apply andb_true_iff in HF. destruct HF as (-> & NS).
    assert (W0 : wf te0 st) by (apply wf_forget; exact W).
    assert (R0 : ragrees te0 st rho) by (apply ragrees_forget; exact R).
    assert (M0 : forall y, In y (writes (SFor x a)) -> tlookup y te0 = Some TMark \/ tlookup y te0 = None)
      by (intros y Iy; apply forget_in; exact Iy).
    assert (RA' : ragrees (promote te0 te1 [x]) st rho').
    { eapply ragrees_frame with (ws := writes (SFor x a)); [exact R0|exact FR| |].
      - intros y Iy. destruct (promote_lookup3 te0 te1 [x] y) as [E|E]; [rewrite E; apply M0; exact Iy|exact E].
      - intros y _. apply promote_lookup3. }
    rewrite rstep_for in Hr. destruct orc as [|k orc1]; [discriminate|].
    assert (Ix : In x (writes (SFor x a))) by (rewrite writes_for; left; reflexivity).
    assert (Sub : forall y, In y (writes_block a) -> In y (writes (SFor x a))) by (intros y I; rewrite writes_for; right; exact I).
    assert (NS2 : no_safe (writes (SFor x a)) = true) by exact NS.
    destruct (fiter_sim x a _ _ _ _ _ _ (sim_block a Fa) E1 W0 Ix Sub M0 (no_safe_in _ x NS2 Ix) _ _ _ _ _ _ _ R0 U Hr) as (S1 & U1).
    split; [|split; assumption]. rewrite rblock_single, rstep_for. exact S1.
Qed.
Lemma sim_blocks b : sim_blk b.
Proof. apply sim_block. apply Forall_forall. intros s _. apply sim_all. Qed.
End WithVol2.

Lemma wf_nil : wf [] [].
Proof. split; [|split]; intros; cbn in *; discriminate. Qed.
Lemma ragrees_nil : ragrees [] [] [].
Proof. intro x. exact I. Qed.
Lemma unshadowed_nil : unshadowed [].
Proof. intros f _. reflexivity. Qed.

(* ---------------- the theorems ---------------- *)
Theorem env_fresh : forall p orc out,
  is_fresh p = true -> python_outputs p orc = Some out -> firmware_outputs p orc = Some out.
Proof.
  intros p orc out F P. unfold is_fresh in F. unfold python_outputs in P. unfold firmware_outputs.
  destruct (tblock [] p [] []) as [[[[te st] res] f]|] eqn:E; [|discriminate]. subst f.
  destruct (rblock p orc []) as [[[rho' out'] orc']|] eqn:Rp; [|discriminate]. inversion P; subst out'.
  destruct (sim_blocks p _ _ _ _ _ _ _ _ _ _ E wf_nil ragrees_nil unshadowed_nil Rp) as (S & _ & _).
  rewrite S. reflexivity.
Qed.

(* at every program point the execution reaches, what the constant environment knows is true of the run-time state:
   the environment after a prefix of the script agrees with the state every execution of that prefix ends in *)
Theorem env_agrees : forall p orc te st res rho out orc',
  tblock [] p [] [] = Some (te, st, res, true) -> rblock p orc [] = Some (rho, out, orc') -> agrees (view st te) rho.
Proof.
  intros p orc te st res rho out orc' E Rp.
  destruct (sim_blocks p _ _ _ _ _ _ _ _ _ _ E wf_nil ragrees_nil unshadowed_nil Rp) as (_ & RA & _).
  apply ragrees_agrees. exact RA.
Qed.

(* the hypotheses are satisfiable by a program with a taken and a skipped branch, a loop, a tracked list *)
Definition n_a : ident := [97].
Definition w_fresh : list stmt :=
  [ SAssign n_pat (EList [EInt 1; EInt 0]);
    SAssign n_s (EStr [97;98;99]);
    SAssign n_v (ESubscript (EList [EInt 7]) (EInt 0));
    SIf [SAssign n_v (EInt 5); SObs (OLen n_s)] [SObs (OLen n_pat)];
    SWhile [SAssign n_a (EBin Add (EName n_v) (EInt 1)); SObs (OLen n_s)];
    SAppend n_pat (EInt 1);
    SObs (OLen n_pat); SObs (OFlash n_pat) ].
Lemma fresh_nonvacuous :
  is_fresh w_fresh = true /\
  python_outputs w_fresh [1%nat; 2%nat] = Some [VInt 3; VInt 3; VInt 3; VInt 3; VList [VInt 1; VInt 0; VInt 1]] /\
  python_outputs w_fresh [0%nat; 0%nat] = Some [VInt 2; VInt 3; VList [VInt 1; VInt 0; VInt 1]].
Proof. vm_compute. auto. Qed.
