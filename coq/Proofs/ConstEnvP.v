(* Proofs about Lang/ConstEnv.v: the transpile-time environment across statements. *)
From Coq Require Import ZArith QArith List Bool Lia.
From RV Require Import Base.Wire Base.Text Lang.PyAst Lang.PySem Gen.SafeCasts Lang.ConstEval Lang.ConstEnv Proofs.ConstEvalP.
Import ListNotations.
Open Scope Z_scope.

Definition n_pat : ident := [112;97;116].
Definition n_s : ident := [115].
Definition n_v : ident := [118].

(* The scripts below are the witnesses of the stale-fold findings (F-C03-shared-list-append, -stale-reassign-in-branch,
   -stale-in-loop, -remove-unknown-pops-first, -stale-glyph-row, -stale-after-try).  Since the repair (child scopes copy
   the tracked lists, names written in a block are forgotten after / before it, an append / remove with a run-time
   argument makes the list a run-time value) the transpiler either leaves the fold site to run time or - where the site
   needs a constant: flash_pattern(name), glyph rows - rejects the script.  Each lemma states what the repaired model does
   on EVERY path of the witness. *)

(* pat = [1, 0] / if c: pat.append(1) / mon.write(len(pat)) / led.flash_pattern(pat) *)
Definition w_shared : list stmt :=
  [ SAssign n_pat (EList [EInt 1; EInt 0]);
    SIf [SAppend n_pat (EInt 1)] [];
    SObs (OLen n_pat); SObs (OFlash n_pat) ].
(* the same without the flash_pattern call, and with the flash_pattern call in front of the branch *)
Definition w_shared_len : list stmt :=
  [ SAssign n_pat (EList [EInt 1; EInt 0]);
    SObs (OFlash n_pat);
    SIf [SAppend n_pat (EInt 1); SObs (OLen n_pat); SObs (OFlash n_pat)] [SObs (OLen n_pat)];
    SObs (OLen n_pat) ].

Lemma shared_list_repaired :
  firmware_outputs w_shared [0%nat] = None /\ firmware_outputs w_shared [1%nat] = None /\ tblock [] w_shared [] [] = None /\
  is_fresh w_shared_len = true /\
  firmware_outputs w_shared_len [0%nat] = Some [VList [VInt 1; VInt 0]; VInt 2; VInt 2] /\
  python_outputs w_shared_len [0%nat] = Some [VList [VInt 1; VInt 0]; VInt 2; VInt 2] /\
  firmware_outputs w_shared_len [1%nat] = Some [VList [VInt 1; VInt 0]; VInt 3; VList [VInt 1; VInt 0; VInt 1]; VInt 3] /\
  python_outputs w_shared_len [1%nat] = Some [VList [VInt 1; VInt 0]; VInt 3; VList [VInt 1; VInt 0; VInt 1]; VInt 3].
Proof. vm_compute. repeat split; reflexivity. Qed.

(* s = "abc" / if c: s = "abcdef" / mon.write(len(s))        (also the try / except witness: try = a branch that runs) *)
Definition w_stale : list stmt :=
  [ SAssign n_s (EStr [97;98;99]);
    SIf [SAssign n_s (EStr [97;98;99;100;101;102])] [];
    SObs (OLen n_s) ].
Lemma stale_len_repaired :
  is_fresh w_stale = true /\
  firmware_outputs w_stale [1%nat] = Some [VInt 6] /\ python_outputs w_stale [1%nat] = Some [VInt 6] /\
  firmware_outputs w_stale [0%nat] = Some [VInt 3] /\ python_outputs w_stale [0%nat] = Some [VInt 3] /\
  (* the length is left to run time: the residual still holds the observation *)
  option_map (fun r => match r with (_, _, res, _) => res end) (tblock [] w_stale [] []) =
    Some [SAssign n_s (EStr [97;98;99]); SIf [SAssign n_s (EStr [97;98;99;100;101;102])] []; SObs (OLen n_s)].
Proof. vm_compute. repeat split; reflexivity. Qed.

(* s = "ab" / while c: mon.write(len(s)); s = "abcd" / mon.write(len(s)) *)
Definition w_loop : list stmt :=
  [ SAssign n_s (EStr [97;98]);
    SWhile [SObs (OLen n_s); SAssign n_s (EStr [97;98;99;100])];
    SObs (OLen n_s) ].
Lemma stale_loop_repaired :
  is_fresh w_loop = true /\
  firmware_outputs w_loop [2%nat] = Some [VInt 2; VInt 4; VInt 4] /\ python_outputs w_loop [2%nat] = Some [VInt 2; VInt 4; VInt 4] /\
  firmware_outputs w_loop [0%nat] = Some [VInt 2] /\ python_outputs w_loop [0%nat] = Some [VInt 2].
Proof. vm_compute. repeat split; reflexivity. Qed.

(* pat = [1, 0] / v = <a run-time value, here 0> / pat.remove(v) / led.flash_pattern(pat): rejected;
   with mon.write(len(pat)) instead: the length is read at run time *)
Definition w_remove : list stmt :=
  [ SAssign n_pat (EList [EInt 1; EInt 0]);
    SAssign n_v (ESubscript (EList [EInt 0]) (EInt 0));
    SRemove n_pat (EName n_v);
    SObs (OFlash n_pat) ].
Definition w_remove_len : list stmt :=
  [ SAssign n_pat (EList [EInt 1; EInt 0]);
    SAssign n_v (ESubscript (EList [EInt 0]) (EInt 0));
    SRemove n_pat (EName n_v);
    SObs (OLen n_pat); SObs (OVal n_pat) ].
Lemma remove_unknown_repaired :
  firmware_outputs w_remove [] = None /\ python_outputs w_remove [] = Some [VList [VInt 1]] /\
  is_fresh w_remove_len = true /\
  firmware_outputs w_remove_len [] = Some [VInt 1; VList [VInt 1]] /\ python_outputs w_remove_len [] = Some [VInt 1; VList [VInt 1]].
Proof. vm_compute. repeat split; reflexivity. Qed.

(* a = 1 / if c: a = 2 / lcd.glyph(0, [a, 0, 0, 0, 0, 0, 0, 0]): rejected (the row is a run-time value);
   with the glyph call inside the branch, after the assignment, and in the else branch: the rows of each path *)
Definition n_aa : ident := [97].
Definition glyph_of (x : ident) : stmt := SObs (OGlyph (EList [EName x; EInt 0; EInt 0; EInt 0; EInt 0; EInt 0; EInt 0; EInt 0])).
Definition w_glyph : list stmt :=
  [ SAssign n_aa (EInt 1);
    SIf [SAssign n_aa (EInt 2)] [];
    glyph_of n_aa ].
Definition w_glyph_in : list stmt :=
  [ SAssign n_aa (EInt 1);
    SIf [SAssign n_aa (EInt 2); glyph_of n_aa] [glyph_of n_aa] ].
Lemma stale_glyph_repaired :
  firmware_outputs w_glyph [1%nat] = None /\ firmware_outputs w_glyph [0%nat] = None /\
  is_fresh w_glyph_in = true /\
  firmware_outputs w_glyph_in [1%nat] = Some [VTuple [VInt 2; VInt 0; VInt 0; VInt 0; VInt 0; VInt 0; VInt 0; VInt 0]] /\
  python_outputs w_glyph_in [1%nat] = Some [VTuple [VInt 2; VInt 0; VInt 0; VInt 0; VInt 0; VInt 0; VInt 0; VInt 0]] /\
  firmware_outputs w_glyph_in [0%nat] = Some [VTuple [VInt 1; VInt 0; VInt 0; VInt 0; VInt 0; VInt 0; VInt 0; VInt 0]] /\
  python_outputs w_glyph_in [0%nat] = Some [VTuple [VInt 1; VInt 0; VInt 0; VInt 0; VInt 0; VInt 0; VInt 0; VInt 0]].
Proof. vm_compute. repeat split; reflexivity. Qed.

(* the witnesses that are still accepted are inside the guard of the simulation theorem now *)
Lemma witnesses_inside_guard :
  is_fresh w_shared_len = true /\ is_fresh w_stale = true /\ is_fresh w_loop = true /\ is_fresh w_remove_len = true /\
  is_fresh w_glyph_in = true.
Proof. vm_compute. repeat split; reflexivity. Qed.

(* what a _resolve_*_arg call site bakes in is the run-time value of the argument in EVERY run-time environment:
   the folded expression is name-free, hence closed *)
Lemma agrees_nil rho : agrees [] rho.
Proof. intros x v H. cbn in H. discriminate. Qed.
Lemma site_numeric_sound : forall c e rho z,
  binds_safe_name c = false -> unshadowed rho -> in_guard [] e = true ->
  resolve_numeric c e = Folded z ->
  exists v, peval rho e = Ok v /\
            match v with VBool b => z = (if b then 1 else 0) | VInt n => z = n | VFloat q => z = qtrunc q | _ => False end.
Proof.
  intros c e rho z B U G H. unfold resolve_numeric in H.
  destruct (has_name e) eqn:HN; [discriminate|].
  rewrite (namefree_closed e c HN B) in H. unfold catch_all in H.
  destruct (eval_const [] e) as [v| |] eqn:E; try discriminate.
  exists v. split; [eapply eval_const_sound; [apply agrees_nil|exact U|exact G|exact E]|].
  destruct v; inversion H; subst; reflexivity.
Qed.
Lemma site_bool_sound : forall c e rho b,
  binds_safe_name c = false -> unshadowed rho -> in_guard [] e = true ->
  resolve_bool c e = Folded b ->
  exists v, peval rho e = Ok v /\ is_numv v = true /\ b = truthy v.
Proof.
  intros c e rho b B U G H. unfold resolve_bool in H.
  destruct (has_name e) eqn:HN; [discriminate|].
  rewrite (namefree_closed e c HN B) in H. unfold catch_all in H.
  destruct (eval_const [] e) as [v| |] eqn:E; try discriminate.
  exists v. split; [eapply eval_const_sound; [apply agrees_nil|exact U|exact G|exact E]|].
  destruct v; inversion H; subst; split; reflexivity.
Qed.
Lemma site_sound_example :
  resolve_numeric [([120], Known (VInt 9))] (EBin Mult (EInt 250) (EBin Add (EInt 1) (EInt 1))) = Folded 500 /\
  resolve_numeric [([120], Known (VInt 9))] (EBin Mult (EName [120]) (EInt 2)) = Fallback.
Proof. vm_compute. auto. Qed.
