(* Proofs about Lang/ConstEnv.v: the transpile-time environment across statements. *)
From Coq Require Import ZArith QArith List Bool Lia.
From RV Require Import Base.Wire Base.Text Lang.PyAst Lang.PySem Gen.SafeCasts Lang.ConstEval Lang.ConstEnv Proofs.ConstEvalP.
Import ListNotations.
Open Scope Z_scope.

Definition n_pat : ident := [112;97;116].
Definition n_s : ident := [115].
Definition n_v : ident := [118].

(* pat = [1, 0] / if c: pat.append(1) / mon.write(len(pat)) / led.flash_pattern(pat) *)
Definition w_shared : list stmt :=
  [ SAssign n_pat (EList [EInt 1; EInt 0]);
    SIf [SAppend n_pat (EInt 1)] [];
    SObs (OLen n_pat); SObs (OFlash n_pat) ].

Lemma shared_list_refuted :
  firmware_outputs w_shared [0%nat] = Some [VInt 3; VList [VInt 1; VInt 0; VInt 1]] /\
  python_outputs w_shared [0%nat] = Some [VInt 2; VList [VInt 1; VInt 0]] /\
  firmware_outputs w_shared [1%nat] = python_outputs w_shared [1%nat].
Proof. vm_compute. auto. Qed.

(* s = "abc" / if c: s = "abcdef" / mon.write(len(s)) *)
Definition w_stale : list stmt :=
  [ SAssign n_s (EStr [97;98;99]);
    SIf [SAssign n_s (EStr [97;98;99;100;101;102])] [];
    SObs (OLen n_s) ].
Lemma stale_len_refuted :
  firmware_outputs w_stale [1%nat] = Some [VInt 3] /\ python_outputs w_stale [1%nat] = Some [VInt 6] /\
  firmware_outputs w_stale [0%nat] = python_outputs w_stale [0%nat].
Proof. vm_compute. auto. Qed.

(* s = "ab" / while c: mon.write(len(s)); s = "abcd" / mon.write(len(s)) *)
Definition w_loop : list stmt :=
  [ SAssign n_s (EStr [97;98]);
    SWhile [SObs (OLen n_s); SAssign n_s (EStr [97;98;99;100])];
    SObs (OLen n_s) ].
Lemma stale_loop_refuted :
  firmware_outputs w_loop [2%nat] = Some [VInt 2; VInt 2; VInt 2] /\
  python_outputs w_loop [2%nat] = Some [VInt 2; VInt 4; VInt 4].
Proof. vm_compute. auto. Qed.

(* pat = [1, 0] / v = <a run-time value, here 0> / pat.remove(v) / led.flash_pattern(pat) *)
Definition w_remove : list stmt :=
  [ SAssign n_pat (EList [EInt 1; EInt 0]);
    SAssign n_v (ESubscript (EList [EInt 0]) (EInt 0));
    SRemove n_pat (EName n_v);
    SObs (OFlash n_pat) ].
Lemma remove_unknown_refuted :
  firmware_outputs w_remove [] = Some [VList [VInt 0]] /\ python_outputs w_remove [] = Some [VList [VInt 1]].
Proof. vm_compute. auto. Qed.

(* a = 1 / if c: a = 2 / lcd.glyph(0, [a, 0, 0, 0, 0, 0, 0, 0]) *)
Definition n_aa : ident := [97].
Definition w_glyph : list stmt :=
  [ SAssign n_aa (EInt 1);
    SIf [SAssign n_aa (EInt 2)] [];
    SObs (OGlyph (EList [EName n_aa; EInt 0; EInt 0; EInt 0; EInt 0; EInt 0; EInt 0; EInt 0])) ].
Lemma stale_glyph_refuted :
  firmware_outputs w_glyph [1%nat] = Some [VTuple [VInt 1; VInt 0; VInt 0; VInt 0; VInt 0; VInt 0; VInt 0; VInt 0]] /\
  python_outputs w_glyph [1%nat] = Some [VTuple [VInt 2; VInt 0; VInt 0; VInt 0; VInt 0; VInt 0; VInt 0; VInt 0]] /\
  firmware_outputs w_glyph [0%nat] = python_outputs w_glyph [0%nat] /\ is_fresh w_glyph = false.
Proof. vm_compute. auto. Qed.

Lemma witnesses_outside_guard :
  is_fresh w_shared = false /\ is_fresh w_stale = false /\ is_fresh w_loop = false /\ is_fresh w_remove = false.
Proof. vm_compute. auto. Qed.

(* what a _resolve_*_arg call site bakes in is the run-time value of the argument in EVERY run-time environment:
   the folded expression is name-free, hence closed *)
Lemma agrees_nil rho : agrees [] rho.
Proof. intros x v H. cbn in H. discriminate. Qed.
Lemma site_numeric_sound : forall c e rho z,
  binds_safe_name c = false -> unshadowed rho -> in_guard [] e = true ->
  resolve_numeric c e = Folded z ->
  exists v, peval rho e = Ok v /\
            match v with VBool b => z = (if b then 1 else 0) | VInt n => z = n | VFloat q => z = qtrunc q | _ => False end.
Proof.
  intros c e rho z B U G H. unfold resolve_numeric in H.
  destruct (has_name e) eqn:HN; [discriminate|].
  rewrite (namefree_closed e c HN B) in H. unfold catch_all in H.
  destruct (eval_const [] e) as [v| |] eqn:E; try discriminate.
  exists v. split; [eapply eval_const_sound; [apply agrees_nil|exact U|exact G|exact E]|].
  destruct v; inversion H; subst; reflexivity.
Qed.
Lemma site_bool_sound : forall c e rho b,
  binds_safe_name c = false -> unshadowed rho -> in_guard [] e = true ->
  resolve_bool c e = Folded b ->
  exists v, peval rho e = Ok v /\ is_numv v = true /\ b = truthy v.
Proof.
  intros c e rho b B U G H. unfold resolve_bool in H.
  destruct (has_name e) eqn:HN; [discriminate|].
  rewrite (namefree_closed e c HN B) in H. unfold catch_all in H.
  destruct (eval_const [] e) as [v| |] eqn:E; try discriminate.
  exists v. split; [eapply eval_const_sound; [apply agrees_nil|exact U|exact G|exact E]|].
  destruct v; inversion H; subst; split; reflexivity.
Qed.
Lemma site_sound_example :
  resolve_numeric [([120], Known (VInt 9))] (EBin Mult (EInt 250) (EBin Add (EInt 1) (EInt 1))) = Folded 500 /\
  resolve_numeric [([120], Known (VInt 9))] (EBin Mult (EName [120]) (EInt 2)) = Fallback.
Proof. vm_compute. auto. Qed.
