(* Module-level split between static global initialisers and run-time assignments (Lang/ConstEnv.ttop):
   hoisting the initialiser of a global in front of setup() is invisible, because only closed constant
   expressions are hoisted.  Without the name-free test it is not (computed witness). *)
From Coq Require Import ZArith QArith List Bool Lia Arith.
From RV Require Import Base.Wire Base.Text Lang.PyAst Lang.PySem Gen.SafeCasts Lang.ConstEval Lang.ConstEnv
  Proofs.ConstEvalP Proofs.ConstEnvP Proofs.ConstEnvFreshP.
Import ListNotations.
Open Scope Z_scope.

(* module level of a script without function definitions: no volatile names *)
Local Notation tstep := (ConstEnv.tstep []).
Local Notation tblock := (ConstEnv.tblock []).
Lemma tstep_simple0 s te st : simple s -> tstep s te st = tsimple s te st.
Proof.
  intro H. rewrite tstep_simple by exact H. destruct (tsimple s te st) as [[[[te1 st1] r1] f1]|]; [|reflexivity].
  destruct s; try reflexivity; contradiction.
Qed.

(* ---------------- induction over expressions: lists, f-string parts and subscripts ---------------- *)
Section Ind3.
  Variable P : pexpr -> Prop.
  Hypothesis HInt : forall z, P (EInt z).
  Hypothesis HBool : forall b, P (EBool b).
  Hypothesis HFloat : forall q, P (EFloat q).
  Hypothesis HStr : forall s, P (EStr s).
  Hypothesis HCO : P EConstOther.
  Hypothesis HName : forall x, P (EName x).
  Hypothesis HBin : forall op a b, P a -> P b -> P (EBin op a b).
  Hypothesis HUn : forall op a, P a -> P (EUn op a).
  Hypothesis HBoolOp : forall op vs, Forall P vs -> P (EBoolOp op vs).
  Hypothesis HCompare : forall l ops rs, P l -> Forall P rs -> P (ECompare l ops rs).
  Hypothesis HIfExp : forall c a b, P c -> P a -> P b -> P (EIfExp c a b).
  Hypothesis HJoined : forall ps, Forall P ps -> Forall (fmt_inner P) ps -> P (EJoined ps).
  Hypothesis HFmt : forall ok v, P v -> P (EFmt ok v).
  Hypothesis HCall : forall f args kws, Forall P args -> P (ECall f args kws).
  Hypothesis HMethod : forall o a args kws, P (EMethod o a args kws).
  Hypothesis HList : forall es, Forall P es -> P (EList es).
  Hypothesis HTuple : forall es, Forall P es -> P (ETuple es).
  Hypothesis HSub : forall v i, P v -> P i -> P (ESubscript v i).
  Hypothesis HOther : forall t, P (EOther t).

  Lemma pexpr_ind3 : forall e, P e.
  Proof.
    assert (F : forall l, Forall (fun e => P e /\ fmt_inner P e) l -> Forall P l).
    { intros l H. eapply Forall_impl; [|exact H]. cbn. tauto. }
    assert (H : forall e, P e /\ fmt_inner P e).
    { apply (pexpr_ind' (fun e => P e /\ fmt_inner P e)).
      - intros. split; [auto|exact I].
      - intros. split; [auto|exact I].
      - intros. split; [auto|exact I].
      - intros. split; [auto|exact I].
      - split; [auto|exact I].
      - intros. split; [auto|exact I].
      - intros op a b [Ha _] [Hb _]. split; [auto|exact I].
      - intros op a [Ha _]. split; [auto|exact I].
      - intros op vs H. split; [auto|exact I].
      - intros l ops rs [Hl _] H. split; [auto|exact I].
      - intros x a b [Hx _] [Ha _] [Hb _]. split; [auto|exact I].
      - intros ps H. split; [|exact I]. apply HJoined; [auto|].
        eapply Forall_impl; [|exact H]. cbn. tauto.
      - intros ok v [Hv _]. split; [auto|]. cbn. exact Hv.
      - intros f args kws H _. split; [auto|exact I].
      - intros. split; [auto|exact I].
      - intros es H. split; [auto|exact I].
      - intros es H. split; [auto|exact I].
      - intros v i [Hv _] [Hi _]. split; [auto|exact I].
      - intros. split; [auto|exact I]. }
    intro e. apply H.
  Qed.
End Ind3.

(* ---------------- unfolding equations ---------------- *)
Lemma p_evand_cons rho x r last : p_evand rho (x :: r) last = do v <- peval rho x; if truthy v then p_evand rho r v else Ok v.
Proof. reflexivity. Qed.
Lemma p_evor_cons rho x r last : p_evor rho (x :: r) last = do v <- peval rho x; if truthy v then Ok v else p_evor rho r v.
Proof. reflexivity. Qed.
Lemma p_chain_cons rho left op ops r rs : p_chain rho left (op :: ops) (r :: rs) =
  do rv <- peval rho r; do c <- py_cmp op left rv; if c then p_chain rho rv ops rs else Ok (VBool false).
Proof. reflexivity. Qed.
Lemma p_joined_cons rho p r : p_joined rho (p :: r) = do s <- p_part rho p; do t <- p_joined rho r; Ok (s ++ t).
Proof. reflexivity. Qed.
Lemma pe_sub rho v i : peval rho (ESubscript v i) = do x <- peval rho v; do k <- peval rho i; py_index x k.
Proof. reflexivity. Qed.

(* ---------------- the builtins of the reference semantics are safe names ---------------- *)
Definition is_pybuiltin (f : ident) : bool :=
  text_eqb f n_int || text_eqb f n_float || text_eqb f n_bool || text_eqb f n_str || text_eqb f n_len
  || text_eqb f n_abs || text_eqb f n_max || text_eqb f n_min.
Lemma py_call_ok_builtin f vs v : py_call f vs = Ok v -> is_pybuiltin f = true.
Proof.
  unfold py_call, is_pybuiltin.
  destruct (text_eqb f n_int); [intros _; reflexivity|].
  destruct (text_eqb f n_float); [intros _; reflexivity|].
  destruct (text_eqb f n_bool); [intros _; reflexivity|].
  destruct (text_eqb f n_str); [intros _; reflexivity|].
  destruct (text_eqb f n_len); [intros _; reflexivity|].
  destruct (text_eqb f n_abs); [intros _; reflexivity|].
  destruct (text_eqb f n_max); [intros _; reflexivity|].
  destruct (text_eqb f n_min); [intros _; reflexivity|].
  discriminate.
Qed.
Lemma pybuiltin_safe f : is_pybuiltin f = true -> tmem f safe_name_references = true.
Proof.
  unfold is_pybuiltin. rewrite !orb_true_iff, !text_eqb_eq.
  intros H. repeat (destruct H as [H|H]); subst f; reflexivity.
Qed.

(* ---------------- a run-time environment with extra bindings for names Python has not bound yet ---------------- *)
Definition rel (P : list ident) (rho rho2 : env) : Prop :=
  forall y, lookup y rho2 = lookup y rho \/ (lookup y rho = None /\ In y P).

Lemma rel_lookup P rho rho2 y w : rel P rho rho2 -> lookup y rho = Some w -> lookup y rho2 = Some w.
Proof. intros R L. destruct (R y) as [E|[E _]]; congruence. Qed.
Lemma rel_cons P rho rho2 x v : rel P rho rho2 -> rel P ((x, v) :: rho) ((x, v) :: rho2).
Proof.
  intros R y. unfold lookup. destruct (teq_dec y x) as [->|N].
  - left. rewrite !tl_eq. reflexivity.
  - rewrite !tl_ne by exact N. apply R.
Qed.

Section Weak.
  Variable P : list ident.
  Variables rho rho2 : env.
  Hypothesis HR : rel P rho rho2.
  Hypothesis HP : no_safe P = true.

  Definition wk_at (e : pexpr) : Prop := forall v, peval rho e = Ok v -> peval rho2 e = Ok v.

  Lemma wk_evals l : Forall wk_at l -> forall vs, p_evals rho l = Ok vs -> p_evals rho2 l = Ok vs.
  Proof.
    induction 1 as [|x r Hx Hr IH]; intros vs H; [exact H|].
    rewrite p_evals_cons in *.
    destruct (peval rho x) as [v|] eqn:E; [|discriminate]. cbn [bind] in H.
    destruct (p_evals rho r) as [ws|] eqn:E2; [|discriminate].
    rewrite (Hx v E). cbn [bind]. rewrite (IH ws eq_refl). exact H.
  Qed.
  Lemma wk_evand l : Forall wk_at l -> forall last v, p_evand rho l last = Ok v -> p_evand rho2 l last = Ok v.
  Proof.
    induction 1 as [|x r Hx Hr IH]; intros last v H; [exact H|].
    rewrite p_evand_cons in *.
    destruct (peval rho x) as [w|] eqn:E; [|discriminate]. cbn [bind] in H.
    rewrite (Hx w E). cbn [bind]. destruct (truthy w); [apply IH; exact H|exact H].
  Qed.
  Lemma wk_evor l : Forall wk_at l -> forall last v, p_evor rho l last = Ok v -> p_evor rho2 l last = Ok v.
  Proof.
    induction 1 as [|x r Hx Hr IH]; intros last v H; [exact H|].
    rewrite p_evor_cons in *.
    destruct (peval rho x) as [w|] eqn:E; [|discriminate]. cbn [bind] in H.
    rewrite (Hx w E). cbn [bind]. destruct (truthy w); [exact H|apply IH; exact H].
  Qed.
  Lemma wk_chain rs : Forall wk_at rs -> forall ops left v, p_chain rho left ops rs = Ok v -> p_chain rho2 left ops rs = Ok v.
  Proof.
    induction 1 as [|x r Hx Hr IH]; intros ops left v H; [exact H|].
    destruct ops as [|op ops]; [exact H|].
    rewrite p_chain_cons in *.
    destruct (peval rho x) as [rv|] eqn:E; [|discriminate]. cbn [bind] in H.
    rewrite (Hx rv E). cbn [bind].
    destruct (py_cmp op left rv) as [c|]; [|discriminate]. cbn [bind] in *.
    destruct c; [apply IH; exact H|exact H].
  Qed.
  Lemma wk_part p : fmt_inner wk_at p -> forall s, p_part rho p = Ok s -> p_part rho2 p = Ok s.
  Proof.
    intros Hp s H. destruct p; try exact H.
    destruct ok; [|exact H]. cbn [p_part] in *. cbn [fmt_inner] in Hp.
    destruct (peval rho p) as [x|] eqn:E; [|discriminate]. cbn [bind] in H.
    rewrite (Hp x E). exact H.
  Qed.
  Lemma wk_joined ps : Forall (fmt_inner wk_at) ps -> forall t, p_joined rho ps = Ok t -> p_joined rho2 ps = Ok t.
  Proof.
    induction 1 as [|p r Hp Hr IH]; intros t H; [exact H|].
    rewrite p_joined_cons in *.
    destruct (p_part rho p) as [s|] eqn:E; [|discriminate]. cbn [bind] in H.
    destruct (p_joined rho r) as [t'|] eqn:E2; [|discriminate].
    rewrite (wk_part p Hp s E). cbn [bind]. rewrite (IH t' eq_refl). exact H.
  Qed.

  Lemma wk_all : forall e, wk_at e.
  Proof.
    induction e using pexpr_ind3; unfold wk_at in *; intros v0 H0'.
    - exact H0'.
    - exact H0'.
    - exact H0'.
    - exact H0'.
    - exact H0'.
    - (* EName *) rewrite peval_name in *. destruct (lookup x rho) as [w|] eqn:L; [|discriminate].
      rewrite (rel_lookup _ _ _ _ _ HR L). exact H0'.
    - (* EBin *) rewrite pe_bin in *.
      destruct (peval rho e1) as [x|] eqn:E1; [|discriminate]. cbn [bind] in H0'.
      destruct (peval rho e2) as [y|] eqn:E2; [|discriminate].
      rewrite (IHe1 x eq_refl), (IHe2 y eq_refl). exact H0'.
    - (* EUn *) rewrite pe_un in *.
      destruct (peval rho e) as [x|] eqn:E1; [|discriminate].
      rewrite (IHe x eq_refl). exact H0'.
    - (* EBoolOp *) destruct op.
      + rewrite pe_and in *. apply wk_evand; assumption.
      + rewrite pe_or in *. apply wk_evor; assumption.
    - (* ECompare *) rewrite pe_cmp in *. destruct ops as [|op ops]; [exact H0'|].
      destruct (peval rho e) as [lv|] eqn:E1; [|discriminate]. cbn [bind] in H0'.
      rewrite (IHe lv eq_refl). cbn [bind]. apply wk_chain; assumption.
    - (* EIfExp *) rewrite pe_if in *.
      destruct (peval rho e1) as [cv|] eqn:E1; [|discriminate]. cbn [bind] in H0'.
      rewrite (IHe1 cv eq_refl). cbn [bind]. destruct (truthy cv); auto.
    - (* EJoined *) rewrite pe_joined in *.
      destruct (p_joined rho ps) as [t|] eqn:E1; [|discriminate].
      rewrite (wk_joined ps H0 t E1). exact H0'.
    - (* EFmt *) exact H0'.
    - (* ECall *) destruct kws; [|exact H0']. rewrite pe_call in *.
      destruct (lookup f rho) eqn:L; [discriminate|].
      destruct (p_evals rho args) as [vs|] eqn:E1; [|discriminate]. cbn [bind] in H0'.
      assert (L2 : lookup f rho2 = None).
      { destruct (HR f) as [E|[_ E]]; [congruence|]. exfalso.
        pose proof (pybuiltin_safe _ (py_call_ok_builtin _ _ _ H0')) as S.
        rewrite (no_safe_in _ _ HP E) in S. discriminate. }
      rewrite L2, (wk_evals args H vs E1). exact H0'.
    - (* EMethod *) exact H0'.
    - (* EList *) rewrite pe_list in *.
      destruct (p_evals rho es) as [vs|] eqn:E1; [|discriminate].
      rewrite (wk_evals es H vs E1). exact H0'.
    - (* ETuple *) rewrite pe_tuple in *.
      destruct (p_evals rho es) as [vs|] eqn:E1; [|discriminate].
      rewrite (wk_evals es H vs E1). exact H0'.
    - (* ESubscript *) rewrite pe_sub in *.
      destruct (peval rho e1) as [x|] eqn:E1; [|discriminate]. cbn [bind] in H0'.
      destruct (peval rho e2) as [k|] eqn:E2; [|discriminate].
      rewrite (IHe1 x eq_refl), (IHe2 k eq_refl). exact H0'.
    - exact H0'.
  Qed.
End Weak.

Lemma peval_weaken P rho rho2 e v : rel P rho rho2 -> no_safe P = true -> peval rho e = Ok v -> peval rho2 e = Ok v.
Proof. intros R S. apply (wk_all P rho rho2 R S e). Qed.

(* ---------------- statements: the same run, with the extra bindings underneath ---------------- *)
Section Mono.
  Variable P : list ident.
  Hypothesis HP : no_safe P = true.

  Lemma robs_mono o rho rho2 v : rel P rho rho2 -> robs o rho = Some v -> robs o rho2 = Some v.
  Proof.
    intros R H. destruct o as [x|x|e|x]; cbn [robs] in *.
    - destruct (lookup x rho) as [w|] eqn:L; [|discriminate]. rewrite (rel_lookup _ _ _ _ _ R L). exact H.
    - destruct (lookup x rho) as [w|] eqn:L; [|discriminate]. rewrite (rel_lookup _ _ _ _ _ R L). exact H.
    - destruct (peval rho e) as [w|] eqn:E; [|discriminate]. rewrite (peval_weaken _ _ _ _ _ R HP E). exact H.
    - apply (rel_lookup _ _ _ _ _ R H).
  Qed.

  Lemma rsimple_mono s rho rho2 rho' out : rel P rho rho2 -> rsimple s rho = Some (rho', out) ->
    exists rho2', rsimple s rho2 = Some (rho2', out) /\ rel P rho' rho2'.
  Proof.
    intros R H. destruct s as [x e|x e|x e|o|v| | | |x op e]; cbn [rsimple] in *; try discriminate.
    - destruct (peval rho e) as [w|] eqn:E; [|discriminate]. inj H.
      rewrite (peval_weaken _ _ _ _ _ R HP E). eexists. split; [reflexivity|apply rel_cons; exact R].
    - destruct (peval rho e) as [w|] eqn:E; [|discriminate].
      destruct (lookup x rho) as [[| | | |cur| |]|] eqn:L; try discriminate. inj H.
      rewrite (peval_weaken _ _ _ _ _ R HP E), (rel_lookup _ _ _ _ _ R L).
      eexists. split; [reflexivity|apply rel_cons; exact R].
    - destruct (peval rho e) as [w|] eqn:E; [|discriminate].
      destruct (lookup x rho) as [[| | | |cur| |]|] eqn:L; try discriminate.
      destruct (remove_first w cur) as [cur'|] eqn:RF; [|discriminate]. inj H.
      rewrite (peval_weaken _ _ _ _ _ R HP E), (rel_lookup _ _ _ _ _ R L), RF.
      eexists. split; [reflexivity|apply rel_cons; exact R].
    - destruct (robs o rho) as [w|] eqn:O; [|discriminate]. inj H.
      rewrite (robs_mono _ _ _ _ R O). eexists. split; [reflexivity|exact R].
    - inj H. eexists. split; [reflexivity|exact R].
    - destruct (peval rho (EBin op (EName x) e)) as [w|] eqn:E; [|discriminate]. inj H.
      rewrite (peval_weaken _ _ _ _ _ R HP E). eexists. split; [reflexivity|apply rel_cons; exact R].
  Qed.

  Definition mono_stmt (s : stmt) : Prop := forall orc rho rho2 rho' out orc',
    rel P rho rho2 -> rstep s orc rho = Some (rho', out, orc') ->
    exists rho2', rstep s orc rho2 = Some (rho2', out, orc') /\ rel P rho' rho2'.
  Definition mono_blk (b : list stmt) : Prop := forall orc rho rho2 rho' out orc',
    rel P rho rho2 -> rblock b orc rho = Some (rho', out, orc') ->
    exists rho2', rblock b orc rho2 = Some (rho2', out, orc') /\ rel P rho' rho2'.

  Lemma mono_block b : Forall mono_stmt b -> mono_blk b.
  Proof.
    induction 1 as [|s r Hs _ IH]; intros orc rho rho2 rho' out orc' R H.
    - rewrite rblock_nil in *. inj H. eexists. split; [reflexivity|exact R].
    - rewrite rblock_cons in *.
      destruct (rstep s orc rho) as [[[rho1 o1] orc1]|] eqn:E1; [|discriminate].
      destruct (rblock r orc1 rho1) as [[[rho3 o3] orc3]|] eqn:E2; [|discriminate]. inj H.
      destruct (Hs _ _ _ _ _ _ R E1) as (rho1' & S1 & R1).
      destruct (IH _ _ _ _ _ _ R1 E2) as (rho3' & S2 & R3).
      rewrite S1, S2. eexists. split; [reflexivity|exact R3].
  Qed.
  Lemma mono_witer a : mono_blk a -> forall k orc rho rho2 rho' out orc',
    rel P rho rho2 -> witer a k orc rho = Some (rho', out, orc') ->
    exists rho2', witer a k orc rho2 = Some (rho2', out, orc') /\ rel P rho' rho2'.
  Proof.
    intros Ha. induction k as [|k IH]; intros orc rho rho2 rho' out orc' R H; cbn [witer] in *.
    - inj H. eexists. split; [reflexivity|exact R].
    - destruct (rblock a orc rho) as [[[rho1 o1] orc1]|] eqn:E1; [|discriminate].
      destruct (witer a k orc1 rho1) as [[[rho3 o3] orc3]|] eqn:E2; [|discriminate]. inj H.
      destruct (Ha _ _ _ _ _ _ R E1) as (rho1' & S1 & R1).
      destruct (IH _ _ _ _ _ _ R1 E2) as (rho3' & S2 & R3).
      rewrite S1, S2. eexists. split; [reflexivity|exact R3].
  Qed.
  Lemma mono_fiter x a : mono_blk a -> forall k i orc rho rho2 rho' out orc',
    rel P rho rho2 -> fiter x a k i orc rho = Some (rho', out, orc') ->
    exists rho2', fiter x a k i orc rho2 = Some (rho2', out, orc') /\ rel P rho' rho2'.
  Proof.
    intros Ha. induction k as [|k IH]; intros i orc rho rho2 rho' out orc' R H; cbn [fiter] in *.
    - inj H. eexists. split; [reflexivity|exact R].
    - destruct (rblock a orc ((x, VInt i) :: rho)) as [[[rho1 o1] orc1]|] eqn:E1; [|discriminate].
      destruct (fiter x a k (i + 1) orc1 rho1) as [[[rho3 o3] orc3]|] eqn:E2; [|discriminate]. inj H.
      destruct (Ha _ _ _ _ _ _ (rel_cons _ _ _ x (VInt i) R) E1) as (rho1' & S1 & R1).
      destruct (IH _ _ _ _ _ _ _ R1 E2) as (rho3' & S2 & R3).
      rewrite S1, S2. eexists. split; [reflexivity|exact R3].
  Qed.

  Lemma mono_simple s : simple s -> mono_stmt s.
  Proof.
    intros Hs orc rho rho2 rho' out orc' R H. rewrite rstep_simple in * by exact Hs.
    destruct (rsimple s rho) as [[rho1 o1]|] eqn:E; [|discriminate]. inj H.
    destruct (rsimple_mono _ _ _ _ _ R E) as (rho2' & S & R').
    rewrite S. eexists. split; [reflexivity|exact R'].
  Qed.
  Lemma mono_all : forall s, mono_stmt s.
  Proof.
    apply stmt_ind'; try (intros; apply mono_simple; exact I).
    - intros a b Fa Fb orc rho rho2 rho' out orc' R H. rewrite rstep_if in *.
      destruct orc as [|[|k] orc1]; [discriminate| |].
      + exact (mono_block b Fb _ _ _ _ _ _ R H).
      + exact (mono_block a Fa _ _ _ _ _ _ R H).
    - intros a Fa orc rho rho2 rho' out orc' R H. rewrite rstep_while in *.
      destruct orc as [|k orc1]; [discriminate|]. exact (mono_witer a (mono_block a Fa) _ _ _ _ _ _ _ R H).
    - intros x a Fa orc rho rho2 rho' out orc' R H. rewrite rstep_for in *.
      destruct orc as [|k orc1]; [discriminate|]. exact (mono_fiter x a (mono_block a Fa) _ _ _ _ _ _ _ _ R H).
  Qed.
  Lemma mono_blocks b : mono_blk b.
  Proof. apply mono_block. apply Forall_forall. intros s _. apply mono_all. Qed.
End Mono.

(* ---------------- the split ---------------- *)
Fixpoint statics (gs : globals) : list (ident * pexpr) :=
  match gs with
  | [] => []
  | (x, GStatic e) :: r => (x, e) :: statics r
  | (_, GDefault) :: r => statics r
  end.
Lemma statics_app a b : statics (a ++ b) = statics a ++ statics b.
Proof. induction a as [|[x [e|]] r IH]; cbn; [reflexivity|f_equal; exact IH|exact IH]. Qed.

Lemma ttop_cons s r te st seen : ttop (s :: r) te st seen =
  match tstep s te st with
  | Some (te1, st1, r1, f1) =>
      let '(g1, body1, h1) := gsplit true s te st seen r1 in
      match ttop r te1 st1 (writes s ++ writes_block r1 ++ seen) with
      | Some (te2, st2, g2, body2, f2, h2) => Some (te2, st2, g1 ++ g2, body1 ++ body2, f1 && f2, h1 && h2)
      | None => None end
  | None => None end.
Proof. reflexivity. Qed.

(* what gsplit does: either it hoists a closed constant first assignment, or it leaves the residual alone *)
Definition hoist_guard (x : ident) (e : pexpr) (te : tenv) (st : store) (seen : list ident) : bool :=
  negb (binds_safe_name (view st te)) && in_guard [] e && negb (tmem x seen) && negb (tmem x safe_name_references).
Lemma gsplit_cases s te st seen r1 g1 body1 h1 : gsplit true s te st seen r1 = (g1, body1, h1) ->
  (exists x e, s = SAssign x e /\ is_cval (eval_const (view st te) e) = true /\ has_name e = false /\
               g1 = [(x, GStatic e)] /\ body1 = [] /\ h1 = hoist_guard x e te st seen)
  \/ (statics g1 = [] /\ body1 = r1).
Proof.
  intro H. destruct s as [x e|x e|x e|o|v|a b|a|x a|x op e]; cbn [gsplit] in H; try (inj H; right; split; reflexivity).
  destruct (bound x te); [inj H; right; split; reflexivity|].
  destruct (is_cval (eval_const (view st te) e) && (negb true || negb (has_name e))) eqn:C.
  - inj H. left. exists x, e. apply andb_true_iff in C. destruct C as [C1 C2]. cbn in C2. apply negb_true_iff in C2.
    repeat split; assumption.
  - inj H. right. split; reflexivity.
Qed.

Definition static_ok (xe : ident * pexpr) : Prop :=
  tmem (fst xe) safe_name_references = false /\ in_guard [] (snd xe) = true /\ exists v, eval_const [] (snd xe) = CVal v.

Lemma hoist_guard_ok x e te st seen : is_cval (eval_const (view st te) e) = true -> has_name e = false ->
  hoist_guard x e te st seen = true -> static_ok (x, e) /\ ~ In x seen.
Proof.
  intros C N G. unfold hoist_guard in G. apply flags4 in G. destruct G as (G1 & G2 & G3 & G4).
  apply negb_true_iff in G1, G3, G4. split.
  - unfold static_ok. cbn [fst snd]. split; [exact G4|split; [exact G2|]].
    rewrite <- (namefree_closed e _ N G1). destruct (eval_const (view st te) e) as [v| |]; try discriminate. eauto.
  - intro I. apply tmem_in in I. congruence.
Qed.

Lemma tstep_assign_res x e te st te1 st1 r1 f1 : tstep (SAssign x e) te st = Some (te1, st1, r1, f1) -> r1 = [SAssign x e].
Proof.
  rewrite tstep_simple0 by exact I. cbn [tsimple].
  destruct (eval_const (view st te) e) as [v|k|]; [destruct v| |]; intro H; try discriminate; inj H; reflexivity.
Qed.

(* the hoisted names: inside the guard, pairwise distinct, not written before their declaration *)
Lemma ttop_statics b : forall te st seen te' st' gs body f,
  ttop b te st seen = Some (te', st', gs, body, f, true) ->
  Forall static_ok (statics gs) /\ NoDup (map fst (statics gs)) /\ (forall x, In x (map fst (statics gs)) -> ~ In x seen).
Proof.
  induction b as [|s r IH]; intros te st seen te' st' gs body f H.
  - cbn in H. inj H. cbn. split; [constructor|split; [constructor|tauto]].
  - rewrite ttop_cons in H.
    destruct (tstep s te st) as [[[[te1 st1] r1] f1]|] eqn:E1; [|discriminate].
    destruct (gsplit true s te st seen r1) as [[g1 body1] h1] eqn:G.
    destruct (ttop r te1 st1 (writes s ++ writes_block r1 ++ seen)) as [[[[[[te2 st2] g2] body2] f2] h2]|] eqn:E2; [|discriminate].
    injection H as <- <- <- <- <- HH. apply andb_true_iff in HH. destruct HH as [-> ->].
    destruct (IH _ _ _ _ _ _ _ _ E2) as (A & B & C).
    rewrite statics_app.
    destruct (gsplit_cases _ _ _ _ _ _ _ _ G) as [(x & e & -> & Cv & Nn & -> & -> & Hg)|[S0 _]].
    + symmetry in Hg. destruct (hoist_guard_ok _ _ _ _ _ Cv Nn Hg) as [OK NS].
      cbn [statics app map fst]. split; [constructor; assumption|]. split.
      * constructor; [|exact B]. intro I. apply (C _ I). cbn. left. reflexivity.
      * intros y [<-|I]; [exact NS|]. intro I2. apply (C _ I). apply in_or_app. right. apply in_or_app. right. exact I2.
    + rewrite S0. cbn [app]. split; [exact A|split; [exact B|]].
      intros y I I2. apply (C _ I). apply in_or_app. right. apply in_or_app. right. exact I2.
Qed.

(* the static initialisers, run first *)
Lemma static_inits_statics gs : static_inits gs = map (fun xe => SAssign (fst xe) (snd xe)) (statics gs).
Proof. induction gs as [|[x [e|]] r IH]; cbn; [reflexivity|f_equal; exact IH|exact IH]. Qed.

Lemma inits_run l : Forall static_ok l -> NoDup (map fst l) -> forall rho0 orc, unshadowed rho0 ->
  exists rhoH, rblock (map (fun xe => SAssign (fst xe) (snd xe)) l) orc rho0 = Some (rhoH, [], orc) /\
    (forall y, ~ In y (map fst l) -> lookup y rhoH = lookup y rho0) /\
    (forall x e, In (x, e) l -> exists v, eval_const [] e = CVal v /\ lookup x rhoH = Some v).
Proof.
  induction 1 as [|[x e] r (S1 & S2 & v & S3) Hr IH]; intros ND rho0 orc U.
  - exists rho0. cbn. split; [reflexivity|split; [reflexivity|tauto]].
  - cbn [map fst snd] in *. inversion ND as [|? ? NI ND']; subst.
    assert (PE : peval rho0 e = Ok v) by (eapply eval_const_sound; [apply agrees_nil|exact U|exact S2|exact S3]).
    destruct (IH ND' ((x, v) :: rho0) orc (unshadowed_cons _ _ _ U S1)) as (rhoH & RB & FR & PV).
    exists rhoH. split; [|split].
    + rewrite rblock_cons, rstep_simple by exact I. cbn [rsimple]. rewrite PE, RB. reflexivity.
    + intros y Ny. rewrite FR by (intro; apply Ny; right; assumption).
      unfold lookup. apply tl_ne. intro; subst; apply Ny; left; reflexivity.
    + intros y e' [Eq|I'].
      * inj Eq. exists v. split; [exact S3|]. rewrite (FR _ NI). unfold lookup. apply tl_eq.
      * apply PV. exact I'.
Qed.

(* the simulation along the module-level statement list *)
Lemma top_sim P : no_safe P = true -> forall b te st seen te' st' gs body orc rho rho2 rho' out orc',
  ttop b te st seen = Some (te', st', gs, body, true, true) ->
  wf te st -> ragrees te st rho -> unshadowed rho -> rel P rho rho2 ->
  (forall x e, In (x, e) (statics gs) -> exists v, eval_const [] e = CVal v /\ lookup x rho2 = Some v) ->
  rblock b orc rho = Some (rho', out, orc') ->
  exists rho2', rblock body orc rho2 = Some (rho2', out, orc').
Proof.
  intros HP. induction b as [|s r IH]; intros te st seen te' st' gs body orc rho rho2 rho' out orc' H W R U RL PV Hr.
  - cbn in H. inj H. rewrite rblock_nil in *. inj Hr. eexists. reflexivity.
  - rewrite ttop_cons in H.
    destruct (tstep s te st) as [[[[te1 st1] r1] f1]|] eqn:E1; [|discriminate].
    destruct (gsplit true s te st seen r1) as [[g1 body1] h1] eqn:G.
    destruct (ttop r te1 st1 (writes s ++ writes_block r1 ++ seen)) as [[[[[[te2 st2] g2] body2] f2] h2]|] eqn:E2; [|discriminate].
    injection H as <- <- <- <- HF HH. apply andb_true_iff in HF, HH. destruct HF as [-> ->]. destruct HH as [-> ->].
    rewrite rblock_cons in Hr.
    destruct (rstep s orc rho) as [[[rho1 o1] orc1]|] eqn:R1; [|discriminate].
    destruct (rblock r orc1 rho1) as [[[rho3 o3] orc3]|] eqn:R2; [|discriminate]. inj Hr.
    destruct (sim_all s _ _ _ _ _ _ _ _ _ _ E1 W R U R1) as (S1 & RA1 & U1).
    assert (W1 : wf te1 st1) by (apply (tframe_all s _ _ _ _ _ _ E1 W)).
    rewrite statics_app in PV.
    destruct (gsplit_cases _ _ _ _ _ _ _ _ G) as [(x & e & -> & Cv & Nn & -> & -> & Hg)|[S0 ->]].
    + (* hoisted: Python binds x here, the firmware has had it since before setup() *)
      symmetry in Hg. destruct (hoist_guard_ok _ _ _ _ _ Cv Nn Hg) as [(_ & G2 & _) _]. cbn [fst snd] in G2.
      destruct (PV x e) as (v & Ev & Lv); [cbn; left; reflexivity|].
      rewrite rstep_simple in R1 by exact I. cbn [rsimple] in R1.
      rewrite (eval_const_sound _ _ _ _ (agrees_nil rho) U G2 Ev) in R1. inj R1.
      assert (RL1 : rel P ((x, v) :: rho) rho2).
      { intro y. unfold lookup. destruct (teq_dec y x) as [->|N].
        - left. rewrite tl_eq. exact Lv.
        - rewrite tl_ne by exact N. apply RL. }
      cbn [app].
      assert (PV2 : forall y e', In (y, e') (statics g2) -> exists v, eval_const [] e' = CVal v /\ lookup y rho2 = Some v).
      { intros y e' I'. apply PV. cbn. right. exact I'. }
      destruct (IH _ _ _ _ _ _ _ _ _ _ _ _ _ E2 W1 RA1 U1 RL1 PV2 R2) as (rho2' & S2).
      exists rho2'. exact S2.
    + (* not hoisted: the same residual statement on both sides *)
      rewrite S0 in PV. cbn [app] in PV.
      destruct (mono_blocks P HP r1 _ _ _ _ _ _ RL S1) as (rho2a & S1' & RL1).
      destruct (ttop_statics _ _ _ _ _ _ _ _ _ E2) as (_ & _ & NS).
      assert (PV2 : forall y e', In (y, e') (statics g2) -> exists v, eval_const [] e' = CVal v /\ lookup y rho2a = Some v).
      { intros y e' I'. destruct (PV y e' I') as (v & Ev & Lv). exists v. split; [exact Ev|].
        rewrite (rframe_blocks r1 _ _ _ _ _ S1' y); [exact Lv|].
        intro I2. apply (NS y); [change y with (fst (y, e')); apply in_map; exact I'|].
        apply in_or_app. right. apply in_or_app. left. exact I2. }
      destruct (IH _ _ _ _ _ _ _ _ _ _ _ _ _ E2 W1 RA1 U1 RL1 PV2 R2) as (rho2' & S2).
      exists rho2'. rewrite rblock_app, S1', S2. reflexivity.
Qed.

Theorem global_split_sound : forall p orc out,
  split_ok p = true -> python_outputs p orc = Some out -> sketch_outputs p orc = Some out.
Proof.
  intros p orc out F PY. unfold split_ok in F. unfold python_outputs in PY. unfold sketch_outputs, sketch_outputs_gen.
  fold ttop. destruct (ttop p [] [] []) as [[[[[[te st] gs] body] f] h]|] eqn:E; [|discriminate].
  apply andb_true_iff in F. destruct F as [-> ->].
  destruct (rblock p orc []) as [[[rho' out'] orc']|] eqn:Rp; [|discriminate]. inj PY.
  destruct (ttop_statics _ _ _ _ _ _ _ _ _ E) as (OK & ND & _).
  assert (U0 : unshadowed []) by (intros f _; reflexivity).
  destruct (inits_run _ OK ND [] orc U0) as (rhoH & RB & FR & PV).
  set (P := map fst (statics gs)).
  assert (HP : no_safe P = true).
  { unfold no_safe. apply forallb_forall. intros x I. apply in_map_iff in I. destruct I as ([y e] & <- & I).
    rewrite Forall_forall in OK. destruct (OK _ I) as (S1 & _). cbn in *. rewrite S1. reflexivity. }
  assert (RL : rel P [] rhoH).
  { intro y. destruct (in_dec teq_dec y P) as [I|N]; [right; split; [reflexivity|exact I]|left]. rewrite (FR _ N). reflexivity. }
  assert (W : wf [] []) by (split; [|split]; intros; cbn in *; discriminate).
  assert (R : ragrees [] [] []) by (intro x; exact I).
  destruct (top_sim P HP _ _ _ _ _ _ _ _ _ _ _ _ _ _ E W R U0 RL PV Rp) as (rho2' & S).
  rewrite static_inits_statics, rblock_app, RB, S. reflexivity.
Qed.

Lemma static_initialiser_closed : forall p te st gs body f x e rho,
  ttop p [] [] [] = Some (te, st, gs, body, f, true) -> In (x, e) (statics gs) -> unshadowed rho ->
  exists v, eval_const [] e = CVal v /\ peval rho e = Ok v.
Proof.
  intros p te st gs body f x e rho H I U.
  destruct (ttop_statics _ _ _ _ _ _ _ _ _ H) as (OK & _ & _).
  rewrite Forall_forall in OK. destruct (OK _ I) as (_ & G & v & Ev). cbn [fst snd] in *.
  exists v. split; [exact Ev|]. eapply eval_const_sound; [apply agrees_nil|exact U|exact G|exact Ev].
Qed.

(* a sketch accepted with both flags set is a fresh program, hence also covered by env_fresh *)
Lemma ttop_tblock b : forall te st seen te' st' gs body f h,
  ttop b te st seen = Some (te', st', gs, body, f, h) -> exists res, tblock b te st = Some (te', st', res, f).
Proof.
  induction b as [|s r IH]; intros te st seen te' st' gs body f h H.
  - cbn in H. inj H. eexists. reflexivity.
  - rewrite ttop_cons in H. rewrite tblock_cons.
    destruct (tstep s te st) as [[[[te1 st1] r1] f1]|] eqn:E1; [|discriminate].
    destruct (gsplit true s te st seen r1) as [[g1 body1] h1] eqn:G.
    destruct (ttop r te1 st1 (writes s ++ writes_block r1 ++ seen)) as [[[[[[te2 st2] g2] body2] f2] h2]|] eqn:E2; [|discriminate].
    inj H. destruct (IH _ _ _ _ _ _ _ _ _ E2) as (res & T). rewrite T. eexists. reflexivity.
Qed.
Lemma split_ok_fresh p : split_ok p = true -> is_fresh p = true.
Proof.
  unfold split_ok, is_fresh. destruct (ttop p [] [] []) as [[[[[[te st] gs] body] f] h]|] eqn:E; [|discriminate].
  destruct (ttop_tblock _ _ _ _ _ _ _ _ _ _ E) as (res & T). rewrite T. intro H. apply andb_true_iff in H. tauto.
Qed.

(* ---------------- the name-free test is forced; non-vacuity ---------------- *)
Definition n_base : ident := [98;97;115;101].
Definition n_period : ident := [112;101;114;105;111;100].
(* base = 200 / base = 350 / period = base * 2 / mon.write(period) *)
Definition w_retune : list stmt :=
  [ SAssign n_base (EInt 200); SAssign n_base (EInt 350);
    SAssign n_period (EBin Mult (EName n_base) (EInt 2)); SObs (OVal n_period) ].
Lemma hoist_through_names_refuted :
  sketch_outputs_gen false w_retune [] = Some [VInt 400] /\ python_outputs w_retune [] = Some [VInt 700] /\
  sketch_outputs w_retune [] = Some [VInt 700] /\ split_ok w_retune = true.
Proof. vm_compute. auto. Qed.

Definition n_m : ident := [109].
Definition w_split : list stmt :=
  [ SAssign n_base (EInt 200);                                        (* static initialiser *)
    SAssign n_m (ESubscript (EList [EInt 5]) (EInt 0));               (* run-time value: default + assignment *)
    SIf [SAug n_m Add (EInt 1)] [];
    SAssign n_base (EBin Add (EName n_base) (EInt 150));              (* re-tuned at run time *)
    SAssign n_period (EBin Mult (EName n_base) (EInt 2));             (* constant, but through a name: stays in setup() *)
    SAug n_period Add (EName n_m);
    SAssign n_s (EStr [97;98]);                                       (* static initialiser, declared late *)
    SObs (OVal n_period); SObs (OVal n_base); SObs (OLen n_s) ].
Lemma split_nonvacuous :
  split_ok w_split = true /\
  python_outputs w_split [1%nat] = Some [VInt 706; VInt 350; VInt 2] /\
  python_outputs w_split [0%nat] = Some [VInt 705; VInt 350; VInt 2] /\
  match ttop w_split [] [] [] with
  | Some (_, _, gs, body, _, _) =>
      map fst (statics gs) = [n_base; n_s] /\ length body = 8%nat /\ length gs = 4%nat
  | None => False end.
Proof. vm_compute. repeat split; reflexivity. Qed.
