(* C11: the size of the integers the evaluator builds is bounded.
   _apply_bin predicts the bit length of the result of ** / << / * and refuses (ValueError, the evaluator's own
   "not a constant") when it exceeds _MAX_CONST_BITS; every other operator grows its operands by at most one bit.
   Hence no operator application yields more than max(fold_max_bits, widest operand + 1) bits, an expression of the
   arithmetic fragment with s nodes yields at most max(fold_max_bits, widest leaf) + s bits, and the former witness
   family 2 ** (2 ** n) is refused as soon as its value would exceed the bound. *)
From Coq Require Import ZArith QArith List Bool Lia.
From RV Require Import Base.Wire Base.Text Lang.PyAst Lang.PySem Gen.SafeCasts Lang.ConstEval Proofs.ConstEvalP.
Import ListNotations.
Open Scope Z_scope.

Lemma fold_max_pos : 1 <= fold_max_bits.
Proof. unfold fold_max_bits. lia. Qed.

(* ---- bits / bit_length ---- *)
Lemma bits_int_pos z : 1 <= bits (VInt z).
Proof. cbn. pose proof (Z.log2_nonneg (Z.abs z)). lia. Qed.
Lemma bits_nonneg v : 0 <= bits v.
Proof. destruct v; cbn; try lia. pose proof (Z.log2_nonneg (Z.abs z)). lia. Qed.

Lemma abs_lt_pow2_bits z : Z.abs z < 2 ^ bits (VInt z).
Proof.
  cbn. destruct (Z.eq_dec z 0) as [->|Hz]; [cbn; lia|].
  assert (P : 0 < Z.abs z) by lia.
  pose proof (Z.log2_spec _ P) as [_ H]. rewrite Z.add_1_r. exact H.
Qed.

Lemma bits_le z k : 1 <= k -> Z.abs z < 2 ^ k -> bits (VInt z) <= k.
Proof.
  intros Hk H. cbn. destruct (Z.eq_dec z 0) as [->|Hz]; [cbn; lia|].
  assert (P : 0 < Z.abs z) by lia.
  apply (Z.log2_lt_pow2 _ _ P) in H. lia.
Qed.

Lemma bits_le_abs x y : Z.abs x <= Z.abs y -> bits (VInt x) <= bits (VInt y).
Proof. intro H. cbn. pose proof (Z.log2_le_mono _ _ H). lia. Qed.

Lemma bit_length_nonneg z : 0 <= bit_length z.
Proof. unfold bit_length. destruct (z =? 0); [lia|]. pose proof (Z.log2_nonneg (Z.abs z)). lia. Qed.

Lemma abs_lt_pow2_bit_length z : Z.abs z < 2 ^ bit_length z.
Proof.
  unfold bit_length. destruct (z =? 0) eqn:E.
  - apply Z.eqb_eq in E. subst. cbn. lia.
  - exact (abs_lt_pow2_bits z).
Qed.

(* ---- one lemma per operator ---- *)
Lemma bits_sum x y r : Z.abs r <= Z.abs x + Z.abs y ->
  bits (VInt r) <= Z.max (bits (VInt x)) (bits (VInt y)) + 1.
Proof.
  intro H. set (K := Z.max (bits (VInt x)) (bits (VInt y))).
  pose proof (bits_int_pos x). pose proof (bits_int_pos y).
  apply bits_le; [lia|].
  pose proof (abs_lt_pow2_bits x) as Hx. pose proof (abs_lt_pow2_bits y) as Hy.
  assert (Px : 2 ^ bits (VInt x) <= 2 ^ K) by (apply Z.pow_le_mono_r; lia).
  assert (Py : 2 ^ bits (VInt y) <= 2 ^ K) by (apply Z.pow_le_mono_r; lia).
  rewrite Z.pow_add_r by lia. lia.
Qed.

Lemma bits_of_bounded r m : 1 <= m -> forall k, 0 <= k -> k <= m -> Z.abs r < 2 ^ k -> bits (VInt r) <= m.
Proof.
  intros Hm k Hk Hkm H. apply bits_le; [exact Hm|].
  assert (P : 2 ^ k <= 2 ^ m) by (apply Z.pow_le_mono_r; lia). lia.
Qed.

Lemma abs_mul_lt x y a b : 0 <= a -> 0 <= b -> Z.abs x < 2 ^ a -> Z.abs y < 2 ^ b -> Z.abs (x * y) < 2 ^ (a + b).
Proof.
  intros Ha Hb Hx Hy. rewrite Z.abs_mul, Z.pow_add_r by lia.
  pose proof (Z.abs_nonneg x). pose proof (Z.abs_nonneg y).
  apply Z.mul_lt_mono_nonneg; lia.
Qed.

Lemma abs_pow_lt x y a : 0 <= a -> 0 < y -> Z.abs x < 2 ^ a -> Z.abs (x ^ y) < 2 ^ (a * y).
Proof.
  intros Ha Hy Hx. rewrite Z.abs_pow, Z.pow_mul_r by lia.
  apply Z.pow_lt_mono_l; [lia|]. split; [apply Z.abs_nonneg|exact Hx].
Qed.

Lemma abs_div_le x y : y <> 0 -> Z.abs (x / y) <= Z.abs x.
Proof.
  intro Hy.
  assert (P : forall a b, 0 < b -> Z.abs (a / b) <= Z.abs a).
  { intros a b Hb. destruct (Z_lt_le_dec a 0) as [Ha|Ha].
    - assert (L : a <= a / b) by (apply Z.div_le_lower_bound; [lia|nia]).
      assert (U : a / b < 0) by (apply Z.div_lt_upper_bound; lia).
      lia.
    - pose proof (Z.div_pos a b Ha Hb). pose proof (Z.div_le_upper_bound a b a Hb).
      assert (a / b <= a) by (apply Z.div_le_upper_bound; [lia|nia]). lia. }
  destruct (Z_lt_le_dec 0 y) as [Hp|Hn]; [apply P; exact Hp|].
  rewrite <- (Z.div_opp_opp x y Hy). rewrite <- (Z.abs_opp x). apply P. lia.
Qed.

Lemma abs_mod_lt x y : y <> 0 -> Z.abs (x mod y) < Z.abs y.
Proof.
  intro Hy. destruct (Z_lt_le_dec 0 y) as [Hp|Hn].
  - pose proof (Z.mod_pos_bound x y Hp). lia.
  - assert (Hn' : y < 0) by lia. pose proof (Z.mod_neg_bound x y Hn'). lia.
Qed.

(* two's-complement range: -2^k <= z < 2^k  iff  z / 2^k is 0 or -1; the bit operators act on that quotient *)
Lemma range_quot z k : 0 <= k -> (- 2 ^ k <= z < 2 ^ k <-> (Z.shiftr z k = 0 \/ Z.shiftr z k = -1)).
Proof.
  intro Hk. rewrite Z.shiftr_div_pow2 by exact Hk.
  assert (P : 0 < 2 ^ k) by (apply Z.pow_pos_nonneg; lia).
  split.
  - intros [L U]. destruct (Z_lt_le_dec z 0) as [Hz|Hz].
    + right. symmetry. apply (Z.div_unique z (2 ^ k) (-1) (z + 2 ^ k)); lia.
    + left. apply Z.div_small. lia.
  - intros [E|E].
    + pose proof (Z.div_mod z (2 ^ k)) as D. pose proof (Z.mod_pos_bound z (2 ^ k) P). rewrite E in D. lia.
    + pose proof (Z.div_mod z (2 ^ k)) as D. pose proof (Z.mod_pos_bound z (2 ^ k) P). rewrite E in D. lia.
Qed.

Lemma in_range_of_bits z k : bits (VInt z) <= k -> - 2 ^ k <= z < 2 ^ k.
Proof.
  intro H. pose proof (abs_lt_pow2_bits z) as A. pose proof (bits_int_pos z).
  assert (P : 2 ^ bits (VInt z) <= 2 ^ k) by (apply Z.pow_le_mono_r; lia). lia.
Qed.

Lemma bits_of_range z k : 0 <= k -> - 2 ^ k <= z < 2 ^ k -> bits (VInt z) <= k + 1.
Proof.
  intros Hk [L U]. apply bits_le; [lia|]. rewrite Z.pow_add_r by lia.
  assert (P : 0 < 2 ^ k) by (apply Z.pow_pos_nonneg; lia). lia.
Qed.

Lemma bits_bitop (f : Z -> Z -> Z) x y :
  (forall k, Z.shiftr (f x y) k = f (Z.shiftr x k) (Z.shiftr y k)) ->
  (forall a b, (a = 0 \/ a = -1) -> (b = 0 \/ b = -1) -> (f a b = 0 \/ f a b = -1)) ->
  bits (VInt (f x y)) <= Z.max (bits (VInt x)) (bits (VInt y)) + 1.
Proof.
  intros Hs Hf. set (K := Z.max (bits (VInt x)) (bits (VInt y))).
  pose proof (bits_int_pos x). assert (HK : 0 <= K) by lia.
  apply bits_of_range; [exact HK|]. apply (range_quot _ K HK). rewrite Hs.
  apply Hf; apply (range_quot _ K HK); apply in_range_of_bits; lia.
Qed.

(* ---- an operator on two ints ---- *)
Lemma num_bin_int_bits op x y v :
  num_bin op (NI x) (NI y) = Ok v -> fold_bits op x y <= fold_max_bits ->
  bits v <= Z.max fold_max_bits (Z.max (bits (VInt x)) (bits (VInt y)) + 1).
Proof.
  intros H F. pose proof fold_max_pos as M1.
  pose proof (bits_int_pos x) as Bx. pose proof (bits_int_pos y) as By.
  pose proof (bit_length_nonneg x) as Lx. pose proof (bit_length_nonneg y) as Ly.
  pose proof (abs_lt_pow2_bit_length x) as Ax. pose proof (abs_lt_pow2_bit_length y) as Ay.
  destruct op; cbn [num_bin fold_bits] in H, F.
  - (* Add *) inversion H; subst. pose proof (bits_sum x y (x + y) (Z.abs_triangle x y)). lia.
  - (* Sub *) inversion H; subst. pose proof (bits_sum x y (x - y) ltac:(lia)). lia.
  - (* Mult *) inversion H; subst.
    pose proof (bits_of_bounded (x * y) fold_max_bits M1 (bit_length x + bit_length y)
                  ltac:(lia) F (abs_mul_lt x y _ _ Lx Ly Ax Ay)). lia.
  - (* Div *) destruct (y =? 0); [discriminate|]. inversion H; subst. cbn. lia.
  - (* FloorDiv *) destruct (y =? 0) eqn:E; [discriminate|]. inversion H; subst. apply Z.eqb_neq in E.
    pose proof (bits_le_abs _ _ (abs_div_le x y E)). lia.
  - (* Mod *) destruct (y =? 0) eqn:E; [discriminate|]. inversion H; subst. apply Z.eqb_neq in E.
    pose proof (abs_mod_lt x y E). assert (Q : Z.abs (x mod y) <= Z.abs y) by lia.
    pose proof (bits_le_abs _ _ Q). lia.
  - (* Pow *) unfold int_pow in H. destruct (0 <=? y) eqn:E.
    + inversion H; subst. apply Z.leb_le in E. destruct (0 <? y) eqn:E2.
      * apply Z.ltb_lt in E2.
        pose proof (bits_of_bounded (x ^ y) fold_max_bits M1 (bit_length x * y) ltac:(nia) F (abs_pow_lt x y _ Lx E2 Ax)). lia.
      * apply Z.ltb_ge in E2. assert (y = 0) by lia. subst. cbn. lia.
    + destruct (x =? 0); [discriminate|]. inversion H; subst. cbn. lia.
  - (* BitAnd *) inversion H; subst.
    pose proof (bits_bitop Z.land x y (fun k => Z.shiftr_land x y k)) as P.
    assert (Q : forall a b, (a = 0 \/ a = -1) -> (b = 0 \/ b = -1) -> (Z.land a b = 0 \/ Z.land a b = -1))
      by (intros a b [->| ->] [->| ->]; cbn; auto).
    specialize (P Q). lia.
  - (* BitOr *) inversion H; subst.
    pose proof (bits_bitop Z.lor x y (fun k => Z.shiftr_lor x y k)) as P.
    assert (Q : forall a b, (a = 0 \/ a = -1) -> (b = 0 \/ b = -1) -> (Z.lor a b = 0 \/ Z.lor a b = -1))
      by (intros a b [->| ->] [->| ->]; cbn; auto).
    specialize (P Q). lia.
  - (* BitXor *) inversion H; subst.
    pose proof (bits_bitop Z.lxor x y (fun k => Z.shiftr_lxor x y k)) as P.
    assert (Q : forall a b, (a = 0 \/ a = -1) -> (b = 0 \/ b = -1) -> (Z.lxor a b = 0 \/ Z.lxor a b = -1))
      by (intros a b [->| ->] [->| ->]; cbn; auto).
    specialize (P Q). lia.
  - (* LShift *) destruct (y <? 0) eqn:E; [discriminate|]. inversion H; subst. apply Z.ltb_ge in E.
    rewrite Z.shiftl_mul_pow2 by exact E. destruct (0 <? y) eqn:E2.
    + apply Z.ltb_lt in E2.
      assert (A2 : Z.abs (2 ^ y) < 2 ^ (y + 1)).
      { rewrite Z.abs_eq by (apply Z.pow_nonneg; lia). apply Z.pow_lt_mono_r; lia. }
      assert (A : Z.abs (x * 2 ^ y) < 2 ^ (bit_length x + y)).
      { rewrite Z.abs_mul, Z.pow_add_r by lia. rewrite (Z.abs_eq (2 ^ y)) by (apply Z.pow_nonneg; lia).
        apply Z.mul_lt_mono_pos_r; [apply Z.pow_pos_nonneg; lia|exact Ax]. }
      pose proof (bits_of_bounded (x * 2 ^ y) fold_max_bits M1 (bit_length x + y) ltac:(lia) F A). lia.
    + apply Z.ltb_ge in E2. assert (y = 0) by lia. subst. rewrite Z.pow_0_r, Z.mul_1_r. lia.
  - (* RShift *) destruct (y <? 0) eqn:E; [discriminate|]. inversion H; subst. apply Z.ltb_ge in E.
    rewrite Z.shiftr_div_pow2 by exact E.
    assert (N : 2 ^ y <> 0) by (pose proof (Z.pow_pos_nonneg 2 y ltac:(lia) E); lia).
    pose proof (bits_le_abs _ _ (abs_div_le x (2 ^ y) N)). lia.
  - (* MatMult *) discriminate.
Qed.

(* a float operand: the result is a float *)
Lemma num_bin_float_bits op a b v : (forall x y, (a, b) <> (NI x, NI y)) -> num_bin op a b = Ok v -> bits v = 0.
Proof.
  intros N H. destruct a as [x|p], b as [y|q]; [exfalso; apply (N x y); reflexivity| | |];
    unfold num_bin, float_pow in H;
    destruct op;
    repeat match type of H with
           | context [if ?c then _ else _] => destruct c
           | context [match q_integral ?q with _ => _ end] => destruct (q_integral q)
           end; try discriminate; inversion H; reflexivity.
Qed.

Lemma intlike_bits a x : is_intlike a = Some x -> bits a = bits (VInt x).
Proof. destruct a; cbn; intro H; inversion H; subst; try reflexivity. destruct b; reflexivity. Qed.
Lemma intlike_as_num a x : is_intlike a = Some x -> as_num a = Some (NI x).
Proof. destruct a; cbn; intro H; inversion H; reflexivity. Qed.
Lemma not_intlike_as_num a : is_numv a = true -> is_intlike a = None -> exists q, as_num a = Some (NF q).
Proof. destruct a; cbn; intros; try discriminate. eauto. Qed.
Lemma numv_as_num a : is_numv a = true -> exists n, as_num a = Some n.
Proof. destruct a; cbn; intros; try discriminate; eauto. Qed.

Lemma py_bin_as_num op a b na nb : as_num a = Some na -> as_num b = Some nb ->
  (exists c, py_bin op a b = Ok (VBool c)) \/ py_bin op a b = num_bin op na nb.
Proof.
  intros Ha Hb.
  assert (G : py_bin_num op a b = num_bin op na nb) by (unfold py_bin_num; rewrite Ha, Hb; reflexivity).
  unfold py_bin. destruct op; try (right; exact G);
    destruct a; try (right; exact G); destruct b; try (right; exact G); left; eauto.
Qed.

(* T1: one application of _apply_bin *)
Theorem fold_step_bounded : forall op a b v, apply_bin op a b = CVal v ->
  bits v <= Z.max fold_max_bits (Z.max (bits a) (bits b) + 1).
Proof.
  intros op a b v H. pose proof fold_max_pos as M1.
  pose proof (bits_nonneg a) as Ba. pose proof (bits_nonneg b) as Bb.
  assert (G : (if is_numv a && is_numv b then (if too_large op a b then CFail KValue else lift (py_bin op a b)) else CFail KValue) = CVal v
              -> bits v <= Z.max fold_max_bits (Z.max (bits a) (bits b) + 1)).
  { destruct (is_numv a) eqn:Na; [|discriminate]. destruct (is_numv b) eqn:Nb; [|discriminate]. cbn [andb].
    destruct (too_large op a b) eqn:T; [discriminate|]. intro L. apply lift_val in L.
    destruct (numv_as_num a Na) as [na Ea]. destruct (numv_as_num b Nb) as [nb Eb].
    destruct (py_bin_as_num op a b na nb Ea Eb) as [[c Ec]|En].
    - rewrite Ec in L. inversion L; subst. cbn. lia.
    - rewrite En in L. unfold too_large in T.
      destruct (is_intlike a) as [x|] eqn:Ia.
      + destruct (is_intlike b) as [y|] eqn:Ib.
        * rewrite (intlike_as_num _ _ Ia) in Ea. rewrite (intlike_as_num _ _ Ib) in Eb.
          inversion Ea; inversion Eb; subst. apply Z.ltb_ge in T.
          rewrite (intlike_bits _ _ Ia), (intlike_bits _ _ Ib). exact (num_bin_int_bits op x y v L T).
        * destruct (not_intlike_as_num b Nb Ib) as [q Eq]. rewrite Eq in Eb. inversion Eb; subst.
          rewrite (num_bin_float_bits op na (NF q) v) by (try exact L; intros; destruct na; discriminate). lia.
      + destruct (not_intlike_as_num a Na Ia) as [q Eq]. rewrite Eq in Ea. inversion Ea; subst.
        rewrite (num_bin_float_bits op (NF q) nb v) by (try exact L; intros; discriminate). lia. }
  unfold apply_bin in H.
  destruct op; try (apply G; exact H);
    destruct a; try (apply G; exact H); destruct b; try (apply G; exact H).
  inversion H; subst. cbn. lia.
Qed.

(* ------------------------------------------------------------------ *)
(* T2: whole expressions of the arithmetic fragment *)
Definition a_all := fix all (l : list pexpr) : bool := match l with [] => true | x :: r => arith_only x && all r end.
Definition l_mx (c : cenv) := fix mx (l : list pexpr) : Z := match l with [] => 0 | x :: r => Z.max (leaf_bits c x) (mx r) end.
Definition n_sizes := fix sizes (l : list pexpr) : nat := match l with [] => O | x :: r => (esize x + sizes r)%nat end.

Lemma un_step_bits op v r : un_step op v = CVal r -> bits r <= Z.max 1 (bits v).
Proof.
  destruct op; cbn [un_step]; intro H.
  - apply lift_val in H. unfold py_un in H. destruct v; cbn [as_num] in H; try discriminate; inversion H; subst; cbn.
    + lia.
    + destruct b; cbn; lia.
    + lia.
  - apply lift_val in H. unfold py_un in H. destruct v; cbn [as_num] in H; try discriminate; inversion H; subst; cbn.
    + rewrite Z.abs_opp. lia.
    + destruct b; cbn; lia.
    + lia.
  - inversion H; subst. cbn. lia.
  - discriminate.
Qed.

Lemma c_chain_bits c rs : forall left ops v, c_chain c left ops rs = CVal v -> bits v = 1.
Proof.
  induction rs as [|r rs IH]; intros left ops v H; cbn [c_chain] in H.
  - inversion H; reflexivity.
  - destruct ops as [|op ops]; [inversion H; reflexivity|].
    apply bindC_val in H as [rv [_ H]]. apply bindC_val in H as [b [_ H]].
    destruct b; [exact (IH _ _ _ H)|inversion H; reflexivity].
Qed.

Section Bound.
  Variable c : cenv.
  Definition bd_at (e : pexpr) : Prop := forall v, arith_only e = true -> eval_const c e = CVal v ->
    bits v <= Z.max fold_max_bits (leaf_bits c e) + Z.of_nat (esize e).

  Lemma bd_evand l : Forall bd_at l -> a_all l = true -> forall r0 v, c_evand c l r0 = CVal v ->
    bits v <= Z.max (bits r0) (Z.max fold_max_bits (l_mx c l) + Z.of_nat (n_sizes l)).
  Proof.
    induction 1 as [|x r Hx Hr IH]; cbn [a_all c_evand l_mx n_sizes]; intros A r0 v H.
    - inversion H; subst. lia.
    - apply andb_true_iff in A as [Ax Ar]. destruct (truthy r0).
      + apply bindC_val in H as [vx [Ex H]]. specialize (Hx vx Ax Ex). specialize (IH Ar vx v H). lia.
      + specialize (IH Ar r0 v H). lia.
  Qed.
  Lemma bd_evor l : Forall bd_at l -> a_all l = true -> forall r0 v, c_evor c l r0 = CVal v ->
    bits v <= Z.max (bits r0) (Z.max fold_max_bits (l_mx c l) + Z.of_nat (n_sizes l)).
  Proof.
    induction 1 as [|x r Hx Hr IH]; cbn [a_all c_evor l_mx n_sizes]; intros A r0 v H.
    - inversion H; subst. lia.
    - apply andb_true_iff in A as [Ax Ar]. destruct (truthy r0).
      + specialize (IH Ar r0 v H). lia.
      + apply bindC_val in H as [vx [Ex H]]. specialize (Hx vx Ax Ex). specialize (IH Ar vx v H). lia.
  Qed.

  Lemma bd_all : forall e, bd_at e.
  Proof.
    pose proof fold_max_pos as M1.
    induction e using pexpr_ind2; unfold bd_at in *; intros v A E; try discriminate.
    - (* EInt *) inversion E; subst. cbn [leaf_bits esize]. lia.
    - (* EBool *) inversion E; subst. cbn. lia.
    - (* EName *) cbn [eval_const leaf_bits] in *. destruct (tlookup x c) as [[w|]|]; try discriminate.
      destruct (is_scalar w); [|discriminate]. inversion E; subst. lia.
    - (* EBin *) rewrite ec_bin in E. destruct (in_bin op); [|discriminate].
      change (arith_only (EBin op e1 e2)) with (arith_only e1 && arith_only e2) in A.
      apply andb_true_iff in A as [A1 A2].
      apply bindC_val in E as [x [Ex E]]. apply bindC_val in E as [y [Ey E]].
      specialize (IHe1 x A1 Ex). specialize (IHe2 y A2 Ey). pose proof (fold_step_bounded _ _ _ _ E) as St.
      change (leaf_bits c (EBin op e1 e2)) with (Z.max (leaf_bits c e1) (leaf_bits c e2)).
      change (esize (EBin op e1 e2)) with (Datatypes.S (esize e1 + esize e2)%nat). lia.
    - (* EUn *) rewrite ec_un in E. destruct (in_un op); [|discriminate].
      change (arith_only (EUn op e)) with (arith_only e) in A.
      apply bindC_val in E as [x [Ex E]]. specialize (IHe x A Ex). pose proof (un_step_bits _ _ _ E) as St.
      change (leaf_bits c (EUn op e)) with (leaf_bits c e). change (esize (EUn op e)) with (Datatypes.S (esize e)). lia.
    - (* EBoolOp *) change (arith_only (EBoolOp op vs)) with (a_all vs) in A.
      change (leaf_bits c (EBoolOp op vs)) with (l_mx c vs). change (esize (EBoolOp op vs)) with (Datatypes.S (n_sizes vs)).
      destruct op; [rewrite ec_and in E; pose proof (bd_evand vs H A _ _ E) as St|rewrite ec_or in E; pose proof (bd_evor vs H A _ _ E) as St];
        cbn [bits] in St; lia.
    - (* ECompare *) rewrite ec_cmp in E. destruct ops; [discriminate|].
      apply bindC_val in E as [lv [_ E]]. rewrite (c_chain_bits _ _ _ _ _ E).
      pose proof (Zle_0_nat (esize (ECompare e (c0 :: ops) rs))). lia.
    - (* EIfExp *) rewrite ec_if in E.
      change (arith_only (EIfExp e1 e2 e3)) with (arith_only e1 && arith_only e2 && arith_only e3) in A.
      apply andb_true_iff in A as [A12 A3]. apply andb_true_iff in A12 as [A1 A2].
      apply bindC_val in E as [cv [_ E]].
      change (leaf_bits c (EIfExp e1 e2 e3)) with (Z.max (leaf_bits c e1) (Z.max (leaf_bits c e2) (leaf_bits c e3))).
      change (esize (EIfExp e1 e2 e3)) with (Datatypes.S (esize e1 + esize e2 + esize e3)%nat).
      destruct (truthy cv); [specialize (IHe2 v A2 E)|specialize (IHe3 v A3 E)]; lia.
  Qed.
End Bound.

Theorem fold_bits_bounded_arith : forall c e v, arith_only e = true -> eval_const c e = CVal v ->
  bits v <= Z.max fold_max_bits (leaf_bits c e) + Z.of_nat (esize e).
Proof. intros c e v. apply bd_all. Qed.

(* T3: the former witness family 2 ** (2 ** n) is refused as soon as its value would exceed the bound *)
Theorem tower_refused : forall n, 0 <= n -> fold_max_bits < 2 * 2 ^ n -> eval_const [] (tower n) = CFail KValue.
Proof.
  intros n Hn Hb. unfold tower. rewrite !ec_bin.
  change (in_bin Pow) with true. cbv iota.
  change (eval_const [] (EInt 2)) with (@CVal pval (VInt 2)).
  change (eval_const [] (EInt n)) with (@CVal pval (VInt n)).
  cbn [bindC].
  assert (BL : bit_length 2 = 2) by reflexivity.
  destruct (apply_bin Pow (VInt 2) (VInt n)) as [w|k|] eqn:E1.
  - cbn [bindC].
    unfold apply_bin in E1. cbn [is_numv andb] in E1.
    destruct (too_large Pow (VInt 2) (VInt n)); [discriminate|].
    apply lift_val in E1. cbn in E1. unfold int_pow in E1.
    assert (L : (0 <=? n) = true) by (apply Z.leb_le; exact Hn). rewrite L in E1. inversion E1; subst.
    unfold apply_bin. cbn [is_numv andb].
    assert (T : too_large Pow (VInt 2) (VInt (2 ^ n)) = true).
    { unfold too_large. cbn [is_intlike fold_bits]. rewrite BL.
      assert (P : 0 < 2 ^ n) by (apply Z.pow_pos_nonneg; lia).
      assert (Q : (0 <? 2 ^ n) = true) by (apply Z.ltb_lt; exact P). rewrite Q. apply Z.ltb_lt. lia. }
    rewrite T. reflexivity.
  - cbn [bindC]. unfold apply_bin in E1. cbn [is_numv andb] in E1.
    destruct (too_large Pow (VInt 2) (VInt n)); [inversion E1; reflexivity|].
    cbn in E1. unfold int_pow in E1.
    assert (L : (0 <=? n) = true) by (apply Z.leb_le; exact Hn). rewrite L in E1. discriminate.
  - unfold apply_bin in E1. cbn [is_numv andb] in E1.
    destruct (too_large Pow (VInt 2) (VInt n)); [discriminate|].
    cbn in E1. unfold int_pow in E1.
    assert (L : (0 <=? n) = true) by (apply Z.leb_le; exact Hn). rewrite L in E1. discriminate.
Qed.

(* non-vacuity: values below the bound are still folded, the boundary is where the source puts it *)
Example fold_bound_examples :
  eval_const [] (tower 3) = CVal (VInt 256) /\
  eval_const [] (tower (Z.log2 fold_max_bits)) = CFail KValue /\
  eval_const [] (EBin LShift (EInt 1) (EInt (fold_max_bits - 1))) = CVal (VInt (2 ^ (fold_max_bits - 1))) /\
  eval_const [] (EBin LShift (EInt 1) (EInt fold_max_bits)) = CFail KValue /\
  eval_const [] (EBin Mult (EInt (2 ^ fold_max_bits)) (EInt 2)) = CFail KValue /\
  eval_const [] (EBin Pow (EInt 9) (EBin Pow (EInt 9) (EInt 9))) = CFail KValue /\
  arith_only (EBin Add (EName [120]) (EBin Mult (EInt 3) (EInt 5))) = true /\
  bits (VInt 255) = 8 /\ bits (VInt (-256)) = 9.
Proof. vm_compute. repeat split; reflexivity. Qed.
