(* The number of primitive operations the evaluator performs is linear in the size of the expression:
   fewer than twice the number of AST nodes.  Together with the tower family 2 ** (2 ** n) this locates the
   unbounded cost of transpile-time evaluation: it is the size of the operands, never the number of operations. *)
From Coq Require Import ZArith QArith List Bool Lia Arith.
From RV Require Import Base.Wire Base.Text Lang.PyAst Lang.PySem Gen.SafeCasts Lang.ConstEval Proofs.ConstEvalP.
Import ListNotations.

Definition e_sizes := fix sizes (l : list pexpr) : nat :=
  match l with [] => O | x :: r => (esize x + sizes r)%nat end.
Definition e_ksizes := fix ksizes (l : list (ident * pexpr)) : nat :=
  match l with [] => O | (_, x) :: r => (esize x + ksizes r)%nat end.
Lemma es_bin op a b : esize (EBin op a b) = S (esize a + esize b). Proof. reflexivity. Qed.
Lemma es_un op a : esize (EUn op a) = S (esize a). Proof. reflexivity. Qed.
Lemma es_boolop op vs : esize (EBoolOp op vs) = S (e_sizes vs). Proof. reflexivity. Qed.
Lemma es_cmp l ops rs : esize (ECompare l ops rs) = S (esize l + e_sizes rs). Proof. reflexivity. Qed.
Lemma es_if x a b : esize (EIfExp x a b) = S (esize x + esize a + esize b). Proof. reflexivity. Qed.
Lemma es_joined ps : esize (EJoined ps) = S (e_sizes ps). Proof. reflexivity. Qed.
Lemma es_fmt ok v : esize (EFmt ok v) = S (esize v). Proof. reflexivity. Qed.
Lemma es_call f args kws : esize (ECall f args kws) = S (e_sizes args + e_ksizes kws). Proof. reflexivity. Qed.
Lemma es_list es : esize (EList es) = S (e_sizes es). Proof. reflexivity. Qed.
Lemma es_tuple es : esize (ETuple es) = S (e_sizes es). Proof. reflexivity. Qed.
Lemma esize_pos e : (1 <= esize e)%nat. Proof. destruct e; cbn; lia. Qed.

Definition len {A} (m : fx A) : nat := length (snd m).
Lemma len_bindF {A B} (m : fx A) (f : A -> fx B) n : (forall a, len (f a) <= n)%nat -> (len (bindF m f) <= len m + n)%nat.
Proof.
  unfold len. destruct m as [[a|k|] t]; cbn; intro H; try lia.
  specialize (H a). destruct (f a) as [r t']. cbn in *. rewrite app_length. lia.
Qed.
Lemma len_after {A} p (m : fx A) : len (after p m) = S (len m).
Proof. unfold len. destruct m. reflexivity. Qed.
Lemma len_pure {A} (r : cr A) : len (pure r) = O. Proof. reflexivity. Qed.
Lemma len_doing {A} p (r : cr A) : len (doing p r) = 1%nat. Proof. reflexivity. Qed.

Section Cost.
  Variable c : cenv.
  Definition cost_at (e : pexpr) : Prop := (S (len (eval_const_fx c e)) <= 2 * esize e)%nat.

  Lemma cost_evals l : Forall cost_at l -> (len (f_evals c l) <= 2 * e_sizes l)%nat.
  Proof.
    induction 1 as [|x r Hx Hr IH]; cbn [f_evals e_sizes]; [rewrite len_pure; lia|].
    unfold cost_at in Hx.
    etransitivity; [apply len_bindF with (n := (2 * e_sizes r)%nat)|lia].
    intro v. etransitivity; [apply len_bindF with (n := O)|lia]. intro. rewrite len_pure. lia.
  Qed.
  Lemma cost_evand l : Forall cost_at l -> forall r0, (len (f_evand c l r0) <= 2 * e_sizes l)%nat.
  Proof.
    induction 1 as [|x r Hx Hr IH]; cbn [f_evand e_sizes]; intro r0; [rewrite len_pure; lia|].
    unfold cost_at in Hx. rewrite len_after. destruct (truthy r0).
    - assert (L : (len (df v <- eval_const_fx c x; f_evand c r v) <= len (eval_const_fx c x) + 2 * e_sizes r)%nat)
        by (apply len_bindF; intro v; apply IH). lia.
    - specialize (IH r0). pose proof (esize_pos x). lia.
  Qed.
  Lemma cost_evor l : Forall cost_at l -> forall r0, (len (f_evor c l r0) <= 2 * e_sizes l)%nat.
  Proof.
    induction 1 as [|x r Hx Hr IH]; cbn [f_evor e_sizes]; intro r0; [rewrite len_pure; lia|].
    unfold cost_at in Hx. rewrite len_after. destruct (truthy r0).
    - specialize (IH r0). pose proof (esize_pos x). lia.
    - assert (L : (len (df v <- eval_const_fx c x; f_evor c r v) <= len (eval_const_fx c x) + 2 * e_sizes r)%nat)
        by (apply len_bindF; intro v; apply IH). lia.
  Qed.
  Lemma cost_chain rs : Forall cost_at rs -> forall left ops, (len (f_chain c left ops rs) <= 2 * e_sizes rs)%nat.
  Proof.
    induction 1 as [|x r Hx Hr IH]; cbn [f_chain e_sizes]; intros left ops; [rewrite len_pure; lia|].
    destruct ops as [|op ops]; [rewrite len_pure; lia|]. unfold cost_at in Hx.
    etransitivity; [apply len_bindF with (n := (1 + 2 * e_sizes r)%nat)|lia].
    intro rv. etransitivity; [apply len_bindF with (n := (2 * e_sizes r)%nat)|].
    - intros [|]; [apply IH|rewrite len_pure; lia].
    - unfold cmp_step_fx, len. cbn [snd]. destruct (cmp_known op); cbn; lia.
  Qed.
  Lemma cost_joined ps : Forall (fmt_inner cost_at) ps -> (len (f_joined c ps) <= 2 * e_sizes ps)%nat.
  Proof.
    induction 1 as [|p r Hp Hr IH]; cbn [f_joined e_sizes]; [rewrite len_pure; lia|].
    assert (P : (len (f_part c p) <= 2 * esize p)%nat).
    { destruct p; try (cbn; lia). cbn [f_part]. destruct ok; [|rewrite len_pure; lia].
      cbn in Hp. unfold cost_at in Hp. rewrite es_fmt.
      etransitivity; [apply len_bindF with (n := 1%nat)|lia]. intro. rewrite len_doing. lia. }
    etransitivity; [apply len_bindF with (n := (2 * e_sizes r)%nat)|lia].
    intro s. etransitivity; [apply len_bindF with (n := O)|lia]. intro. rewrite len_pure. lia.
  Qed.
  Lemma cost_mm r : Forall cost_at r -> forall w best, (len (f_mm c w best r) <= 2 * e_sizes r)%nat.
  Proof.
    induction 1 as [|x r Hx Hr IH]; cbn [f_mm e_sizes]; intros w best; [rewrite len_pure; lia|].
    unfold cost_at in Hx.
    etransitivity; [apply len_bindF with (n := (1 + 2 * e_sizes r)%nat)|lia].
    intro v. etransitivity; [apply len_bindF with (n := (2 * e_sizes r)%nat)|rewrite len_doing; lia].
    intro b. apply IH.
  Qed.

  Lemma cost_all : forall e, cost_at e.
  Proof.
    induction e using pexpr_ind2; unfold cost_at in *; try (cbn; lia).
    - rewrite fe_bin, es_bin. destruct (in_bin op); [|rewrite len_pure; lia].
      assert (L : (len (df x <- eval_const_fx c e1; df y <- eval_const_fx c e2; apply_bin_fx op x y)
                   <= len (eval_const_fx c e1) + (len (eval_const_fx c e2) + 1))%nat).
      { apply len_bindF. intro x. apply len_bindF. intro y. unfold apply_bin_fx, len. cbn [snd].
        repeat match goal with |- context [if ?b then _ else _] => destruct b end; cbn; lia. }
      lia.
    - rewrite fe_un, es_un. destruct (in_un op); [|rewrite len_pure; lia].
      assert (L : (len (df v <- eval_const_fx c e; un_step_fx op v) <= len (eval_const_fx c e) + 1)%nat).
      { apply len_bindF. intro v. unfold un_step_fx, len. cbn [snd]. destruct op; cbn; lia. }
      lia.
    - rewrite es_boolop. destruct op; [rewrite fe_and; pose proof (cost_evand vs H (VBool true))|rewrite fe_or; pose proof (cost_evor vs H (VBool false))]; lia.
    - rewrite fe_cmp, es_cmp. destruct ops; [rewrite len_pure; lia|].
      assert (L : (len (df lv <- eval_const_fx c e; f_chain c lv (c0 :: ops) rs) <= len (eval_const_fx c e) + 2 * e_sizes rs)%nat).
      { apply len_bindF. intro lv. apply cost_chain. assumption. }
      lia.
    - rewrite fe_if, es_if.
      assert (L : (len (df cv <- eval_const_fx c e1; after PTruth (if truthy cv then eval_const_fx c e2 else eval_const_fx c e3))
                   <= len (eval_const_fx c e1) + S (Nat.max (len (eval_const_fx c e2)) (len (eval_const_fx c e3))))%nat).
      { apply len_bindF. intro cv. rewrite len_after. destruct (truthy cv); lia. }
      lia.
    - rewrite fe_joined, es_joined.
      assert (L : (len (df s <- f_joined c ps; pure (CVal (VStr s))) <= len (f_joined c ps) + 0)%nat).
      { apply len_bindF. intro. rewrite len_pure. lia. }
      pose proof (cost_joined ps H0). lia.
    - rewrite fe_call, es_call. destruct kws; [|rewrite len_pure; lia]. destruct args as [|a r]; [rewrite len_pure; lia|].
      inversion H as [|? ? Pa Pr]; subst. unfold cost_at in Pa. cbn [e_sizes].
      destruct (is_nil r && tmem f safe_casts).
      { assert (L : (len (df v <- eval_const_fx c a; doing (PCast f) (cast f v)) <= len (eval_const_fx c a) + 1)%nat)
          by (apply len_bindF; intro; rewrite len_doing; lia). lia. }
      destruct (is_nil r && text_eqb f n_len).
      { assert (L : (len (df v <- eval_const_fx c a; len_step_fx v) <= len (eval_const_fx c a) + 1)%nat)
          by (apply len_bindF; intro v; unfold len_step_fx, len; cbn [snd]; destruct v; cbn; lia). lia. }
      destruct (is_nil r && text_eqb f n_abs).
      { assert (L : (len (df v <- eval_const_fx c a; abs_step_fx v) <= len (eval_const_fx c a) + 1)%nat)
          by (apply len_bindF; intro v; unfold abs_step_fx, len; cbn [snd]; destruct (is_numv v); cbn; lia). lia. }
      destruct (text_eqb f n_max).
      { rewrite len_after.
        assert (L : (len (df v <- eval_const_fx c a; f_mm c true v r) <= len (eval_const_fx c a) + 2 * e_sizes r)%nat)
          by (apply len_bindF; intro v; apply cost_mm; assumption). lia. }
      destruct (text_eqb f n_min); [|rewrite len_pure; lia].
      { rewrite len_after.
        assert (L : (len (df v <- eval_const_fx c a; f_mm c false v r) <= len (eval_const_fx c a) + 2 * e_sizes r)%nat)
          by (apply len_bindF; intro v; apply cost_mm; assumption). lia. }
    - rewrite fe_list, es_list.
      assert (L : (len (df vs <- f_evals c es; pure (CVal (VList vs))) <= len (f_evals c es) + 0)%nat)
        by (apply len_bindF; intro; rewrite len_pure; lia).
      pose proof (cost_evals es H). lia.
    - rewrite fe_tuple, es_tuple.
      assert (L : (len (df vs <- f_evals c es; pure (CVal (VTuple vs))) <= len (f_evals c es) + 0)%nat)
        by (apply len_bindF; intro; rewrite len_pure; lia).
      pose proof (cost_evals es H). lia.
  Qed.
End Cost.

Theorem ops_linear : forall c e, (length (snd (eval_const_fx c e)) < 2 * esize e)%nat.
Proof. intros c e. pose proof (cost_all c e) as H. unfold cost_at, len in H. lia. Qed.

(* the bound is not vacuous: a chain of n additions performs n operations *)
Lemma ops_linear_example :
  length (snd (eval_const_fx [] (EBin Add (EBin Add (EBin Add (EInt 1) (EInt 2)) (EInt 3)) (EInt 4)))) = 3%nat /\
  esize (EBin Add (EBin Add (EBin Add (EInt 1) (EInt 2)) (EInt 3)) (EInt 4)) = 7%nat.
Proof. split; reflexivity. Qed.

(* the sleep(...) site never lets an evaluator exception out *)
Lemma sleep_site_clean : forall c e k, resolve_sleep c e <> Raises k.
Proof.
  intros c e k. unfold resolve_sleep, catch_all. destruct (has_name e); [discriminate|].
  destruct (eval_const c e) as [v| |]; try discriminate.
  destruct (cast n_int v) as [[]| |]; discriminate.
Qed.
