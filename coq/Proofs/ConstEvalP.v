(* Proofs about Lang/ConstEval.v (the model of _eval_const and its call sites). *)
From Coq Require Import ZArith QArith List Bool Lia.
From RV Require Import Base.Wire Base.Text Lang.PyAst Lang.PySem Gen.SafeCasts Lang.ConstEval.
Import ListNotations.
Open Scope Z_scope.

(* ------------------------------------------------------------------ *)
(* an induction principle that also reaches the value inside the {..} parts of an f-string *)
Definition fmt_inner (P : pexpr -> Prop) (p : pexpr) : Prop :=
  match p with EFmt _ v => P v | _ => True end.

Section Ind2.
  Variable P : pexpr -> Prop.
  Hypothesis HInt : forall z, P (EInt z).
  Hypothesis HBool : forall b, P (EBool b).
  Hypothesis HFloat : forall q, P (EFloat q).
  Hypothesis HStr : forall s, P (EStr s).
  Hypothesis HCO : P EConstOther.
  Hypothesis HName : forall x, P (EName x).
  Hypothesis HBin : forall op a b, P a -> P b -> P (EBin op a b).
  Hypothesis HUn : forall op a, P a -> P (EUn op a).
  Hypothesis HBoolOp : forall op vs, Forall P vs -> P (EBoolOp op vs).
  Hypothesis HCompare : forall l ops rs, P l -> Forall P rs -> P (ECompare l ops rs).
  Hypothesis HIfExp : forall c a b, P c -> P a -> P b -> P (EIfExp c a b).
  Hypothesis HJoined : forall ps, Forall P ps -> Forall (fmt_inner P) ps -> P (EJoined ps).
  Hypothesis HFmt : forall ok v, P v -> P (EFmt ok v).
  Hypothesis HCall : forall f args kws, Forall P args -> P (ECall f args kws).
  Hypothesis HMethod : forall o a args kws, P (EMethod o a args kws).
  Hypothesis HList : forall es, Forall P es -> P (EList es).
  Hypothesis HTuple : forall es, Forall P es -> P (ETuple es).
  Hypothesis HSub : forall v i, P (ESubscript v i).
  Hypothesis HOther : forall t, P (EOther t).

  Lemma pexpr_ind2 : forall e, P e.
  Proof.
    assert (F : forall l, Forall (fun e => P e /\ fmt_inner P e) l -> Forall P l).
    { intros l H. eapply Forall_impl; [|exact H]. cbn. tauto. }
    assert (H : forall e, P e /\ fmt_inner P e).
    { apply (pexpr_ind' (fun e => P e /\ fmt_inner P e)).
      - intros. split; [auto|exact I].
      - intros. split; [auto|exact I].
      - intros. split; [auto|exact I].
      - intros. split; [auto|exact I].
      - split; [auto|exact I].
      - intros. split; [auto|exact I].
      - intros op a b [Ha _] [Hb _]. split; [auto|exact I].
      - intros op a [Ha _]. split; [auto|exact I].
      - intros op vs H. split; [auto|exact I].
      - intros l ops rs [Hl _] H. split; [auto|exact I].
      - intros x a b [Hx _] [Ha _] [Hb _]. split; [auto|exact I].
      - intros ps H. split; [|exact I]. apply HJoined; [auto|].
        eapply Forall_impl; [|exact H]. cbn. tauto.
      - intros ok v [Hv _]. split; [auto|]. cbn. exact Hv.
      - intros f args kws H _. split; [auto|exact I].
      - intros. split; [auto|exact I].
      - intros es H. split; [auto|exact I].
      - intros es H. split; [auto|exact I].
      - intros. split; [auto|exact I].
      - intros. split; [auto|exact I]. }
    intro e. apply H.
  Qed.
End Ind2.

(* ------------------------------------------------------------------ *)
(* the local recursive functions of eval_const / peval / in_guard, named *)
Definition c_evals (c : cenv) := fix evals (l : list pexpr) : cr (list pval) :=
  match l with
  | [] => CVal []
  | x :: r => dc v <- eval_const c x; dc vs <- evals r; CVal (v :: vs)
  end.
Definition c_evand (c : cenv) := fix evand (l : list pexpr) (result : pval) : cres :=
  match l with
  | [] => CVal result
  | x :: r => if truthy result then dc v <- eval_const c x; evand r v else evand r result
  end.
Definition c_evor (c : cenv) := fix evor (l : list pexpr) (result : pval) : cres :=
  match l with
  | [] => CVal result
  | x :: r => if truthy result then evor r result else dc v <- eval_const c x; evor r v
  end.
Definition c_chain (c : cenv) := fix chain (left : pval) (ops : list cmpop) (rs : list pexpr) {struct rs} : cres :=
  match rs, ops with
  | r :: rs', op :: ops' =>
      dc rv <- eval_const c r;
      dc b <- cmp_step op left rv;
      if b then chain rv ops' rs' else CVal (VBool false)
  | _, _ => CVal (VBool true)
  end.
Definition c_part (c : cenv) (p : pexpr) : cr text :=
  match p with
  | EStr s => CVal s
  | EFmt ok v => if ok then dc x <- eval_const c v; str_step x else CFail KValue
  | _ => CFail KValue
  end.
Definition c_joined (c : cenv) := fix joined (ps : list pexpr) : cr text :=
  match ps with
  | [] => CVal []
  | p :: r => dc s <- c_part c p; dc t <- joined r; CVal (s ++ t)
  end.
Definition c_mm (c : cenv) := fix mm (want_max : bool) (best : pval) (rest : list pexpr) {struct rest} : cres :=
  match rest with
  | [] => CVal best
  | x :: r =>
      dc v <- eval_const c x;
      dc b <- lift (py_cmp (if want_max then PyAst.Gt else PyAst.Lt) v best);
      mm want_max (if b then v else best) r
  end.

Definition p_evals (rho : env) := fix evals (l : list pexpr) : res (list pval) :=
  match l with
  | [] => Ok []
  | x :: r => do v <- peval rho x; do vs <- evals r; Ok (v :: vs)
  end.
Definition p_evand (rho : env) := fix evand (l : list pexpr) (last : pval) : res pval :=
  match l with
  | [] => Ok last
  | x :: r => do v <- peval rho x; if truthy v then evand r v else Ok v
  end.
Definition p_evor (rho : env) := fix evor (l : list pexpr) (last : pval) : res pval :=
  match l with
  | [] => Ok last
  | x :: r => do v <- peval rho x; if truthy v then Ok v else evor r v
  end.
Definition p_chain (rho : env) := fix chain (left : pval) (ops : list cmpop) (rs : list pexpr) {struct rs} : res pval :=
  match rs, ops with
  | r :: rs', op :: ops' =>
      do rv <- peval rho r;
      do c <- py_cmp op left rv;
      if c then chain rv ops' rs' else Ok (VBool false)
  | [], [] => Ok (VBool true)
  | _, _ => Err OutOfModel
  end.
Definition p_part (rho : env) (p : pexpr) : res text :=
  match p with
  | EStr s => Ok s
  | EFmt true v => do x <- peval rho v; py_str x
  | _ => Err OutOfModel
  end.
Definition p_joined (rho : env) := fix joined (ps : list pexpr) : res text :=
  match ps with
  | [] => Ok []
  | p :: r => do s <- p_part rho p; do t <- joined r; Ok (s ++ t)
  end.
Definition g_all (c : cenv) := fix all (l : list pexpr) : bool :=
  match l with [] => true | x :: r => in_guard c x && all r end.

(* unfolding equations (all by computation) *)
Lemma ec_bin c op a b : eval_const c (EBin op a b) =
  if in_bin op then dc x <- eval_const c a; dc y <- eval_const c b; apply_bin op x y else CFail KValue.
Proof. reflexivity. Qed.
Lemma ec_un c op a : eval_const c (EUn op a) = if in_un op then dc v <- eval_const c a; un_step op v else CFail KValue.
Proof. reflexivity. Qed.
Lemma ec_and c vs : eval_const c (EBoolOp And vs) = c_evand c vs (VBool true).
Proof. reflexivity. Qed.
Lemma ec_or c vs : eval_const c (EBoolOp Or vs) = c_evor c vs (VBool false).
Proof. reflexivity. Qed.
Lemma ec_cmp c l ops rs : eval_const c (ECompare l ops rs) =
  match ops with [] => CFail KValue | _ => dc lv <- eval_const c l; c_chain c lv ops rs end.
Proof. reflexivity. Qed.
Lemma ec_if c x a b : eval_const c (EIfExp x a b) =
  dc cv <- eval_const c x; if truthy cv then eval_const c a else eval_const c b.
Proof. reflexivity. Qed.
Lemma ec_joined c ps : eval_const c (EJoined ps) = dc s <- c_joined c ps; CVal (VStr s).
Proof. reflexivity. Qed.
Lemma ec_call c f args kws : eval_const c (ECall f args kws) =
  match kws, args with
  | [], a :: r =>
      if is_nil r && tmem f safe_casts then dc v <- eval_const c a; cast f v
      else if is_nil r && text_eqb f n_len then dc v <- eval_const c a; len_step v
      else if is_nil r && text_eqb f n_abs then dc v <- eval_const c a; abs_step v
      else if text_eqb f n_max then dc v <- eval_const c a; c_mm c true v r
      else if text_eqb f n_min then dc v <- eval_const c a; c_mm c false v r
      else CFail KValue
  | _, _ => CFail KValue
  end.
Proof. reflexivity. Qed.
Lemma ec_list c es : eval_const c (EList es) = dc vs <- c_evals c es; CVal (VList vs).
Proof. reflexivity. Qed.
Lemma ec_tuple c es : eval_const c (ETuple es) = dc vs <- c_evals c es; CVal (VTuple vs).
Proof. reflexivity. Qed.

Lemma pe_bin rho op a b : peval rho (EBin op a b) = do x <- peval rho a; do y <- peval rho b; py_bin op x y.
Proof. reflexivity. Qed.
Lemma pe_un rho op a : peval rho (EUn op a) = do x <- peval rho a; py_un op x.
Proof. reflexivity. Qed.
Lemma pe_and rho vs : peval rho (EBoolOp And vs) = p_evand rho vs (VBool true).
Proof. reflexivity. Qed.
Lemma pe_or rho vs : peval rho (EBoolOp Or vs) = p_evor rho vs (VBool false).
Proof. reflexivity. Qed.
Lemma pe_cmp rho l ops rs : peval rho (ECompare l ops rs) =
  match ops with [] => Err OutOfModel | _ => do lv <- peval rho l; p_chain rho lv ops rs end.
Proof. reflexivity. Qed.
Lemma pe_if rho x a b : peval rho (EIfExp x a b) = do cv <- peval rho x; if truthy cv then peval rho a else peval rho b.
Proof. reflexivity. Qed.
Lemma pe_joined rho ps : peval rho (EJoined ps) = do s <- p_joined rho ps; Ok (VStr s).
Proof. reflexivity. Qed.
Lemma pe_call rho f args : peval rho (ECall f args []) =
  match lookup f rho with Some _ => Err OutOfModel | None => do vs <- p_evals rho args; py_call f vs end.
Proof. reflexivity. Qed.
Lemma pe_list rho es : peval rho (EList es) = do vs <- p_evals rho es; Ok (VList vs).
Proof. reflexivity. Qed.
Lemma pe_tuple rho es : peval rho (ETuple es) = do vs <- p_evals rho es; Ok (VTuple vs).
Proof. reflexivity. Qed.

Lemma ig_bin c op a b : in_guard c (EBin op a b) = in_guard c a && in_guard c b.
Proof. reflexivity. Qed.
Lemma ig_un c op a : in_guard c (EUn op a) = true -> in_guard c a = true.
Proof. destruct op; cbn [in_guard]; intro H; exact H. Qed.
Lemma ig_boolop c op vs : in_guard c (EBoolOp op vs) = g_all c vs.
Proof. reflexivity. Qed.
Lemma ig_cmp c l ops rs : in_guard c (ECompare l ops rs) = Nat.eqb (length ops) (length rs) && in_guard c l && g_all c rs.
Proof. reflexivity. Qed.
Lemma ig_if c x a b : in_guard c (EIfExp x a b) = in_guard c x && in_guard c a && in_guard c b.
Proof. reflexivity. Qed.
Lemma ig_joined c ps : in_guard c (EJoined ps) = g_all c ps.
Proof. reflexivity. Qed.
Lemma ig_fmt c ok v : in_guard c (EFmt ok v) = in_guard c v.
Proof. reflexivity. Qed.
Lemma ig_call c f args kws : in_guard c (ECall f args kws) =
  negb (is_minmax f && is_nil (tl args) && negb (is_nil args)) && g_all c args.
Proof. reflexivity. Qed.
Lemma ig_list c es : in_guard c (EList es) = g_all c es.
Proof. reflexivity. Qed.
Lemma ig_tuple c es : in_guard c (ETuple es) = g_all c es.
Proof. reflexivity. Qed.

(* ------------------------------------------------------------------ *)
(* the generated dispatch tables are the ones the model implements *)
Lemma generated_bin_dispatch_ok : eval_bin_fns = expected_bin_fns.
Proof. reflexivity. Qed.
Lemma generated_cmp_dispatch_ok : eval_cmp_fns = expected_cmp_fns.
Proof. reflexivity. Qed.
Lemma generated_casts_pure : forallb (fun f => tmem f pure_casts) safe_casts = true.
Proof. reflexivity. Qed.

(* ------------------------------------------------------------------ *)
(* small facts *)
Lemma lift_val {A} (r : res A) (v : A) : lift r = CVal v -> r = Ok v.
Proof. destruct r as [a|[]]; cbn; intro H; inversion H; reflexivity. Qed.

Lemma bindC_val {A B} (r : cr A) (f : A -> cr B) (b : B) :
  bindC r f = CVal b -> exists a, r = CVal a /\ f a = CVal b.
Proof. destruct r; cbn; intro H; try discriminate. eauto. Qed.

Lemma apply_bin_sound op a b v : apply_bin op a b = CVal v -> py_bin op a b = Ok v.
Proof.
  unfold apply_bin. intro H.
  assert (G : (if is_numv a && is_numv b then (if too_large op a b then CFail KValue else lift (py_bin op a b)) else CFail KValue) = CVal v
              -> py_bin op a b = Ok v).
  { destruct (is_numv a && is_numv b); [destruct (too_large op a b); [discriminate|apply lift_val]|discriminate]. }
  destruct op; try (apply G; exact H).
  destruct a; try (apply G; exact H).
  destruct b; try (apply G; exact H).
  inversion H. reflexivity.
Qed.

Lemma cmp_step_sound op l r b : cmp_step op l r = CVal b -> py_cmp op l r = Ok b.
Proof.
  unfold cmp_step. destruct (cmp_known op); [|discriminate].
  destruct (py_cmp op l r) as [x|[]]; intro H; inversion H; reflexivity.
Qed.

Lemma cast_sound f x v : cast f x = CVal v -> py_call f [x] = Ok v.
Proof. unfold cast. destruct (py_call f [x]) as [r|[]]; intro H; inversion H; reflexivity. Qed.

Lemma len_step_sound x v : len_step x = CVal v -> py_call n_len [x] = Ok v.
Proof. destruct x; cbn [len_step]; intro H; inversion H; reflexivity. Qed.

Lemma abs_step_sound x v : abs_step x = CVal v -> py_call n_abs [x] = Ok v.
Proof. unfold abs_step. destruct (is_numv x); [apply lift_val|discriminate]. Qed.

Lemma qnormal_eq q : qnormal q = true -> Qred q = q.
Proof.
  unfold qnormal. intro H. apply andb_true_iff in H as [H1 H2].
  apply Z.eqb_eq in H1. apply Pos.eqb_eq in H2.
  destruct (Qred q) as [n d], q as [n' d']. cbn in *. congruence.
Qed.

Lemma p_evals_cons rho x r : p_evals rho (x :: r) = do v <- peval rho x; do vs <- p_evals rho r; Ok (v :: vs).
Proof. reflexivity. Qed.

Lemma g_all_Forall c l : g_all c l = true -> Forall (fun e => in_guard c e = true) l.
Proof.
  induction l as [|x r IH]; cbn; intro H; constructor; apply andb_true_iff in H; tauto.
Qed.

Lemma p_evals_length rho l : forall vs, p_evals rho l = Ok vs -> length vs = length l.
Proof.
  induction l as [|x r IH]; cbn; intros vs H.
  - inversion H. reflexivity.
  - destruct (peval rho x); cbn in H; [|discriminate].
    destruct (p_evals rho r); cbn in H; [|discriminate]. inversion H. cbn. f_equal. apply IH. reflexivity.
Qed.

(* ------------------------------------------------------------------ *)
(* C03: soundness of the evaluator against the reference semantics *)
Section Sound.
  Variable c : cenv.
  Variable rho : env.
  Hypothesis Hag : agrees c rho.
  Hypothesis Hun : unshadowed rho.

  Definition snd_at (e : pexpr) : Prop :=
    forall v, in_guard c e = true -> eval_const c e = CVal v -> peval rho e = Ok v.

  Lemma evals_sound l : Forall snd_at l -> g_all c l = true ->
    forall vs, c_evals c l = CVal vs -> p_evals rho l = Ok vs.
  Proof.
    induction 1 as [|x r Hx Hr IH]; cbn; intros Hg vs H.
    - inversion H. reflexivity.
    - apply andb_true_iff in Hg as [Hgx Hgr].
      apply bindC_val in H as (v & Ev & H). apply bindC_val in H as (ws & Er & H). inversion H; subst.
      rewrite (Hx v Hgx Ev). cbn. rewrite (IH Hgr ws Er). reflexivity.
  Qed.

  Lemma evand_sound l : Forall snd_at l -> g_all c l = true ->
    forall r0 v, c_evand c l r0 = CVal v ->
      (truthy r0 = true -> p_evand rho l r0 = Ok v) /\ (truthy r0 = false -> v = r0).
  Proof.
    induction 1 as [|x r Hx Hr IH]; cbn; intros Hg r0 v H.
    - inversion H. split; reflexivity.
    - apply andb_true_iff in Hg as [Hgx Hgr].
      destruct (truthy r0) eqn:T.
      + apply bindC_val in H as (v1 & Ev & H). split; [intros _|discriminate].
        rewrite (Hx v1 Hgx Ev). cbn. destruct (IH Hgr v1 v H) as [I1 I2].
        destruct (truthy v1); [apply I1; reflexivity|rewrite (I2 eq_refl); reflexivity].
      + split; [discriminate|intros _]. destruct (IH Hgr r0 v H) as [_ I2]. apply I2. exact T.
  Qed.

  Lemma evor_sound l : Forall snd_at l -> g_all c l = true ->
    forall r0 v, c_evor c l r0 = CVal v ->
      (truthy r0 = false -> p_evor rho l r0 = Ok v) /\ (truthy r0 = true -> v = r0).
  Proof.
    induction 1 as [|x r Hx Hr IH]; cbn; intros Hg r0 v H.
    - inversion H. split; reflexivity.
    - apply andb_true_iff in Hg as [Hgx Hgr].
      destruct (truthy r0) eqn:T.
      + split; [discriminate|intros _]. destruct (IH Hgr r0 v H) as [_ I2]. apply I2. exact T.
      + apply bindC_val in H as (v1 & Ev & H). split; [intros _|discriminate].
        rewrite (Hx v1 Hgx Ev). cbn. destruct (IH Hgr v1 v H) as [I1 I2].
        destruct (truthy v1); [rewrite (I2 eq_refl); reflexivity|apply I1; reflexivity].
  Qed.

  Lemma chain_sound rs : Forall snd_at rs -> g_all c rs = true ->
    forall ops left v, length ops = length rs -> c_chain c left ops rs = CVal v -> p_chain rho left ops rs = Ok v.
  Proof.
    induction 1 as [|x r Hx Hr IH]; intros Hg ops left v Hl H.
    - destruct ops; [|discriminate]. cbn in *. inversion H. reflexivity.
    - destruct ops as [|op ops]; [discriminate|]. cbn in Hg, Hl, H |- *.
      apply andb_true_iff in Hg as [Hgx Hgr].
      apply bindC_val in H as (rv & Ev & H). apply bindC_val in H as (b & Eb & H).
      rewrite (Hx rv Hgx Ev). cbn. rewrite (cmp_step_sound _ _ _ _ Eb). cbn.
      destruct b; [|inversion H; reflexivity]. apply IH; auto.
  Qed.

  Lemma joined_sound ps : Forall (fmt_inner snd_at) ps -> g_all c ps = true ->
    forall t, c_joined c ps = CVal t -> p_joined rho ps = Ok t.
  Proof.
    induction 1 as [|p r Hp Hr IH]; cbn; intros Hg t H.
    - inversion H. reflexivity.
    - apply andb_true_iff in Hg as [Hgp Hgr].
      apply bindC_val in H as (s & Es & H). apply bindC_val in H as (t' & Et & H). inversion H; subst.
      assert (Ep : p_part rho p = Ok s).
      { destruct p; cbn in Es; try discriminate.
        - inversion Es. reflexivity.
        - destruct ok; [|discriminate]. apply bindC_val in Es as (x & Ex & Es).
          cbn in Hp. rewrite ig_fmt in Hgp. cbn. rewrite (Hp x Hgp Ex). cbn.
          unfold str_step in Es. destruct (py_str x); inversion Es. reflexivity. }
      rewrite Ep. cbn. rewrite (IH Hgr t' Et). reflexivity.
  Qed.

  Lemma mm_sound r : Forall snd_at r -> g_all c r = true ->
    forall w best v, c_mm c w best r = CVal v ->
      exists vs, p_evals rho r = Ok vs /\ extremum w best vs = Ok v.
  Proof.
    induction 1 as [|x r Hx Hr IH]; cbn; intros Hg w best v H.
    - inversion H. exists []. split; reflexivity.
    - apply andb_true_iff in Hg as [Hgx Hgr].
      apply bindC_val in H as (v1 & Ev & H). apply bindC_val in H as (b & Eb & H).
      apply lift_val in Eb. destruct (IH Hgr _ _ _ H) as (vs & E1 & E2).
      exists (v1 :: vs). rewrite (Hx v1 Hgx Ev). cbn. rewrite E1. cbn. split; [reflexivity|].
      rewrite Eb. cbn. exact E2.
  Qed.

  Lemma minmax_two w x y vs : py_minmax w (x :: y :: vs) = extremum w x (y :: vs).
  Proof. destruct x as [| | | |[|]|[|]|]; reflexivity. Qed.

  Lemma eval_const_sound_at : forall e, snd_at e.
  Proof.
    induction e using pexpr_ind2; unfold snd_at in *; intros v Hg He.
    - inversion He. reflexivity.
    - inversion He. reflexivity.
    - inversion He. reflexivity.
    - inversion He. reflexivity.
    - discriminate.
    - (* EName *) cbn in He. destruct (tlookup x c) as [[w|]|] eqn:L; try discriminate.
      destruct (is_scalar w); [|discriminate]. inversion He; subst. cbn. rewrite (Hag _ _ L). reflexivity.
    - (* EBin *) rewrite ec_bin in He. rewrite ig_bin in Hg. apply andb_true_iff in Hg as [Hga Hgb].
      destruct (in_bin op); [|discriminate].
      apply bindC_val in He as (x & Ex & He). apply bindC_val in He as (y & Ey & He).
      rewrite pe_bin, (IHe1 x Hga Ex), (IHe2 y Hgb Ey). cbn. apply apply_bin_sound. exact He.
    - (* EUn *) rewrite ec_un in He. destruct (in_un op); [|discriminate].
      apply bindC_val in He as (x & Ex & He). pose proof (ig_un _ _ _ Hg) as Hga.
      rewrite pe_un, (IHe x Hga Ex). cbn.
      destruct op; cbn in He.
      + apply lift_val. exact He.
      + apply lift_val. exact He.
      + inversion He. reflexivity.
      + discriminate.
    - (* EBoolOp *) rewrite ig_boolop in Hg. destruct op.
      + rewrite ec_and in He. rewrite pe_and. destruct (evand_sound vs H Hg _ _ He) as [I _]. apply I. reflexivity.
      + rewrite ec_or in He. rewrite pe_or. destruct (evor_sound vs H Hg _ _ He) as [I _]. apply I. reflexivity.
    - (* ECompare *) rewrite ec_cmp in He. rewrite ig_cmp in Hg.
      apply andb_true_iff in Hg as [Hg Hgr]. apply andb_true_iff in Hg as [Hl Hgl].
      apply Nat.eqb_eq in Hl. rewrite pe_cmp.
      destruct ops as [|op ops]; [discriminate|].
      apply bindC_val in He as (lv & El & He). rewrite (IHe lv Hgl El). cbn [bind].
      apply chain_sound; auto.
    - (* EIfExp *) rewrite ec_if in He. rewrite ig_if in Hg.
      apply andb_true_iff in Hg as [Hg Hg3]. apply andb_true_iff in Hg as [Hg1 Hg2].
      apply bindC_val in He as (cv & Ec & He). rewrite pe_if, (IHe1 cv Hg1 Ec). cbn.
      destruct (truthy cv); auto.
    - (* EJoined *) rewrite ec_joined in He. rewrite ig_joined in Hg.
      apply bindC_val in He as (s & Es & He). inversion He; subst.
      rewrite pe_joined, (joined_sound ps H0 Hg s Es). reflexivity.
    - (* EFmt *) discriminate.
    - (* ECall *) rewrite ec_call in He. rewrite ig_call in Hg. apply andb_true_iff in Hg as [Hmm Hga].
      destruct kws; [|destruct args; discriminate]. destruct args as [|a r]; [discriminate|].
      inversion H as [|? ? Pa Pr]; subst. cbn in Hga. apply andb_true_iff in Hga as [Hg1 Hgr].
      rewrite pe_call.
      destruct (is_nil r && tmem f safe_casts) eqn:T1.
      { apply andb_true_iff in T1 as [Tn Tm]. destruct r; [|discriminate].
        apply tmem_In in Tm. rewrite (Hun f (or_introl Tm)).
        apply bindC_val in He as (x & Ex & He). cbn. rewrite (Pa x Hg1 Ex). cbn. apply cast_sound. exact He. }
      destruct (is_nil r && text_eqb f n_len) eqn:T2.
      { apply andb_true_iff in T2 as [Tn Tm]. destruct r; [|discriminate]. apply text_eqb_eq in Tm. subst f.
        rewrite (Hun n_len); [|right; cbn; tauto].
        apply bindC_val in He as (x & Ex & He). rewrite p_evals_cons, (Pa x Hg1 Ex). cbn [bind p_evals]. apply len_step_sound. exact He. }
      destruct (is_nil r && text_eqb f n_abs) eqn:T3.
      { apply andb_true_iff in T3 as [Tn Tm]. destruct r; [|discriminate]. apply text_eqb_eq in Tm. subst f.
        rewrite (Hun n_abs); [|right; cbn; tauto].
        apply bindC_val in He as (x & Ex & He). rewrite p_evals_cons, (Pa x Hg1 Ex). cbn [bind p_evals]. apply abs_step_sound. exact He. }
      destruct (text_eqb f n_max) eqn:T4.
      { apply text_eqb_eq in T4. subst f. rewrite (Hun n_max); [|right; cbn; tauto].
        destruct r as [|b r]; [cbn in Hmm; discriminate|].
        apply bindC_val in He as (x & Ex & He).
        destruct (mm_sound _ Pr Hgr _ _ _ He) as (vs & E1 & E2).
        rewrite p_evals_cons, (Pa x Hg1 Ex). cbn [bind]. rewrite E1. cbn [bind].
        pose proof (p_evals_length _ _ _ E1) as Hl. destruct vs as [|y vs]; [discriminate|].
        change (py_call n_max (x :: y :: vs)) with (py_minmax true (x :: y :: vs)).
        rewrite minmax_two. exact E2. }
      destruct (text_eqb f n_min) eqn:T5; [|discriminate].
      { apply text_eqb_eq in T5. subst f. rewrite (Hun n_min); [|right; cbn; tauto].
        destruct r as [|b r]; [cbn in Hmm; discriminate|].
        apply bindC_val in He as (x & Ex & He).
        destruct (mm_sound _ Pr Hgr _ _ _ He) as (vs & E1 & E2).
        rewrite p_evals_cons, (Pa x Hg1 Ex). cbn [bind]. rewrite E1. cbn [bind].
        pose proof (p_evals_length _ _ _ E1) as Hl. destruct vs as [|y vs]; [discriminate|].
        change (py_call n_min (x :: y :: vs)) with (py_minmax false (x :: y :: vs)).
        rewrite minmax_two. exact E2. }
    - (* EMethod *) discriminate.
    - (* EList *) rewrite ec_list in He. rewrite ig_list in Hg.
      apply bindC_val in He as (vs & Es & He). inversion He; subst.
      rewrite pe_list, (evals_sound es H Hg vs Es). reflexivity.
    - (* ETuple *) rewrite ec_tuple in He. rewrite ig_tuple in Hg.
      apply bindC_val in He as (vs & Es & He). inversion He; subst.
      rewrite pe_tuple, (evals_sound es H Hg vs Es). reflexivity.
    - discriminate.
    - discriminate.
  Qed.
End Sound.

Theorem eval_const_sound : forall e c rho v,
  agrees c rho -> unshadowed rho -> in_guard c e = true -> eval_const c e = CVal v -> peval rho e = Ok v.
Proof. intros e c rho v Ha Hu. apply eval_const_sound_at; assumption. Qed.

(* ------------------------------------------------------------------ *)
(* the guard clauses are forced: witnesses *)
Definition e_max_single : pexpr := ECall n_max [EList [EInt 3; EInt 1]] [].     (* max([3, 1]) *)
Lemma minmax_single_refuted :
  exists e v, eval_const [] e = CVal v /\ peval [] e = Ok (VInt 3) /\ v <> VInt 3.
Proof. exists e_max_single, (VList [VInt 3; VInt 1]). vm_compute. repeat split; congruence. Qed.

Definition e_uadd_bool : pexpr := EUn UAdd (EBool true).                        (* +True *)
(* unary plus is Python's: +True is 1 (replaces uadd_identity_refuted), +"ab" is a TypeError like Python's *)
Lemma uadd_is_python :
  (forall c a v, eval_const c a = CVal v -> eval_const c (EUn UAdd a) = lift (py_un UAdd v)) /\
  eval_const [] e_uadd_bool = CVal (VInt 1) /\ peval [] e_uadd_bool = Ok (VInt 1) /\
  eval_const [] (EUn UAdd (EStr [97;98])) = CFail KType /\ peval [] (EUn UAdd (EStr [97;98])) = Err TypeErr.
Proof.
  split; [|vm_compute; repeat split; reflexivity].
  intros c a v H. rewrite ec_un. cbn [in_un]. rewrite H. reflexivity.
Qed.

(* len = 7 at run time (a user definition named like a builtin): the fold ignores it *)
Lemma shadowed_builtin_refuted :
  exists e c rho v, agrees c rho /\ in_guard c e = true /\ eval_const c e = CVal v /\ peval rho e <> Ok v.
Proof.
  exists (ECall n_len [EStr [97;98;99]] []), [], [(n_len, VInt 7)], (VInt 3).
  split; [intros x v H; discriminate|]. vm_compute. repeat split; congruence.
Qed.

(* ------------------------------------------------------------------ *)
(* _expr_has_name / closedness of what the _resolve_*_arg call sites fold *)
Definition h_any := fix any (l : list pexpr) : bool := match l with [] => false | x :: r => has_name x || any r end.

Lemma hn_bin op a b : has_name (EBin op a b) = has_name a || has_name b. Proof. reflexivity. Qed.
Lemma hn_boolop op vs : has_name (EBoolOp op vs) = h_any vs. Proof. reflexivity. Qed.
Lemma hn_cmp l ops rs : has_name (ECompare l ops rs) = has_name l || h_any rs. Proof. reflexivity. Qed.
Lemma hn_if x a b : has_name (EIfExp x a b) = has_name x || has_name a || has_name b. Proof. reflexivity. Qed.
Lemma hn_joined ps : has_name (EJoined ps) = h_any ps. Proof. reflexivity. Qed.
Lemma hn_fmt ok v : has_name (EFmt ok v) = negb ok || has_name v. Proof. reflexivity. Qed.
Lemma hn_call f args kws : has_name (ECall f args kws) = true \/ h_any args = false.
Proof.
  cbn [has_name]. fold h_any. destruct (negb (tmem f safe_name_references)); [left; reflexivity|].
  destruct (h_any args); [left; reflexivity|right; reflexivity].
Qed.
Lemma hn_list es : has_name (EList es) = h_any es. Proof. reflexivity. Qed.
Lemma hn_tuple es : has_name (ETuple es) = h_any es. Proof. reflexivity. Qed.

Lemma bindC_ext {A B} (r : cr A) (f g : A -> cr B) : (forall a, f a = g a) -> bindC r f = bindC r g.
Proof. intro H. destruct r; cbn; auto. Qed.

Lemma binds_safe_none c x : binds_safe_name c = false -> tmem x safe_name_references = true -> tlookup x c = None.
Proof.
  unfold binds_safe_name. intros H T. apply tmem_In in T.
  destruct (tlookup x c) eqn:L; [|reflexivity].
  assert (existsb (fun x => match tlookup x c with Some _ => true | None => false end) safe_name_references = true).
  { apply existsb_exists. exists x. rewrite L. auto. }
  congruence.
Qed.

Section Closed.
  Variable c : cenv.
  Hypothesis Hc : binds_safe_name c = false.
  Definition nf_at (e : pexpr) : Prop := has_name e = false -> eval_const c e = eval_const [] e.

  Lemma nf_evals l : Forall nf_at l -> h_any l = false -> c_evals c l = c_evals [] l.
  Proof.
    induction 1 as [|x r Hx Hr IH]; cbn; intro H; [reflexivity|].
    apply orb_false_iff in H as [H1 H2]. rewrite (Hx H1). apply bindC_ext. intro v. rewrite (IH H2). reflexivity.
  Qed.
  Lemma nf_evand l : Forall nf_at l -> h_any l = false -> forall r0, c_evand c l r0 = c_evand [] l r0.
  Proof.
    induction 1 as [|x r Hx Hr IH]; cbn; intros H r0; [reflexivity|].
    apply orb_false_iff in H as [H1 H2]. rewrite (Hx H1). destruct (truthy r0); [|apply IH; exact H2].
    apply bindC_ext. intro v. apply IH. exact H2.
  Qed.
  Lemma nf_evor l : Forall nf_at l -> h_any l = false -> forall r0, c_evor c l r0 = c_evor [] l r0.
  Proof.
    induction 1 as [|x r Hx Hr IH]; cbn; intros H r0; [reflexivity|].
    apply orb_false_iff in H as [H1 H2]. rewrite (Hx H1). destruct (truthy r0); [apply IH; exact H2|].
    apply bindC_ext. intro v. apply IH. exact H2.
  Qed.
  Lemma nf_chain rs : Forall nf_at rs -> h_any rs = false -> forall left ops, c_chain c left ops rs = c_chain [] left ops rs.
  Proof.
    induction 1 as [|x r Hx Hr IH]; cbn; intros H left ops; [reflexivity|].
    apply orb_false_iff in H as [H1 H2]. destruct ops as [|op ops]; [reflexivity|].
    rewrite (Hx H1). apply bindC_ext. intro rv. apply bindC_ext. intros [|]; [apply IH; exact H2|reflexivity].
  Qed.
  Lemma nf_joined ps : Forall (fmt_inner nf_at) ps -> h_any ps = false -> c_joined c ps = c_joined [] ps.
  Proof.
    induction 1 as [|p r Hp Hr IH]; cbn; intro H; [reflexivity|].
    apply orb_false_iff in H as [H1 H2]. rewrite (IH H2).
    assert (E : c_part c p = c_part [] p).
    { destruct p; try reflexivity. cbn. rewrite hn_fmt in H1. apply orb_false_iff in H1 as [Hk Hv].
      destruct ok; [|reflexivity]. cbn in Hp. rewrite (Hp Hv). reflexivity. }
    rewrite E. reflexivity.
  Qed.
  Lemma nf_mm r : Forall nf_at r -> h_any r = false -> forall w best, c_mm c w best r = c_mm [] w best r.
  Proof.
    induction 1 as [|x r Hx Hr IH]; cbn; intros H w best; [reflexivity|].
    apply orb_false_iff in H as [H1 H2]. rewrite (Hx H1). apply bindC_ext. intro v. apply bindC_ext. intro b. apply IH. exact H2.
  Qed.

  Lemma namefree_at : forall e, nf_at e.
  Proof.
    induction e using pexpr_ind2; unfold nf_at in *; intro Hn; try reflexivity.
    - (* EName *) cbn in Hn. apply negb_false_iff in Hn. cbn. rewrite (binds_safe_none _ _ Hc Hn). reflexivity.
    - rewrite hn_bin in Hn. apply orb_false_iff in Hn as [H1 H2]. rewrite !ec_bin, (IHe1 H1), (IHe2 H2). reflexivity.
    - cbn in Hn. rewrite !ec_un, (IHe Hn). reflexivity.
    - rewrite hn_boolop in Hn. destruct op; [rewrite !ec_and; apply nf_evand|rewrite !ec_or; apply nf_evor]; assumption.
    - rewrite hn_cmp in Hn. apply orb_false_iff in Hn as [H1 H2]. rewrite !ec_cmp, (IHe H1).
      destruct ops; [reflexivity|]. apply bindC_ext. intro lv. apply nf_chain; assumption.
    - rewrite hn_if in Hn. apply orb_false_iff in Hn as [Hn H3]. apply orb_false_iff in Hn as [H1 H2].
      rewrite !ec_if, (IHe1 H1), (IHe2 H2), (IHe3 H3). reflexivity.
    - rewrite hn_joined in Hn. rewrite !ec_joined, (nf_joined ps H0 Hn). reflexivity.
    - (* ECall *) destruct (hn_call f args kws) as [Hc'|Ha]; [congruence|].
      rewrite !ec_call. destruct kws; [|reflexivity]. destruct args as [|a r]; [reflexivity|].
      inversion H as [|? ? Pa Pr]; subst. cbn in Ha. apply orb_false_iff in Ha as [H1 H2].
      rewrite (Pa H1).
      repeat match goal with |- (if ?b then _ else _) = _ => destruct b end; try reflexivity;
        apply bindC_ext; intro v; apply nf_mm; assumption.
    - rewrite hn_list in Hn. rewrite !ec_list, (nf_evals es H Hn). reflexivity.
    - rewrite hn_tuple in Hn. rewrite !ec_tuple, (nf_evals es H Hn). reflexivity.
  Qed.
End Closed.

Theorem namefree_closed : forall e c,
  has_name e = false -> binds_safe_name c = false -> eval_const c e = eval_const [] e.
Proof. intros e c Hn Hc. apply namefree_at; assumption. Qed.

(* a variable named like a builtin is not counted as a name: the fold then depends on the environment *)
Lemma safe_name_variable_refuted :
  exists e c v, has_name e = false /\ eval_const c e = CVal v /\ eval_const [] e = CFail KValue.
Proof. exists (EName n_len), [(n_len, Known (VInt 250))], (VInt 250). vm_compute. auto. Qed.

Corollary resolve_numeric_closed : forall e c,
  binds_safe_name c = false -> resolve_numeric c e = resolve_numeric [] e.
Proof.
  intros e c Hc. unfold resolve_numeric. destruct (has_name e) eqn:Hn; [reflexivity|].
  rewrite (namefree_closed e c Hn Hc). reflexivity.
Qed.

(* ------------------------------------------------------------------ *)
(* _literal_length *)
Theorem literal_length_sound : forall c rho e n v,
  agrees c rho -> literal_length c e = Some n -> peval rho e = Ok v -> py_call n_len [v] = Ok (VInt n).
Proof.
  intros c rho e n v Ha Hl Hp. destruct e; cbn in Hl; try discriminate.
  - inversion Hl; subst. cbn in Hp. inversion Hp. reflexivity.
  - destruct (tlookup x c) as [[w|]|] eqn:L; try discriminate.
    cbn in Hp. rewrite (Ha _ _ L) in Hp. inversion Hp; subst.
    destruct v; inversion Hl; reflexivity.
  - inversion Hl; subst. rewrite pe_list in Hp.
    destruct (p_evals rho elts) as [vs|] eqn:E; cbn in Hp; [|discriminate]. inversion Hp; subst.
    rewrite <- (p_evals_length _ _ _ E). reflexivity.
  - inversion Hl; subst. rewrite pe_tuple in Hp.
    destruct (p_evals rho elts) as [vs|] eqn:E; cbn in Hp; [|discriminate]. inversion Hp; subst.
    rewrite <- (p_evals_length _ _ _ E). reflexivity.
Qed.

(* ------------------------------------------------------------------ *)
(* C11: the effect-instrumented evaluator *)
Definition f_evals (c : cenv) := fix evals (l : list pexpr) : fx (list pval) :=
  match l with
  | [] => pure (CVal [])
  | x :: r => df v <- eval_const_fx c x; df vs <- evals r; pure (CVal (v :: vs))
  end.
Definition f_evand (c : cenv) := fix evand (l : list pexpr) (result : pval) : fx pval :=
  match l with
  | [] => pure (CVal result)
  | x :: r => after PTruth (if truthy result then df v <- eval_const_fx c x; evand r v else evand r result)
  end.
Definition f_evor (c : cenv) := fix evor (l : list pexpr) (result : pval) : fx pval :=
  match l with
  | [] => pure (CVal result)
  | x :: r => after PTruth (if truthy result then evor r result else df v <- eval_const_fx c x; evor r v)
  end.
Definition f_chain (c : cenv) := fix chain (left : pval) (ops : list cmpop) (rs : list pexpr) {struct rs} : fx pval :=
  match rs, ops with
  | r :: rs', op :: ops' =>
      df rv <- eval_const_fx c r;
      df b <- cmp_step_fx op left rv;
      if b then chain rv ops' rs' else pure (CVal (VBool false))
  | _, _ => pure (CVal (VBool true))
  end.
Definition f_part (c : cenv) (p : pexpr) : fx text :=
  match p with
  | EStr s => pure (CVal s)
  | EFmt ok v => if ok then df x <- eval_const_fx c v; doing PStr (str_step x) else pure (CFail KValue)
  | _ => pure (CFail KValue)
  end.
Definition f_joined (c : cenv) := fix joined (ps : list pexpr) : fx text :=
  match ps with
  | [] => pure (CVal [])
  | p :: r => df s <- f_part c p; df t <- joined r; pure (CVal (s ++ t))
  end.
Definition f_mm (c : cenv) := fix mm (want_max : bool) (best : pval) (rest : list pexpr) {struct rest} : fx pval :=
  match rest with
  | [] => pure (CVal best)
  | x :: r =>
      df v <- eval_const_fx c x;
      df b <- doing PCompare (lift (py_cmp (if want_max then PyAst.Gt else PyAst.Lt) v best));
      mm want_max (if b then v else best) r
  end.

Lemma fe_bin c op a b : eval_const_fx c (EBin op a b) =
  if in_bin op then df x <- eval_const_fx c a; df y <- eval_const_fx c b; apply_bin_fx op x y else pure (CFail KValue).
Proof. reflexivity. Qed.
Lemma fe_un c op a : eval_const_fx c (EUn op a) =
  if in_un op then df v <- eval_const_fx c a; un_step_fx op v else pure (CFail KValue).
Proof. reflexivity. Qed.
Lemma fe_and c vs : eval_const_fx c (EBoolOp And vs) = f_evand c vs (VBool true). Proof. reflexivity. Qed.
Lemma fe_or c vs : eval_const_fx c (EBoolOp Or vs) = f_evor c vs (VBool false). Proof. reflexivity. Qed.
Lemma fe_cmp c l ops rs : eval_const_fx c (ECompare l ops rs) =
  match ops with [] => pure (CFail KValue) | _ => df lv <- eval_const_fx c l; f_chain c lv ops rs end.
Proof. reflexivity. Qed.
Lemma fe_if c x a b : eval_const_fx c (EIfExp x a b) =
  df cv <- eval_const_fx c x; after PTruth (if truthy cv then eval_const_fx c a else eval_const_fx c b).
Proof. reflexivity. Qed.
Lemma fe_joined c ps : eval_const_fx c (EJoined ps) = df s <- f_joined c ps; pure (CVal (VStr s)).
Proof. reflexivity. Qed.
Lemma fe_call c f args kws : eval_const_fx c (ECall f args kws) =
  match kws, args with
  | [], a :: r =>
      if is_nil r && tmem f safe_casts then df v <- eval_const_fx c a; doing (PCast f) (cast f v)
      else if is_nil r && text_eqb f n_len then df v <- eval_const_fx c a; len_step_fx v
      else if is_nil r && text_eqb f n_abs then df v <- eval_const_fx c a; abs_step_fx v
      else if text_eqb f n_max then after PMinMax (df v <- eval_const_fx c a; f_mm c true v r)
      else if text_eqb f n_min then after PMinMax (df v <- eval_const_fx c a; f_mm c false v r)
      else pure (CFail KValue)
  | _, _ => pure (CFail KValue)
  end.
Proof. reflexivity. Qed.
Lemma fe_list c es : eval_const_fx c (EList es) = df vs <- f_evals c es; pure (CVal (VList vs)).
Proof. reflexivity. Qed.
Lemma fe_tuple c es : eval_const_fx c (ETuple es) = df vs <- f_evals c es; pure (CVal (VTuple vs)).
Proof. reflexivity. Qed.

Lemma fst_bindF {A B} (m : fx A) (f : A -> fx B) : fst (bindF m f) = bindC (fst m) (fun a => fst (f a)).
Proof. destruct m as [[a|k|] t]; cbn; [destruct (f a); reflexivity|reflexivity|reflexivity]. Qed.
Lemma fst_after {A} p (m : fx A) : fst (after p m) = fst m.
Proof. destruct m; reflexivity. Qed.
Lemma bindC_cong {A B} (r r' : cr A) (f g : A -> cr B) : r = r' -> (forall a, f a = g a) -> bindC r f = bindC r' g.
Proof. intros -> H. apply bindC_ext. exact H. Qed.

(* the instrumented evaluator computes the same result *)
Section Erase.
  Variable c : cenv.
  Definition er_at (e : pexpr) : Prop := fst (eval_const_fx c e) = eval_const c e.

  Lemma er_evals l : Forall er_at l -> fst (f_evals c l) = c_evals c l.
  Proof.
    induction 1 as [|x r Hx Hr IH]; cbn [f_evals c_evals]; [reflexivity|].
    rewrite fst_bindF. apply bindC_cong; [exact Hx|]. intro v. rewrite fst_bindF. apply bindC_cong; [exact IH|]. reflexivity.
  Qed.
  Lemma er_evand l : Forall er_at l -> forall r0, fst (f_evand c l r0) = c_evand c l r0.
  Proof.
    induction 1 as [|x r Hx Hr IH]; cbn [f_evand c_evand]; intro r0; [reflexivity|].
    rewrite fst_after. destruct (truthy r0); [|apply IH].
    rewrite fst_bindF. apply bindC_cong; [exact Hx|]. intro v. apply IH.
  Qed.
  Lemma er_evor l : Forall er_at l -> forall r0, fst (f_evor c l r0) = c_evor c l r0.
  Proof.
    induction 1 as [|x r Hx Hr IH]; cbn [f_evor c_evor]; intro r0; [reflexivity|].
    rewrite fst_after. destruct (truthy r0); [apply IH|].
    rewrite fst_bindF. apply bindC_cong; [exact Hx|]. intro v. apply IH.
  Qed.
  Lemma er_chain rs : Forall er_at rs -> forall left ops, fst (f_chain c left ops rs) = c_chain c left ops rs.
  Proof.
    induction 1 as [|x r Hx Hr IH]; cbn [f_chain c_chain]; intros left ops; [reflexivity|].
    destruct ops as [|op ops]; [reflexivity|].
    rewrite fst_bindF. apply bindC_cong; [exact Hx|]. intro rv.
    rewrite fst_bindF. apply bindC_cong; [reflexivity|]. intros [|]; [apply IH|reflexivity].
  Qed.
  Lemma er_joined ps : Forall (fmt_inner er_at) ps -> fst (f_joined c ps) = c_joined c ps.
  Proof.
    induction 1 as [|p r Hp Hr IH]; cbn [f_joined c_joined]; [reflexivity|].
    rewrite fst_bindF. apply bindC_cong.
    - destruct p; try reflexivity. cbn [f_part c_part]. destruct ok; [|reflexivity].
      rewrite fst_bindF. apply bindC_cong; [exact Hp|]. reflexivity.
    - intro s. rewrite fst_bindF. apply bindC_cong; [exact IH|]. reflexivity.
  Qed.
  Lemma er_mm r : Forall er_at r -> forall w best, fst (f_mm c w best r) = c_mm c w best r.
  Proof.
    induction 1 as [|x r Hx Hr IH]; cbn [f_mm c_mm]; intros w best; [reflexivity|].
    rewrite fst_bindF. apply bindC_cong; [exact Hx|]. intro v.
    rewrite fst_bindF. apply bindC_cong; [reflexivity|]. intro b. apply IH.
  Qed.

  Lemma erase_at : forall e, er_at e.
  Proof.
    induction e using pexpr_ind2; unfold er_at in *; try reflexivity.
    - rewrite fe_bin, ec_bin. destruct (in_bin op); [|reflexivity].
      rewrite fst_bindF. apply bindC_cong; [exact IHe1|]. intro x.
      rewrite fst_bindF. apply bindC_cong; [exact IHe2|]. reflexivity.
    - rewrite fe_un, ec_un. destruct (in_un op); [|reflexivity].
      rewrite fst_bindF. apply bindC_cong; [exact IHe|]. reflexivity.
    - destruct op; [rewrite fe_and, ec_and; apply er_evand|rewrite fe_or, ec_or; apply er_evor]; assumption.
    - rewrite fe_cmp, ec_cmp. destruct ops; [reflexivity|].
      rewrite fst_bindF. apply bindC_cong; [exact IHe|]. intro lv. apply er_chain. assumption.
    - rewrite fe_if, ec_if. rewrite fst_bindF. apply bindC_cong; [exact IHe1|]. intro cv.
      rewrite fst_after. destruct (truthy cv); assumption.
    - rewrite fe_joined, ec_joined. rewrite fst_bindF. apply bindC_cong; [apply er_joined; assumption|]. reflexivity.
    - rewrite fe_call, ec_call. destruct kws; [|reflexivity]. destruct args as [|a r]; [reflexivity|].
      inversion H as [|? ? Pa Pr]; subst.
      repeat match goal with |- fst (if ?b then _ else _) = _ => destruct b end; try reflexivity;
        rewrite ?fst_after, fst_bindF; (apply bindC_cong; [exact Pa|]); intro v; try reflexivity; apply er_mm; assumption.
    - rewrite fe_list, ec_list. rewrite fst_bindF. apply bindC_cong; [apply er_evals; assumption|]. reflexivity.
    - rewrite fe_tuple, ec_tuple. rewrite fst_bindF. apply bindC_cong; [apply er_evals; assumption|]. reflexivity.
  Qed.
End Erase.

Theorem eval_const_fx_fst : forall c e, fst (eval_const_fx c e) = eval_const c e.
Proof. intros c e. apply erase_at. Qed.

(* every primitive performed is on the whitelist of the current source *)
Lemma wl_bindF {A B} (m : fx A) (f : A -> fx B) :
  Forall allowed (snd m) -> (forall a, Forall allowed (snd (f a))) -> Forall allowed (snd (bindF m f)).
Proof.
  destruct m as [[a|k|] t]; cbn; intros Ht Hf; try exact Ht.
  specialize (Hf a). destruct (f a) as [r t']. cbn in *. apply Forall_app. split; assumption.
Qed.
Lemma wl_after {A} p (m : fx A) : allowed p -> Forall allowed (snd m) -> Forall allowed (snd (after p m)).
Proof. destruct m. cbn. intros. constructor; assumption. Qed.
Lemma wl_pure {A} (r : cr A) : Forall allowed (snd (pure r)).
Proof. constructor. Qed.
Lemma wl_doing {A} p (r : cr A) : allowed p -> Forall allowed (snd (doing p r)).
Proof. cbn. intro. constructor; [assumption|constructor]. Qed.

Section White.
  Variable c : cenv.
  Definition wl_at (e : pexpr) : Prop := Forall allowed (snd (eval_const_fx c e)).

  Lemma wl_evals l : Forall wl_at l -> Forall allowed (snd (f_evals c l)).
  Proof.
    induction 1 as [|x r Hx Hr IH]; cbn [f_evals]; [apply wl_pure|].
    apply wl_bindF; [exact Hx|]. intro v. apply wl_bindF; [exact IH|]. intro. apply wl_pure.
  Qed.
  Lemma wl_evand l : Forall wl_at l -> forall r0, Forall allowed (snd (f_evand c l r0)).
  Proof.
    induction 1 as [|x r Hx Hr IH]; cbn [f_evand]; intro r0; [apply wl_pure|].
    apply wl_after; [exact I|]. destruct (truthy r0); [|apply IH]. apply wl_bindF; [exact Hx|]. intro v. apply IH.
  Qed.
  Lemma wl_evor l : Forall wl_at l -> forall r0, Forall allowed (snd (f_evor c l r0)).
  Proof.
    induction 1 as [|x r Hx Hr IH]; cbn [f_evor]; intro r0; [apply wl_pure|].
    apply wl_after; [exact I|]. destruct (truthy r0); [apply IH|]. apply wl_bindF; [exact Hx|]. intro v. apply IH.
  Qed.
  Lemma wl_chain rs : Forall wl_at rs -> forall left ops, Forall allowed (snd (f_chain c left ops rs)).
  Proof.
    induction 1 as [|x r Hx Hr IH]; cbn [f_chain]; intros left ops; [apply wl_pure|].
    destruct ops as [|op ops]; [apply wl_pure|].
    apply wl_bindF; [exact Hx|]. intro rv. apply wl_bindF.
    - unfold cmp_step_fx. cbn [snd]. destruct (cmp_known op); [constructor; [exact I|constructor]|constructor].
    - intros [|]; [apply IH|apply wl_pure].
  Qed.
  Lemma wl_joined ps : Forall (fmt_inner wl_at) ps -> Forall allowed (snd (f_joined c ps)).
  Proof.
    induction 1 as [|p r Hp Hr IH]; cbn [f_joined]; [apply wl_pure|].
    apply wl_bindF.
    - destruct p; try apply wl_pure. cbn [f_part]. destruct ok; [|apply wl_pure].
      apply wl_bindF; [exact Hp|]. intro. apply wl_doing. exact I.
    - intro s. apply wl_bindF; [exact IH|]. intro. apply wl_pure.
  Qed.
  Lemma wl_mm r : Forall wl_at r -> forall w best, Forall allowed (snd (f_mm c w best r)).
  Proof.
    induction 1 as [|x r Hx Hr IH]; cbn [f_mm]; intros w best; [apply wl_pure|].
    apply wl_bindF; [exact Hx|]. intro v. apply wl_bindF; [apply wl_doing; exact I|]. intro b. apply IH.
  Qed.

  Lemma whitelist_at : forall e, wl_at e.
  Proof.
    induction e using pexpr_ind2; unfold wl_at in *; try apply wl_pure.
    - cbn. repeat constructor.
    - rewrite fe_bin. destruct (in_bin op) eqn:Ib; [|apply wl_pure].
      apply wl_bindF; [exact IHe1|]. intro x. apply wl_bindF; [exact IHe2|]. intro y.
      unfold apply_bin_fx. cbn [snd].
      repeat match goal with |- Forall _ (if ?b then _ else _) => destruct b end; repeat constructor. exact Ib.
    - rewrite fe_un. destruct (in_un op); [|apply wl_pure].
      apply wl_bindF; [exact IHe|]. intro v. destruct op; cbn; repeat constructor.
    - destruct op; [rewrite fe_and; apply wl_evand|rewrite fe_or; apply wl_evor]; assumption.
    - rewrite fe_cmp. destruct ops; [apply wl_pure|]. apply wl_bindF; [exact IHe|]. intro lv. apply wl_chain. assumption.
    - rewrite fe_if. apply wl_bindF; [exact IHe1|]. intro cv. apply wl_after; [exact I|]. destruct (truthy cv); assumption.
    - rewrite fe_joined. apply wl_bindF; [apply wl_joined; assumption|]. intro. apply wl_pure.
    - rewrite fe_call. destruct kws; [|apply wl_pure]. destruct args as [|a r]; [apply wl_pure|].
      inversion H as [|? ? Pa Pr]; subst.
      destruct (is_nil r && tmem f safe_casts) eqn:T1.
      { apply andb_true_iff in T1 as [_ Tm]. apply tmem_In in Tm.
        apply wl_bindF; [exact Pa|]. intro v. apply wl_doing. exact Tm. }
      destruct (is_nil r && text_eqb f n_len).
      { apply wl_bindF; [exact Pa|]. intro v. destruct v; cbn; repeat constructor. }
      destruct (is_nil r && text_eqb f n_abs).
      { apply wl_bindF; [exact Pa|]. intro v. unfold abs_step_fx. cbn [snd]. destruct (is_numv v); repeat constructor. }
      destruct (text_eqb f n_max).
      { apply wl_after; [exact I|]. apply wl_bindF; [exact Pa|]. intro v. apply wl_mm. assumption. }
      destruct (text_eqb f n_min); [|apply wl_pure].
      { apply wl_after; [exact I|]. apply wl_bindF; [exact Pa|]. intro v. apply wl_mm. assumption. }
    - rewrite fe_list. apply wl_bindF; [apply wl_evals; assumption|]. intro. apply wl_pure.
    - rewrite fe_tuple. apply wl_bindF; [apply wl_evals; assumption|]. intro. apply wl_pure.
  Qed.
End White.

Theorem whitelist : forall e c p, In p (snd (eval_const_fx c e)) -> allowed p.
Proof. intros e c p H. pose proof (whitelist_at c e) as W. unfold wl_at in W. rewrite Forall_forall in W. auto. Qed.

Theorem safe_casts_pure : forall f, In f safe_casts -> In f pure_casts.
Proof.
  intros f H. pose proof generated_casts_pure as G. rewrite forallb_forall in G.
  apply tmem_In. apply G. exact H.
Qed.

(* a rejected node kind is rejected at once: nothing below it is evaluated, no primitive is performed *)
Theorem no_eval_of_unsupported : forall e c,
  unsupported_head e = true -> eval_const_fx c e = (CFail KValue, []).
Proof.
  intros e c H. destruct e; cbn [unsupported_head] in H; try discriminate; try reflexivity.
  - rewrite fe_bin. apply negb_true_iff in H. rewrite H. reflexivity.
  - rewrite fe_un. apply negb_true_iff in H. rewrite H. reflexivity.
  - destruct ops; [|discriminate]. reflexivity.
  - rewrite fe_call. destruct kws; [|destruct args; reflexivity]. destruct args as [|a r]; [reflexivity|].
    destruct (is_nil r), (tmem f safe_casts), (text_eqb f n_len), (text_eqb f n_abs), (text_eqb f n_max), (text_eqb f n_min);
      cbn in H; try discriminate; reflexivity.
Qed.

Corollary value_has_supported_head : forall e c v, eval_const c e = CVal v -> unsupported_head e = false.
Proof.
  intros e c v H. destruct (unsupported_head e) eqn:U; [|reflexivity].
  pose proof (no_eval_of_unsupported e c U) as N. rewrite <- eval_const_fx_fst, N in H. discriminate.
Qed.

(* non-vacuity: a hostile call inside an argument is never reached *)
Example no_eval_example :
  eval_const_fx [] (ECall [111;115] [EBin Add (EInt 1) (EInt 1)] []) = (CFail KValue, []) /\
  eval_const_fx [] (EBin Add (EInt 1) (EMethod (EName [120]) [121] [EBin Add (EInt 1) (EInt 1)] [])) = (CFail KValue, []) /\
  snd (eval_const_fx [] (EBin Add (EInt 1) (EInt 1))) = [PArith Add].
Proof. vm_compute. auto. Qed.

(* ------------------------------------------------------------------ *)
(* C11: which exception kinds can leave the evaluator, and from where *)
Definition src (k : ckind) : pexpr -> bool :=
  match k with KZeroDiv => is_divlike | KType => is_type_source | KValue => fun _ => true end.

Definition m_any (t : pexpr -> bool) := fix any (l : list pexpr) : bool :=
  match l with [] => false | x :: r => mentions t x || any r end.

Lemma mn_unfold t e : mentions t e =
  t e || match e with
         | EBin _ a b => mentions t a || mentions t b
         | EUn _ a => mentions t a
         | EBoolOp _ vs => m_any t vs
         | ECompare l _ rs => mentions t l || m_any t rs
         | EIfExp c a b => mentions t c || mentions t a || mentions t b
         | EJoined ps => m_any t ps
         | EFmt _ v => mentions t v
         | ECall _ args _ => m_any t args
         | EList es | ETuple es => m_any t es
         | _ => false
         end.
Proof. destruct e; reflexivity. Qed.

Lemma bindC_fail {A B} (r : cr A) (f : A -> cr B) k :
  bindC r f = CFail k -> r = CFail k \/ exists a, r = CVal a /\ f a = CFail k.
Proof. destruct r; cbn; intro H; [right; eauto|left; inversion H; reflexivity|discriminate]. Qed.

Lemma num_bin_err op a b e : num_bin op a b = Err e ->
  match e with
  | ZeroDiv => is_divlike (EBin op EConstOther EConstOther) = true
  | TypeErr => is_type_source (EBin op EConstOther EConstOther) = true
  | _ => True end.
Proof.
  unfold num_bin, int_pow, float_pow. intro H.
  destruct op, a, b;
    repeat match type of H with
           | context [if ?c then _ else _] => destruct c
           | context [match q_integral ?q with _ => _ end] => destruct (q_integral q)
           end; try discriminate; inversion H; subst; try reflexivity; exact I.
Qed.

Lemma py_bin_numeric_err op x y e : is_numv x = true -> is_numv y = true -> py_bin op x y = Err e ->
  match e with
  | ZeroDiv => is_divlike (EBin op EConstOther EConstOther) = true
  | TypeErr => is_type_source (EBin op EConstOther EConstOther) = true
  | _ => True end.
Proof.
  intros Hx Hy H.
  assert (G : py_bin_num op x y = Err e ->
              match e with
              | ZeroDiv => is_divlike (EBin op EConstOther EConstOther) = true
              | TypeErr => is_type_source (EBin op EConstOther EConstOther) = true
              | _ => True end).
  { unfold py_bin_num. destruct x; try discriminate; destruct y; try discriminate; cbn [as_num]; apply num_bin_err. }
  destruct op; try (apply G; exact H);
    destruct x; try (apply G; exact H); destruct y; try (apply G; exact H); discriminate.
Qed.

Lemma apply_bin_kind op x y k a b : apply_bin op x y = CFail k -> src k (EBin op a b) = true.
Proof.
  intro H.
  assert (G : (if is_numv x && is_numv y then (if too_large op x y then CFail KValue else lift (py_bin op x y)) else CFail KValue) = CFail k
              -> src k (EBin op a b) = true).
  { destruct (is_numv x) eqn:Nx; [|cbn; intro E; inversion E; reflexivity].
    destruct (is_numv y) eqn:Ny; [|cbn; intro E; inversion E; reflexivity]. cbn [andb].
    destruct (too_large op x y); [intro E; inversion E; reflexivity|].
    destruct (py_bin op x y) as [v|e] eqn:E; [discriminate|].
    pose proof (py_bin_numeric_err _ _ _ _ Nx Ny E) as P.
    destruct e; cbn; intro F; inversion F; subst; cbn; try reflexivity; destruct op; cbn in P |- *; congruence. }
  unfold apply_bin in H.
  destruct op; try (apply G; exact H);
    destruct x; try (apply G; exact H); destruct y; try (apply G; exact H); discriminate.
Qed.

Lemma py_cmp_err op a b e : py_cmp op a b = Err e -> e = TypeErr \/ e = OutOfModel.
Proof.
  unfold py_cmp. intro H.
  destruct op; try (right; congruence);
    (destruct (as_num a); [destruct (as_num b); [discriminate|]|]);
    destruct a, b; inversion H; auto.
Qed.

Lemma lift_cmp_kind op a b k : lift (py_cmp op a b) = CFail k -> k = KType.
Proof.
  destruct (py_cmp op a b) as [v|e] eqn:E; [discriminate|].
  destruct (py_cmp_err _ _ _ _ E); subst; cbn; intro H; inversion H; reflexivity.
Qed.

Lemma cmp_step_kind op l r k : cmp_step op l r = CFail k -> k = KValue \/ k = KType.
Proof.
  unfold cmp_step. destruct (cmp_known op); [|intro H; inversion H; auto].
  destruct (py_cmp op l r) as [v|[]]; intro H; inversion H; auto.
Qed.

Lemma abs_step_kind v k : abs_step v = CFail k -> k = KValue.
Proof.
  unfold abs_step. destruct v; cbn; intro H; inversion H; reflexivity.
Qed.

Lemma cast_kind f v k : cast f v = CFail k -> k = KValue.
Proof. unfold cast. destruct (py_call f [v]) as [r|[]]; intro H; inversion H; reflexivity. Qed.

Lemma len_step_kind v k : len_step v = CFail k -> k = KValue.
Proof. destruct v; cbn; intro H; inversion H; reflexivity. Qed.

Section Kinds.
  Variable c : cenv.
  Definition kd_at (e : pexpr) : Prop := forall k, eval_const c e = CFail k -> mentions (src k) e = true.

  Lemma src_value e : mentions (src KValue) e = true.
  Proof. rewrite mn_unfold. reflexivity. Qed.

  Lemma kd_evals l : Forall kd_at l -> forall k, k <> KValue -> c_evals c l = CFail k -> m_any (src k) l = true.
  Proof.
    induction 1 as [|x r Hx Hr IH]; cbn [c_evals m_any]; intros k Hk H; [discriminate|].
    apply bindC_fail in H as [H|(v & _ & H)]; [rewrite (Hx k H); reflexivity|].
    apply bindC_fail in H as [H|(vs & _ & H)]; [|discriminate]. rewrite (IH k Hk H). apply orb_true_r.
  Qed.
  Lemma kd_evand l : Forall kd_at l -> forall k r0, c_evand c l r0 = CFail k -> m_any (src k) l = true.
  Proof.
    induction 1 as [|x r Hx Hr IH]; cbn [c_evand m_any]; intros k r0 H; [discriminate|].
    destruct (truthy r0); [|rewrite (IH _ _ H); apply orb_true_r].
    apply bindC_fail in H as [H|(v & _ & H)]; [rewrite (Hx k H); reflexivity|]. rewrite (IH _ _ H). apply orb_true_r.
  Qed.
  Lemma kd_evor l : Forall kd_at l -> forall k r0, c_evor c l r0 = CFail k -> m_any (src k) l = true.
  Proof.
    induction 1 as [|x r Hx Hr IH]; cbn [c_evor m_any]; intros k r0 H; [discriminate|].
    destruct (truthy r0); [rewrite (IH _ _ H); apply orb_true_r|].
    apply bindC_fail in H as [H|(v & _ & H)]; [rewrite (Hx k H); reflexivity|]. rewrite (IH _ _ H). apply orb_true_r.
  Qed.
  (* a failing comparison chain: either below a comparator, or the comparison itself (then the kind is
     ValueError or TypeError, and a Compare node is a TypeError source) *)
  Lemma kd_chain rs : Forall kd_at rs -> forall k left ops, c_chain c left ops rs = CFail k ->
    m_any (src k) rs = true \/ k = KValue \/ k = KType.
  Proof.
    induction 1 as [|x r Hx Hr IH]; cbn [c_chain m_any]; intros k left ops H; [discriminate|].
    destruct ops as [|op ops]; [discriminate|].
    apply bindC_fail in H as [H|(rv & _ & H)]; [left; rewrite (Hx k H); reflexivity|].
    apply bindC_fail in H as [H|(b & _ & H)]; [right; apply (cmp_step_kind _ _ _ _ H)|].
    destruct b; [|discriminate]. destruct (IH _ _ _ H) as [I|I]; [left; rewrite I; apply orb_true_r|right; exact I].
  Qed.
  Lemma kd_joined ps : Forall (fmt_inner kd_at) ps -> forall k, c_joined c ps = CFail k -> k = KValue \/ m_any (src k) ps = true.
  Proof.
    induction 1 as [|p r Hp Hr IH]; cbn [c_joined m_any]; intros k H; [discriminate|].
    apply bindC_fail in H as [H|(s & _ & H)].
    - destruct p; cbn in H; try (inversion H; auto).
      destruct ok; [|inversion H; auto].
      apply bindC_fail in H as [H|(x & _ & H)]; [|unfold str_step in H; destruct (py_str x); discriminate].
      right. cbn in Hp. rewrite mn_unfold, (Hp k H). rewrite orb_true_r. reflexivity.
    - apply bindC_fail in H as [H|(t & _ & H)]; [|discriminate].
      destruct (IH k H) as [I|I]; [auto|right; rewrite I; apply orb_true_r].
  Qed.
  Lemma kd_mm r : Forall kd_at r -> forall k w best, c_mm c w best r = CFail k -> m_any (src k) r = true \/ k = KType.
  Proof.
    induction 1 as [|x r Hx Hr IH]; cbn [c_mm m_any]; intros k w best H; [discriminate|].
    apply bindC_fail in H as [H|(v & _ & H)]; [left; rewrite (Hx k H); reflexivity|].
    apply bindC_fail in H as [H|(b & _ & H)]; [right; apply (lift_cmp_kind _ _ _ _ H)|].
    destruct (IH _ _ _ H) as [I|I]; [left; rewrite I; apply orb_true_r|right; exact I].
  Qed.

  Lemma un_step_kind op x k : un_step op x = CFail k -> k = KValue \/ (k = KType /\ (op = USub \/ op = UAdd)).
  Proof.
    destruct op; cbn; intro Hf; try discriminate; [| |inversion Hf; auto];
      unfold py_un in Hf; destruct (as_num x) as [[|]|]; inversion Hf; auto.
  Qed.

  Lemma kinds_at : forall e, kd_at e.
  Proof.
    assert (K : forall e, (forall k, k <> KValue -> eval_const c e = CFail k -> mentions (src k) e = true) -> kd_at e).
    { intros e Hx k Hf. destruct k; [apply src_value| |]; apply Hx; auto; discriminate. }
    induction e using pexpr_ind2; apply K; intros k Hk Hf; try discriminate; try (inversion Hf; congruence);
      rewrite mn_unfold.
    - (* EName *) cbn in Hf. destruct (tlookup x c) as [[w|]|]; [destruct (is_scalar w)| |]; inversion Hf; congruence.
    - (* EBin *) rewrite ec_bin in Hf. destruct (in_bin op); [|inversion Hf; congruence].
      apply bindC_fail in Hf as [Hf|(x & _ & Hf)]; [rewrite (IHe1 _ Hf); cbn; rewrite orb_true_r; reflexivity|].
      apply bindC_fail in Hf as [Hf|(y & _ & Hf)]; [rewrite (IHe2 _ Hf); cbn; rewrite !orb_true_r; reflexivity|].
      rewrite (apply_bin_kind _ _ _ _ e1 e2 Hf). reflexivity.
    - (* EUn *) rewrite ec_un in Hf. destruct (in_un op); [|inversion Hf; congruence].
      apply bindC_fail in Hf as [Hf|(x & _ & Hf)]; [rewrite (IHe _ Hf); apply orb_true_r|].
      destruct (un_step_kind _ _ _ Hf) as [E|[E1 [E2|E2]]]; [congruence|subst; reflexivity|subst; reflexivity].
    - (* EBoolOp *) destruct op; [rewrite ec_and in Hf; rewrite (kd_evand _ H _ _ Hf)|rewrite ec_or in Hf; rewrite (kd_evor _ H _ _ Hf)]; apply orb_true_r.
    - (* ECompare *) rewrite ec_cmp in Hf. destruct ops; [inversion Hf; congruence|].
      apply bindC_fail in Hf as [Hf|(lv & _ & Hf)]; [rewrite (IHe _ Hf); cbn; rewrite orb_true_r; reflexivity|].
      destruct (kd_chain _ H _ _ _ Hf) as [E|[E|E]]; [rewrite E; rewrite !orb_true_r; reflexivity|congruence|subst; reflexivity].
    - (* EIfExp *) rewrite ec_if in Hf.
      apply bindC_fail in Hf as [Hf|(cv & _ & Hf)]; [rewrite (IHe1 _ Hf); cbn; rewrite orb_true_r; reflexivity|].
      destruct (truthy cv); [rewrite (IHe2 _ Hf)|rewrite (IHe3 _ Hf)]; rewrite !orb_true_r; reflexivity.
    - (* EJoined *) rewrite ec_joined in Hf. apply bindC_fail in Hf as [Hf|(s & _ & Hf)]; [|discriminate].
      destruct (kd_joined _ H0 _ Hf) as [E|E]; [congruence|rewrite E; apply orb_true_r].
    - (* ECall *) rewrite ec_call in Hf. destruct kws; [|destruct args; inversion Hf; congruence].
      destruct args as [|a r]; [inversion Hf; congruence|].
      inversion H as [|? ? Pa Pr]; subst. cbn [m_any].
      destruct (is_nil r && tmem f safe_casts).
      { apply bindC_fail in Hf as [Hf|(v & _ & Hf)]; [rewrite (Pa _ Hf); rewrite !orb_true_r; reflexivity|]. apply cast_kind in Hf. congruence. }
      destruct (is_nil r && text_eqb f n_len).
      { apply bindC_fail in Hf as [Hf|(v & _ & Hf)]; [rewrite (Pa _ Hf); rewrite !orb_true_r; reflexivity|]. apply len_step_kind in Hf. congruence. }
      destruct (is_nil r && text_eqb f n_abs).
      { apply bindC_fail in Hf as [Hf|(v & _ & Hf)]; [rewrite (Pa _ Hf); rewrite !orb_true_r; reflexivity|]. apply abs_step_kind in Hf. congruence. }
      destruct (text_eqb f n_max) eqn:T4.
      { apply bindC_fail in Hf as [Hf|(v & _ & Hf)]; [rewrite (Pa _ Hf); rewrite !orb_true_r; reflexivity|].
        destruct (kd_mm _ Pr _ _ _ Hf) as [E|E]; [rewrite E; rewrite !orb_true_r; reflexivity|].
        subst k. cbn [src is_type_source]. unfold is_minmax. rewrite T4. reflexivity. }
      destruct (text_eqb f n_min) eqn:T5; [|inversion Hf; congruence].
      { apply bindC_fail in Hf as [Hf|(v & _ & Hf)]; [rewrite (Pa _ Hf); rewrite !orb_true_r; reflexivity|].
        destruct (kd_mm _ Pr _ _ _ Hf) as [E|E]; [rewrite E; rewrite !orb_true_r; reflexivity|].
        subst k. cbn [src is_type_source]. unfold is_minmax. rewrite T5. rewrite orb_true_r. reflexivity. }
    - (* EList *) rewrite ec_list in Hf. apply bindC_fail in Hf as [Hf|(vs & _ & Hf)]; [|discriminate].
      rewrite (kd_evals _ H _ Hk Hf). apply orb_true_r.
    - (* ETuple *) rewrite ec_tuple in Hf. apply bindC_fail in Hf as [Hf|(vs & _ & Hf)]; [|discriminate].
      rewrite (kd_evals _ H _ Hk Hf). apply orb_true_r.
  Qed.
End Kinds.

Theorem error_kinds : forall c e k, eval_const c e = CFail k -> mentions (src k) e = true.
Proof. intros c e k. apply kinds_at. Qed.

(* the call sites: whatever the evaluator raises is caught ("except Exception") or turned into ValueError *)
Theorem call_sites_clean : forall c e,
  (forall k, resolve_numeric c e <> Raises k) /\
  (forall k, resolve_float c e <> Raises k) /\
  (forall k, resolve_bool c e <> Raises k) /\
  (forall k, assign_binding c e <> Raises k) /\
  (forall k, glyph_bitmap c e = Raises k -> k = KValue).
Proof.
  intros c e. repeat split; intro k.
  - unfold resolve_numeric, catch_all. destruct (has_name e); [discriminate|].
    destruct (eval_const c e) as [v|k'|]; try discriminate. destruct v; discriminate.
  - unfold resolve_float, catch_all. destruct (has_name e); [discriminate|].
    destruct (eval_const c e) as [v|k'|]; try discriminate. destruct v; discriminate.
  - unfold resolve_bool, catch_all. destruct (has_name e); [discriminate|].
    destruct (eval_const c e) as [v|k'|]; try discriminate. destruct v; discriminate.
  - unfold assign_binding. destruct (eval_const c e); discriminate.
  - unfold glyph_bitmap. destruct (eval_const c e) as [v|k'|]; try discriminate; [|intro H; inversion H; reflexivity].
    destruct v; try (intro H; inversion H; reflexivity);
      (destruct (glyph_rows l) as [zs|]; [destruct (Nat.eqb (length zs) 8)|]; intro H; inversion H; reflexivity).
Qed.

Example error_kinds_nonvacuous :
  eval_const [] (EBin Div (EInt 1) (EInt 0)) = CFail KZeroDiv /\
  eval_const [] (EUn USub (EStr [97])) = CFail KType /\
  eval_const [] (EBin LShift (EInt 1) (EInt (-1))) = CFail KValue /\
  resolve_numeric [] (EBin Div (EInt 1) (EInt 0)) = Fallback /\
  glyph_bitmap [] (EBin Div (EInt 1) (EInt 0)) = Raises KValue.
Proof. vm_compute. auto 6. Qed.

