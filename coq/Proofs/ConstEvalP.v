(* Proofs about Lang/ConstEval.v (the model of _eval_const and its call sites). *)
From Coq Require Import ZArith QArith List Bool Lia.
From RV Require Import Base.Wire Base.Text Lang.PyAst Lang.PySem Gen.SafeCasts Lang.ConstEval.
Import ListNotations.
Open Scope Z_scope.

(* ------------------------------------------------------------------ *)
(* an induction principle that also reaches the value inside the {..} parts of an f-string *)
Definition fmt_inner (P : pexpr -> Prop) (p : pexpr) : Prop :=
  match p with EFmt _ v => P v | _ => True end.

Section Ind2.
  Variable P : pexpr -> Prop.
  Hypothesis HInt : forall z, P (EInt z).
  Hypothesis HBool : forall b, P (EBool b).
  Hypothesis HFloat : forall q, P (EFloat q).
  Hypothesis HStr : forall s, P (EStr s).
  Hypothesis HCO : P EConstOther.
  Hypothesis HName : forall x, P (EName x).
  Hypothesis HBin : forall op a b, P a -> P b -> P (EBin op a b).
  Hypothesis HUn : forall op a, P a -> P (EUn op a).
  Hypothesis HBoolOp : forall op vs, Forall P vs -> P (EBoolOp op vs).
  Hypothesis HCompare : forall l ops rs, P l -> Forall P rs -> P (ECompare l ops rs).
  Hypothesis HIfExp : forall c a b, P c -> P a -> P b -> P (EIfExp c a b).
  Hypothesis HJoined : forall ps, Forall P ps -> Forall (fmt_inner P) ps -> P (EJoined ps).
  Hypothesis HFmt : forall ok v, P v -> P (EFmt ok v).
  Hypothesis HCall : forall f args kws, Forall P args -> P (ECall f args kws).
  Hypothesis HMethod : forall o a args kws, P (EMethod o a args kws).
  Hypothesis HList : forall es, Forall P es -> P (EList es).
  Hypothesis HTuple : forall es, Forall P es -> P (ETuple es).
  Hypothesis HSub : forall v i, P (ESubscript v i).
  Hypothesis HOther : forall t, P (EOther t).

  Lemma pexpr_ind2 : forall e, P e.
  Proof.
    assert (F : forall l, Forall (fun e => P e /\ fmt_inner P e) l -> Forall P l).
    { intros l H. eapply Forall_impl; [|exact H]. cbn. tauto. }
    assert (H : forall e, P e /\ fmt_inner P e).
    { apply (pexpr_ind' (fun e => P e /\ fmt_inner P e)).
      - intros. split; [auto|exact I].
      - intros. split; [auto|exact I].
      - intros. split; [auto|exact I].
      - intros. split; [auto|exact I].
      - split; [auto|exact I].
      - intros. split; [auto|exact I].
      - intros op a b [Ha _] [Hb _]. split; [auto|exact I].
      - intros op a [Ha _]. split; [auto|exact I].
      - intros op vs H. split; [auto|exact I].
      - intros l ops rs [Hl _] H. split; [auto|exact I].
      - intros x a b [Hx _] [Ha _] [Hb _]. split; [auto|exact I].
      - intros ps H. split; [|exact I]. apply HJoined; [auto|].
        eapply Forall_impl; [|exact H]. cbn. tauto.
      - intros ok v [Hv _]. split; [auto|]. cbn. exact Hv.
      - intros f args kws H _. split; [auto|exact I].
      - intros. split; [auto|exact I].
      - intros es H. split; [auto|exact I].
      - intros es H. split; [auto|exact I].
      - intros. split; [auto|exact I].
      - intros. split; [auto|exact I]. }
    intro e. apply H.
  Qed.
End Ind2.

(* ------------------------------------------------------------------ *)
(* the local recursive functions of eval_const / peval / in_guard, named *)
Definition c_evals (c : cenv) := fix evals (l : list pexpr) : cr (list pval) :=
  match l with
  | [] => CVal []
  | x :: r => dc v <- eval_const c x; dc vs <- evals r; CVal (v :: vs)
  end.
Definition c_evand (c : cenv) := fix evand (l : list pexpr) (result : pval) : cres :=
  match l with
  | [] => CVal result
  | x :: r => if truthy result then dc v <- eval_const c x; evand r v else evand r result
  end.
Definition c_evor (c : cenv) := fix evor (l : list pexpr) (result : pval) : cres :=
  match l with
  | [] => CVal result
  | x :: r => if truthy result then evor r result else dc v <- eval_const c x; evor r v
  end.
Definition c_chain (c : cenv) := fix chain (left : pval) (ops : list cmpop) (rs : list pexpr) {struct rs} : cres :=
  match rs, ops with
  | r :: rs', op :: ops' =>
      dc rv <- eval_const c r;
      dc b <- cmp_step op left rv;
      if b then chain rv ops' rs' else CVal (VBool false)
  | _, _ => CVal (VBool true)
  end.
Definition c_part (c : cenv) (p : pexpr) : cr text :=
  match p with
  | EStr s => CVal s
  | EFmt ok v => if ok then dc x <- eval_const c v; str_step x else CFail KValue
  | _ => CFail KValue
  end.
Definition c_joined (c : cenv) := fix joined (ps : list pexpr) : cr text :=
  match ps with
  | [] => CVal []
  | p :: r => dc s <- c_part c p; dc t <- joined r; CVal (s ++ t)
  end.
Definition c_mm (c : cenv) := fix mm (want_max : bool) (best : pval) (rest : list pexpr) {struct rest} : cres :=
  match rest with
  | [] => CVal best
  | x :: r =>
      dc v <- eval_const c x;
      dc b <- lift (py_cmp (if want_max then PyAst.Gt else PyAst.Lt) v best);
      mm want_max (if b then v else best) r
  end.

Definition p_evals (rho : env) := fix evals (l : list pexpr) : res (list pval) :=
  match l with
  | [] => Ok []
  | x :: r => do v <- peval rho x; do vs <- evals r; Ok (v :: vs)
  end.
Definition p_evand (rho : env) := fix evand (l : list pexpr) (last : pval) : res pval :=
  match l with
  | [] => Ok last
  | x :: r => do v <- peval rho x; if truthy v then evand r v else Ok v
  end.
Definition p_evor (rho : env) := fix evor (l : list pexpr) (last : pval) : res pval :=
  match l with
  | [] => Ok last
  | x :: r => do v <- peval rho x; if truthy v then Ok v else evor r v
  end.
Definition p_chain (rho : env) := fix chain (left : pval) (ops : list cmpop) (rs : list pexpr) {struct rs} : res pval :=
  match rs, ops with
  | r :: rs', op :: ops' =>
      do rv <- peval rho r;
      do c <- py_cmp op left rv;
      if c then chain rv ops' rs' else Ok (VBool false)
  | [], [] => Ok (VBool true)
  | _, _ => Err OutOfModel
  end.
Definition p_part (rho : env) (p : pexpr) : res text :=
  match p with
  | EStr s => Ok s
  | EFmt true v => do x <- peval rho v; py_str x
  | _ => Err OutOfModel
  end.
Definition p_joined (rho : env) := fix joined (ps : list pexpr) : res text :=
  match ps with
  | [] => Ok []
  | p :: r => do s <- p_part rho p; do t <- joined r; Ok (s ++ t)
  end.
Definition g_all (c : cenv) := fix all (l : list pexpr) : bool :=
  match l with [] => true | x :: r => in_guard c x && all r end.

(* unfolding equations (all by computation) *)
Lemma ec_bin c op a b : eval_const c (EBin op a b) =
  if in_bin op then dc x <- eval_const c a; dc y <- eval_const c b; apply_bin op x y else CFail KValue.
Proof. reflexivity. Qed.
Lemma ec_un c op a : eval_const c (EUn op a) = if in_un op then dc v <- eval_const c a; un_step op v else CFail KValue.
Proof. reflexivity. Qed.
Lemma ec_and c vs : eval_const c (EBoolOp And vs) = c_evand c vs (VBool true).
Proof. reflexivity. Qed.
Lemma ec_or c vs : eval_const c (EBoolOp Or vs) = c_evor c vs (VBool false).
Proof. reflexivity. Qed.
Lemma ec_cmp c l ops rs : eval_const c (ECompare l ops rs) =
  match ops with [] => CFail KValue | _ => dc lv <- eval_const c l; c_chain c lv ops rs end.
Proof. reflexivity. Qed.
Lemma ec_if c x a b : eval_const c (EIfExp x a b) =
  dc cv <- eval_const c x; if truthy cv then eval_const c a else eval_const c b.
Proof. reflexivity. Qed.
Lemma ec_joined c ps : eval_const c (EJoined ps) = dc s <- c_joined c ps; CVal (VStr s).
Proof. reflexivity. Qed.
Lemma ec_call c f args kws : eval_const c (ECall f args kws) =
  match kws, args with
  | [], a :: r =>
      if is_nil r && tmem f safe_casts then dc v <- eval_const c a; cast f v
      else if is_nil r && text_eqb f n_len then dc v <- eval_const c a; len_step v
      else if is_nil r && text_eqb f n_abs then dc v <- eval_const c a; abs_step v
      else if text_eqb f n_max then dc v <- eval_const c a; c_mm c true v r
      else if text_eqb f n_min then dc v <- eval_const c a; c_mm c false v r
      else CFail KValue
  | _, _ => CFail KValue
  end.
Proof. reflexivity. Qed.
Lemma ec_list c es : eval_const c (EList es) = dc vs <- c_evals c es; CVal (VList vs).
Proof. reflexivity. Qed.
Lemma ec_tuple c es : eval_const c (ETuple es) = dc vs <- c_evals c es; CVal (VTuple vs).
Proof. reflexivity. Qed.

Lemma pe_bin rho op a b : peval rho (EBin op a b) = do x <- peval rho a; do y <- peval rho b; py_bin op x y.
Proof. reflexivity. Qed.
Lemma pe_un rho op a : peval rho (EUn op a) = do x <- peval rho a; py_un op x.
Proof. reflexivity. Qed.
Lemma pe_and rho vs : peval rho (EBoolOp And vs) = p_evand rho vs (VBool true).
Proof. reflexivity. Qed.
Lemma pe_or rho vs : peval rho (EBoolOp Or vs) = p_evor rho vs (VBool false).
Proof. reflexivity. Qed.
Lemma pe_cmp rho l ops rs : peval rho (ECompare l ops rs) =
  match ops with [] => Err OutOfModel | _ => do lv <- peval rho l; p_chain rho lv ops rs end.
Proof. reflexivity. Qed.
Lemma pe_if rho x a b : peval rho (EIfExp x a b) = do cv <- peval rho x; if truthy cv then peval rho a else peval rho b.
Proof. reflexivity. Qed.
Lemma pe_joined rho ps : peval rho (EJoined ps) = do s <- p_joined rho ps; Ok (VStr s).
Proof. reflexivity. Qed.
Lemma pe_call rho f args : peval rho (ECall f args []) =
  match lookup f rho with Some _ => Err OutOfModel | None => do vs <- p_evals rho args; py_call f vs end.
Proof. reflexivity. Qed.
Lemma pe_list rho es : peval rho (EList es) = do vs <- p_evals rho es; Ok (VList vs).
Proof. reflexivity. Qed.
Lemma pe_tuple rho es : peval rho (ETuple es) = do vs <- p_evals rho es; Ok (VTuple vs).
Proof. reflexivity. Qed.

Lemma ig_bin c op a b : in_guard c (EBin op a b) = in_guard c a && in_guard c b.
Proof. reflexivity. Qed.
Lemma ig_uadd c a : in_guard c (EUn UAdd a) =
  in_guard c a && match eval_const c a with
                  | CVal (VInt _) => true | CVal (VFloat q) => qnormal q | CVal _ => false | _ => true end.
Proof. reflexivity. Qed.
Lemma ig_un c op a : in_guard c (EUn op a) = true -> in_guard c a = true.
Proof. destruct op; cbn [in_guard]; intro H; try exact H. apply andb_true_iff in H. tauto. Qed.
Lemma ig_boolop c op vs : in_guard c (EBoolOp op vs) = g_all c vs.
Proof. reflexivity. Qed.
Lemma ig_cmp c l ops rs : in_guard c (ECompare l ops rs) = Nat.eqb (length ops) (length rs) && in_guard c l && g_all c rs.
Proof. reflexivity. Qed.
Lemma ig_if c x a b : in_guard c (EIfExp x a b) = in_guard c x && in_guard c a && in_guard c b.
Proof. reflexivity. Qed.
Lemma ig_joined c ps : in_guard c (EJoined ps) = g_all c ps.
Proof. reflexivity. Qed.
Lemma ig_fmt c ok v : in_guard c (EFmt ok v) = in_guard c v.
Proof. reflexivity. Qed.
Lemma ig_call c f args kws : in_guard c (ECall f args kws) =
  negb (is_minmax f && is_nil (tl args) && negb (is_nil args)) && g_all c args.
Proof. reflexivity. Qed.
Lemma ig_list c es : in_guard c (EList es) = g_all c es.
Proof. reflexivity. Qed.
Lemma ig_tuple c es : in_guard c (ETuple es) = g_all c es.
Proof. reflexivity. Qed.

(* ------------------------------------------------------------------ *)
(* the generated dispatch tables are the ones the model implements *)
Lemma generated_bin_dispatch_ok : eval_bin_fns = expected_bin_fns.
Proof. reflexivity. Qed.
Lemma generated_cmp_dispatch_ok : eval_cmp_fns = expected_cmp_fns.
Proof. reflexivity. Qed.
Lemma generated_casts_pure : forallb (fun f => tmem f pure_casts) safe_casts = true.
Proof. reflexivity. Qed.

(* ------------------------------------------------------------------ *)
(* small facts *)
Lemma lift_val {A} (r : res A) (v : A) : lift r = CVal v -> r = Ok v.
Proof. destruct r as [a|[]]; cbn; intro H; inversion H; reflexivity. Qed.

Lemma bindC_val {A B} (r : cr A) (f : A -> cr B) (b : B) :
  bindC r f = CVal b -> exists a, r = CVal a /\ f a = CVal b.
Proof. destruct r; cbn; intro H; try discriminate. eauto. Qed.

Lemma apply_bin_sound op a b v : apply_bin op a b = CVal v -> py_bin op a b = Ok v.
Proof.
  unfold apply_bin. intro H.
  assert (G : (if is_numv a && is_numv b then lift (py_bin op a b) else CFail KValue) = CVal v -> py_bin op a b = Ok v).
  { destruct (is_numv a && is_numv b); [apply lift_val|discriminate]. }
  destruct op; try (apply G; exact H).
  destruct a; try (apply G; exact H).
  destruct b; try (apply G; exact H).
  inversion H. reflexivity.
Qed.

Lemma cmp_step_sound op l r b : cmp_step op l r = CVal b -> py_cmp op l r = Ok b.
Proof.
  unfold cmp_step. destruct (cmp_known op); [|discriminate].
  destruct (py_cmp op l r) as [x|[]]; intro H; inversion H; reflexivity.
Qed.

Lemma cast_sound f x v : cast f x = CVal v -> py_call f [x] = Ok v.
Proof. unfold cast. destruct (py_call f [x]) as [r|[]]; intro H; inversion H; reflexivity. Qed.

Lemma len_step_sound x v : len_step x = CVal v -> py_call n_len [x] = Ok v.
Proof. destruct x; cbn [len_step]; intro H; inversion H; reflexivity. Qed.

Lemma abs_step_sound x v : abs_step x = CVal v -> py_call n_abs [x] = Ok v.
Proof. unfold abs_step. destruct (is_numv x); [apply lift_val|discriminate]. Qed.

Lemma qnormal_eq q : qnormal q = true -> Qred q = q.
Proof.
  unfold qnormal. intro H. apply andb_true_iff in H as [H1 H2].
  apply Z.eqb_eq in H1. apply Pos.eqb_eq in H2.
  destruct (Qred q) as [n d], q as [n' d']. cbn in *. congruence.
Qed.

Lemma p_evals_cons rho x r : p_evals rho (x :: r) = do v <- peval rho x; do vs <- p_evals rho r; Ok (v :: vs).
Proof. reflexivity. Qed.

Lemma g_all_Forall c l : g_all c l = true -> Forall (fun e => in_guard c e = true) l.
Proof.
  induction l as [|x r IH]; cbn; intro H; constructor; apply andb_true_iff in H; tauto.
Qed.

Lemma p_evals_length rho l : forall vs, p_evals rho l = Ok vs -> length vs = length l.
Proof.
  induction l as [|x r IH]; cbn; intros vs H.
  - inversion H. reflexivity.
  - destruct (peval rho x); cbn in H; [|discriminate].
    destruct (p_evals rho r); cbn in H; [|discriminate]. inversion H. cbn. f_equal. apply IH. reflexivity.
Qed.

(* ------------------------------------------------------------------ *)
(* C03: soundness of the evaluator against the reference semantics *)
Section Sound.
  Variable c : cenv.
  Variable rho : env.
  Hypothesis Hag : agrees c rho.
  Hypothesis Hun : unshadowed rho.

  Definition snd_at (e : pexpr) : Prop :=
    forall v, in_guard c e = true -> eval_const c e = CVal v -> peval rho e = Ok v.

  Lemma evals_sound l : Forall snd_at l -> g_all c l = true ->
    forall vs, c_evals c l = CVal vs -> p_evals rho l = Ok vs.
  Proof.
    induction 1 as [|x r Hx Hr IH]; cbn; intros Hg vs H.
    - inversion H. reflexivity.
    - apply andb_true_iff in Hg as [Hgx Hgr].
      apply bindC_val in H as (v & Ev & H). apply bindC_val in H as (ws & Er & H). inversion H; subst.
      rewrite (Hx v Hgx Ev). cbn. rewrite (IH Hgr ws Er). reflexivity.
  Qed.

  Lemma evand_sound l : Forall snd_at l -> g_all c l = true ->
    forall r0 v, c_evand c l r0 = CVal v ->
      (truthy r0 = true -> p_evand rho l r0 = Ok v) /\ (truthy r0 = false -> v = r0).
  Proof.
    induction 1 as [|x r Hx Hr IH]; cbn; intros Hg r0 v H.
    - inversion H. split; reflexivity.
    - apply andb_true_iff in Hg as [Hgx Hgr].
      destruct (truthy r0) eqn:T.
      + apply bindC_val in H as (v1 & Ev & H). split; [intros _|discriminate].
        rewrite (Hx v1 Hgx Ev). cbn. destruct (IH Hgr v1 v H) as [I1 I2].
        destruct (truthy v1); [apply I1; reflexivity|rewrite (I2 eq_refl); reflexivity].
      + split; [discriminate|intros _]. destruct (IH Hgr r0 v H) as [_ I2]. apply I2. exact T.
  Qed.

  Lemma evor_sound l : Forall snd_at l -> g_all c l = true ->
    forall r0 v, c_evor c l r0 = CVal v ->
      (truthy r0 = false -> p_evor rho l r0 = Ok v) /\ (truthy r0 = true -> v = r0).
  Proof.
    induction 1 as [|x r Hx Hr IH]; cbn; intros Hg r0 v H.
    - inversion H. split; reflexivity.
    - apply andb_true_iff in Hg as [Hgx Hgr].
      destruct (truthy r0) eqn:T.
      + split; [discriminate|intros _]. destruct (IH Hgr r0 v H) as [_ I2]. apply I2. exact T.
      + apply bindC_val in H as (v1 & Ev & H). split; [intros _|discriminate].
        rewrite (Hx v1 Hgx Ev). cbn. destruct (IH Hgr v1 v H) as [I1 I2].
        destruct (truthy v1); [rewrite (I2 eq_refl); reflexivity|apply I1; reflexivity].
  Qed.

  Lemma chain_sound rs : Forall snd_at rs -> g_all c rs = true ->
    forall ops left v, length ops = length rs -> c_chain c left ops rs = CVal v -> p_chain rho left ops rs = Ok v.
  Proof.
    induction 1 as [|x r Hx Hr IH]; intros Hg ops left v Hl H.
    - destruct ops; [|discriminate]. cbn in *. inversion H. reflexivity.
    - destruct ops as [|op ops]; [discriminate|]. cbn in Hg, Hl, H |- *.
      apply andb_true_iff in Hg as [Hgx Hgr].
      apply bindC_val in H as (rv & Ev & H). apply bindC_val in H as (b & Eb & H).
      rewrite (Hx rv Hgx Ev). cbn. rewrite (cmp_step_sound _ _ _ _ Eb). cbn.
      destruct b; [|inversion H; reflexivity]. apply IH; auto.
  Qed.

  Lemma joined_sound ps : Forall (fmt_inner snd_at) ps -> g_all c ps = true ->
    forall t, c_joined c ps = CVal t -> p_joined rho ps = Ok t.
  Proof.
    induction 1 as [|p r Hp Hr IH]; cbn; intros Hg t H.
    - inversion H. reflexivity.
    - apply andb_true_iff in Hg as [Hgp Hgr].
      apply bindC_val in H as (s & Es & H). apply bindC_val in H as (t' & Et & H). inversion H; subst.
      assert (Ep : p_part rho p = Ok s).
      { destruct p; cbn in Es; try discriminate.
        - inversion Es. reflexivity.
        - destruct ok; [|discriminate]. apply bindC_val in Es as (x & Ex & Es).
          cbn in Hp. rewrite ig_fmt in Hgp. cbn. rewrite (Hp x Hgp Ex). cbn.
          unfold str_step in Es. destruct (py_str x); inversion Es. reflexivity. }
      rewrite Ep. cbn. rewrite (IH Hgr t' Et). reflexivity.
  Qed.

  Lemma mm_sound r : Forall snd_at r -> g_all c r = true ->
    forall w best v, c_mm c w best r = CVal v ->
      exists vs, p_evals rho r = Ok vs /\ extremum w best vs = Ok v.
  Proof.
    induction 1 as [|x r Hx Hr IH]; cbn; intros Hg w best v H.
    - inversion H. exists []. split; reflexivity.
    - apply andb_true_iff in Hg as [Hgx Hgr].
      apply bindC_val in H as (v1 & Ev & H). apply bindC_val in H as (b & Eb & H).
      apply lift_val in Eb. destruct (IH Hgr _ _ _ H) as (vs & E1 & E2).
      exists (v1 :: vs). rewrite (Hx v1 Hgx Ev). cbn. rewrite E1. cbn. split; [reflexivity|].
      rewrite Eb. cbn. exact E2.
  Qed.

  Lemma minmax_two w x y vs : py_minmax w (x :: y :: vs) = extremum w x (y :: vs).
  Proof. destruct x as [| | | |[|]|[|]|]; reflexivity. Qed.

  Lemma eval_const_sound_at : forall e, snd_at e.
  Proof.
    induction e using pexpr_ind2; unfold snd_at in *; intros v Hg He.
    - inversion He. reflexivity.
    - inversion He. reflexivity.
    - inversion He. reflexivity.
    - inversion He. reflexivity.
    - discriminate.
    - (* EName *) cbn in He. destruct (tlookup x c) as [[w|]|] eqn:L; try discriminate.
      destruct (is_scalar w); [|discriminate]. inversion He; subst. cbn. rewrite (Hag _ _ L). reflexivity.
    - (* EBin *) rewrite ec_bin in He. rewrite ig_bin in Hg. apply andb_true_iff in Hg as [Hga Hgb].
      destruct (in_bin op); [|discriminate].
      apply bindC_val in He as (x & Ex & He). apply bindC_val in He as (y & Ey & He).
      rewrite pe_bin, (IHe1 x Hga Ex), (IHe2 y Hgb Ey). cbn. apply apply_bin_sound. exact He.
    - (* EUn *) rewrite ec_un in He. destruct (in_un op); [|discriminate].
      apply bindC_val in He as (x & Ex & He). pose proof (ig_un _ _ _ Hg) as Hga.
      rewrite pe_un, (IHe x Hga Ex). cbn.
      destruct op; cbn in He.
      + inversion He; subst. rewrite ig_uadd, Ex in Hg. apply andb_true_iff in Hg as [_ Hg].
        destruct v; try discriminate; cbn; [reflexivity|].
        unfold vfloat. rewrite (qnormal_eq _ Hg). reflexivity.
      + apply lift_val. exact He.
      + inversion He. reflexivity.
      + discriminate.
    - (* EBoolOp *) rewrite ig_boolop in Hg. destruct op.
      + rewrite ec_and in He. rewrite pe_and. destruct (evand_sound vs H Hg _ _ He) as [I _]. apply I. reflexivity.
      + rewrite ec_or in He. rewrite pe_or. destruct (evor_sound vs H Hg _ _ He) as [I _]. apply I. reflexivity.
    - (* ECompare *) rewrite ec_cmp in He. rewrite ig_cmp in Hg.
      apply andb_true_iff in Hg as [Hg Hgr]. apply andb_true_iff in Hg as [Hl Hgl].
      apply Nat.eqb_eq in Hl. rewrite pe_cmp.
      destruct ops as [|op ops]; [discriminate|].
      apply bindC_val in He as (lv & El & He). rewrite (IHe lv Hgl El). cbn [bind].
      apply chain_sound; auto.
    - (* EIfExp *) rewrite ec_if in He. rewrite ig_if in Hg.
      apply andb_true_iff in Hg as [Hg Hg3]. apply andb_true_iff in Hg as [Hg1 Hg2].
      apply bindC_val in He as (cv & Ec & He). rewrite pe_if, (IHe1 cv Hg1 Ec). cbn.
      destruct (truthy cv); auto.
    - (* EJoined *) rewrite ec_joined in He. rewrite ig_joined in Hg.
      apply bindC_val in He as (s & Es & He). inversion He; subst.
      rewrite pe_joined, (joined_sound ps H0 Hg s Es). reflexivity.
    - (* EFmt *) discriminate.
    - (* ECall *) rewrite ec_call in He. rewrite ig_call in Hg. apply andb_true_iff in Hg as [Hmm Hga].
      destruct kws; [|destruct args; discriminate]. destruct args as [|a r]; [discriminate|].
      inversion H as [|? ? Pa Pr]; subst. cbn in Hga. apply andb_true_iff in Hga as [Hg1 Hgr].
      rewrite pe_call.
      destruct (is_nil r && tmem f safe_casts) eqn:T1.
      { apply andb_true_iff in T1 as [Tn Tm]. destruct r; [|discriminate].
        apply tmem_In in Tm. rewrite (Hun f (or_introl Tm)).
        apply bindC_val in He as (x & Ex & He). cbn. rewrite (Pa x Hg1 Ex). cbn. apply cast_sound. exact He. }
      destruct (is_nil r && text_eqb f n_len) eqn:T2.
      { apply andb_true_iff in T2 as [Tn Tm]. destruct r; [|discriminate]. apply text_eqb_eq in Tm. subst f.
        rewrite (Hun n_len); [|right; cbn; tauto].
        apply bindC_val in He as (x & Ex & He). rewrite p_evals_cons, (Pa x Hg1 Ex). cbn [bind p_evals]. apply len_step_sound. exact He. }
      destruct (is_nil r && text_eqb f n_abs) eqn:T3.
      { apply andb_true_iff in T3 as [Tn Tm]. destruct r; [|discriminate]. apply text_eqb_eq in Tm. subst f.
        rewrite (Hun n_abs); [|right; cbn; tauto].
        apply bindC_val in He as (x & Ex & He). rewrite p_evals_cons, (Pa x Hg1 Ex). cbn [bind p_evals]. apply abs_step_sound. exact He. }
      destruct (text_eqb f n_max) eqn:T4.
      { apply text_eqb_eq in T4. subst f. rewrite (Hun n_max); [|right; cbn; tauto].
        destruct r as [|b r]; [cbn in Hmm; discriminate|].
        apply bindC_val in He as (x & Ex & He).
        destruct (mm_sound _ Pr Hgr _ _ _ He) as (vs & E1 & E2).
        rewrite p_evals_cons, (Pa x Hg1 Ex). cbn [bind]. rewrite E1. cbn [bind].
        pose proof (p_evals_length _ _ _ E1) as Hl. destruct vs as [|y vs]; [discriminate|].
        change (py_call n_max (x :: y :: vs)) with (py_minmax true (x :: y :: vs)).
        rewrite minmax_two. exact E2. }
      destruct (text_eqb f n_min) eqn:T5; [|discriminate].
      { apply text_eqb_eq in T5. subst f. rewrite (Hun n_min); [|right; cbn; tauto].
        destruct r as [|b r]; [cbn in Hmm; discriminate|].
        apply bindC_val in He as (x & Ex & He).
        destruct (mm_sound _ Pr Hgr _ _ _ He) as (vs & E1 & E2).
        rewrite p_evals_cons, (Pa x Hg1 Ex). cbn [bind]. rewrite E1. cbn [bind].
        pose proof (p_evals_length _ _ _ E1) as Hl. destruct vs as [|y vs]; [discriminate|].
        change (py_call n_min (x :: y :: vs)) with (py_minmax false (x :: y :: vs)).
        rewrite minmax_two. exact E2. }
    - (* EMethod *) discriminate.
    - (* EList *) rewrite ec_list in He. rewrite ig_list in Hg.
      apply bindC_val in He as (vs & Es & He). inversion He; subst.
      rewrite pe_list, (evals_sound es H Hg vs Es). reflexivity.
    - (* ETuple *) rewrite ec_tuple in He. rewrite ig_tuple in Hg.
      apply bindC_val in He as (vs & Es & He). inversion He; subst.
      rewrite pe_tuple, (evals_sound es H Hg vs Es). reflexivity.
    - discriminate.
    - discriminate.
  Qed.
End Sound.

Theorem eval_const_sound : forall e c rho v,
  agrees c rho -> unshadowed rho -> in_guard c e = true -> eval_const c e = CVal v -> peval rho e = Ok v.
Proof. intros e c rho v Ha Hu. apply eval_const_sound_at; assumption. Qed.
