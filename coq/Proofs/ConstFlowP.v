(* Soundness of the flow guard of Lang/ConstFlow.v: when the transpiler bakes in, at every fold site, exactly what the
   flow-sensitive ghost environment justifies, the residual program produces on every control-flow path the outputs of
   the source program; the same for a function body parsed at its def and run at a later call with arbitrary
   argument values. *)
From Coq Require Import ZArith QArith List Bool Lia Arith.
From RV Require Import Base.Wire Base.Text Lang.PyAst Lang.PySem Gen.SafeCasts Lang.ConstEval Lang.ConstEnv Lang.ConstFlow
  Proofs.ConstEvalP Proofs.ConstEnvP Proofs.ConstEnvFreshP.
Import ListNotations.
Open Scope Z_scope.

(* ---------------- unfolding ---------------- *)
Lemma cstep_if a b te st ge gst : cstep (SIf a b) te st ge gst =
  match cblock a te st ge gst with
  | Some (te1, st1, r1, _, _, f1) =>
      match cblock b te st1 ge gst with
      | Some (te2, st2, r2, _, _, f2) =>
          Some (promote (promote te te1 []) te2 [], st2, [SIf r1 r2], mark_all (writes (SIf a b)) ge, gst, f1 && f2)
      | None => None end
  | None => None end.
Proof. reflexivity. Qed.
Lemma cstep_while a te st ge gst : cstep (SWhile a) te st ge gst =
  match cblock a te st (mark_all (writes (SWhile a)) ge) gst with
  | Some (te1, st1, r1, _, _, f1) => Some (promote te te1 [], st1, [SWhile r1], mark_all (writes (SWhile a)) ge, gst, f1)
  | None => None end.
Proof. reflexivity. Qed.
Lemma cstep_for x a te st ge gst : cstep (SFor x a) te st ge gst =
  match cblock a ((x, TMark) :: te) st (mark_all (writes (SFor x a)) ge) gst with
  | Some (te1, st1, r1, _, _, f1) =>
      Some (promote te te1 [x], st1, [SFor x r1], mark_all (writes (SFor x a)) ge, gst, f1 && negb (tmem x safe_name_references))
  | None => None end.
Proof. reflexivity. Qed.
Lemma cstep_simple s te st ge gst : simple s -> cstep s te st ge gst = csimple s te st ge gst.
Proof. destruct s; cbn; intro H; try contradiction; reflexivity. Qed.
Lemma cblock_cons s r te st ge gst : cblock (s :: r) te st ge gst =
  match cstep s te st ge gst with
  | Some (te1, st1, r1, ge1, gst1, f1) =>
      match cblock r te1 st1 ge1 gst1 with
      | Some (te2, st2, r2, ge2, gst2, f2) => Some (te2, st2, r1 ++ r2, ge2, gst2, f1 && f2)
      | None => None end
  | None => None end.
Proof. reflexivity. Qed.

(* ---------------- equality of baked-in constants ---------------- *)
Lemma scalar_eqb_eq a b : scalar_eqb a b = true -> a = b.
Proof.
  destruct a, b; cbn; try discriminate; intro H.
  - apply Z.eqb_eq in H. congruence.
  - apply Bool.eqb_prop in H. congruence.
  - apply andb_true_iff in H. destruct H as [H1 H2]. apply Z.eqb_eq in H1. apply Pos.eqb_eq in H2.
    destruct q, q0. cbn in *. congruence.
Qed.
Lemma scalars_eqb_eq l : forall m, scalars_eqb l m = true -> l = m.
Proof.
  induction l as [|a l IH]; intros [|b m]; cbn; try discriminate; [reflexivity|].
  intro H. apply andb_true_iff in H. destruct H as [H1 H2].
  apply scalar_eqb_eq in H1. apply IH in H2. congruence.
Qed.
Lemma emit_eqb_eq a b : emit_eqb a b = true -> a = b.
Proof.
  destruct a, b; cbn [emit_eqb]; intro H;
    try (apply scalar_eqb_eq; exact H); apply scalars_eqb_eq in H; congruence.
Qed.

Definition shape (s : stmt) (r : list stmt) : Prop := r = [s] \/ exists v, r = [SEmit v].

Ltac crack H :=
  repeat (match type of H with
          | context [match ?x with _ => _ end] => destruct x eqn:?
          end; try discriminate H).

Lemma tsimple_shape s te st te1 st1 r1 f : tsimple s te st = Some (te1, st1, r1, f) -> shape s r1.
Proof.
  intro H. destruct s as [x e|x e|x e|o|v|a b|a|x a|x op e]; cbn [tsimple] in H; try discriminate.
  - crack H; inversion H; subst; left; reflexivity.
  - crack H; inversion H; subst; left; reflexivity.
  - crack H; inversion H; subst; left; reflexivity.
  - destruct o; crack H; inversion H; subst; first [left; reflexivity | right; eexists; reflexivity].
  - inversion H; subst. left; reflexivity.
  - inversion H; subst. left; reflexivity.
Qed.

Lemma same_res_eq s r g : shape s r -> shape s g -> same_res r g = true -> r = g.
Proof.
  intros [->|[v ->]] [->|[w ->]] H; try reflexivity.
  - destruct s; cbn in H; try discriminate. apply emit_eqb_eq in H. subst. reflexivity.
  - destruct s; cbn in H; try discriminate. apply emit_eqb_eq in H. subst. reflexivity.
  - cbn in H. apply emit_eqb_eq in H. subst. reflexivity.
Qed.

(* ---------------- the transpiler half of cblock is tblock ---------------- *)
Definition proj_stmt (s : stmt) : Prop := forall te st ge gst te' st' res ge' gst' f,
  cstep s te st ge gst = Some (te', st', res, ge', gst', f) -> exists f0, tstep s te st = Some (te', st', res, f0).
Definition proj_blk (b : list stmt) : Prop := forall te st ge gst te' st' res ge' gst' f,
  cblock b te st ge gst = Some (te', st', res, ge', gst', f) -> exists f0, tblock b te st = Some (te', st', res, f0).
Lemma proj_block b : Forall proj_stmt b -> proj_blk b.
Proof.
  induction 1 as [|s r Hs _ IH]; intros te st ge gst te' st' res ge' gst' f H.
  - cbn in H. inversion H; subst. eexists. reflexivity.
  - rewrite cblock_cons in H.
    destruct (cstep s te st ge gst) as [[[[[[te1 st1] r1] ge1] gst1] f1]|] eqn:E1; [|discriminate].
    destruct (cblock r te1 st1 ge1 gst1) as [[[[[[te2 st2] r2] ge2] gst2] f2]|] eqn:E2; [|discriminate].
    inversion H; subst.
    destruct (Hs _ _ _ _ _ _ _ _ _ _ E1) as (fa & T1). destruct (IH _ _ _ _ _ _ _ _ _ _ E2) as (fb & T2).
    rewrite tblock_cons, T1, T2. eexists. reflexivity.
Qed.
Lemma proj_all : forall s, proj_stmt s.
Proof.
  apply stmt_ind'.
  1-5, 9: (intros; intros te st ge gst te' st' res ge' gst' f H; rewrite cstep_simple in H by exact I;
           unfold csimple in H; rewrite tstep_simple by exact I;
           match type of H with context [tsimple ?s te st] => destruct (tsimple s te st) as [[[[te1 st1] r1] f1]|]; [|discriminate] end;
           match type of H with context [tsimple ?s ge gst] => destruct (tsimple s ge gst) as [[[[ge1 gst1] g1] gf]|] end;
           inversion H; subst; eexists; reflexivity).
  - intros a b Fa Fb te st ge gst te' st' res ge' gst' f H. rewrite cstep_if in H.
    destruct (cblock a te st ge gst) as [[[[[[te1 st1] r1] ge1] gst1] f1]|] eqn:E1; [|discriminate].
    destruct (cblock b te st1 ge gst) as [[[[[[te2 st2] r2] ge2] gst2] f2]|] eqn:E2; [|discriminate].
    inversion H; subst.
    destruct (proj_block a Fa _ _ _ _ _ _ _ _ _ _ E1) as (fa & T1). destruct (proj_block b Fb _ _ _ _ _ _ _ _ _ _ E2) as (fb & T2).
    rewrite tstep_if, T1, T2. eexists. reflexivity.
  - intros a Fa te st ge gst te' st' res ge' gst' f H. rewrite cstep_while in H.
    destruct (cblock a te st (mark_all (writes (SWhile a)) ge) gst) as [[[[[[te1 st1] r1] ge1] gst1] f1]|] eqn:E1; [|discriminate].
    inversion H; subst.
    destruct (proj_block a Fa _ _ _ _ _ _ _ _ _ _ E1) as (fa & T1). rewrite tstep_while, T1. eexists. reflexivity.
  - intros x a Fa te st ge gst te' st' res ge' gst' f H. rewrite cstep_for in H.
    destruct (cblock a ((x, TMark) :: te) st (mark_all (writes (SFor x a)) ge) gst) as [[[[[[te1 st1] r1] ge1] gst1] f1]|] eqn:E1; [|discriminate].
    inversion H; subst.
    destruct (proj_block a Fa _ _ _ _ _ _ _ _ _ _ E1) as (fa & T1). rewrite tstep_for, T1. eexists. reflexivity.
Qed.
Lemma proj_blocks b : proj_blk b.
Proof. apply proj_block. apply Forall_forall. intros s _. apply proj_all. Qed.

(* ---------------- marking ---------------- *)
Lemma mark_all_cons a ws te : mark_all (a :: ws) te = (a, TMark) :: mark_all ws te.
Proof. reflexivity. Qed.
Lemma mark_all_in ws te x : In x ws -> tlookup x (mark_all ws te) = Some TMark.
Proof.
  induction ws as [|a ws IH]; [intros []|]. intro H. rewrite mark_all_cons.
  destruct (teq_dec x a) as [->|N]; [apply tl_eq|]. rewrite tl_ne by exact N. apply IH. destruct H as [H|H]; [congruence|exact H].
Qed.
Lemma mark_all_notin ws te x : ~ In x ws -> tlookup x (mark_all ws te) = tlookup x te.
Proof.
  induction ws as [|a ws IH]; [reflexivity|]. intro H. rewrite mark_all_cons.
  rewrite tl_ne; [apply IH; intro; apply H; right; assumption|]. intro; subst; apply H; left; reflexivity.
Qed.
Lemma wf_mark_all ws te st : wf te st -> wf (mark_all ws te) st.
Proof. intro W. induction ws as [|a ws IH]; [exact W|]. rewrite mark_all_cons. apply wf_cons_mark. exact IH. Qed.
Lemma ragrees_mark_frame ws ge gst rho rho1 :
  ragrees (mark_all ws ge) gst rho -> (forall x, ~ In x ws -> lookup x rho1 = lookup x rho) -> ragrees (mark_all ws ge) gst rho1.
Proof.
  intros R F x. destruct (in_dec teq_dec x ws) as [I|N].
  - rewrite (mark_all_in _ _ _ I). exact Logic.I.
  - specialize (R x). rewrite (F x N). exact R.
Qed.
Lemma ragrees_mark ws ge gst rho : ragrees ge gst rho -> ragrees (mark_all ws ge) gst rho.
Proof.
  intros R x. destruct (in_dec teq_dec x ws) as [I|N].
  - rewrite (mark_all_in _ _ _ I). exact Logic.I.
  - rewrite (mark_all_notin _ _ _ N). apply R.
Qed.

(* ---------------- the simulation ---------------- *)
Definition gconcl (res : list stmt) orc rho (rho' : env) (out : list pval) (orc' : list nat) ge' gst' : Prop :=
  rblock res orc rho = Some (rho', out, orc') /\ wf ge' gst' /\ ragrees ge' gst' rho' /\ unshadowed rho'.
Definition gsim_stmt (s : stmt) : Prop := forall te st ge gst te' st' res ge' gst' orc rho rho' out orc',
  cstep s te st ge gst = Some (te', st', res, ge', gst', true) -> wf ge gst -> ragrees ge gst rho -> unshadowed rho ->
  rstep s orc rho = Some (rho', out, orc') -> gconcl res orc rho rho' out orc' ge' gst'.
Definition gsim_blk (b : list stmt) : Prop := forall te st ge gst te' st' res ge' gst' orc rho rho' out orc',
  cblock b te st ge gst = Some (te', st', res, ge', gst', true) -> wf ge gst -> ragrees ge gst rho -> unshadowed rho ->
  rblock b orc rho = Some (rho', out, orc') -> gconcl res orc rho rho' out orc' ge' gst'.

Lemma gsim_block b : Forall gsim_stmt b -> gsim_blk b.
Proof.
  induction 1 as [|s r Hs _ IH]; intros te st ge gst te' st' res ge' gst' orc rho rho' out orc' H W R U Hr.
  - cbn in H. inversion H; subst. rewrite rblock_nil in Hr. inversion Hr; subst.
    split; [apply rblock_nil|]. split; [assumption|split; assumption].
  - rewrite cblock_cons in H.
    destruct (cstep s te st ge gst) as [[[[[[te1 st1] r1] ge1] gst1] f1]|] eqn:E1; [|discriminate].
    destruct (cblock r te1 st1 ge1 gst1) as [[[[[[te2 st2] r2] ge2] gst2] f2]|] eqn:E2; [|discriminate].
    inversion H; subst. clear H.
    match goal with HF : _ && _ = true |- _ => apply andb_true_iff in HF; destruct HF as [-> ->] end.
    rewrite rblock_cons in Hr.
    destruct (rstep s orc rho) as [[[rho1 o1] orc1]|] eqn:R1; [|discriminate].
    destruct (rblock r orc1 rho1) as [[[rho2 o2] orc2]|] eqn:R2; [|discriminate].
    inversion Hr; subst. clear Hr.
    destruct (Hs _ _ _ _ _ _ _ _ _ _ _ _ _ _ E1 W R U R1) as (S1 & W1 & RA1 & U1).
    destruct (IH _ _ _ _ _ _ _ _ _ _ _ _ _ _ E2 W1 RA1 U1 R2) as (S2 & W2 & RA2 & U2).
    split; [|split; [assumption|split; assumption]]. rewrite rblock_app, S1, S2. reflexivity.
Qed.

Lemma gsim_simple s : simple s -> gsim_stmt s.
Proof.
  intros Hs te st ge gst te' st' res ge' gst' orc rho rho' out orc' H W R U Hr.
  rewrite cstep_simple in H by exact Hs. unfold csimple in H.
  destruct (tsimple s te st) as [[[[te1 st1] r1] f1]|] eqn:T1; [|discriminate].
  destruct (tsimple s ge gst) as [[[[ge1 gst1] g1] gf]|] eqn:T2; [|inversion H].
  inversion H; subst. clear H.
  match goal with HF : _ && _ = true |- _ =>
    apply andb_true_iff in HF; destruct HF as [HF2 SR]; apply andb_true_iff in HF2; destruct HF2 as [-> _] end.
  assert (T2' : tstep s ge gst = Some (ge', gst', g1, true)) by (rewrite tstep_simple by exact Hs; exact T2).
  destruct (sim_simple s Hs _ _ _ _ _ _ _ _ _ _ T2' W R U Hr) as (S1 & RA & U1).
  pose proof (tframe_simple s Hs _ _ _ _ _ _ T2' W) as (W1 & _).
  rewrite (same_res_eq s res g1 (tsimple_shape _ _ _ _ _ _ _ T1) (tsimple_shape _ _ _ _ _ _ _ T2) SR).
  split; [exact S1|]. split; [assumption|split; assumption].
Qed.

Lemma gwiter a te st ge gst ws te1 st1 r1 ge1 gst1 :
  gsim_blk a -> cblock a te st (mark_all ws ge) gst = Some (te1, st1, r1, ge1, gst1, true) -> wf (mark_all ws ge) gst ->
  (forall x, In x (writes_block a) -> In x ws) ->
  forall k orc rho rho' out orc', ragrees (mark_all ws ge) gst rho -> unshadowed rho ->
    witer a k orc rho = Some (rho', out, orc') -> witer r1 k orc rho = Some (rho', out, orc') /\ unshadowed rho'.
Proof.
  intros Sa E W Sub. induction k as [|k IH]; intros orc rho rho' out orc' R U H; cbn in H |- *.
  - inversion H; subst. split; [reflexivity|exact U].
  - destruct (rblock a orc rho) as [[[rho1 o1] orc1]|] eqn:R1; [|discriminate].
    destruct (witer a k orc1 rho1) as [[[rho2 o2] orc2]|] eqn:R2; [|discriminate].
    injection H as <- <- <-.
    destruct (Sa _ _ _ _ _ _ _ _ _ _ _ _ _ _ E W R U R1) as (S1 & _ & _ & U1).
    assert (RA1 : ragrees (mark_all ws ge) gst rho1).
    { eapply ragrees_mark_frame; [exact R|]. intros x Nx. apply (rframe_blocks a _ _ _ _ _ R1 x). intro I. apply Nx, Sub, I. }
    destruct (IH _ _ _ _ _ RA1 U1 R2) as (S2 & U2).
    rewrite S1, S2. split; [reflexivity|exact U2].
Qed.
Lemma gfiter x a te st ge gst ws te1 st1 r1 ge1 gst1 :
  gsim_blk a -> cblock a te st (mark_all ws ge) gst = Some (te1, st1, r1, ge1, gst1, true) -> wf (mark_all ws ge) gst ->
  In x ws -> (forall y, In y (writes_block a) -> In y ws) -> tmem x safe_name_references = false ->
  forall k i orc rho rho' out orc', ragrees (mark_all ws ge) gst rho -> unshadowed rho ->
    fiter x a k i orc rho = Some (rho', out, orc') -> fiter x r1 k i orc rho = Some (rho', out, orc') /\ unshadowed rho'.
Proof.
  intros Sa E W Ix Sub NS. induction k as [|k IH]; intros i orc rho rho' out orc' R U H; cbn in H |- *.
  - inversion H; subst. split; [reflexivity|exact U].
  - destruct (rblock a orc ((x, VInt i) :: rho)) as [[[rho1 o1] orc1]|] eqn:R1; [|discriminate].
    destruct (fiter x a k (i + 1) orc1 rho1) as [[[rho2 o2] orc2]|] eqn:R2; [|discriminate].
    injection H as <- <- <-.
    assert (FX : forall y, ~ In y ws -> lookup y ((x, VInt i) :: rho) = lookup y rho).
    { intros y Ny. unfold lookup. apply tl_ne. intro; subst. apply Ny, Ix. }
    assert (Rx : ragrees (mark_all ws ge) gst ((x, VInt i) :: rho)) by (eapply ragrees_mark_frame; [exact R|exact FX]).
    destruct (Sa _ _ _ _ _ _ _ _ _ _ _ _ _ _ E W Rx (unshadowed_cons _ _ _ U NS) R1) as (S1 & _ & _ & U1).
    assert (RA1 : ragrees (mark_all ws ge) gst rho1).
    { eapply ragrees_mark_frame; [exact R|]. intros y Ny.
      rewrite (rframe_blocks a _ _ _ _ _ R1 y); [apply FX, Ny|]. intro I. apply Ny, Sub, I. }
    destruct (IH _ _ _ _ _ _ RA1 U1 R2) as (S2 & U2).
    rewrite S1, S2. split; [reflexivity|exact U2].
Qed.

Lemma gsim_all : forall s, gsim_stmt s.
Proof.
  apply stmt_ind'; try (intros; apply gsim_simple; exact I).
  - (* if *)
    intros a b Fa Fb te st ge gst te' st' res ge' gst' orc rho rho' out orc' H W R U Hr.
    pose proof (rframe_all (SIf a b) _ _ _ _ _ Hr) as FR.
    rewrite cstep_if in H.
    destruct (cblock a te st ge gst) as [[[[[[te1 st1] r1] ge1] gst1] f1]|] eqn:E1; [|discriminate].
    destruct (cblock b te st1 ge gst) as [[[[[[te2 st2] r2] ge2] gst2] f2]|] eqn:E2; [|discriminate].
    inversion H; subst. clear H.
    match goal with HF : _ && _ = true |- _ => apply andb_true_iff in HF; destruct HF as [-> ->] end.
    assert (TAIL : wf (mark_all (writes (SIf a b)) ge) gst' /\ ragrees (mark_all (writes (SIf a b)) ge) gst' rho').
    { split; [apply wf_mark_all; exact W|]. eapply ragrees_mark_frame; [apply ragrees_mark; exact R|exact FR]. }
    destruct TAIL as [TW TR].
    rewrite rstep_if in Hr. destruct orc as [|[|k] orc1]; [discriminate| |].
    + destruct (gsim_block b Fb _ _ _ _ _ _ _ _ _ _ _ _ _ _ E2 W R U Hr) as (S2 & _ & _ & U2).
      split; [rewrite rblock_single, rstep_if; exact S2|]. split; [assumption|split; assumption].
    + destruct (gsim_block a Fa _ _ _ _ _ _ _ _ _ _ _ _ _ _ E1 W R U Hr) as (S1 & _ & _ & U1).
      split; [rewrite rblock_single, rstep_if; exact S1|]. split; [assumption|split; assumption].
  - (* while *)
    intros a Fa te st ge gst te' st' res ge' gst' orc rho rho' out orc' H W R U Hr.
    pose proof (rframe_all (SWhile a) _ _ _ _ _ Hr) as FR.
    rewrite cstep_while in H.
    destruct (cblock a te st (mark_all (writes (SWhile a)) ge) gst) as [[[[[[te1 st1] r1] ge1] gst1] f1]|] eqn:E1; [|discriminate].
    inversion H; subst. clear H.
    assert (Wh : wf (mark_all (writes (SWhile a)) ge) gst') by (apply wf_mark_all; exact W).
    assert (Rh : ragrees (mark_all (writes (SWhile a)) ge) gst' rho) by (apply ragrees_mark; exact R).
    rewrite rstep_while in Hr. destruct orc as [|k orc1]; [discriminate|].
    destruct (gwiter a _ _ _ _ _ _ _ _ _ _ (gsim_block a Fa) E1 Wh (fun x I => I) _ _ _ _ _ _ Rh U Hr) as (S1 & U1).
    split; [rewrite rblock_single, rstep_while; exact S1|]. split; [exact Wh|]. split; [|exact U1].
    exact (ragrees_mark_frame (writes (SWhile a)) ge gst' rho rho' Rh FR).
  - (* for *)
    intros x a Fa te st ge gst te' st' res ge' gst' orc rho rho' out orc' H W R U Hr.
    pose proof (rframe_all (SFor x a) _ _ _ _ _ Hr) as FR.
    rewrite cstep_for in H.
    destruct (cblock a ((x, TMark) :: te) st (mark_all (writes (SFor x a)) ge) gst) as [[[[[[te1 st1] r1] ge1] gst1] f1]|] eqn:E1; [|discriminate].
    inversion H; subst. clear H.
    match goal with HF : _ && _ = true |- _ => apply andb_true_iff in HF; destruct HF as [-> NS] end.
    apply negb_true_iff in NS.
    assert (Wh : wf (mark_all (writes (SFor x a)) ge) gst') by (apply wf_mark_all; exact W).
    assert (Rh : ragrees (mark_all (writes (SFor x a)) ge) gst' rho) by (apply ragrees_mark; exact R).
    rewrite rstep_for in Hr. destruct orc as [|k orc1]; [discriminate|].
    assert (Ix : In x (writes (SFor x a))) by (rewrite writes_for; left; reflexivity).
    assert (Sub : forall y, In y (writes_block a) -> In y (writes (SFor x a))) by (intros y I; rewrite writes_for; right; exact I).
    destruct (gfiter x a _ _ _ _ _ _ _ _ _ _ (gsim_block a Fa) E1 Wh Ix Sub NS _ _ _ _ _ _ _ Rh U Hr) as (S1 & U1).
    split; [rewrite rblock_single, rstep_for; exact S1|]. split; [exact Wh|]. split; [|exact U1].
    exact (ragrees_mark_frame (writes (SFor x a)) ge gst' rho rho' Rh FR).
Qed.
Lemma gsim_blocks b : gsim_blk b.
Proof. apply gsim_block. apply Forall_forall. intros s _. apply gsim_all. Qed.

Lemma wf_nil : wf [] [].
Proof. split; [|split]; intros; cbn in *; discriminate. Qed.
Lemma ragrees_nil : ragrees [] [] [].
Proof. intro x. exact I. Qed.
Lemma unshadowed_nil : unshadowed [].
Proof. intros f _. reflexivity. Qed.

(* ---------------- the theorems ---------------- *)
Theorem flow_sound : forall p orc out,
  flow_ok p = true -> python_outputs p orc = Some out -> firmware_outputs p orc = Some out.
Proof.
  intros p orc out F P. unfold flow_ok in F. unfold python_outputs in P. unfold firmware_outputs.
  destruct (cblock p [] [] [] []) as [[[[[[te st] res] ge] gst] f]|] eqn:E; [|discriminate]. subst f.
  destruct (proj_blocks p _ _ _ _ _ _ _ _ _ _ E) as (f0 & T). rewrite T.
  destruct (rblock p orc []) as [[[rho' out'] orc']|] eqn:Rp; [|discriminate]. inversion P; subst out'.
  destruct (gsim_blocks p _ _ _ _ _ _ _ _ _ _ _ _ _ _ E wf_nil ragrees_nil unshadowed_nil Rp) as (S & _).
  rewrite S. reflexivity.
Qed.

Lemma lookup_params_notin ps : forall vals rho x, ~ In x ps -> lookup x (bind_params ps vals rho) = lookup x rho.
Proof.
  unfold bind_params. induction ps as [|p ps IH]; intros vals rho x N; [reflexivity|].
  destruct vals as [|v vals]; [reflexivity|]. cbn [combine app]. unfold lookup. rewrite tl_ne.
  - apply IH. intro; apply N; right; assumption.
  - intro; subst; apply N; left; reflexivity.
Qed.
Lemma unshadowed_params ps : forall vals rho, no_safe ps = true -> unshadowed rho -> unshadowed (bind_params ps vals rho).
Proof.
  unfold bind_params. induction ps as [|p ps IH]; intros vals rho N U; [exact U|].
  destruct vals as [|v vals]; [exact U|]. cbn [combine app]. cbn in N. apply andb_true_iff in N. destruct N as [N1 N2].
  apply negb_true_iff in N1. apply unshadowed_cons; [apply IH; assumption|exact N1].
Qed.

Theorem def_sound : forall prefix ps body mid vals orc outs,
  def_ok prefix ps body mid = true ->
  python_call_outputs prefix ps body mid vals orc = Some outs ->
  firmware_call_outputs prefix ps body mid vals orc = Some outs.
Proof.
  intros prefix ps body mid vals orc outs F P. unfold def_ok in F.
  destruct (cblock prefix [] [] [] []) as [[[[[[te st] rp] ge] gst] fp]|] eqn:E0; [|discriminate].
  destruct (cblock body (mark_all ps te) st (mark_all (ps ++ writes_block mid) ge) gst) as [[[[[[teb stb] rb] geb] gstb] fb]|] eqn:E1; [|discriminate].
  destruct (cblock mid te stb ge gst) as [[[[[[te2 st2] rm] ge2] gst2] fm]|] eqn:E2; [|discriminate].
  apply andb_true_iff in F. destruct F as [F NS]. apply andb_true_iff in F. destruct F as [F ->].
  apply andb_true_iff in F. destruct F as [-> ->].
  destruct (proj_blocks _ _ _ _ _ _ _ _ _ _ _ E0) as (f0 & T0).
  destruct (proj_blocks _ _ _ _ _ _ _ _ _ _ _ E1) as (f1 & T1).
  destruct (proj_blocks _ _ _ _ _ _ _ _ _ _ _ E2) as (f2 & T2).
  unfold firmware_call_outputs, tdef. rewrite T0, T1, T2.
  unfold python_call_outputs, run_call in P. unfold run_call.
  rewrite rblock_app in P.
  destruct (rblock prefix orc []) as [[[rho0 oa] orca]|] eqn:R0; [|discriminate].
  destruct (rblock mid orca rho0) as [[[rho ob] orc1]|] eqn:R1; [|discriminate].
  destruct (rblock body orc1 (bind_params ps vals rho)) as [[[rhob o2] orc2]|] eqn:R2; [|discriminate].
  destruct (gsim_blocks prefix _ _ _ _ _ _ _ _ _ _ _ _ _ _ E0 wf_nil ragrees_nil unshadowed_nil R0) as (S0 & W0 & RA0 & U0).
  destruct (gsim_blocks mid _ _ _ _ _ _ _ _ _ _ _ _ _ _ E2 W0 RA0 U0 R1) as (S1 & _ & _ & U1).
  assert (Wb : wf (mark_all (ps ++ writes_block mid) ge) gst) by (apply wf_mark_all; exact W0).
  assert (Rb : ragrees (mark_all (ps ++ writes_block mid) ge) gst (bind_params ps vals rho)).
  { eapply ragrees_mark_frame; [apply ragrees_mark; exact RA0|]. intros x Nx.
    rewrite lookup_params_notin by (intro I; apply Nx, in_or_app; left; exact I).
    apply (rframe_blocks mid _ _ _ _ _ R1 x). intro I. apply Nx, in_or_app. right. exact I. }
  destruct (gsim_blocks body _ _ _ _ _ _ _ _ _ _ _ _ _ _ E1 Wb Rb (unshadowed_params _ _ _ NS U1) R2) as (S2 & _).
  rewrite rblock_app, S0, S1, S2. exact P.
Qed.

(* ---------------- witnesses ---------------- *)
Definition n_msg : ident := [109;115;103].
Definition n_q : ident := [113].
(* an if / elif / else chain (an if nested in the else branch): the first branch re-assigns msg and pat, the later
   branches fold len(msg) and flash_pattern(pat) - from the snapshot *)
Definition w_chain : list stmt :=
  [ SAssign n_msg (EStr [105;100;108;101]);
    SAssign n_pat (EList [EInt 1; EInt 0; EInt 1; EInt 0]);
    SIf [SAssign n_msg (EStr [111;118;101;114;104;101;97;116;101;100]); SAssign n_pat (EList [EInt 1; EInt 1; EInt 128; EInt 0]);
         SObs (OFlash n_pat); SObs (OLen n_msg)]
        [SIf [SAssign n_msg (EStr [119;97;114;109;105;110;103]); SObs (OFlash n_pat); SObs (OLen n_msg)]
             [SObs (OFlash n_pat); SObs (OLen n_msg)]];
    SObs (OVal n_msg) ].
Lemma chain_nonvacuous :
  flow_ok w_chain = true /\ is_fresh w_chain = false /\
  python_outputs w_chain [1%nat] = Some [VList [VInt 1; VInt 1; VInt 128; VInt 0]; VInt 10; VStr [111;118;101;114;104;101;97;116;101;100]] /\
  python_outputs w_chain [0%nat; 1%nat] = Some [VList [VInt 1; VInt 0; VInt 1; VInt 0]; VInt 7; VStr [119;97;114;109;105;110;103]] /\
  python_outputs w_chain [0%nat; 0%nat] = Some [VList [VInt 1; VInt 0; VInt 1; VInt 0]; VInt 4; VStr [105;100;108;101]].
Proof. vm_compute. repeat split; reflexivity. Qed.

(* the same chain followed by a fold of the re-assigned name is outside the guard (finding F-C03-stale-reassign-in-branch) *)
Lemma chain_then_fold_outside : flow_ok (w_chain ++ [SObs (OLen n_msg)]) = false.
Proof. vm_compute. reflexivity. Qed.

(* a list appended in the first branch is shared with the snapshot of the second (the store is not copied) *)
Definition w_sibling_list : list stmt :=
  [ SAssign n_pat (EList [EInt 1; EInt 0]);
    SIf [SAppend n_pat (EInt 1)] [SObs (OFlash n_pat)] ].
Lemma sibling_list_refuted :
  firmware_outputs w_sibling_list [0%nat] = Some [VList [VInt 1; VInt 0; VInt 1]] /\
  python_outputs w_sibling_list [0%nat] = Some [VList [VInt 1; VInt 0]] /\ flow_ok w_sibling_list = false.
Proof. vm_compute. repeat split; reflexivity. Qed.

(* def pad(msg): mon.write(len(msg)); mon.write(len(s))   with module constants msg and s: the parameter is unknown *)
Definition w_def_prefix : list stmt := [SAssign n_msg (EStr [105;100;108;101]); SAssign n_s (EStr [97;98])].
Definition w_def_body : list stmt := [SObs (OLen n_msg); SObs (OLen n_s); SAssign n_q (EStr [120]); SObs (OLen n_q)].
Lemma def_nonvacuous :
  def_ok w_def_prefix [n_msg] w_def_body [SAssign n_v (EInt 1)] = true /\
  python_call_outputs w_def_prefix [n_msg] w_def_body [SAssign n_v (EInt 1)] [VStr [97;98;99;100;101;102;103]] [] =
    Some ([], [VInt 7; VInt 2; VInt 1]) /\
  python_call_outputs w_def_prefix [n_msg] w_def_body [SAssign n_v (EInt 1)] [VList [VInt 1]] [] = Some ([], [VInt 1; VInt 2; VInt 1]).
Proof. vm_compute. repeat split; reflexivity. Qed.

(* a module constant folded into the body at the def is stale when the module re-assigns it before the call *)
Lemma def_time_global_refuted :
  firmware_call_outputs w_def_prefix [n_q] [SObs (OLen n_s)] [SAssign n_s (EStr [97;98;99;100;101;102])] [VInt 0] [] = Some ([], [VInt 2]) /\
  python_call_outputs w_def_prefix [n_q] [SObs (OLen n_s)] [SAssign n_s (EStr [97;98;99;100;101;102])] [VInt 0] [] = Some ([], [VInt 6]) /\
  def_ok w_def_prefix [n_q] [SObs (OLen n_s)] [SAssign n_s (EStr [97;98;99;100;101;102])] = false /\
  def_ok w_def_prefix [n_q] [SObs (OLen n_s)] [] = true.
Proof. vm_compute. repeat split; reflexivity. Qed.

(* len(name) inside a right-hand side is a fold site of the flow guard: after a branch that re-assigns s the
   transpiler's environment still gives len(s) = 2, the ghost environment leaves it to run time *)
Definition w_rhs_len (branch : list stmt) : list stmt :=
  [ SAssign n_s (EStr [97;98]); SIf branch [];
    SAssign n_q (EBin Add (ECall n_len [EName n_s] []) (EInt 1)); SObs (OVal n_q) ].
Lemma rhs_len_fold_site :
  flow_ok (w_rhs_len [SAssign n_s (EStr [97;98;99;100])]) = false /\
  flow_ok (w_rhs_len [SAssign n_msg (EStr [97;98;99;100])]) = true /\
  python_outputs (w_rhs_len [SAssign n_msg (EStr [97;98;99;100])]) [1%nat] = Some [VInt 3].
Proof. vm_compute. repeat split; reflexivity. Qed.
