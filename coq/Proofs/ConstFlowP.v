(* Function definitions (Lang/ConstFlow.v): a body parsed at its def and run at a later call with arbitrary argument
   values produces what Python produces - for the repaired transpiler, whatever the module does to its constants between
   the def and the call.  (The flow guard that used to live here is gone with the ghost environment: see ConstFlow.v.) *)
From Coq Require Import ZArith QArith List Bool Lia Arith.
From RV Require Import Base.Wire Base.Text Lang.PyAst Lang.PySem Gen.SafeCasts Lang.ConstEval Lang.ConstEnv Lang.ConstFlow
  Proofs.ConstEvalP Proofs.ConstEnvP Proofs.ConstEnvFreshP.
Import ListNotations.
Open Scope Z_scope.

Lemma wf_mark_all ws te st : wf te st -> wf (mark_all ws te) st.
Proof. intro W. induction ws as [|a ws IH]; [exact W|]. rewrite mark_all_cons. apply wf_cons_mark. exact IH. Qed.

Lemma dups_app_in l1 : forall l2 x, In x l1 -> In x l2 -> In x (dups (l1 ++ l2)).
Proof.
  induction l1 as [|a r IH]; intros l2 x H1 H2; [destruct H1|]. cbn [app dups].
  destruct H1 as [->|H1].
  - assert (T : tmem x (r ++ l2) = true) by (apply tmem_in, in_or_app; right; exact H2). rewrite T. left. reflexivity.
  - destruct (tmem a (r ++ l2)); [right|]; apply IH; assumption.
Qed.

(* a name the dict binds after a block was written by the block or was bound before *)
Lemma tblock_names vol b te st te' st' res f y :
  tblock vol b te st = Some (te', st', res, f) -> wf te st -> In y (map fst te') -> In y (map fst te) \/ In y (writes_block b).
Proof. intros H W I. destruct (tframe_blocks b _ _ _ _ _ _ H W) as (_ & _ & _ & _ & E). apply E. exact I. Qed.

Lemma lookup_params_notin ps : forall vals rho x, ~ In x ps -> lookup x (bind_params ps vals rho) = lookup x rho.
Proof.
  unfold bind_params. induction ps as [|p ps IH]; intros vals rho x N; [reflexivity|].
  destruct vals as [|v vals]; [reflexivity|]. cbn [combine app]. unfold lookup. rewrite tl_ne.
  - apply IH. intro; apply N; right; assumption.
  - intro; subst; apply N; left; reflexivity.
Qed.
Lemma unshadowed_params ps : forall vals rho, no_safe ps = true -> unshadowed rho -> unshadowed (bind_params ps vals rho).
Proof.
  unfold bind_params. induction ps as [|p ps IH]; intros vals rho N U; [exact U|].
  destruct vals as [|v vals]; [exact U|]. cbn [combine app]. cbn in N. apply andb_true_iff in N. destruct N as [N1 N2].
  apply negb_true_iff in N1. apply unshadowed_cons; [apply IH; assumption|exact N1].
Qed.

Theorem def_sound : forall prefix ps body mid post vals orc outs,
  def_ok prefix ps body mid post = true ->
  python_call_outputs prefix ps body mid vals orc = Some outs ->
  firmware_call_outputs prefix ps body mid post vals orc = Some outs.
Proof.
  intros prefix ps body mid post vals orc outs F P. unfold def_ok in F.
  set (rb0 := rebound_names prefix body mid post) in *. set (fw := fn_written ps body) in *.
  destruct (tblock [] prefix [] []) as [[[[te st] rp] fp]|] eqn:E0; [|discriminate].
  destruct (tblock [] body (mark_all ps (forget rb0 te)) st) as [[[[teb stb] rb] fb]|] eqn:E1; [|discriminate].
  destruct (tblock fw mid (forget fw te) st) as [[[[te2 st2] rm] fm]|] eqn:E2; [|discriminate].
  apply andb_true_iff in F. destruct F as [F NS]. apply andb_true_iff in F. destruct F as [F ->].
  apply andb_true_iff in F. destruct F as [-> ->].
  unfold firmware_call_outputs, tdef. fold rb0. fold fw. rewrite E0, E1, E2.
  unfold python_call_outputs, run_call in P. unfold run_call.
  rewrite rblock_app in P.
  destruct (rblock prefix orc []) as [[[rho0 oa] orca]|] eqn:R0; [|discriminate].
  destruct (rblock mid orca rho0) as [[[rho ob] orc1]|] eqn:R1; [|discriminate].
  destruct (rblock body orc1 (bind_params ps vals rho)) as [[[rhob o2] orc2]|] eqn:R2; [|discriminate].
  destruct (sim_blocks prefix _ _ _ _ _ _ _ _ _ _ E0 wf_nil ragrees_nil unshadowed_nil R0) as (S0 & RA0 & U0).
  assert (W0 : wf te st) by (apply (tframe_blocks prefix _ _ _ _ _ _ E0 wf_nil)).
  destruct (sim_blocks mid _ _ _ _ _ _ _ _ _ _ E2 (wf_forget fw _ _ W0) (ragrees_forget fw _ _ _ RA0) U0 R1) as (S1 & _ & U1).
  assert (Wb : wf (mark_all ps (forget rb0 te)) st) by (apply wf_mark_all, wf_forget; exact W0).
  assert (Rb : ragrees (mark_all ps (forget rb0 te)) st (bind_params ps vals rho)).
  { intro x. destruct (in_dec teq_dec x ps) as [Ip|Np]; [rewrite (mark_all_in _ _ _ Ip); exact I|].
    rewrite (mark_all_notin _ _ _ Np), (lookup_params_notin ps vals rho x Np).
    destruct (in_dec teq_dec x rb0) as [Ir|Nr].
    - destruct (forget_in rb0 te x Ir) as [Q|Q]; rewrite Q; exact I.
    - rewrite (forget_notin _ _ _ Nr). specialize (RA0 x).
      destruct (tlookup x te) as [[v|l|]|] eqn:Lx; try exact I;
        (assert (Nm : ~ In x (writes_block mid));
         [ intro Im; apply Nr; unfold rb0, rebound_names; apply dups_app_in;
           [ destruct (tblock_names [] prefix [] [] te st rp true x E0 wf_nil (tl_in _ _ _ Lx)) as [[]|Q]; exact Q
           | apply in_or_app; right; apply in_or_app; left; exact Im ]
         | rewrite (rframe_blocks mid _ _ _ _ _ R1 x Nm); exact RA0 ]). }
  destruct (sim_blocks body _ _ _ _ _ _ _ _ _ _ E1 Wb Rb (unshadowed_params _ _ _ NS U1) R2) as (S2 & _).
  rewrite rblock_app, S0, S1, S2. exact P.
Qed.

(* ---------------- witnesses ---------------- *)
Definition n_msg : ident := [109;115;103].
Definition n_q : ident := [113].
(* an if / elif / else chain (an if nested in the else branch): the first branch re-assigns msg and pat, the later
   branches fold len(msg) and flash_pattern(pat) - from the snapshot; after the chain msg is a run-time value *)
Definition w_chain : list stmt :=
  [ SAssign n_msg (EStr [105;100;108;101]);
    SAssign n_pat (EList [EInt 1; EInt 0; EInt 1; EInt 0]);
    SIf [SAssign n_msg (EStr [111;118;101;114;104;101;97;116;101;100]); SAssign n_pat (EList [EInt 1; EInt 1; EInt 128; EInt 0]);
         SObs (OFlash n_pat); SObs (OLen n_msg)]
        [SIf [SAssign n_msg (EStr [119;97;114;109;105;110;103]); SObs (OFlash n_pat); SObs (OLen n_msg)]
             [SObs (OFlash n_pat); SObs (OLen n_msg)]];
    SObs (OVal n_msg) ].
Lemma chain_nonvacuous :
  is_fresh w_chain = true /\
  python_outputs w_chain [1%nat] = Some [VList [VInt 1; VInt 1; VInt 128; VInt 0]; VInt 10; VStr [111;118;101;114;104;101;97;116;101;100]] /\
  python_outputs w_chain [0%nat; 1%nat] = Some [VList [VInt 1; VInt 0; VInt 1; VInt 0]; VInt 7; VStr [119;97;114;109;105;110;103]] /\
  python_outputs w_chain [0%nat; 0%nat] = Some [VList [VInt 1; VInt 0; VInt 1; VInt 0]; VInt 4; VStr [105;100;108;101]] /\
  (* the same chain followed by a fold of the re-assigned name (finding F-C03-stale-reassign-in-branch): inside the guard
     now, the length is read at run time on each of the three paths *)
  is_fresh (w_chain ++ [SObs (OLen n_msg)]) = true /\
  firmware_outputs (w_chain ++ [SObs (OLen n_msg)]) [1%nat] = python_outputs (w_chain ++ [SObs (OLen n_msg)]) [1%nat] /\
  firmware_outputs (w_chain ++ [SObs (OLen n_msg)]) [0%nat; 1%nat] = python_outputs (w_chain ++ [SObs (OLen n_msg)]) [0%nat; 1%nat] /\
  python_outputs (w_chain ++ [SObs (OLen n_msg)]) [0%nat; 1%nat] =
    Some [VList [VInt 1; VInt 0; VInt 1; VInt 0]; VInt 7; VStr [119;97;114;109;105;110;103]; VInt 7].
Proof. vm_compute. repeat split; reflexivity. Qed.

(* every branch gets its own copy of the tracked lists: a list appended in the first branch is NOT seen by the sibling
   branch (the sibling form of finding F-C03-shared-list-append) *)
Definition w_sibling_list : list stmt :=
  [ SAssign n_pat (EList [EInt 1; EInt 0]);
    SIf [SAppend n_pat (EInt 1)] [SObs (OFlash n_pat)] ].
Lemma sibling_list_repaired :
  firmware_outputs w_sibling_list [0%nat] = Some [VList [VInt 1; VInt 0]] /\
  python_outputs w_sibling_list [0%nat] = Some [VList [VInt 1; VInt 0]] /\ is_fresh w_sibling_list = true.
Proof. vm_compute. repeat split; reflexivity. Qed.

(* def pad(msg): mon.write(len(msg)); mon.write(len(s))   with module constants msg and s: the parameter is unknown *)
Definition w_def_prefix : list stmt := [SAssign n_msg (EStr [105;100;108;101]); SAssign n_s (EStr [97;98])].
Definition w_def_body : list stmt := [SObs (OLen n_msg); SObs (OLen n_s); SAssign n_q (EStr [120]); SObs (OLen n_q)].
Lemma def_nonvacuous :
  def_ok w_def_prefix [n_msg] w_def_body [SAssign n_v (EInt 1)] [] = true /\
  python_call_outputs w_def_prefix [n_msg] w_def_body [SAssign n_v (EInt 1)] [VStr [97;98;99;100;101;102;103]] [] =
    Some ([], [VInt 7; VInt 2; VInt 1]) /\
  python_call_outputs w_def_prefix [n_msg] w_def_body [SAssign n_v (EInt 1)] [VList [VInt 1]] [] = Some ([], [VInt 1; VInt 2; VInt 1]) /\
  (* len(s) of the module constant s (bound once) and len(q) of the local are folded into the body, len(msg) is not *)
  option_map (fun r => match r with (_, rb, _) => rb end) (tdef w_def_prefix [n_msg] w_def_body [SAssign n_v (EInt 1)] []) =
    Some [SObs (OLen n_msg); SEmit (VInt 2); SAssign n_q (EStr [120]); SEmit (VInt 1)].
Proof. vm_compute. repeat split; reflexivity. Qed.

(* s = 'ab'; def f(q): mon.write(len(s)); s = 'abcdef'; f(0)   (finding F-C03-def-time-global): s is bound at two sites
   of the script, so the body reads its length at run time - 6, as Python; inside the guard.  The same holds when the
   second assignment comes AFTER the call (only the number of binding sites counts): conservative *)
Lemma def_time_global_repaired :
  firmware_call_outputs w_def_prefix [n_q] [SObs (OLen n_s)] [SAssign n_s (EStr [97;98;99;100;101;102])] [] [VInt 0] [] = Some ([], [VInt 6]) /\
  python_call_outputs w_def_prefix [n_q] [SObs (OLen n_s)] [SAssign n_s (EStr [97;98;99;100;101;102])] [VInt 0] [] = Some ([], [VInt 6]) /\
  def_ok w_def_prefix [n_q] [SObs (OLen n_s)] [SAssign n_s (EStr [97;98;99;100;101;102])] [] = true /\
  option_map (fun r => match r with (_, rb, _) => rb end)
    (tdef w_def_prefix [n_q] [SObs (OLen n_s)] [SAssign n_s (EStr [97;98;99;100;101;102])] []) = Some [SObs (OLen n_s)] /\
  option_map (fun r => match r with (_, rb, _) => rb end)
    (tdef w_def_prefix [n_q] [SObs (OLen n_s)] [] [SAssign n_s (EStr [97;98;99;100;101;102])]) = Some [SObs (OLen n_s)] /\
  option_map (fun r => match r with (_, rb, _) => rb end) (tdef w_def_prefix [n_q] [SObs (OLen n_s)] [] []) = Some [SEmit (VInt 2)].
Proof. vm_compute. repeat split; reflexivity. Qed.

(* what a function body writes is volatile at module level from the def on: pat = [1, 0]; def f(q): pat.append(q);
   then pat = [1] and mon.write(len(pat)) at module level - the length is read at run time (the function may have run) *)
Lemma def_written_is_volatile :
  option_map (fun r => match r with (_, _, rm) => rm end)
    (tdef [SAssign n_pat (EList [EInt 1; EInt 0])] [n_q] [SAppend n_pat (EName n_q)]
          [SObs (OLen n_pat); SAssign n_pat (EList [EInt 1]); SObs (OLen n_pat)] []) =
    Some [SObs (OLen n_pat); SAssign n_pat (EList [EInt 1]); SObs (OLen n_pat)] /\
  def_ok [SAssign n_pat (EList [EInt 1; EInt 0])] [n_q] [SAppend n_pat (EName n_q)]
         [SObs (OLen n_pat); SAssign n_pat (EList [EInt 1]); SObs (OLen n_pat)] [] = true.
Proof. vm_compute. repeat split; reflexivity. Qed.

(* len(name) inside a right-hand side: after a branch that re-assigns s the environment no longer knows s, so the
   translation of  q = len(s) + 1  reads the length at run time (the model keeps right-hand sides symbolic; what the real
   translation folds inside them is justified by C03_literal_length_sound and C03_env_agrees) *)
Definition w_rhs_len (branch : list stmt) : list stmt :=
  [ SAssign n_s (EStr [97;98]); SIf branch [];
    SAssign n_q (EBin Add (ECall n_len [EName n_s] []) (EInt 1)); SObs (OVal n_q) ].
Lemma rhs_len_fold_site :
  is_fresh (w_rhs_len [SAssign n_s (EStr [97;98;99;100])]) = true /\
  python_outputs (w_rhs_len [SAssign n_s (EStr [97;98;99;100])]) [1%nat] = Some [VInt 5] /\
  firmware_outputs (w_rhs_len [SAssign n_s (EStr [97;98;99;100])]) [1%nat] = Some [VInt 5] /\
  firmware_outputs (w_rhs_len [SAssign n_s (EStr [97;98;99;100])]) [0%nat] = Some [VInt 3].
Proof. vm_compute. repeat split; reflexivity. Qed.
