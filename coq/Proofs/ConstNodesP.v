(* Emission after parsing = the snapshot residual of ConstEnv.tblock, because every pattern node owns its list. *)
From Coq Require Import ZArith QArith List Bool Lia Arith.
From RV Require Import Base.Wire Base.Text Lang.PyAst Lang.PySem Gen.SafeCasts Lang.ConstEval Lang.ConstEnv Lang.ConstFlow Lang.ConstNodes
  Proofs.ConstEvalP Proofs.ConstEnvP Proofs.ConstEnvFreshP Proofs.ConstFlowP.
Import ListNotations.
Open Scope Z_scope.

Local Notation tstep := (ConstEnv.tstep []).
Local Notation tblock := (ConstEnv.tblock []).
Lemma tstep_simple0 s te st : simple s -> tstep s te st = tsimple s te st.
Proof.
  intro H. rewrite tstep_simple by exact H. destruct (tsimple s te st) as [[[[te1 st1] r1] f1]|]; [|reflexivity].
  destruct s; try reflexivity; contradiction.
Qed.

Lemma nstep_if al a b te st nh : nstep al (SIf a b) te st nh =
  match nblock al a te st nh with
  | Some (te1, _, nh1, r1) =>
      match nblock al b te st nh1 with
      | Some (te2, _, nh2, r2) =>
          Some (forget (writes (SIf a b)) (promote (promote te te1 []) te2 []), st, nh2, [RIf r1 r2])
      | None => None end
  | None => None end.
Proof. reflexivity. Qed.
Lemma nstep_while al a te st nh : nstep al (SWhile a) te st nh =
  match nblock al a (forget (writes (SWhile a)) te) st nh with
  | Some (te1, _, nh1, r1) => Some (promote (forget (writes (SWhile a)) te) te1 [], st, nh1, [RWhile r1])
  | None => None end.
Proof. reflexivity. Qed.
Lemma nstep_for al x a te st nh : nstep al (SFor x a) te st nh =
  match nblock al a ((x, TMark) :: forget (writes (SFor x a)) te) st nh with
  | Some (te1, _, nh1, r1) => Some (promote (forget (writes (SFor x a)) te) te1 [x], st, nh1, [RFor x r1])
  | None => None end.
Proof. reflexivity. Qed.
Lemma nstep_simple al s te st nh : simple s -> nstep al s te st nh = nsimple al s te st nh.
Proof. destruct s; cbn; intro H; try contradiction; reflexivity. Qed.
Lemma nblock_cons al s r te st nh : nblock al (s :: r) te st nh =
  match nstep al s te st nh with
  | Some (te1, st1, nh1, r1) =>
      match nblock al r te1 st1 nh1 with Some (te2, st2, nh2, r2) => Some (te2, st2, nh2, r1 ++ r2) | None => None end
  | None => None end.
Proof. reflexivity. Qed.

Lemma resolve_if st nh a b : resolve st nh (RIf a b) = SIf (resolve_block st nh a) (resolve_block st nh b).
Proof. reflexivity. Qed.
Lemma resolve_while st nh a : resolve st nh (RWhile a) = SWhile (resolve_block st nh a).
Proof. reflexivity. Qed.
Lemma resolve_for st nh x a : resolve st nh (RFor x a) = SFor x (resolve_block st nh a).
Proof. reflexivity. Qed.
Lemma resolve_block_cons st nh x r : resolve_block st nh (x :: r) = resolve st nh x :: resolve_block st nh r.
Proof. reflexivity. Qed.
Lemma resolve_block_app st nh a : forall b, resolve_block st nh (a ++ b) = resolve_block st nh a ++ resolve_block st nh b.
Proof. induction a as [|x r IH]; intro b; [reflexivity|]. cbn [app]. rewrite !resolve_block_cons, IH. reflexivity. Qed.
Lemma resolve_rstmt st nh l : resolve_block st nh (map RStmt l) = l.
Proof. induction l as [|x r IH]; [reflexivity|]. cbn [map]. rewrite resolve_block_cons, IH. reflexivity. Qed.

Definition prefix (a b : nheap) : Prop := exists m, b = a ++ m.
Lemma prefix_refl a : prefix a a. Proof. exists []. rewrite app_nil_r. reflexivity. Qed.
Lemma prefix_trans a b c : prefix a b -> prefix b c -> prefix a c.
Proof. intros [m ->] [n ->]. exists (m ++ n). rewrite app_assoc. reflexivity. Qed.
Lemma prefix_snoc a x : prefix a (a ++ [x]). Proof. exists [x]. reflexivity. Qed.
Lemma prefix_nth a x b : prefix (a ++ [x]) b -> nth (length a) b [] = x.
Proof. intros [m ->]. rewrite <- app_assoc. rewrite app_nth2 by lia. rewrite Nat.sub_diag. reflexivity. Qed.

(* what one statement / one block does in the two models *)
Definition rel (t : tres) (n : nres) (nh : nheap) : Prop :=
  match t with
  | Some (te1, st1, res, _) =>
      exists nh1 r, n = Some (te1, st1, nh1, r) /\ prefix nh nh1 /\
                    forall st' nh', prefix nh1 nh' -> resolve_block st' nh' r = res
  | None => n = None
  end.
Definition nsim_stmt (s : stmt) : Prop := forall te st nh, rel (tstep s te st) (nstep false s te st nh) nh.
Definition nsim_blk (b : list stmt) : Prop := forall te st nh, rel (tblock b te st) (nblock false b te st nh) nh.

Lemma nsim_block b : Forall nsim_stmt b -> nsim_blk b.
Proof.
  induction 1 as [|s r Hs _ IH]; intros te st nh.
  - cbn. exists nh, []. split; [reflexivity|]. split; [apply prefix_refl|reflexivity].
  - rewrite tblock_cons, nblock_cons. specialize (Hs te st nh). unfold rel in Hs.
    destruct (tstep s te st) as [[[[te1 st1] r1] f1]|]; [|rewrite Hs; reflexivity].
    destruct Hs as (nh1 & n1 & -> & P1 & R1).
    specialize (IH te1 st1 nh1). unfold rel in IH.
    destruct (tblock r te1 st1) as [[[[te2 st2] r2] f2]|]; [|rewrite IH; reflexivity].
    destruct IH as (nh2 & n2 & -> & P2 & R2).
    exists nh2, (n1 ++ n2). split; [reflexivity|]. split; [eapply prefix_trans; eassumption|].
    intros st' nh' P. rewrite resolve_block_app, R2 by exact P. rewrite R1; [reflexivity|]. eapply prefix_trans; eassumption.
Qed.

Lemma nsim_plain s : simple s -> (forall x, s <> SObs (OFlash x)) ->
  forall te st nh, nsimple false s te st nh = match tsimple s te st with Some (te', st', r, _) => Some (te', st', nh, map RStmt r) | None => None end.
Proof.
  intros Hs NF te st nh. destruct s as [x e|x e|x e|o|v| | | |x op e]; try contradiction; try reflexivity.
  destruct o as [x|x|ge|x]; try reflexivity. elim (NF x). reflexivity.
Qed.

Lemma nsim_simple s : simple s -> nsim_stmt s.
Proof.
  intros Hs te st nh. rewrite tstep_simple0, nstep_simple by exact Hs.
  assert (PL : (forall x, s <> SObs (OFlash x)) -> rel (tsimple s te st) (nsimple false s te st nh) nh).
  { intro NF. rewrite (nsim_plain s Hs NF). unfold rel.
    destruct (tsimple s te st) as [[[[te1 st1] r1] f1]|]; [|reflexivity].
    exists nh, (map RStmt r1). split; [reflexivity|]. split; [apply prefix_refl|]. intros. apply resolve_rstmt. }
  destruct s as [x e|x e|x e|o|v| | | |x op e]; try contradiction; try (apply PL; intros; discriminate).
  destruct o as [x|x|ge|x]; try (apply PL; intros; discriminate).
  (* flash_pattern(x): a fresh node object *)
  cbn [tsimple nsimple]. unfold rel.
  destruct (tlookup x te) as [[v0|l|]|]; try reflexivity.
  - destruct v0; try reflexivity. destruct (forallb is_num_entry l); [|reflexivity]. cbn [andb].
    exists (nh ++ [l]), [RFlash (PNode (length nh))]. split; [reflexivity|]. split; [apply prefix_snoc|].
    intros st' nh' P. cbn. rewrite (prefix_nth _ _ _ P). reflexivity.
  - destruct (forallb is_num_entry (nth l st [])); [|reflexivity]. cbn [andb].
    exists (nh ++ [nth l st []]), [RFlash (PNode (length nh))]. split; [reflexivity|]. split; [apply prefix_snoc|].
    intros st' nh' P. cbn. rewrite (prefix_nth _ _ _ P). reflexivity.
Qed.

Lemma nsim_all : forall s, nsim_stmt s.
Proof.
  apply stmt_ind'; try (intros; apply nsim_simple; exact I).
  - (* if *)
    intros a b Fa Fb te st nh. rewrite tstep_if, nstep_if.
    pose proof (nsim_block a Fa te st nh) as Ha. unfold rel in Ha.
    destruct (tblock a te st) as [[[[te1 st1] r1] f1]|]; [|rewrite Ha; reflexivity].
    destruct Ha as (nh1 & n1 & -> & P1 & R1).
    pose proof (nsim_block b Fb te st nh1) as Hb. unfold rel in Hb.
    destruct (tblock b te st) as [[[[te2 st2] r2] f2]|]; [|rewrite Hb; reflexivity].
    destruct Hb as (nh2 & n2 & -> & P2 & R2).
    unfold rel. exists nh2, [RIf n1 n2]. split; [reflexivity|]. split; [eapply prefix_trans; eassumption|].
    intros st' nh' P. rewrite resolve_block_cons, resolve_if, R2 by exact P. rewrite R1; [reflexivity|]. eapply prefix_trans; eassumption.
  - (* while *)
    intros a Fa te st nh. rewrite tstep_while, nstep_while.
    pose proof (nsim_block a Fa (forget (writes (SWhile a)) te) st nh) as Ha. unfold rel in Ha.
    destruct (tblock a (forget (writes (SWhile a)) te) st) as [[[[te1 st1] r1] f1]|]; [|rewrite Ha; reflexivity].
    destruct Ha as (nh1 & n1 & -> & P1 & R1).
    unfold rel. exists nh1, [RWhile n1]. split; [reflexivity|]. split; [exact P1|].
    intros st' nh' P. rewrite resolve_block_cons, resolve_while, R1 by exact P. reflexivity.
  - (* for *)
    intros x a Fa te st nh. rewrite tstep_for, nstep_for.
    pose proof (nsim_block a Fa ((x, TMark) :: forget (writes (SFor x a)) te) st nh) as Ha. unfold rel in Ha.
    destruct (tblock a ((x, TMark) :: forget (writes (SFor x a)) te) st) as [[[[te1 st1] r1] f1]|]; [|rewrite Ha; reflexivity].
    destruct Ha as (nh1 & n1 & -> & P1 & R1).
    unfold rel. exists nh1, [RFor x n1]. split; [reflexivity|]. split; [exact P1|].
    intros st' nh' P. rewrite resolve_block_cons, resolve_for, R1 by exact P. reflexivity.
Qed.

(* parse everything, then emit: the emitted program is the residual with the lists as they were at each call *)
Theorem emitted_is_snapshot : forall p,
  emitted false p = match tblock p [] [] with Some (_, _, res, _) => Some res | None => None end.
Proof.
  intro p. unfold emitted.
  pose proof (nsim_block p (proj2 (Forall_forall _ _) (fun s _ => nsim_all s)) [] [] []) as H. unfold rel in H.
  destruct (tblock p [] []) as [[[[te1 st1] r1] f1]|]; [|rewrite H; reflexivity].
  destruct H as (nh1 & n1 & -> & _ & R). rewrite R by apply prefix_refl. reflexivity.
Qed.

Theorem ir_firmware_eq : forall p orc, firmware_outputs_ir false p orc = firmware_outputs p orc.
Proof.
  intros p orc. unfold firmware_outputs_ir, firmware_outputs. rewrite emitted_is_snapshot.
  destruct (tblock p [] []) as [[[[te1 st1] r1] f1]|]; reflexivity.
Qed.

(* so the simulation theorem holds for the two-phase pipeline *)
Theorem ir_fresh_sound : forall p orc out,
  is_fresh p = true -> python_outputs p orc = Some out -> firmware_outputs_ir false p orc = Some out.
Proof. intros p orc out F P. rewrite ir_firmware_eq. apply env_fresh; assumption. Qed.

(* the aliasing shortcut: every flash_pattern(pat) call bakes in the FINAL contents of pat *)
Lemma alias_refuted :
  firmware_outputs_ir true w_flash_mut [] =
    Some [VList [VInt 0; VInt 1; VInt 0; VInt 128]; VList [VInt 0; VInt 1; VInt 0; VInt 128]; VList [VInt 0; VInt 1; VInt 0; VInt 128]] /\
  python_outputs w_flash_mut [] =
    Some [VList [VInt 1; VInt 0; VInt 1]; VList [VInt 1; VInt 0; VInt 1; VInt 0; VInt 128]; VList [VInt 0; VInt 1; VInt 0; VInt 128]] /\
  firmware_outputs_ir false w_flash_mut [] = python_outputs w_flash_mut [] /\ is_fresh w_flash_mut = true /\
  (* a mutation in a branch that is not taken works on the branch's private copy: it reaches neither pipeline *)
  firmware_outputs_ir true w_flash_branch [0%nat] = Some [VList [VInt 255; VInt 0]] /\
  python_outputs w_flash_branch [0%nat] = Some [VList [VInt 255; VInt 0]] /\
  firmware_outputs_ir false w_flash_branch [0%nat] = Some [VList [VInt 255; VInt 0]] /\ is_fresh w_flash_branch = true.
Proof. vm_compute. repeat split; reflexivity. Qed.
