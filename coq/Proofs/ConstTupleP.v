(* Tuple assignment through temporaries (Lang/ConstTuple.v) is Python's simultaneous assignment. *)
From Coq Require Import ZArith QArith List Bool Lia Arith.
From RV Require Import Base.Wire Base.Text Lang.PyAst Lang.PySem Gen.SafeCasts Lang.ConstEval Lang.ConstEnv Lang.ConstTuple
  Proofs.ConstEvalP Proofs.ConstEnvP Proofs.ConstEnvFreshP.
Import ListNotations.
Open Scope Z_scope.

(* ---------------- evaluating an expression only looks at the names it reads ---------------- *)
Definition r_any (t : ident) := fix any (l : list pexpr) : bool := match l with [] => false | x :: r => reads t x || any r end.
Lemma rd_bin t op a b : reads t (EBin op a b) = reads t a || reads t b. Proof. reflexivity. Qed.
Lemma rd_boolop t op vs : reads t (EBoolOp op vs) = r_any t vs. Proof. reflexivity. Qed.
Lemma rd_cmp t l ops rs : reads t (ECompare l ops rs) = reads t l || r_any t rs. Proof. reflexivity. Qed.
Lemma rd_if t c a b : reads t (EIfExp c a b) = reads t c || reads t a || reads t b. Proof. reflexivity. Qed.
Lemma rd_joined t ps : reads t (EJoined ps) = r_any t ps. Proof. reflexivity. Qed.
Lemma rd_call t f args kws : reads t (ECall f args kws) = text_eqb t f || r_any t args. Proof. reflexivity. Qed.
Lemma rd_list t es : reads t (EList es) = r_any t es. Proof. reflexivity. Qed.
Lemma rd_tuple t es : reads t (ETuple es) = r_any t es. Proof. reflexivity. Qed.
Lemma rd_sub t v i : reads t (ESubscript v i) = reads t v || reads t i. Proof. reflexivity. Qed.
Lemma r_any_cons t x r : r_any t (x :: r) = reads t x || r_any t r. Proof. reflexivity. Qed.
Lemma pe_sub rho v i : peval rho (ESubscript v i) = do x <- peval rho v; do k <- peval rho i; py_index x k.
Proof. reflexivity. Qed.

Definition same_on (P : ident -> bool) (rho rho' : env) : Prop := forall x, P x = true -> lookup x rho' = lookup x rho.
Definition fr (e : pexpr) : Prop := forall rho rho', same_on (fun x => reads x e) rho rho' -> peval rho' e = peval rho e.
Definition fr2 (e : pexpr) : Prop := fr e /\ match e with EFmt _ v => fr v | _ => True end.

Lemma same_on_weaken (P Q : ident -> bool) rho rho' : (forall x, Q x = true -> P x = true) -> same_on P rho rho' -> same_on Q rho rho'.
Proof. intros S H x Hx. apply H, S, Hx. Qed.

Lemma fr_evals l : Forall fr2 l -> forall rho rho', same_on (fun x => r_any x l) rho rho' -> p_evals rho' l = p_evals rho l.
Proof.
  induction 1 as [|e r He _ IH]; intros rho rho' S; [reflexivity|].
  rewrite !p_evals_cons.
  rewrite (proj1 He rho rho'); [|eapply same_on_weaken; [|exact S]; intros x Hx; cbv beta in Hx |- *; rewrite r_any_cons, Hx; reflexivity].
  rewrite (IH rho rho'); [reflexivity|].
  eapply same_on_weaken; [|exact S]. intros x Hx. cbv beta in Hx |- *. rewrite r_any_cons, Hx. apply orb_true_r.
Qed.

Lemma p_evand_cons rho x r last : p_evand rho (x :: r) last = do v <- peval rho x; if truthy v then p_evand rho r v else Ok v.
Proof. reflexivity. Qed.
Lemma p_evor_cons rho x r last : p_evor rho (x :: r) last = do v <- peval rho x; if truthy v then Ok v else p_evor rho r v.
Proof. reflexivity. Qed.
Lemma fr_evand l : Forall fr2 l -> forall rho rho' last, same_on (fun x => r_any x l) rho rho' -> p_evand rho' l last = p_evand rho l last.
Proof.
  induction 1 as [|e r He _ IH]; intros rho rho' last S; [reflexivity|].
  rewrite !p_evand_cons.
  rewrite (proj1 He rho rho'); [|eapply same_on_weaken; [|exact S]; intros x Hx; cbv beta in Hx |- *; rewrite r_any_cons, Hx; reflexivity].
  destruct (peval rho e) as [v|]; [|reflexivity]. cbn [bind]. destruct (truthy v); [|reflexivity].
  apply IH. eapply same_on_weaken; [|exact S]. intros x Hx. cbv beta in Hx |- *. rewrite r_any_cons, Hx. apply orb_true_r.
Qed.
Lemma fr_evor l : Forall fr2 l -> forall rho rho' last, same_on (fun x => r_any x l) rho rho' -> p_evor rho' l last = p_evor rho l last.
Proof.
  induction 1 as [|e r He _ IH]; intros rho rho' last S; [reflexivity|].
  rewrite !p_evor_cons.
  rewrite (proj1 He rho rho'); [|eapply same_on_weaken; [|exact S]; intros x Hx; cbv beta in Hx |- *; rewrite r_any_cons, Hx; reflexivity].
  destruct (peval rho e) as [v|]; [|reflexivity]. cbn [bind]. destruct (truthy v); [reflexivity|].
  apply IH. eapply same_on_weaken; [|exact S]. intros x Hx. cbv beta in Hx |- *. rewrite r_any_cons, Hx. apply orb_true_r.
Qed.
Lemma p_chain_cons rho left op ops r rs : p_chain rho left (op :: ops) (r :: rs) =
  do rv <- peval rho r; do c <- py_cmp op left rv; if c then p_chain rho rv ops rs else Ok (VBool false).
Proof. reflexivity. Qed.
Lemma fr_chain l : Forall fr2 l -> forall rho rho' left ops, same_on (fun x => r_any x l) rho rho' ->
  p_chain rho' left ops l = p_chain rho left ops l.
Proof.
  induction 1 as [|e r He _ IH]; intros rho rho' left ops S; [destruct ops; reflexivity|].
  destruct ops as [|op ops]; [reflexivity|].
  rewrite !p_chain_cons.
  rewrite (proj1 He rho rho'); [|eapply same_on_weaken; [|exact S]; intros x Hx; cbv beta in Hx |- *; rewrite r_any_cons, Hx; reflexivity].
  destruct (peval rho e) as [v|]; [|reflexivity]. cbn [bind].
  destruct (py_cmp op left v) as [c|]; [|reflexivity]. cbn [bind]. destruct c; [|reflexivity].
  apply IH. eapply same_on_weaken; [|exact S]. intros x Hx. cbv beta in Hx |- *. rewrite r_any_cons, Hx. apply orb_true_r.
Qed.
Lemma p_joined_cons rho p r : p_joined rho (p :: r) = do s <- p_part rho p; do t <- p_joined rho r; Ok (s ++ t).
Proof. reflexivity. Qed.
Lemma fr_part e : fr2 e -> forall rho rho', same_on (fun x => reads x e) rho rho' -> p_part rho' e = p_part rho e.
Proof.
  intros [_ H2] rho rho' S. destruct e; try reflexivity. destruct ok; [|reflexivity].
  cbn [p_part]. rewrite (H2 rho rho'); [reflexivity|]. exact S.
Qed.
Lemma fr_joined l : Forall fr2 l -> forall rho rho', same_on (fun x => r_any x l) rho rho' -> p_joined rho' l = p_joined rho l.
Proof.
  induction 1 as [|e r He _ IH]; intros rho rho' S; [reflexivity|].
  rewrite !p_joined_cons.
  rewrite (fr_part e He rho rho'); [|eapply same_on_weaken; [|exact S]; intros x Hx; cbv beta in Hx |- *; rewrite r_any_cons, Hx; reflexivity].
  rewrite (IH rho rho'); [reflexivity|].
  eapply same_on_weaken; [|exact S]. intros x Hx. cbv beta in Hx |- *. rewrite r_any_cons, Hx. apply orb_true_r.
Qed.

Lemma fr2_all : forall e, fr2 e.
Proof.
  apply pexpr_ind'; try (intros; split; [intros rho rho' S; reflexivity|exact I]).
  - (* name *) intros x. split; [|exact I]. intros rho rho' S. rewrite !peval_name. rewrite (S x); [reflexivity|]. cbn. apply text_eqb_refl.
  - (* bin *) intros op a b [Ha _] [Hb _]. split; [|exact I]. intros rho rho' S. rewrite !pe_bin.
    rewrite (Ha rho rho'), (Hb rho rho'); [reflexivity| |]; eapply same_on_weaken; [|exact S| |exact S]; intros x Hx; cbv beta in Hx |- *; rewrite rd_bin, Hx; [apply orb_true_r|reflexivity].
  - (* un *) intros op a [Ha _]. split; [|exact I]. intros rho rho' S. rewrite !pe_un. rewrite (Ha rho rho'); [reflexivity|exact S].
  - (* boolop *) intros op vs F. split; [|exact I]. intros rho rho' S. destruct op.
    + rewrite !pe_and. apply fr_evand; [exact F|exact S].
    + rewrite !pe_or. apply fr_evor; [exact F|exact S].
  - (* compare *) intros l ops rs [Hl _] F. split; [|exact I]. intros rho rho' S. rewrite !pe_cmp.
    destruct ops as [|op ops]; [reflexivity|].
    rewrite (Hl rho rho'); [|eapply same_on_weaken; [|exact S]; intros x Hx; cbv beta in Hx |- *; rewrite rd_cmp, Hx; reflexivity].
    destruct (peval rho l) as [lv|]; [|reflexivity]. cbn [bind].
    apply fr_chain; [exact F|]. eapply same_on_weaken; [|exact S]. intros x Hx. cbv beta in Hx |- *. rewrite rd_cmp, Hx. apply orb_true_r.
  - (* ifexp *) intros c a b [Hc _] [Ha _] [Hb _]. split; [|exact I]. intros rho rho' S. rewrite !pe_if.
    rewrite (Hc rho rho'); [|eapply same_on_weaken; [|exact S]; intros x Hx; cbv beta in Hx |- *; rewrite rd_if, Hx; reflexivity].
    destruct (peval rho c) as [cv|]; [|reflexivity]. cbn [bind]. destruct (truthy cv).
    + apply Ha. eapply same_on_weaken; [|exact S]. intros x Hx. cbv beta in Hx |- *. rewrite rd_if, Hx. rewrite orb_true_r. reflexivity.
    + apply Hb. eapply same_on_weaken; [|exact S]. intros x Hx. cbv beta in Hx |- *. rewrite rd_if, Hx. apply orb_true_r.
  - (* joined *) intros ps F. split; [|exact I]. intros rho rho' S. rewrite !pe_joined. rewrite (fr_joined ps F rho rho'); [reflexivity|exact S].
  - (* fmt *) intros ok v [Hv _]. split; [intros rho rho' S; reflexivity|exact Hv].
  - (* call *) intros f args kws F _. split; [|exact I]. intros rho rho' S. destruct kws; [|reflexivity].
    rewrite !pe_call. rewrite (S f); [|rewrite rd_call, text_eqb_refl; reflexivity].
    destruct (lookup f rho); [reflexivity|].
    rewrite (fr_evals args F rho rho'); [reflexivity|]. eapply same_on_weaken; [|exact S]. intros x Hx. cbv beta in Hx |- *. rewrite rd_call, Hx. apply orb_true_r.
  - (* list *) intros es F. split; [|exact I]. intros rho rho' S. rewrite !pe_list. rewrite (fr_evals es F rho rho'); [reflexivity|exact S].
  - (* tuple *) intros es F. split; [|exact I]. intros rho rho' S. rewrite !pe_tuple. rewrite (fr_evals es F rho rho'); [reflexivity|exact S].
  - (* subscript *) intros v i [Hv _] [Hi _]. split; [|exact I]. intros rho rho' S. rewrite !pe_sub.
    rewrite (Hv rho rho'), (Hi rho rho'); [reflexivity| |]; eapply same_on_weaken; [|exact S| |exact S]; intros x Hx; cbv beta in Hx |- *; rewrite rd_sub, Hx; [apply orb_true_r|reflexivity].
Qed.

Theorem peval_frame : forall e rho rho', (forall x, reads x e = true -> lookup x rho' = lookup x rho) -> peval rho' e = peval rho e.
Proof. intros e rho rho' S. apply (proj1 (fr2_all e)). exact S. Qed.

(* ---------------- a run of single assignments ---------------- *)
Fixpoint seq_assign (xs : list ident) (es : list pexpr) (rho : env) : option env :=
  match xs, es with
  | x :: xr, e :: er => match peval rho e with Ok v => seq_assign xr er ((x, v) :: rho) | Err _ => None end
  | _, _ => Some rho
  end.
Lemma rblock_assign_all xs : forall es rho orc,
  rblock (assign_all xs es) orc rho = match seq_assign xs es rho with Some r => Some (r, [], orc) | None => None end.
Proof.
  induction xs as [|x xr IH]; intros es rho orc; [reflexivity|].
  destruct es as [|e er]; [reflexivity|].
  cbn [assign_all seq_assign]. rewrite rblock_cons, rstep_simple by exact I. cbn [rsimple].
  destruct (peval rho e) as [v|]; [|reflexivity].
  rewrite IH. destruct (seq_assign xr er ((x, v) :: rho)); reflexivity.
Qed.

Lemma bind_all_notin ts : forall vs rho y, ~ In y ts -> lookup y (bind_all ts vs rho) = lookup y rho.
Proof.
  induction ts as [|t tr IH]; intros vs rho y N; [reflexivity|].
  destruct vs as [|v vr]; [reflexivity|]. cbn [bind_all].
  rewrite IH by (intro; apply N; right; assumption).
  unfold lookup. apply tl_ne. intro; subst; apply N; left; reflexivity.
Qed.
Lemma bind_all_congr (P : ident -> Prop) xs : forall vs r1 r2,
  (forall y, P y -> lookup y r1 = lookup y r2) -> forall y, P y -> lookup y (bind_all xs vs r1) = lookup y (bind_all xs vs r2).
Proof.
  induction xs as [|x xr IH]; intros vs r1 r2 H y Py; [apply H, Py|].
  destruct vs as [|v vr]; [apply H, Py|]. cbn [bind_all].
  apply IH; [|exact Py]. intros z Pz. unfold lookup. destruct (teq_dec z x) as [->|N].
  - rewrite !tl_eq. reflexivity.
  - rewrite !tl_ne by exact N. apply H, Pz.
Qed.

Lemma nodupb_NoDup l : nodupb l = true -> NoDup l.
Proof.
  induction l as [|x r IH]; cbn; intro H; constructor; apply andb_true_iff in H; destruct H as [H1 H2].
  - apply negb_true_iff in H1. intro I. apply tmem_in in I. congruence.
  - apply IH, H2.
Qed.

(* the temporaries hold the values of the right-hand sides *)
Lemma temps_hold ts : forall vs rho, NoDup ts -> length ts = length vs ->
  Forall2 (fun t v => lookup t (bind_all ts vs rho) = Some v) ts vs.
Proof.
  induction ts as [|t tr IH]; intros vs rho ND L; destruct vs as [|v vr]; try discriminate; constructor.
  - cbn [bind_all]. inversion ND; subst. rewrite bind_all_notin by assumption. unfold lookup. apply tl_eq.
  - cbn [bind_all]. inversion ND; subst. apply IH; [assumption|]. cbn in L. lia.
Qed.

(* phase 1: every right-hand side is evaluated in the environment of before the statement *)
Lemma phase1 ts : forall es rho0 rho, length ts = length es ->
  (forall e, In e es -> forall x, reads x e = true -> lookup x rho0 = lookup x rho) ->
  (forall t e, In t ts -> In e es -> reads t e = false) ->
  seq_assign ts es rho0 = match peval_all rho es with Some vs => Some (bind_all ts vs rho0) | None => None end.
Proof.
  induction ts as [|t tr IH]; intros es rho0 rho L S Fr; destruct es as [|e er]; try discriminate; [reflexivity|].
  cbn [seq_assign peval_all].
  rewrite (peval_frame e rho rho0) by (intros x Hx; apply (S e); [left; reflexivity|exact Hx]).
  destruct (peval rho e) as [v|]; [|reflexivity].
  rewrite (IH er ((t, v) :: rho0) rho).
  - destruct (peval_all rho er); reflexivity.
  - cbn in L. lia.
  - intros e' He' x Hx. unfold lookup. rewrite tl_ne; [apply (S e'); [right; exact He'|exact Hx]|].
    intro; subst x. rewrite (Fr t e') in Hx; [discriminate|left; reflexivity|right; exact He'].
  - intros t' e' Ht' He'. apply Fr; right; assumption.
Qed.

(* phase 2: the targets are bound, left to right, to the values the temporaries hold *)
Lemma phase2 xs : forall ts vs rho2, length xs = length ts ->
  Forall2 (fun t v => lookup t rho2 = Some v) ts vs -> (forall t, In t ts -> ~ In t xs) ->
  seq_assign xs (map EName ts) rho2 = Some (bind_all xs vs rho2).
Proof.
  induction xs as [|x xr IH]; intros ts vs rho2 L F D; [reflexivity|].
  destruct ts as [|t tr]; [discriminate|]. inversion F as [|t0 v ts0 vr Hv Fr]; subst.
  cbn [map seq_assign bind_all]. rewrite peval_name, Hv.
  apply IH; [cbn in L; lia| |intros t' Ht' I'; apply (D t'); [right; exact Ht'|right; exact I']].
  clear - Fr D. induction Fr as [|t' v' tr' vr' H' _ IHf]; constructor.
  - unfold lookup. rewrite tl_ne; [exact H'|]. intro; subst t'. apply (D x); [right; left; reflexivity|left; reflexivity].
  - apply IHf. intros t0 [->|Ht0]; [apply D; left; reflexivity|apply D; right; right; exact Ht0].
Qed.

Lemma peval_all_length rho es : forall vs, peval_all rho es = Some vs -> length vs = length es.
Proof.
  induction es as [|e r IH]; intros vs H; cbn in H; [inversion H; reflexivity|].
  destruct (peval rho e); [|discriminate]. destruct (peval_all rho r) as [vr|]; [|discriminate].
  inversion H; subst. cbn. f_equal. apply IH. reflexivity.
Qed.

Theorem tuple_assign_simultaneous : forall ts xs es rho rho' orc,
  tmps_fresh ts xs es = true -> length ts = length es ->
  py_tuple_assign xs es rho = Some rho' ->
  exists rho'', rblock (tuple_assign_with ts xs es) orc rho = Some (rho'', [], orc) /\
                forall y, ~ In y ts -> lookup y rho'' = lookup y rho'.
Proof.
  intros ts xs es rho rho' orc Fr L P. unfold py_tuple_assign in P.
  destruct (peval_all rho es) as [vs|] eqn:E; [|discriminate].
  destruct (Nat.eqb (length xs) (length vs)) eqn:LX; [|discriminate]. inversion P; subst rho'; clear P.
  apply Nat.eqb_eq in LX. pose proof (peval_all_length _ _ _ E) as LV.
  unfold tmps_fresh in Fr. apply andb_true_iff in Fr. destruct Fr as [ND Fr]. apply nodupb_NoDup in ND.
  rewrite forallb_forall in Fr.
  assert (D : forall t, In t ts -> ~ In t xs).
  { intros t Ht I'. specialize (Fr t Ht). apply andb_true_iff in Fr. destruct Fr as [F1 _]. apply negb_true_iff in F1.
    apply tmem_in in I'. congruence. }
  assert (R : forall t e, In t ts -> In e es -> reads t e = false).
  { intros t e Ht He. specialize (Fr t Ht). apply andb_true_iff in Fr. destruct Fr as [_ F2]. rewrite forallb_forall in F2.
    apply negb_true_iff. apply F2, He. }
  exists (bind_all xs vs (bind_all ts vs rho)). split.
  - unfold tuple_assign_with. rewrite rblock_app, rblock_assign_all.
    rewrite (phase1 ts es rho rho L (fun _ _ _ _ => eq_refl) R), E. cbv beta iota.
    rewrite rblock_assign_all.
    rewrite (phase2 xs ts vs); [reflexivity|lia|apply temps_hold; [exact ND|lia]|exact D].
  - intros y Ny. apply (bind_all_congr (fun z => ~ In z ts)); [|exact Ny].
    intros z Nz. apply bind_all_notin. exact Nz.
Qed.

(* Python leaves the statement undefined (an exception) when a right-hand side has no value: so does the block *)
Theorem tuple_assign_undefined : forall ts xs es rho orc,
  tmps_fresh ts xs es = true -> length ts = length es -> peval_all rho es = None ->
  rblock (tuple_assign_with ts xs es) orc rho = None.
Proof.
  intros ts xs es rho orc Fr L E. unfold tmps_fresh in Fr. apply andb_true_iff in Fr. destruct Fr as [_ Fr]. rewrite forallb_forall in Fr.
  assert (R : forall t e, In t ts -> In e es -> reads t e = false).
  { intros t e Ht He. specialize (Fr t Ht). apply andb_true_iff in Fr. destruct Fr as [_ F2]. rewrite forallb_forall in F2.
    apply negb_true_iff. apply F2, He. }
  unfold tuple_assign_with. rewrite rblock_app, rblock_assign_all.
  rewrite (phase1 ts es rho rho L (fun _ _ _ _ => eq_refl) R), E. reflexivity.
Qed.

(* ---------------- witnesses ---------------- *)
Definition swap_es : list pexpr := [EName n_tb; EName n_ta].
Definition rot_es : list pexpr := [EName n_tc; EName n_ta; EName n_tb].

(* inside the freshness guard; the folded lengths / glyph rows are those of the swapped values, and a second swap
   restores them *)
Lemma tuple_nonvacuous :
  tmps_fresh (tmp_names 0 2) [n_ta; n_tb] swap_es = true /\
  is_fresh (w_swap (tuple_assign 0 [n_ta; n_tb] swap_es)) = true /\
  python_outputs (w_swap (tuple_assign 0 [n_ta; n_tb] swap_es)) [] = Some [VInt 6; VInt 2] /\
  python_outputs (w_swap (tuple_assign 0 [n_ta; n_tb] swap_es ++ tuple_assign 2 [n_ta; n_tb] swap_es)) [] = Some [VInt 2; VInt 6] /\
  is_fresh (w_rot (tuple_assign 0 [n_ta; n_tb; n_tc] rot_es)) = true /\
  python_outputs (w_rot (tuple_assign 0 [n_ta; n_tb; n_tc] rot_es)) [] =
    Some [VTuple [VInt 9; VInt 4; VInt 17; VInt 0; VInt 0; VInt 0; VInt 0; VInt 0]].
Proof. vm_compute. repeat split; reflexivity. Qed.

(* updating the constant environment target by target while the right-hand side is still being evaluated bakes in
   len(b) = 6 after  a, b = b, a  (the new a) and rows 9, 9, 9 after the rotation *)
Lemma tuple_sequential_refuted :
  firmware_outputs (w_swap (tuple_sequential [n_ta; n_tb] swap_es)) [] = Some [VInt 6; VInt 6] /\
  firmware_outputs (w_swap (tuple_assign 0 [n_ta; n_tb] swap_es)) [] = Some [VInt 6; VInt 2] /\
  python_outputs (w_swap (tuple_assign 0 [n_ta; n_tb] swap_es)) [] = Some [VInt 6; VInt 2] /\
  firmware_outputs (w_rot (tuple_sequential [n_ta; n_tb; n_tc] rot_es)) [] =
    Some [VTuple [VInt 9; VInt 9; VInt 9; VInt 0; VInt 0; VInt 0; VInt 0; VInt 0]] /\
  firmware_outputs (w_rot (tuple_assign 0 [n_ta; n_tb; n_tc] rot_es)) [] =
    Some [VTuple [VInt 9; VInt 4; VInt 17; VInt 0; VInt 0; VInt 0; VInt 0; VInt 0]].
Proof. vm_compute. repeat split; reflexivity. Qed.
