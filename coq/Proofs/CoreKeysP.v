(* Lemmas about Host/CoreKeys.v: pins that are neither int nor str. *)
From Coq Require Import ZArith QArith List Bool Lia.
From RV Require Import Base.Wire Base.Text Base.NumC Base.TextC Host.Core Host.CoreKeys Proofs.CoreP.
Import ListNotations.
Open Scope Z_scope.

(* True is the pin 1, False the pin 0 *)
Lemma xkey_bool b : xkey (XB b) = xkey (XI (b2z b)).
Proof. reflexivity. Qed.

(* 7.0 is the pin 7 (any float whose value is an integer) *)
Lemma Qred_inject_Z z : Qred (inject_Z z) = inject_Z z.
Proof.
  unfold Qred, inject_Z.
  generalize (Z.ggcd_gcd z 1) (Z.ggcd_correct_divisors z 1).
  destruct (Z.ggcd z 1) as [g [aa bb]]. cbn [fst snd]. intros Hg [Ha Hb].
  rewrite Z.gcd_1_r in Hg. subst g. rewrite Z.mul_1_l in Ha, Hb. subst aa bb. reflexivity.
Qed.

Lemma float_key_inject z : float_key (inject_Z z) = PinI z.
Proof. unfold float_key, q_integral. rewrite Qred_inject_Z. reflexivity. Qed.

Lemma xkey_float_int z : xkey (XF (inject_Z z)) = xkey (XI z).
Proof. cbn [xkey]. now rewrite float_key_inject. Qed.

(* two floats are the same pin exactly when they are equal numbers (7.5 and 15/2) *)
Lemma float_key_eq x y : float_key x = float_key y <-> (x == y)%Q.
Proof.
  split.
  - unfold float_key, q_integral. intro H.
    rewrite <- (Qred_correct x), <- (Qred_correct y).
    destruct (Qred x) as [nx dx], (Qred y) as [ny dy]. cbn [Qnum Qden] in H.
    destruct (Zpos dx =? 1) eqn:Ex, (Zpos dy =? 1) eqn:Ey; try discriminate.
    + apply Z.eqb_eq in Ex, Ey. injection Ex as ->. injection Ey as ->. injection H as ->. reflexivity.
    + injection H as -> ->. reflexivity.
  - intro H. unfold float_key, q_integral. now rewrite (Qred_complete x y H).
Qed.

(* "7" is the pin 7 (Host/Core.v) - restated for the extended pins *)
Lemma xkey_str t : xkey (XS t) = Some (normalise (PinS t)).
Proof. reflexivity. Qed.

(* every key is a fixed point of the normalisation, so the theorems of Host/Core.v that
   speak of [normalise p] apply to the key itself *)
Lemma xkey_normal p k : xkey p = Some k -> normalise k = k.
Proof.
  destruct p; cbn [xkey]; intros [= <-]; try reflexivity.
  - exact (normalise_idem (PinS t)).
  - unfold float_key. destruct (q_integral q); reflexivity.
Qed.

(* a non-integral float and None are pins of their own: never an int pin, never a string a
   Python program can write *)
Lemma float_key_not_int q z : q_integral q = false -> float_key q <> PinI z.
Proof. unfold float_key. intros ->. discriminate. Qed.

(* the numeric pins (ints, bools, floats, all-digit strings): the key is the key of the value *)
Lemma xkey_num a x : xnum a = Some x -> xkey a = Some (float_key x).
Proof.
  destruct a; cbn [xnum xkey]; try discriminate.
  - intros [= <-]. now rewrite float_key_inject.
  - destruct (all_digits t) eqn:E; [|discriminate]. intros [= <-].
    rewrite float_key_inject. cbn. now rewrite E.
  - intros [= <-]. now rewrite float_key_inject.
  - intros [= <-]. reflexivity.
Qed.

Lemma float_key_shape q :
  (exists z, float_key q = PinI z) \/ (exists n d, float_key q = PinS [-1; n; d]).
Proof. unfold float_key. destruct (q_integral q); [left|right]; eauto. Qed.

Lemma wf_text_key t n d : wf_text t = true -> PinS t <> PinS [-1; n; d].
Proof. intros Hw H. injection H as ->. discriminate Hw. Qed.

Lemma text_eqb_eq s t : text_eqb s t = true <-> s = t.
Proof.
  revert t. induction s as [|c s IH]; intros [|c' t]; cbn; split; try congruence; try discriminate.
  - intro H. apply andb_true_iff in H as [H1 H2]. apply Z.eqb_eq in H1. apply IH in H2. congruence.
  - intros [= -> ->]. rewrite Z.eqb_refl. now apply IH.
Qed.

(* THE KEY RELATION: two hashable pins (strings being real Python strings) denote the same
   key exactly when Python's dict identifies the normalised objects: equal numbers (across
   int / bool / float / all-digit str), equal non-digit strings, or both None *)
Lemma xkey_same a b :
  a <> XUnhashable -> b <> XUnhashable -> wf_xpin a = true -> wf_xpin b = true ->
  (xkey a = xkey b <-> same_key a b = true).
Proof.
  intros Ha Hb Wa Wb.
  destruct (xnum a) as [x|] eqn:Na, (xnum b) as [y|] eqn:Nb.
  - (* both numeric *)
    rewrite (xkey_num a x Na), (xkey_num b y Nb).
    assert (S : same_key a b = Qeq_bool x y).
    { unfold same_key. rewrite Na, Nb. destruct a, b; try reflexivity; discriminate. }
    rewrite S, Qeq_bool_iff, <- float_key_eq. split; congruence.
  - (* numeric against non-numeric *)
    rewrite (xkey_num a x Na).
    assert (S : same_key a b = false).
    { unfold same_key. rewrite Na, Nb. destruct a, b; try reflexivity; try discriminate; contradiction. }
    rewrite S. split; [|discriminate]. intro H. exfalso.
    destruct b; cbn [xnum] in Nb; try discriminate; try contradiction.
    + destruct (all_digits t) eqn:E; [discriminate|]. cbn [xkey normalise] in H. rewrite E in H.
      destruct (float_key_shape x) as [[z Hz]|[n [d Hz]]]; rewrite Hz in H; [discriminate|].
      injection H as H. symmetry in H. apply (wf_text_key t n d Wb). congruence.
    + cbn [xkey] in H. destruct (float_key_shape x) as [[z Hz]|[n [d Hz]]]; rewrite Hz in H; discriminate.
  - rewrite (xkey_num b y Nb).
    assert (S : same_key a b = false).
    { unfold same_key. rewrite Na, Nb. destruct a, b; try reflexivity; try discriminate; contradiction. }
    rewrite S. split; [|discriminate]. intro H. exfalso.
    destruct a; cbn [xnum] in Na; try discriminate; try contradiction.
    + destruct (all_digits t) eqn:E; [discriminate|]. cbn [xkey normalise] in H. rewrite E in H.
      destruct (float_key_shape y) as [[z Hz]|[n [d Hz]]]; rewrite Hz in H; [discriminate|].
      injection H as H. apply (wf_text_key t n d Wa). congruence.
    + cbn [xkey] in H. destruct (float_key_shape y) as [[z Hz]|[n [d Hz]]]; rewrite Hz in H; discriminate.
  - (* neither numeric: non-digit strings and None *)
    destruct a, b; cbn [xnum] in Na, Nb; try discriminate; try contradiction.
    + destruct (all_digits t) eqn:E1; [discriminate|]. destruct (all_digits t0) eqn:E2; [discriminate|].
      unfold same_key. cbn [xnum]. rewrite E1, E2. cbn [xkey normalise]. rewrite E1, E2.
      rewrite text_eqb_eq. split; congruence.
    + destruct (all_digits t) eqn:E1; [discriminate|].
      unfold same_key. cbn [xkey normalise]. rewrite E1. split; [|discriminate].
      intro H. injection H as ->. discriminate Wa.
    + destruct (all_digits t) eqn:E1; [discriminate|].
      unfold same_key. cbn [xkey normalise]. rewrite E1. split; [|discriminate].
      intro H. injection H as <-. discriminate Wb.
    + unfold same_key. split; reflexivity.
Qed.

Lemma none_key_not_str t : wf_text t = true -> none_key <> normalise (PinS t).
Proof.
  intros Hw. cbn. destruct (all_digits t); [discriminate|].
  intro H. injection H as <-. discriminate Hw.
Qed.

(* an unhashable pin: TypeError, nothing changes *)
Lemma xstep_unhashable s o :
  xkey (xop_pin o) = None -> xstep s o = (s, RRaise TypeError).
Proof. intro H. unfold xstep, lower. now rewrite H. Qed.

Lemma xkey_none_iff p : xkey p = None <-> p = XUnhashable.
Proof. destruct p; cbn; split; congruence. Qed.

(* a history over hashable pins IS the history over their keys: every theorem about
   run_from / exec / dread / aread of Host/Core.v transfers *)
Lemma xrun_lowering ops : forall s l,
  lower_all ops = Some l -> xrun_from s ops = run_from s l.
Proof.
  induction ops as [|o r IH]; intros s l H; cbn in H.
  - injection H as <-. reflexivity.
  - destruct (lower o) as [a|] eqn:Ho; [|discriminate].
    destruct (lower_all r) as [l'|] eqn:Hr; [|discriminate].
    injection H as <-. cbn. unfold xstep. rewrite Ho.
    destruct (step s a) as [s1 x]. rewrite (IH s1 l' eq_refl). reflexivity.
Qed.

Lemma lower_all_hashable ops :
  Forall (fun o => xop_pin o <> XUnhashable) ops -> exists l, lower_all ops = Some l.
Proof.
  induction 1 as [|o r Ho _ [l IH]]; [exists []; reflexivity|].
  cbn. unfold lower. destruct (xkey (xop_pin o)) as [k|] eqn:E.
  - rewrite IH. eexists; reflexivity.
  - apply xkey_none_iff in E. contradiction.
Qed.

