(* Lemmas about Host/CoreKeys.v: pins that are neither int nor str. *)
From Coq Require Import ZArith QArith List Bool Lia.
From RV Require Import Base.Wire Base.Text Base.NumC Base.TextC Host.Core Host.CoreKeys Proofs.CoreP.
Import ListNotations.
Open Scope Z_scope.

(* True is the pin 1, False the pin 0 *)
Lemma xkey_bool b : xkey (XB b) = xkey (XI (b2z b)).
Proof. reflexivity. Qed.

(* 7.0 is the pin 7 (any float whose value is an integer) *)
Lemma xkey_float_int z : xkey (XF (inject_Z z)) = xkey (XI z).
Proof.
  cbn. unfold float_key, q_integral. cbn [Qnum Qden inject_Z].
  rewrite Z.mod_1_r, Z.div_1_r. reflexivity.
Qed.

(* "7" is the pin 7 (Host/Core.v) - restated for the extended pins *)
Lemma xkey_str t : xkey (XS t) = Some (normalise (PinS t)).
Proof. reflexivity. Qed.

(* every key is a fixed point of the normalisation, so the theorems of Host/Core.v that
   speak of [normalise p] apply to the key itself *)
Lemma xkey_normal p k : xkey p = Some k -> normalise k = k.
Proof.
  destruct p; cbn [xkey]; intros [= <-]; try reflexivity.
  - exact (normalise_idem (PinS t)).
  - unfold float_key. destruct (q_integral q); reflexivity.
Qed.

(* a non-integral float and None are pins of their own: never an int pin, never a string a
   Python program can write *)
Lemma float_key_not_int q z : q_integral q = false -> float_key q <> PinI z.
Proof. unfold float_key. intros ->. discriminate. Qed.

Lemma none_key_not_str t : wf_text t = true -> none_key <> normalise (PinS t).
Proof.
  intros Hw. cbn. destruct (all_digits t); [discriminate|].
  intro H. injection H as <-. discriminate Hw.
Qed.

(* an unhashable pin: TypeError, nothing changes *)
Lemma xstep_unhashable s o :
  xkey (xop_pin o) = None -> xstep s o = (s, RRaise TypeError).
Proof. intro H. unfold xstep, lower. now rewrite H. Qed.

Lemma xkey_none_iff p : xkey p = None <-> p = XUnhashable.
Proof. destruct p; cbn; split; congruence. Qed.

(* a history over hashable pins IS the history over their keys: every theorem about
   run_from / exec / dread / aread of Host/Core.v transfers *)
Lemma xrun_lowering ops : forall s l,
  lower_all ops = Some l -> xrun_from s ops = run_from s l.
Proof.
  induction ops as [|o r IH]; intros s l H; cbn in H.
  - injection H as <-. reflexivity.
  - destruct (lower o) as [a|] eqn:Ho; [|discriminate].
    destruct (lower_all r) as [l'|] eqn:Hr; [|discriminate].
    injection H as <-. cbn. unfold xstep. rewrite Ho.
    destruct (step s a) as [s1 x]. rewrite (IH s1 l' eq_refl). reflexivity.
Qed.

Lemma lower_all_hashable ops :
  Forall (fun o => xop_pin o <> XUnhashable) ops -> exists l, lower_all ops = Some l.
Proof.
  induction 1 as [|o r Ho _ [l IH]]; [exists []; reflexivity|].
  cbn. unfold lower. destruct (xkey (xop_pin o)) as [k|] eqn:E.
  - rewrite IH. eexists; reflexivity.
  - apply xkey_none_iff in E. contradiction.
Qed.

