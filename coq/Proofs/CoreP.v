(* Lemmas about Host/Core.v (C20: the Core pin simulation as a memory). *)
From Coq Require Import ZArith QArith List Bool Lia.
From RV Require Import Base.Wire Base.Text Base.NumC Base.TextC Host.Core Proofs.NumCP.
Import ListNotations.
Open Scope Z_scope.

(* ---------------------------------------------------------------- pins *)

Lemma pin_eqb_eq a b : pin_eqb a b = true <-> a = b.
Proof.
  destruct a as [x|s], b as [y|t]; cbn; split; intro H; try discriminate.
  - apply Z.eqb_eq in H. congruence.
  - inversion H. apply Z.eqb_refl.
  - apply text_eqb_eq in H. congruence.
  - inversion H. apply text_eqb_refl.
Qed.

Lemma pin_eqb_refl a : pin_eqb a a = true.
Proof. apply pin_eqb_eq. reflexivity. Qed.

Lemma pin_eqb_neq a b : pin_eqb a b = false <-> a <> b.
Proof.
  split.
  - intros H E. apply pin_eqb_eq in E. congruence.
  - intro H. destruct (pin_eqb a b) eqn:E; [apply pin_eqb_eq in E; contradiction|reflexivity].
Qed.

Lemma pin_eqb_sym a b : pin_eqb a b = pin_eqb b a.
Proof.
  destruct (pin_eqb a b) eqn:E.
  - apply pin_eqb_eq in E. subst. symmetry. apply pin_eqb_refl.
  - symmetry. apply pin_eqb_neq. apply pin_eqb_neq in E. congruence.
Qed.

Lemma normalise_idem p : normalise (normalise p) = normalise p.
Proof.
  destruct p as [z|t]; cbn; [reflexivity|].
  destruct (all_digits t) eqn:E; cbn; [reflexivity|]. rewrite E. reflexivity.
Qed.

(* ------------------------------------------------------- dict lemmas *)

Lemma lookup_store_same {A} k (v : A) l : lookup k (store k v l) = Some v.
Proof.
  induction l as [|[k' v'] r IH]; cbn.
  - rewrite pin_eqb_refl. reflexivity.
  - destruct (pin_eqb k k') eqn:E; cbn.
    + rewrite pin_eqb_refl. reflexivity.
    + rewrite E. exact IH.
Qed.

Lemma lookup_store_other {A} k k' (v : A) l :
  k <> k' -> lookup k' (store k v l) = lookup k' l.
Proof.
  intro Hne. induction l as [|[k0 v0] r IH]; cbn.
  - destruct (pin_eqb k' k) eqn:E; [apply pin_eqb_eq in E; congruence|reflexivity].
  - destruct (pin_eqb k k0) eqn:E; cbn.
    + apply pin_eqb_eq in E. subst k0.
      destruct (pin_eqb k' k) eqn:E2; [apply pin_eqb_eq in E2; congruence|reflexivity].
    + destruct (pin_eqb k' k0); [reflexivity|exact IH].
Qed.

(* keys stay unique: a store never duplicates a key (so the dump is a dict) *)
Definition keys {A} (l : list (pin * A)) : list pin := map fst l.

Lemma In_keys_store {A} k (v : A) l x : In x (keys (store k v l)) -> x = k \/ In x (keys l).
Proof.
  induction l as [|[k0 v0] r IH]; cbn.
  - intros [H|[]]; auto.
  - destruct (pin_eqb k k0) eqn:E; cbn.
    + apply pin_eqb_eq in E. subst. intros [H|H]; auto.
    + intros [H|H]; auto. destruct (IH H); auto.
Qed.

Lemma NoDup_store {A} k (v : A) l : NoDup (keys l) -> NoDup (keys (store k v l)).
Proof.
  induction l as [|[k0 v0] r IH]; cbn; intro H.
  - constructor; [intros []|constructor].
  - inversion H as [|? ? Hn Hr]; subst.
    destruct (pin_eqb k k0) eqn:E; cbn.
    + apply pin_eqb_eq in E. subst. constructor; assumption.
    + constructor; [|apply IH; assumption].
      intro Hin. apply In_keys_store in Hin as [Hin|Hin]; [|contradiction].
      subst. rewrite pin_eqb_refl in E. discriminate.
Qed.

(* ---------------------------------------------------- running histories *)

Lemma exec_from_app s a b : exec_from (exec_from s a) b = exec_from s (a ++ b).
Proof. unfold exec_from. rewrite fold_left_app. reflexivity. Qed.

Lemma exec_snoc ops o : exec (ops ++ [o]) = fst (step (exec ops) o).
Proof. unfold exec, exec_from. rewrite fold_left_app. reflexivity. Qed.

Lemma run_from_state s ops : fst (run_from s ops) = exec_from s ops.
Proof.
  revert s; induction ops as [|o r IH]; intro s; cbn; [reflexivity|].
  destruct (step s o) as [s1 x] eqn:E1. destruct (run_from s1 r) as [s2 xs] eqn:E2. cbn.
  specialize (IH s1). rewrite E2 in IH. cbn [fst] in IH. rewrite IH.
  unfold exec_from. cbn [fold_left]. rewrite ?E1. reflexivity.
Qed.

Lemma run_from_app s a b :
  snd (run_from s (a ++ b)) = snd (run_from s a) ++ snd (run_from (exec_from s a) b).
Proof.
  revert s; induction a as [|o r IH]; intro s; cbn; [reflexivity|].
  destruct (step s o) as [s1 x] eqn:E1.
  specialize (IH s1).
  destruct (run_from s1 (r ++ b)) as [s2 xs] eqn:E2.
  destruct (run_from s1 r) as [s3 ys] eqn:E3. cbn [snd] in *.
  rewrite IH. reflexivity.
Qed.

(* the value a digital_read / analog_read call returns inside a run is [dread]/[aread]
   of the state reached by the calls before it *)
Lemma run_read_digital pre q :
  snd (run_from init (pre ++ [DRead q])) = snd (run_from init pre) ++ [RVal (dread (exec pre) q)].
Proof. rewrite run_from_app. reflexivity. Qed.

Lemma run_read_analog pre q :
  snd (run_from init (pre ++ [ARead q])) = snd (run_from init pre) ++ [RVal (aread (exec pre) q)].
Proof. rewrite run_from_app. reflexivity. Qed.

(* ------------------------------------------------------------ aliasing *)

Lemma step_norm s o : step s (norm_op o) = step s o.
Proof.
  destruct o as [p m|p v|p v|p|p]; cbn [norm_op step]; unfold dread, aread;
    rewrite ?normalise_idem; reflexivity.
Qed.

Lemma run_from_alias s ops ops' :
  map norm_op ops = map norm_op ops' -> run_from s ops = run_from s ops'.
Proof.
  revert s ops'; induction ops as [|o r IH]; intros s [|o' r'] H; cbn in H; try discriminate.
  - reflexivity.
  - inversion H as [[H1 H2]]. cbn.
    rewrite <- (step_norm s o), <- (step_norm s o'), H1.
    destruct (step s (norm_op o')) as [s1 x]. rewrite (IH s1 r' H2). reflexivity.
Qed.

Lemma run_from_norm s ops : run_from s (map norm_op ops) = run_from s ops.
Proof.
  apply run_from_alias. rewrite map_map. apply map_ext. intro o.
  destruct o; cbn; rewrite normalise_idem; reflexivity.
Qed.

(* ----------------------------------------------------- non-interference *)

Lemma step_other_pin s o k :
  normalise (op_pin o) <> k ->
  lookup k (modes (fst (step s o))) = lookup k (modes s) /\
  lookup k (dig (fst (step s o))) = lookup k (dig s) /\
  lookup k (ana (fst (step s o))) = lookup k (ana s).
Proof.
  intro Hne. destruct o as [p m|p v|p v|p|p]; cbn [op_pin] in Hne; cbn [step].
  - destruct (lookup (normalise p) (dig s)); [|destruct (is_pullup m)]; cbn;
      rewrite ?(lookup_store_other _ _ _ _ Hne); auto.
  - cbn. rewrite (lookup_store_other _ _ _ _ Hne). auto.
  - destruct (analog_of v); cbn; rewrite ?(lookup_store_other _ _ _ _ Hne); auto.
  - cbn. auto.
  - cbn. auto.
Qed.

Lemma noninterference s o q :
  normalise (op_pin o) <> normalise q ->
  dread (fst (step s o)) q = dread s q /\ aread (fst (step s o)) q = aread s q.
Proof.
  intro Hne. destruct (step_other_pin s o (normalise q) Hne) as (Hm & Hd & Ha).
  unfold dread, aread. rewrite Hm, Hd, Ha. auto.
Qed.

(* a whole block of calls that never addresses q leaves q's reads unchanged *)
Lemma noninterference_block s ops q :
  Forall (fun o => normalise (op_pin o) <> normalise q) ops ->
  dread (exec_from s ops) q = dread s q /\ aread (exec_from s ops) q = aread s q.
Proof.
  revert s; induction ops as [|o r IH]; intros s H; [cbn; auto|].
  inversion H as [|? ? H1 H2]; subst.
  unfold exec_from. cbn [fold_left]. fold (exec_from (fst (step s o)) r).
  destruct (IH (fst (step s o)) H2) as [Hd Ha].
  destruct (noninterference s o q H1) as [Hd' Ha']. rewrite Hd, Ha. auto.
Qed.

(* reads change nothing at all *)
Lemma reads_pure s p : fst (step s (DRead p)) = s /\ fst (step s (ARead p)) = s.
Proof. cbn. auto. Qed.

(* ------------------------------------------- state <-> history relation *)

Record rel (k : pin) (s : core) (h : hist) : Prop := mkRel {
  rel_dig : lookup k (dig s) =
            match h_dw h with
            | Some b => Some (b2z b)
            | None => if h_stale h then Some HIGH else None
            end;
  rel_modes : lookup k (modes s) = h_mode h;
  rel_ana : lookup k (ana s) = h_aw h;
  rel_stale : mode_is_pullup (h_mode h) = true -> h_dw h = None -> h_stale h = true
}.

Lemma rel_init k : rel k init hist0.
Proof. constructor; cbn; auto; discriminate. Qed.

Ltac rel_fin :=
  constructor;
  cbn [h_dw h_aw h_mode h_stale dig modes ana fst mode_is_pullup orb];
  rewrite ?lookup_store_same; auto; try discriminate.

Lemma rel_step k s h o : rel k s h -> rel k (fst (step s o)) (hstep k h o).
Proof.
  intros [Hd Hm Ha Hs]. unfold hstep.
  destruct (pin_eqb (normalise (op_pin o)) k) eqn:E.
  - apply pin_eqb_eq in E.
    destruct o as [p m|p v|p v|p|p]; cbn [op_pin] in E; cbn [step]; subst k.
    + (* pin_mode *)
      rewrite Hd. destruct (h_dw h) as [b|] eqn:Edw.
      * rel_fin; rewrite ?Edw; auto.
      * destruct (h_stale h) eqn:Est.
        -- rel_fin; rewrite ?Edw; auto.
        -- destruct (is_pullup m) eqn:Ep.
           ++ rel_fin; rewrite ?Edw; auto.
           ++ rel_fin; rewrite ?Edw, ?Ep; auto; try discriminate.
    + (* digital_write *)
      rel_fin; destruct (truthy v); reflexivity.
    + (* analog_write *)
      destruct (analog_of v) as [z|]; cbn [fst].
      * rel_fin.
      * constructor; auto.
    + constructor; auto.
    + constructor; auto.
  - apply pin_eqb_neq in E.
    destruct (step_other_pin s o k E) as (Hm' & Hd' & Ha').
    constructor; [rewrite Hd'|rewrite Hm'|rewrite Ha'|]; auto.
Qed.

Lemma rel_exec_from k ops : forall s h, rel k s h -> rel k (exec_from s ops) (fold_left (hstep k) ops h).
Proof.
  induction ops as [|o r IH]; intros s h H; [exact H|].
  unfold exec_from. cbn [fold_left]. apply IH. apply rel_step. exact H.
Qed.

Lemma rel_exec k ops : rel k (exec ops) (history k ops).
Proof. apply rel_exec_from. apply rel_init. Qed.

(* exact description of what the code returns, in terms of the history alone *)
Lemma dread_char ops p :
  dread (exec ops) p =
  let h := history (normalise p) ops in
  match h_dw h with
  | Some b => b2z b
  | None => if h_stale h then HIGH else LOW
  end.
Proof.
  destruct (rel_exec (normalise p) ops) as [Hd Hm Ha Hs].
  unfold dread. cbn zeta. rewrite Hd, Hm.
  destruct (h_dw (history (normalise p) ops)) as [b|]; [reflexivity|].
  destruct (h_stale (history (normalise p) ops)) eqn:Est; [reflexivity|].
  destruct (h_mode (history (normalise p) ops)) as [m|] eqn:Em; [|reflexivity].
  destruct (is_pullup m) eqn:Ep; [|reflexivity].
  cbn in Hs. rewrite Ep in Hs. specialize (Hs eq_refl eq_refl). discriminate.
Qed.

Lemma aread_char ops p : aread (exec ops) p = ref_aread (history (normalise p) ops).
Proof.
  destruct (rel_exec (normalise p) ops) as [Hd Hm Ha Hs].
  unfold aread, ref_aread. rewrite Ha. reflexivity.
Qed.

(* ------------------------------------------------------ read your writes *)

Lemma read_your_writes_hist ops p :
  (forall b, h_dw (history (normalise p) ops) = Some b -> dread (exec ops) p = b2z b) /\
  aread (exec ops) p = ref_aread (history (normalise p) ops).
Proof.
  split; [|apply aread_char].
  intros b H. rewrite dread_char. cbn zeta. rewrite H. reflexivity.
Qed.

Definition not_dwrite_to (k : pin) (o : op) : Prop :=
  match o with DWrite p _ => normalise p <> k | _ => True end.
Definition not_awrite_to (k : pin) (o : op) : Prop :=
  match o with AWrite p v => normalise p <> k \/ analog_of v = None | _ => True end.

Lemma hist_keep_dw k post : forall h,
  Forall (not_dwrite_to k) post -> h_dw (fold_left (hstep k) post h) = h_dw h.
Proof.
  induction post as [|o r IH]; intros h H; [reflexivity|].
  inversion H as [|? ? H1 H2]; subst. cbn [fold_left]. rewrite (IH _ H2).
  unfold hstep. destruct (pin_eqb (normalise (op_pin o)) k) eqn:E; [|reflexivity].
  apply pin_eqb_eq in E.
  destruct o as [p m|p v|p v|p|p]; cbn [op_pin] in E; cbn in H1; try reflexivity.
  - contradiction.
  - destruct (analog_of v); reflexivity.
Qed.

Lemma hist_keep_aw k post : forall h,
  Forall (not_awrite_to k) post -> h_aw (fold_left (hstep k) post h) = h_aw h.
Proof.
  induction post as [|o r IH]; intros h H; [reflexivity|].
  inversion H as [|? ? H1 H2]; subst. cbn [fold_left]. rewrite (IH _ H2).
  unfold hstep. destruct (pin_eqb (normalise (op_pin o)) k) eqn:E; [|reflexivity].
  apply pin_eqb_eq in E.
  destruct o as [p m|p v|p v|p|p]; cbn [op_pin] in E; cbn in H1; try reflexivity.
  destruct H1 as [H1|H1]; [contradiction|]. rewrite H1. reflexivity.
Qed.

(* sandwich form: whatever happened before, and whatever happens afterwards that is not
   a digital_write to the same (normalised) pin, a read through any alias returns the
   written level *)
Lemma read_your_writes_digital pre post p q v :
  normalise q = normalise p ->
  Forall (not_dwrite_to (normalise p)) post ->
  dread (exec (pre ++ DWrite p v :: post)) q = if truthy v then HIGH else LOW.
Proof.
  intros Hq Hpost. rewrite dread_char. cbn zeta. rewrite Hq.
  unfold history. rewrite fold_left_app. cbn [fold_left].
  rewrite (hist_keep_dw _ _ _ Hpost).
  unfold hstep at 1. cbn [op_pin]. rewrite pin_eqb_refl. cbn. destruct (truthy v); reflexivity.
Qed.

Lemma read_your_writes_analog pre post p q v z :
  normalise q = normalise p ->
  analog_of v = Some z ->
  Forall (not_awrite_to (normalise p)) post ->
  aread (exec (pre ++ AWrite p v :: post)) q = z.
Proof.
  intros Hq Hv Hpost. rewrite aread_char. unfold ref_aread. rewrite Hq.
  unfold history. rewrite fold_left_app. cbn [fold_left].
  rewrite (hist_keep_aw _ _ _ Hpost).
  unfold hstep at 1. cbn [op_pin]. rewrite pin_eqb_refl. rewrite Hv. reflexivity.
Qed.

(* a failing analog_write (None) changes nothing *)
Lemma failed_awrite_atomic s p v : analog_of v = None -> step s (AWrite p v) = (s, RRaise TypeError).
Proof. intro H. cbn. rewrite H. reflexivity. Qed.

(* --------------------------------------------------------- analog clamp *)

Lemma clamp_range lo hi z : lo <= hi -> lo <= clamp lo hi z <= hi.
Proof. unfold clamp. lia. Qed.

Lemma analog_of_range v z : analog_of v = Some z -> 0 <= z <= 255.
Proof.
  unfold analog_of. destruct (qval v); [|discriminate].
  intro H. inversion H. apply clamp_range. lia.
Qed.

Definition ana_ok (s : core) : Prop := Forall (fun kv => 0 <= snd kv <= 255) (ana s).

Lemma Forall_store {A} (P : pin * A -> Prop) k v l :
  P (k, v) -> Forall P l -> Forall P (store k v l).
Proof.
  intros Hk H. induction H as [|[k0 v0] r H0 Hr IH]; cbn.
  - constructor; [exact Hk|constructor].
  - destruct (pin_eqb k k0); constructor; auto.
Qed.

Lemma ana_ok_step s o : ana_ok s -> ana_ok (fst (step s o)).
Proof.
  unfold ana_ok. intro H. destruct o as [p m|p v|p v|p|p]; cbn [step].
  - destruct (lookup (normalise p) (dig s)); [|destruct (is_pullup m)]; exact H.
  - exact H.
  - destruct (analog_of v) as [z|] eqn:E; cbn; [|exact H].
    apply Forall_store; [cbn; apply (analog_of_range v); exact E|exact H].
  - exact H.
  - exact H.
Qed.

Lemma ana_ok_exec_from ops : forall s, ana_ok s -> ana_ok (exec_from s ops).
Proof.
  induction ops as [|o r IH]; intros s H; [exact H|].
  unfold exec_from. cbn [fold_left]. apply IH. apply ana_ok_step. exact H.
Qed.

Lemma lookup_Forall {A} (P : pin * A -> Prop) k l v :
  Forall P l -> lookup k l = Some v -> exists k', P (k', v).
Proof.
  induction 1 as [|[k0 v0] r H0 Hr IH]; cbn; [discriminate|].
  destruct (pin_eqb k k0); [intro E; inversion E; subst; eauto|exact IH].
Qed.

Lemma analog_clamp ops p : ana_ok (exec ops) /\ 0 <= aread (exec ops) p <= 255.
Proof.
  assert (H : ana_ok (exec ops)) by (apply ana_ok_exec_from; constructor).
  split; [exact H|]. unfold aread.
  destruct (lookup (normalise p) (ana (exec ops))) as [v|] eqn:E; [|lia].
  destruct (lookup_Forall _ _ _ _ H E) as [k' Hk]. exact Hk.
Qed.

Lemma digital_levels ops p : dread (exec ops) p = LOW \/ dread (exec ops) p = HIGH.
Proof.
  rewrite dread_char. cbn zeta.
  destruct (h_dw _) as [[|]|]; cbn; auto. destruct (h_stale _); auto.
Qed.

(* ------------------------------------------------ unwritten default *)

Lemma unwritten_default_partial ops p :
  guard (history (normalise p) ops) = true ->
  dread (exec ops) p = ref_dread (history (normalise p) ops).
Proof.
  intro G. rewrite dread_char. cbn zeta.
  destruct (rel_exec (normalise p) ops) as [_ _ _ Hs].
  unfold guard in G. unfold ref_dread.
  destruct (h_dw (history (normalise p) ops)) as [b|]; [reflexivity|].
  destruct (h_stale (history (normalise p) ops)) eqn:Est; cbn in G.
  - rewrite G. reflexivity.
  - destruct (mode_is_pullup (h_mode (history (normalise p) ops))) eqn:Em; [|reflexivity].
    specialize (Hs eq_refl eq_refl). discriminate.
Qed.

(* the guard is exact: outside it the code's answer differs from the property's *)
Lemma guard_exact ops p :
  dread (exec ops) p = ref_dread (history (normalise p) ops) <->
  guard (history (normalise p) ops) = true.
Proof.
  split; [|apply unwritten_default_partial].
  rewrite dread_char. cbn zeta. unfold guard, ref_dread.
  destruct (h_dw (history (normalise p) ops)) as [b|]; [reflexivity|].
  destruct (h_stale (history (normalise p) ops)); cbn; [|reflexivity].
  destruct (mode_is_pullup (h_mode (history (normalise p) ops))); [reflexivity|].
  unfold HIGH, LOW. discriminate.
Qed.

(* readable corollaries of the partial theorem *)
Lemma never_pullup_reads_low ops p :
  let h := history (normalise p) ops in
  h_dw h = None -> h_stale h = false -> dread (exec ops) p = LOW.
Proof.
  cbn zeta. intros Hd Hs. rewrite dread_char. cbn zeta. rewrite Hd, Hs. reflexivity.
Qed.

Lemma pullup_unwritten_reads_high ops p :
  let h := history (normalise p) ops in
  h_dw h = None -> mode_is_pullup (h_mode h) = true -> dread (exec ops) p = HIGH.
Proof.
  cbn zeta. intros Hd Hm. rewrite unwritten_default_partial.
  - unfold ref_dread. rewrite Hd, Hm. reflexivity.
  - unfold guard. rewrite Hd, Hm. apply orb_true_r.
Qed.

Definition witness_ops : list op :=
  [PinMode (PinI 7) INPUT_PULLUP; PinMode (PinI 7) OUTPUT].

Lemma pullup_then_output_refuted :
  exists ops p,
    let h := history (normalise p) ops in
    h_dw h = None /\ h_mode h = Some OUTPUT /\ ref_dread h = LOW /\
    dread (exec ops) p = HIGH /\
    snd (run_from init (ops ++ [DRead p])) = [RNone; RNone; RVal HIGH].
Proof. exists witness_ops, (PinI 7). vm_compute. repeat split. Qed.

(* ---------------------------------------------- "7" and 7 are one pin *)

Lemma alias_digit_string t :
  all_digits t = true -> normalise (PinS t) = PinI (dec t).
Proof. intro H. cbn. rewrite H. reflexivity. Qed.

(* for every non-negative int n, the pin named str(n) is the pin n *)
Lemma alias_str_int z : 0 <= z -> normalise (PinS (str_Z z)) = PinI z.
Proof.
  intro Hz. destruct (str_Z_digits z Hz) as [Hd He].
  rewrite alias_digit_string by exact Hd. rewrite He. reflexivity.
Qed.

(* ... and str(n) of a negative int is a pin of its own *)
Lemma no_alias_negative z : z < 0 -> normalise (PinS (str_Z z)) = PinS (str_Z z).
Proof. intro Hz. cbn. rewrite (str_Z_negative z Hz). reflexivity. Qed.

(* pins used by the non-vacuity examples *)
Definition p7 := PinI 7.
Definition s7 := PinS [55].          (* "7" *)
Definition s07 := PinS [48; 55].     (* "07" *)
Definition sA0 := PinS [65; 48].     (* "A0" *)
Definition sm7 := PinS [45; 55].     (* "-7" *)
